// C16: finality is safe and irreversible.
// Explicit-state search on the real Chain+Casper: two forks of checkpoints, four validators of
// which one is Byzantine (casts anything, including both forks at one height and links from
// unjustified sources), two honest ones that only cast non-slashable links from sources that are
// justified, blocks of both forks arriving in any interleaving, optional restarts.
// Plus the deep world (see deepWorld): several finalizations by votes alone, restarts at every position.
package main

import (
	"encoding/json"
	"fmt"
	"os"

	"verif/lib/chainlab"
	"verif/lib/ev"
	"verif/lib/labnet"
	"verif/lib/par"
	"verif/lib/xplore"
)

type link struct{ s, t int }

var (
	W        *chainlab.World
	honest   = map[int]bool{} // event index -> honest vote (of the world W currently points to)
	restartE = -1
)

func world(thorough bool) *chainlab.World {
	net := labnet.Setup(2, 2, 4)
	net.SetLocalKey(labnet.OutsiderKey())
	w := chainlab.NewWorld(net, net.Gen, nil)
	a1 := w.AddBlock(0, "a1", labnet.BlockOpt{})
	a2 := w.AddBlock(a1, "a2", labnet.BlockOpt{})
	a3 := w.AddBlock(a2, "a3", labnet.BlockOpt{})
	a4 := w.AddBlock(a3, "a4", labnet.BlockOpt{})
	b1 := w.AddBlock(0, "b1", labnet.BlockOpt{Tag: 1})
	b2 := w.AddBlock(b1, "b2", labnet.BlockOpt{Tag: 1})
	b4 := -1
	if thorough {
		b3 := w.AddBlock(b2, "b3", labnet.BlockOpt{Tag: 1})
		b4 = w.AddBlock(b3, "b4", labnet.BlockOpt{Tag: 1})
		w.AddBlock(a4, "a5", labnet.BlockOpt{})
	}
	w.AddBlockEvents()
	hl := []link{{0, a2}, {0, b2}, {a2, a4}}
	bl := []link{{0, a2}, {0, b2}, {a2, a4}}
	if thorough {
		hl = append(hl, link{b2, b4})
		bl = append(bl, link{b2, b4}, link{0, a4})
	}
	for v := 1; v <= 2; v++ {
		for _, l := range hl {
			w.AddVote(v, l.s, l.t)
			honest[len(w.Events)-1] = true
		}
	}
	for _, l := range bl {
		w.AddVote(3, l.s, l.t)
	}
	if thorough {
		w.Events = append(w.Events, chainlab.Event{Kind: chainlab.EvRestart, Name: "RESTART"})
		restartE = len(w.Events) - 1
	}
	return w
}

// honestAllowed: an honest validator casts s->t only if s is justified (by the votes cast so far) and
// the link is not slashable against its own earlier links.
func honestAllowed(ref *chainlab.Ref, sent [][3]int, v, s, t int) bool {
	if !ref.Justified[s] || !ref.Connected[t] || !W.IsAncestor(s, t) {
		return false
	}
	hs, ht := W.Blocks[s].Height, W.Blocks[t].Height
	for _, x := range sent {
		if x[0] != v {
			continue
		}
		hs2, ht2 := W.Blocks[x[1]].Height, W.Blocks[x[2]].Height
		if ht2 == ht {
			return false
		}
		if (hs2 < hs && ht < ht2) || (hs < hs2 && ht2 < ht) {
			return false
		}
	}
	return true
}

func runHist(h []int, _ json.RawMessage) (out xplore.Out) {
	in, err := W.NewInst()
	if err != nil {
		return xplore.Out{Viols: []xplore.Viol{{Key: "infra-newnode", What: err.Error()}}}
	}
	ref := chainlab.NewRef(W)
	viol := func(key, what string) { out.Viols = append(out.Viols, xplore.Viol{Key: key, What: what}) }
	var sent [][3]int
	prevRoot := 0
	everFinal := map[int]bool{0: true}
	for step, ei := range h {
		e := W.Events[ei]
		in.Apply(ei)
		ref.Apply(ei)
		if in.Hung {
			viol("call-did-not-return", fmt.Sprintf("event %s (step %d)", e, step))
			out.Fatal = true
			return
		}
		if e.Kind == chainlab.EvVote {
			sent = append(sent, [3]int{e.Val, e.Src, e.Tgt})
		}
		f := in.ReadFinality()
		out.Checks++
		if f.Root < 0 {
			viol("finalized-root-foreign", "last finalized checkpoint is not a world block")
			continue
		}
		if !W.IsAncestor(prevRoot, f.Root) {
			key := "finalized-moved-to-non-descendant"
			if e.Kind == chainlab.EvRestart {
				key = "finalized-moved-to-non-descendant-at-restart"
			}
			viol(key, fmt.Sprintf("after %v last finalized went %s -> %s", W.Describe(h[:step+1]), W.Names[prevRoot], W.Names[f.Root]))
		}
		prevRoot = f.Root
		everFinal[f.Root] = true
		for x := range everFinal {
			for y := range everFinal {
				if !W.IsAncestor(x, y) && !W.IsAncestor(y, x) {
					viol("two-finalized-checkpoints-on-different-chains", fmt.Sprintf("%s and %s after %v", W.Names[x], W.Names[y], W.Describe(h[:step+1])))
				}
			}
		}
		best := in.Node.Chain.BestBlockHeader()
		bi := W.Index(best.Hash())
		if bi < 0 || !W.IsAncestor(f.Root, bi) {
			viol("best-chain-does-not-contain-last-finalized", fmt.Sprintf("best=%s finalized=%s after %v", W.Name(best.Hash()), W.Names[f.Root], W.Describe(h[:step+1])))
		}
		if !in.Node.Chain.InMainChain(W.Blocks[f.Root].Hash()) {
			viol("last-finalized-not-in-main-chain", fmt.Sprintf("InMainChain(%s)=false, best=%s after %v", W.Names[f.Root], W.Name(best.Hash()), W.Describe(h[:step+1])))
		}
		if lf, err := in.Node.Chain.LastFinalizedHeader(); err != nil || lf.Hash() != W.Blocks[f.Root].Hash() {
			viol("last-finalized-header-inconsistent", fmt.Sprintf("LastFinalizedHeader err=%v", err))
		}
		for _, fd := range in.CheckFinality(ref, false) {
			viol(fd.Key, fmt.Sprintf("after %v: %s", W.Describe(h[:step+1]), fd.What))
		}
	}
	out.Digest = in.Digest()
	out.Outcome = fmt.Sprintf("finalized=%s", W.Names[prevRoot])
	// successors
	used := map[int]bool{}
	for _, e := range h {
		used[e] = true
	}
	for ei, e := range W.Events {
		switch e.Kind {
		case chainlab.EvBlock:
			if !used[ei] && in.Delivered[W.Parent[e.Block]] {
				out.Enabled = append(out.Enabled, ei)
			}
		case chainlab.EvVote:
			if used[ei] {
				continue
			}
			if honest[ei] && !honestAllowed(ref, sent, e.Val, e.Src, e.Tgt) {
				continue
			}
			if !honest[ei] && !ref.Delivered[e.Tgt] {
				continue // Byzantine votes for unknown targets are covered by C11/C17 (cached votes)
			}
			out.Enabled = append(out.Enabled, ei)
		case chainlab.EvRestart:
			if len(h) > 0 && h[len(h)-1] != ei && countOf(h, ei) < 1 {
				out.Enabled = append(out.Enabled, ei)
			}
		}
	}
	in.DB.Wipe()
	return
}

// ---------------------------------------------------------------- deep world: several finalizations without a block
//
// The last finalized checkpoint is written to the store only when a block is connected, votes finalize at any
// time. So the state a restart finds can be several finalizations behind, and the start-up code has to walk
// forward again. Deep world: chain c1..c6 (checkpoints c2, c4, c6) with a side block s3 on c2; validators 1..3
// vote 0->c2, c2->c4, c4->c6 (link-major order: justifies c2, then finalizes c2, then finalizes c4) with no block
// in between; a restart is inserted at every position of the vote sequence, and at every pair of positions;
// afterwards s4 (extends the side branch that the finalized c4 excludes) and c7 are delivered. Same oracle as
// the main search after every event (finalized only moves to descendants, also across restarts, ...).
var (
	Wmain, Wdeep           *chainlab.World
	honestMain, honestDeep = map[int]bool{}, map[int]bool{}
	deepBase, deepVotes    []int
	deepTail               []int
	deepRestart            int
)

func deepWorld() *chainlab.World {
	net := labnet.Setup(2, 2, 4)
	net.SetLocalKey(labnet.OutsiderKey())
	w := chainlab.NewWorld(net, net.Gen, nil)
	prev := 0
	var c []int
	for i := 1; i <= 7; i++ {
		prev = w.AddBlock(prev, fmt.Sprintf("c%d", i), labnet.BlockOpt{})
		c = append(c, prev)
	}
	s3 := w.AddBlock(c[1], "s3", labnet.BlockOpt{Tag: 1})
	s4 := w.AddBlock(s3, "s4", labnet.BlockOpt{Tag: 1})
	w.AddBlockEvents()
	evOf := map[int]int{}
	for ei, e := range w.Events {
		if e.Kind == chainlab.EvBlock {
			evOf[e.Block] = ei
		}
	}
	for _, b := range append(append([]int{}, c[:6]...), s3) {
		deepBase = append(deepBase, evOf[b])
	}
	for _, l := range []link{{0, c[1]}, {c[1], c[3]}, {c[3], c[5]}} {
		for v := 1; v <= 3; v++ {
			w.AddVote(v, l.s, l.t)
			honestDeep[len(w.Events)-1] = true
			deepVotes = append(deepVotes, len(w.Events)-1)
		}
	}
	w.Events = append(w.Events, chainlab.Event{Kind: chainlab.EvRestart, Name: "RESTART"})
	deepRestart = len(w.Events) - 1
	deepTail = []int{evOf[s4], evOf[c[6]]}
	return w
}

func deepHistories() [][]int {
	var hs [][]int
	build := func(at ...int) []int {
		h := append([]int{}, deepBase...)
		for i := 0; i <= len(deepVotes); i++ {
			for _, a := range at {
				if a == i {
					h = append(h, deepRestart)
				}
			}
			if i < len(deepVotes) {
				h = append(h, deepVotes[i])
			}
		}
		return append(h, deepTail...)
	}
	hs = append(hs, build())
	for i := 0; i <= len(deepVotes); i++ {
		hs = append(hs, build(i))
		for j := i; j <= len(deepVotes); j++ {
			hs = append(hs, build(i, j))
		}
	}
	return hs
}

func runDeep(h []int, x json.RawMessage) xplore.Out {
	W, honest = Wdeep, honestDeep
	defer func() { W, honest = Wmain, honestMain }()
	return runHist(h, x)
}

func countOf(h []int, e int) int {
	n := 0
	for _, x := range h {
		if x == e {
			n++
		}
	}
	return n
}

func main() {
	thorough := os.Getenv("VERIF_TIER") == "thorough"
	for _, a := range os.Args[1:] {
		if a == "thorough" {
			thorough = true
		}
	}
	W = world(thorough)
	Wmain, honestMain = W, honest
	Wdeep = deepWorld()
	spec := &xplore.Spec{Name: "c16", Run: runHist, Recycle: 300, Describe: func(h []int) interface{} { return W.Describe(h) }}
	deep := &xplore.Spec{Name: "c16-deep", Run: runDeep, Recycle: 300, Describe: func(h []int) interface{} { return Wdeep.Describe(h) }}
	if par.IsWorker() {
		xplore.Worker(spec, deep)
	}
	run := ev.Start("C16", "model_checking")
	spec.MaxDepth = len(W.Events) + 1
	st := xplore.BFS(run, spec)
	run.Set("states", st.States)
	run.Set("transitions", st.Transitions)
	run.Set("traces_validated_against_impl", st.Checks)
	run.Set("max_depth", st.MaxDepth)
	dh := deepHistories()
	ds := xplore.Flat(run, deep, dh)
	run.Set("deep_world", map[string]interface{}{"histories": len(dh), "distinct_end_states": ds.States, "events_executed": ds.Transitions, "checks": ds.Checks,
		"what": "chain c1..c6 + side block s3; validators 1..3 vote 0->c2, c2->c4, c4->c6 with no block in between (two finalizations by votes alone); a restart at every position of the vote sequence and at every pair of positions; then s4 on the excluded side branch and c7"})
	var all []int
	for i := range W.Events {
		all = append(all, i)
	}
	run.Set("events", W.Describe(all))
	run.Set("rule", "BFS over interleavings of in-order block deliveries of two forks, honest votes (validators 1,2: only non-slashable links from justified sources) and Byzantine votes (validator 3: any listed link, incl. both forks at one height and unjustified sources), thorough: one restart anywhere; de-duplicated on a digest of the whole node state; after every event: finalized root only moves to descendants, all finalized checkpoints on one chain, best chain contains it, InMainChain(finalized), node's justified/finalized set within the reference closure")
	run.Assume("4 federation validators, at most one Byzantine (validator 3); validator 0 silent (the node under test holds no validator key; own votes are C18's subject)")
	run.Finish()
}
