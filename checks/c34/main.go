// C34: the DHT routing table keeps its invariants.
//
// Explicit-state breadth-first search over the real dht.Table. Population: 19 nodes whose
// sha3(ID) falls into one bucket (log-distance 256 from the local node), 2 nodes of another bucket
// (255) and the local node itself. The bucket size 16 is a constant of the code, so the search
// starts from 9 seeded states (the bucket holding 14, 15 or 16 entries with 0, 1 or 2 replacement
// nodes, built by real add/delete calls) and applies EVERY sequence of operations up to the depth
// bound: add, delete, deleteReplace, bump, stuff([x]) and stuff([x,y]) over 8 targets (oldest entry,
// newest entry, the two replacement candidates, a fresh node, the two nodes of the other bucket,
// self). States are de-duplicated on a canonical rendering of the table's private state (export
// file hooks/p2p/discover/dht/zz_verif_c34.go). A state is always reached by replaying its whole
// history on a fresh table with the real functions (no snapshots are restored; see expand).
//
// Invariants (= the statement, evaluated independently of the code's helpers): every bucket has at
// most 16 entries, pairwise distinct IDs, each at the bucket's log-distance (own sha3 + own
// leading-zero count); self absent; count == sum of len(entries).
package main

import (
	"fmt"
	"math/bits"
	"net"
	"os"
	"runtime"
	"runtime/pprof"
	"strconv"
	"strings"
	"sync"

	"golang.org/x/crypto/sha3"

	"github.com/bytom/bytom/p2p/discover/dht"

	"verif/lib/ev"
)

const bucketSize = 16 // from the statement ("at most sixteen")

func sha(id dht.NodeID) [32]byte { return sha3.Sum256(id[:]) }

// distOf caches the independent distance computation for the fixed population.
var distCache = map[dht.NodeID]int{}

func distOf(id dht.NodeID) int {
	if d, ok := distCache[id]; ok {
		return d
	}
	return dist(selfSha, sha(id))
}

// dist is the log-distance re-implemented: 256 - number of leading zero bits of a XOR b.
func dist(a, b [32]byte) int {
	lz := 0
	for i := 0; i < 32; i++ {
		x := a[i] ^ b[i]
		if x == 0 {
			lz += 8
			continue
		}
		lz += bits.LeadingZeros8(x)
		break
	}
	return 256 - lz
}

var (
	selfID  dht.NodeID
	selfSha [32]byte
	nodesA  []*dht.Node // 19 nodes at distance 256
	nodesB  []*dht.Node // 2 nodes at distance 255
	names   = map[dht.NodeID]string{}
)

func mkNode(id dht.NodeID, i int) *dht.Node {
	return dht.NewNode(id, net.IP{10, 0, byte(i >> 8), byte(i)}, 30000+uint16(i), 30000+uint16(i))
}

func population() {
	copy(selfID[:], "verif-c34-self")
	selfSha = sha(selfID)
	names[selfID] = "self"
	for i := 1; len(nodesA) < 19 || len(nodesB) < 2; i++ {
		var id dht.NodeID
		copy(id[:], fmt.Sprintf("verif-c34-node-%d", i))
		switch d := dist(selfSha, sha(id)); {
		case d == 256 && len(nodesA) < 19:
			nodesA = append(nodesA, mkNode(id, i))
			names[id] = fmt.Sprintf("n%d", len(nodesA))
		case d == 255 && len(nodesB) < 2:
			nodesB = append(nodesB, mkNode(id, i))
			names[id] = fmt.Sprintf("m%d", len(nodesB))
		}
	}
}

func name(n *dht.Node) string {
	if n == nil {
		return "<nil>"
	}
	if s, ok := names[n.ID]; ok {
		return s
	}
	return "?" + n.ID.String()[:8]
}

// ---------------------------------------------------------------- seeds and events

type seed struct {
	K, R    int
	Targets [8]*dht.Node
}

func (s seed) build() *dht.Table {
	t := dht.VerifNewTable(selfID)
	if s.R == 0 {
		for i := 0; i < s.K; i++ {
			t.VerifAdd(nodesA[i])
		}
		return t
	}
	for i := 0; i < 16+s.R; i++ {
		t.VerifAdd(nodesA[i])
	}
	for i := 0; i < 16-s.K; i++ {
		t.VerifDelete(nodesA[i])
	}
	return t
}

func (s seed) String() string {
	return fmt.Sprintf("seed(entries=%d,replacements=%d)", s.K, s.R)
}

var seeds []seed

type unintendedSeed struct {
	s     seed
	state string
}

var unintended []unintendedSeed

func mkSeeds() {
	for _, k := range []int{14, 15, 16} {
		for _, r := range []int{0, 1, 2} {
			s := seed{K: k, R: r}
			_, _, bs := s.build().VerifState()
			var a *dht.VerifBucket
			for i := range bs {
				if bs[i].Index == 256 {
					a = &bs[i]
				}
			}
			if a == nil || len(a.Entries) != k || len(a.Replacements) != r {
				// the table's own add / delete gave another state: judged against the statement in main (a state that
				// breaks an invariant is a violation, any other only means this seed cannot be used)
				unintended = append(unintended, unintendedSeed{s, fmt.Sprintf("%+v", bs)})
				continue
			}
			self := dht.NewNode(selfID, net.IP{127, 0, 0, 1}, 46656, 46656)
			s.Targets = [8]*dht.Node{a.Entries[len(a.Entries)-1], a.Entries[0], nodesA[16], nodesA[17], nodesA[18], nodesB[0], nodesB[1], self}
			seeds = append(seeds, s)
		}
	}
}

const (
	opAdd = iota
	opDelete
	opDeleteReplace
	opBump
	opStuff1
	opStuff2
)

var opNames = []string{"add", "delete", "deleteReplace", "bump", "stuff", "stuff"}

type event struct{ op, x, y int }

var events []event

// mkEvents: single-node operations over all 8 targets; stuff([x,y]) over every ordered pair
// (x may equal y) of the first pairTargets targets.
func mkEvents(pairTargets int) {
	for op := opAdd; op <= opStuff1; op++ {
		for x := 0; x < 8; x++ {
			events = append(events, event{op, x, -1})
		}
	}
	for x := 0; x < pairTargets; x++ {
		for y := 0; y < pairTargets; y++ {
			events = append(events, event{opStuff2, x, y})
		}
	}
}

func (e event) render(s seed) string {
	if e.op == opStuff2 {
		return fmt.Sprintf("stuff([%s,%s])", name(s.Targets[e.x]), name(s.Targets[e.y]))
	}
	if e.op == opStuff1 {
		return fmt.Sprintf("stuff([%s])", name(s.Targets[e.x]))
	}
	return fmt.Sprintf("%s(%s)", opNames[e.op], name(s.Targets[e.x]))
}

func apply(t *dht.Table, s seed, e event) (panicked interface{}) {
	defer func() {
		if r := recover(); r != nil {
			panicked = r
		}
	}()
	x := s.Targets[e.x]
	switch e.op {
	case opAdd:
		t.VerifAdd(x)
	case opDelete:
		t.VerifDelete(x)
	case opDeleteReplace:
		t.VerifDeleteReplace(x)
	case opBump:
		t.VerifBump(x)
	case opStuff1:
		t.VerifStuff([]*dht.Node{x})
	case opStuff2:
		t.VerifStuff([]*dht.Node{x, s.Targets[e.y]})
	}
	return nil
}

// ---------------------------------------------------------------- observation and invariants

type snap struct {
	count   int
	buckets []dht.VerifBucket
}

func observe(t *dht.Table) snap {
	c, _, bs := t.VerifState()
	return snap{c, bs}
}

func (s snap) digest() string {
	var sb strings.Builder
	sb.WriteString("c=")
	sb.WriteString(strconv.Itoa(s.count))
	for _, b := range s.buckets {
		sb.WriteByte(';')
		sb.WriteString(strconv.Itoa(b.Index))
		sb.WriteByte(':')
		for _, e := range b.Entries {
			sb.WriteString(name(e))
			sb.WriteByte(',')
		}
		sb.WriteByte('|')
		for _, e := range b.Replacements {
			sb.WriteString(name(e))
			sb.WriteByte(',')
		}
	}
	return sb.String()
}

type broken struct{ inv, detail string }

// invariants evaluates the statement on a snapshot.
func (s snap) invariants() (out []broken) {
	total := 0
	for _, b := range s.buckets {
		total += len(b.Entries)
		if len(b.Entries) > bucketSize {
			out = append(out, broken{"bucket-overfull", fmt.Sprintf("bucket %d holds %d entries", b.Index, len(b.Entries))})
		}
		for i, e := range b.Entries {
			dup := false
			for _, f := range b.Entries[:i] {
				if e != nil && f != nil && f.ID == e.ID {
					dup = true
				}
			}
			switch {
			case e == nil:
				out = append(out, broken{"nil-entry", fmt.Sprintf("bucket %d holds a nil entry", b.Index)})
				continue
			case e.ID == selfID:
				out = append(out, broken{"self-present", fmt.Sprintf("the local node is an entry of bucket %d", b.Index)})
			case dup:
				out = append(out, broken{"duplicate-entry", fmt.Sprintf("bucket %d holds %s twice", b.Index, name(e))})
			}
			if d := distOf(e.ID); d != b.Index && e.ID != selfID {
				out = append(out, broken{"wrong-distance", fmt.Sprintf("%s (log-distance %d) is an entry of bucket %d", name(e), d, b.Index)})
			}
		}
	}
	if s.count != total {
		out = append(out, broken{"count-mismatch", fmt.Sprintf("count=%d but the buckets hold %d entries", s.count, total)})
	}
	return
}

// aux: properties of the replacement lists that the statement does not mention but whose loss
// precedes a violation; used only to name the mechanism (the structural key) of a violation.
func (s snap) aux() (overlap, replDup bool) {
	for _, b := range s.buckets {
		in := map[dht.NodeID]bool{}
		for _, e := range b.Entries {
			if e != nil {
				in[e.ID] = true
			}
		}
		seen := map[dht.NodeID]bool{}
		for _, r := range b.Replacements {
			if r == nil {
				continue
			}
			if in[r.ID] {
				overlap = true
			}
			if seen[r.ID] {
				replDup = true
			}
			seen[r.ID] = true
		}
	}
	return
}

func (s snap) bucketOf(n *dht.Node) *dht.VerifBucket {
	d := distOf(n.ID)
	for i := range s.buckets {
		if s.buckets[i].Index == d {
			return &s.buckets[i]
		}
	}
	return &dht.VerifBucket{Index: d}
}

// branch names the code path an event takes from the pre-state (for outcome classes and keys).
func branch(pre snap, s seed, e event) string {
	x := s.Targets[e.x]
	b := pre.bucketOf(x)
	inE, inR := false, false
	for _, n := range b.Entries {
		if n != nil && n.ID == x.ID {
			inE = true
		}
	}
	for _, n := range b.Replacements {
		if n != nil && n.ID == x.ID {
			inR = true
		}
	}
	where := "absent"
	switch {
	case x.ID == selfID:
		where = "self"
	case inE && inR:
		where = "entry+replacement"
	case inE:
		where = "entry"
	case inR:
		where = "replacement"
	}
	room := "bucket-has-room"
	if len(b.Entries) >= bucketSize {
		room = "bucket-full"
	}
	switch e.op {
	case opAdd, opStuff1, opStuff2:
		return fmt.Sprintf("%s-of-%s-node-%s", opNames[e.op], where, room)
	case opDeleteReplace:
		r := "no-replacement"
		if len(b.Replacements) > 0 {
			r = "replacement-available"
		}
		return fmt.Sprintf("deleteReplace-of-%s-node-%s", where, r)
	}
	return fmt.Sprintf("%s-of-%s-node", opNames[e.op], where)
}

// ---------------------------------------------------------------- search

type state struct {
	parent int32
	ev     int16
	seed   int8
	depth  int8
}

var states []state

func history(i int) (int, []int) {
	var evs []int
	for states[i].parent >= 0 {
		evs = append(evs, int(states[i].ev))
		i = int(states[i].parent)
	}
	for l, r := 0, len(evs)-1; l < r; l, r = l+1, r-1 {
		evs[l], evs[r] = evs[r], evs[l]
	}
	return int(states[i].seed), evs
}

func replay(sd int, evs []int) (*dht.Table, interface{}) {
	t := seeds[sd].build()
	for _, e := range evs {
		if p := apply(t, seeds[sd], events[e]); p != nil {
			return t, p
		}
	}
	return t, nil
}

type result struct {
	digest   string
	broken   []broken
	panicked interface{}
	branch   string
	changed  bool
}

// expand applies every event to the state reached by history (sd, evs). The state is rebuilt by
// replaying the whole history on a fresh table with the real functions; the rebuilt table is used
// for the next event as well only if the previous event left the rendering of the table's private
// state unchanged (such an event performed no write or rewrote identical values).
func expand(sd int, evs []int) []result {
	rs := make([]result, len(events))
	var t *dht.Table
	var pre snap
	var preDigest string
	for e := range events {
		if t == nil {
			var p interface{}
			if t, p = replay(sd, evs); p != nil {
				rs[e] = result{panicked: p}
				t = nil
				continue
			}
			pre = observe(t)
			preDigest = pre.digest()
		}
		br := branch(pre, seeds[sd], events[e])
		if p := apply(t, seeds[sd], events[e]); p != nil {
			rs[e] = result{panicked: p, branch: br}
			t = nil
			continue
		}
		post := observe(t)
		d := post.digest()
		rs[e] = result{digest: d, broken: post.invariants(), branch: br, changed: d != preDigest}
		if d != preDigest {
			t = nil
		}
	}
	return rs
}

func describe(sd int, evs []int) []string {
	out := []string{seeds[sd].String()}
	for _, e := range evs {
		out = append(out, events[e].render(seeds[sd]))
	}
	return out
}

// mechanism replays a violating history and names the first step after which the replacement list
// overlapped the entries or listed a node twice; if there is none, the last operation's branch.
func mechanism(sd int, evs []int) string {
	t := seeds[sd].build()
	for _, e := range evs {
		pre := observe(t)
		br := branch(pre, seeds[sd], events[e])
		o0, d0 := pre.aux()
		if apply(t, seeds[sd], events[e]) != nil {
			return "panic-in-" + br
		}
		o1, d1 := observe(t).aux()
		if !o0 && o1 {
			return "node-left-in-replacements-by-" + opNames[events[e].op]
		}
		if !d0 && d1 {
			return "replacement-listed-twice-by-" + opNames[events[e].op]
		}
		_ = br
	}
	t2, _ := replay(sd, evs[:len(evs)-1])
	return "by-" + branch(observe(t2), seeds[sd], events[evs[len(evs)-1]])
}

func main() {
	run := ev.Start("C34", "model_checking")
	population()
	mkSeeds()
	pairTargets := run.Pick(5, 8)
	mkEvents(pairTargets)
	run.Set("stuff_pair_targets", pairTargets)
	for _, n := range append(append([]*dht.Node{}, nodesA...), nodesB...) {
		distCache[n.ID] = dist(selfSha, sha(n.ID))
	}
	distCache[selfID] = 0
	if pf := os.Getenv("VERIF_CPUPROFILE"); pf != "" {
		f, _ := os.Create(pf)
		pprof.StartCPUProfile(f)
		defer pprof.StopCPUProfile()
	}
	maxDepth := run.Pick(4, 6)
	run.Set("max_depth_bound", maxDepth)
	run.Set("events", len(events))
	run.Set("seeds", len(seeds))
	run.Set("population", "19 nodes at log-distance 256, 2 at 255, self")

	seen := map[string]bool{}
	var frontier []int
	comparisons := 0
	for _, u := range unintended {
		bad := observe(u.s.build()).invariants()
		for _, b := range bad {
			run.Violation(b.inv+".in-seed", fmt.Sprintf("%v: %s", u.s, b.detail), u.s.String())
		}
		if len(bad) == 0 {
			run.Capped(fmt.Sprintf("%v: could not be set up: adds and deletes did not produce the intended bucket (no invariant broken): %s", u.s, u.state))
		}
	}
	for i, s := range seeds {
		sn := observe(s.build())
		comparisons++
		bad := sn.invariants()
		for _, b := range bad {
			run.Violation(b.inv+".in-seed", fmt.Sprintf("%v: %s", s, b.detail), s.String())
		}
		seen[fmt.Sprintf("s%d;", i)+sn.digest()] = true
		states = append(states, state{parent: -1, seed: int8(i)})
		if i%4 == 0 {
			run.Sample(map[string]interface{}{"history": []string{s.String()}, "table": sn.digest()})
		}
		if len(bad) == 0 { // a seed that already violates the statement is reported, not expanded
			frontier = append(frontier, len(states)-1)
		}
	}
	transitions, reached := 0, 0
	violStates := 0
	workers := runtime.NumCPU()
	if workers > 8 {
		workers = 8
	}
	type foundV struct {
		what string
		desc []string
	}
	for depth := 1; depth <= maxDepth && len(frontier) > 0; depth++ {
		var next []int
		const chunk = 512
		for lo := 0; lo < len(frontier); lo += chunk {
			if run.OutOfTime() {
				run.Capped(fmt.Sprintf("time budget reached at depth %d", depth))
				frontier = nil
				break
			}
			hi := lo + chunk
			if hi > len(frontier) {
				hi = len(frontier)
			}
			part := frontier[lo:hi]
			res := make([][]result, len(part))
			var wg sync.WaitGroup
			jobs := make(chan int, len(part))
			for i := range part {
				jobs <- i
			}
			close(jobs)
			for w := 0; w < workers; w++ {
				wg.Add(1)
				go func() {
					defer wg.Done()
					for i := range jobs {
						sd, evs := history(part[i])
						res[i] = expand(sd, evs)
					}
				}()
			}
			wg.Wait()
			// merge in enumeration order (deterministic)
			for i, si := range part {
				sd, evs := history(si)
				for e, r := range res[i] {
					transitions++
					comparisons++
					full := append(append([]int{}, evs...), e)
					if r.panicked != nil {
						run.Outcome("panic")
						run.Violation("panic."+r.branch, fmt.Sprintf("%v: panic: %v", describe(sd, full), r.panicked), describe(sd, full))
						continue
					}
					eff := "no-change"
					if r.changed {
						eff = "changed"
					}
					run.Outcome(r.branch + ":" + eff)
					if len(r.broken) > 0 {
						violStates++
						mech := mechanism(sd, full)
						for _, b := range r.broken {
							run.Violation(b.inv+"."+mech, fmt.Sprintf("%v: %s; table after the last step: %s", describe(sd, full), b.detail, r.digest), describe(sd, full))
						}
						continue // a state that violates the statement is not expanded
					}
					key := fmt.Sprintf("s%d;", sd) + r.digest
					if seen[key] {
						continue
					}
					seen[key] = true
					states = append(states, state{parent: int32(si), ev: int16(e), seed: int8(sd), depth: int8(depth)})
					next = append(next, len(states)-1)
					if len(states)%1499 == 0 {
						run.Sample(map[string]interface{}{"history": describe(sd, full), "table": r.digest})
					}
				}
			}
		}
		if frontier == nil {
			break
		}
		reached = depth
		run.Set(fmt.Sprintf("new_states_at_depth_%d", depth), len(next))
		frontier = next
	}
	run.Set("states", len(states))
	run.Set("transitions", transitions)
	run.Set("traces_validated_against_impl", comparisons)
	run.Set("max_depth", reached)
	run.Set("violating_transitions", violStates)
	run.Assume("operations are applied sequentially (the table is only touched from the Network loop goroutine)")
	run.Assume("node IDs are the 21 fixed IDs chosen by enumeration so that their sha3 falls into buckets 256 and 255; other buckets behave identically by construction of the code (bucket index is only used for selection)")
	run.Assume("golang.org/x/crypto/sha3 is trusted for the independent distance computation")
	pprof.StopCPUProfile()
	run.Finish()
}
