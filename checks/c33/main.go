// C33: header and block sync responses are well-formed.
//
// A real node (protocol.Chain on crashkv) holds a main chain and a 3-block side chain.
// Every request out of a bounded alphabet - locator lists of <= 3 entries over main-chain
// hashes, side-chain hashes, an unknown hash and genesis (all tuples, so descending
// "protocol-built" and unordered ones), every stop hash, skip values up to 2^64-1 and
// several maxima - is answered by the real blockKeeper.locateHeaders / locateBlocks and, for
// locators of <= 2 entries, by the real message handlers fed with wire bytes. Each response
// is judged against the statement and against a big.Int reference of the documented answer.
package main

import (
	"fmt"
	"math/big"
	"net"
	"runtime"
	"sort"
	"strings"
	"sync"

	"github.com/tendermint/go-wire"
	"github.com/tendermint/tmlibs/flowrate"

	"github.com/bytom/bytom/consensus"
	"github.com/bytom/bytom/netsync/chainmgr"
	msgs "github.com/bytom/bytom/netsync/messages"
	"github.com/bytom/bytom/netsync/peers"
	"github.com/bytom/bytom/protocol/bc"
	"github.com/bytom/bytom/protocol/bc/types"

	"verif/lib/crashkv"
	"verif/lib/ev"
	"verif/lib/labnet"
)

// The protocol maxima of the statement (block_keeper.go: 64 blocks, 1000 headers per message).
const (
	protoMaxBlocks  = 64
	protoMaxHeaders = 1000
	sideLen         = 3
)

// ---------- the lab world ----------

// ent is one hash of the request alphabet together with the factory's own bookkeeping
// (which is the reference for "on the main chain" and "height", not the node's answers).
type ent struct {
	Name   string
	Hash   bc.Hash
	Known  bool
	Main   bool
	Height uint64
}

type world struct {
	Name   string
	node   *labnet.Node
	sync   *chainmgr.VerifSync
	peers  []*capPeer
	height uint64 // best height
	fork   uint64
	// reference bookkeeping
	mainAt  []bc.Hash        // height -> hash of the main chain block
	byHash  map[bc.Hash]*ent // every block the node knows
	locEnts []ent            // locator alphabet
	stops   []ent            // stop alphabet
	lists   [][]int          // locator lists (indices into locEnts), length <= 3
	lists2  int              // how many of them have <= 2 entries (prefix of lists)
	direct  bool             // run the direct locateHeaders enumeration
	skips   []uint64
}

// worldSkips: worlds the node did not get into the planned shape (a block refused, another best block, an
// inconsistent main-chain index). Block acceptance and chain selection are C11-C13's subject; the statement
// about responses cannot be examined on such a world: it is left out and the run reported capped.
var worldSkips []string

func skipWorld(name, format string, a ...interface{}) *world {
	worldSkips = append(worldSkips, fmt.Sprintf("world %s: could not be set up: ", name)+fmt.Sprintf(format, a...))
	return nil
}

func unknownHash() bc.Hash { return bc.NewHash([32]byte{0xee, 0x33, 0xee, 0x33, 0x01}) }

// buildWorld makes a node with a main chain of h blocks and a side chain of 3 blocks forking
// after main block `fork`. reorged=false: the side chain arrives last and never is the best
// chain; reorged=true: the side chain is the best chain first and is overtaken by the main chain.
func buildWorld(netw *labnet.Net, name string, h, fork int, reorged bool, locHeights []int, stopHeights []int, direct bool, workers int) *world {
	mainB := netw.Chain(netw.Gen, h, 0)
	sideB := netw.Chain(mainB[fork-1], sideLen, 1)
	nd, err := labnet.NewNode(crashkv.New())
	if err != nil {
		return skipWorld(name, "new node: %v", err)
	}
	var order []*labnet.B
	if reorged {
		order = append(order, mainB[:fork]...)
		order = append(order, sideB...)
		order = append(order, mainB[fork:]...)
	} else {
		order = append(order, mainB...)
		order = append(order, sideB...)
	}
	for _, b := range order {
		if orphan, err := nd.Chain.ProcessBlock(b.Block); err != nil || orphan {
			return skipWorld(name, "block at height %d not accepted: orphan=%v err=%v", b.Height, orphan, err)
		}
	}
	w := &world{Name: name, node: nd, height: uint64(h), fork: uint64(fork), byHash: map[bc.Hash]*ent{}, direct: direct}
	gen := ent{Name: "genesis", Hash: netw.Gen.Hash(), Known: true, Main: true, Height: 0}
	w.mainAt = append(w.mainAt, gen.Hash)
	mainEnt := []ent{gen}
	for _, b := range mainB {
		mainEnt = append(mainEnt, ent{Name: fmt.Sprintf("main%d", b.Height), Hash: b.Hash(), Known: true, Main: true, Height: b.Height})
		w.mainAt = append(w.mainAt, b.Hash())
	}
	var sideEnt []ent
	for _, b := range sideB {
		sideEnt = append(sideEnt, ent{Name: fmt.Sprintf("side%d", b.Height), Hash: b.Hash(), Known: true, Main: false, Height: b.Height})
	}
	for i := range mainEnt {
		w.byHash[mainEnt[i].Hash] = &mainEnt[i]
	}
	for i := range sideEnt {
		w.byHash[sideEnt[i].Hash] = &sideEnt[i]
	}
	unk := ent{Name: "unknown", Hash: unknownHash()}
	zero := ent{Name: "zero-hash", Hash: bc.Hash{}}

	// harness sanity (the node's chain selection is C11/C12's subject, not this check's):
	// the node's best block is the tip of the factory's main chain, the parent walk from it is the
	// factory's main chain, and InMainChain agrees with that on every hash of the alphabet.
	best := nd.Chain.BestBlockHeader()
	if best.Hash() != mainEnt[h].Hash || best.Height != uint64(h) {
		return skipWorld(name, "best block is not the tip of the longer chain (height %d)", best.Height)
	}
	cur := best
	for cur.Height > 0 {
		if cur.Hash() != w.mainAt[cur.Height] {
			return skipWorld(name, "parent walk leaves the factory's main chain at height %d", cur.Height)
		}
		p := cur.PreviousBlockHash
		cur, err = nd.Chain.GetHeaderByHash(&p)
		if err != nil {
			return skipWorld(name, "parent walk: %v", err)
		}
	}
	if cur.Hash() != gen.Hash {
		return skipWorld(name, "parent walk does not end at genesis")
	}
	for _, e := range append(append(append([]ent{}, mainEnt...), sideEnt...), unk, zero) {
		if nd.Chain.InMainChain(e.Hash) != e.Main {
			return skipWorld(name, "Chain.InMainChain(%s) = %v, the parent walk says %v (property C11)", e.Name, !e.Main, e.Main)
		}
	}

	// alphabets
	w.locEnts = append(w.locEnts, gen)
	for _, lh := range locHeights {
		w.locEnts = append(w.locEnts, mainEnt[lh])
	}
	w.locEnts = append(w.locEnts, sideEnt[sideLen-1], unk)
	if len(locHeights) > 4 {
		w.locEnts = append(w.locEnts, sideEnt[0])
	}
	if stopHeights == nil {
		w.stops = append(w.stops, mainEnt...)
	} else {
		for _, sh := range stopHeights {
			w.stops = append(w.stops, mainEnt[sh])
		}
	}
	w.stops = append(w.stops, sideEnt[0], sideEnt[sideLen-1], unk, zero)
	// every list of <= 3 entries, shorter lists first
	n := len(w.locEnts)
	w.lists = append(w.lists, []int{})
	for a := 0; a < n; a++ {
		w.lists = append(w.lists, []int{a})
	}
	for a := 0; a < n; a++ {
		for b := 0; b < n; b++ {
			w.lists = append(w.lists, []int{a, b})
		}
	}
	w.lists2 = len(w.lists)
	for a := 0; a < n; a++ {
		for b := 0; b < n; b++ {
			for c := 0; c < n; c++ {
				w.lists = append(w.lists, []int{a, b, c})
			}
		}
	}
	hh := uint64(h)
	w.skips = []uint64{0, 1, 2, hh - 1, hh, 1 << 63, ^uint64(0) - 1, ^uint64(0)}

	ps := peers.NewPeerSet(noBan{})
	for i := 0; i < workers; i++ {
		p := &capPeer{id: fmt.Sprintf("verif-peer-%d", i)}
		ps.AddPeer(p)
		w.peers = append(w.peers, p)
	}
	w.sync = chainmgr.VerifNewSync(nd.Chain, ps)
	return w
}

// ---------- capturing peer ----------

type noBan struct{}

func (noBan) StopPeerGracefully(string)          {}
func (noBan) IsBanned(string, byte, string) bool { return false }

type capPeer struct {
	id   string
	sent []interface{}
}

func (p *capPeer) Moniker() string                    { return p.id }
func (p *capPeer) Addr() net.Addr                     { return &net.TCPAddr{IP: net.IPv4(10, 0, 0, 33), Port: 46657} }
func (p *capPeer) ID() string                         { return p.id }
func (p *capPeer) RemoteAddrHost() string             { return "10.0.0.33" }
func (p *capPeer) ServiceFlag() consensus.ServiceFlag { return consensus.SFFullNode }
func (p *capPeer) TrafficStatus() (*flowrate.Status, *flowrate.Status) {
	return &flowrate.Status{}, &flowrate.Status{}
}
func (p *capPeer) IsLAN() bool { return false }
func (p *capPeer) TrySend(ch byte, m interface{}) bool {
	p.sent = append(p.sent, m)
	return true
}

// ---------- cases ----------

const (
	kHeaders     = iota // blockKeeper.locateHeaders(locator, stop, skip, maxNum)
	kBlocks             // blockKeeper.locateBlocks(locator, stop, isTimeout)
	kWireHeaders        // GetHeadersMessage bytes -> decodeMessage -> processMsg -> handleGetHeadersMsg -> SendHeaders
	kWireBlocks         // GetBlocksMessage bytes -> ... -> handleGetBlocksMsg -> SendBlocks
)

var kindName = []string{"locateHeaders", "locateBlocks", "wire:GetHeaders", "wire:GetBlocks"}

var maxNums = []uint64{1, 2, 3, 64, 1000}

// timeout modes of locateBlocks: isTimeout turns true at its k-th call (0 = never).
var timeoutAt = []int{0, 1, 3}

type item struct {
	Height uint64
	Hash   bc.Hash
}

type caseDesc struct {
	World     string   `json:"world"`
	Call      string   `json:"call"`
	Locator   []string `json:"locator"`
	Ordered   bool     `json:"locator_descending"`
	Stop      string   `json:"stop"`
	Skip      string   `json:"skip,omitempty"`
	MaxNum    uint64   `json:"max_items"`
	TimeoutAt int      `json:"is_timeout_true_at_call,omitempty"`
	Got       []string `json:"response"`
	GotErr    string   `json:"error,omitempty"`
	Want      []string `json:"reference,omitempty"`
	WantErr   bool     `json:"reference_is_error,omitempty"`
}

type viol struct {
	seq  int64
	key  string
	what string
	c    caseDesc
}

type stats struct {
	evals      int
	nontrivial int
	outcomes   map[string]int
	perKind    [4]int
	ordered    int
	unordered  int
	overflow   int
	capBound   int
	maxItems   int
	samples    map[string]sample
	viols      map[string]viol
	capped     string // wire cases left out: the node's own codec refused a well-formed message (C04's subject)
}

type sample struct {
	seq int64
	c   caseDesc
}

func newStats() *stats {
	return &stats{outcomes: map[string]int{}, samples: map[string]sample{}, viols: map[string]viol{}}
}

var two64 = new(big.Int).Lsh(big.NewInt(1), 64)

// reference: the documented answer, computed with unbounded integers.
// start, stop heights on the main chain, step = skip+1, at most max items, the stop block closes the list.
func refHeights(startH, stopH uint64, skip uint64, max uint64) []uint64 {
	out := []uint64{startH}
	if startH == stopH {
		return out
	}
	step := new(big.Int).Add(new(big.Int).SetUint64(skip), big.NewInt(1))
	cur := new(big.Int).SetUint64(startH)
	stop := new(big.Int).SetUint64(stopH)
	for uint64(len(out)) < max {
		cur.Add(cur, step)
		if cur.Cmp(stop) >= 0 {
			out = append(out, stopH)
			break
		}
		out = append(out, cur.Uint64())
	}
	return out
}

func panicClass(p interface{}) string {
	s := fmt.Sprint(p)
	switch {
	case strings.Contains(s, "index out of range"), strings.Contains(s, "slice bounds"):
		return "index-out-of-range"
	case strings.Contains(s, "nil pointer"):
		return "nil-dereference"
	case strings.Contains(s, "makeslice"), strings.Contains(s, "out of memory"):
		return "allocation"
	}
	return "other"
}

func fmtItems(w *world, its []item) []string {
	var out []string
	rep := 0
	for i, it := range its {
		name := "?"
		if e, ok := w.byHash[it.Hash]; ok {
			name = e.Name
		}
		if i >= 12 && i < len(its)-2 {
			rep++
			continue
		}
		if rep > 0 {
			out = append(out, fmt.Sprintf("... %d more ...", rep))
			rep = 0
		}
		out = append(out, fmt.Sprintf("%d:%s", it.Height, name))
	}
	return out
}

func fmtHeights(hs []uint64) []string {
	var out []string
	for i, h := range hs {
		if i >= 12 && i < len(hs)-2 {
			if i == 12 {
				out = append(out, fmt.Sprintf("... %d more ...", len(hs)-14))
			}
			continue
		}
		out = append(out, fmt.Sprint(h))
	}
	return out
}

// judge evaluates one response. kind, list, stop index, skip, max, timeout mode describe the request.
func (w *world) judge(st *stats, seq int64, kind int, list []int, stopI int, skip uint64, max uint64, tAt int, its []item, gotErr error, pan interface{}, sends int) {
	stop := w.stops[stopI]
	// classify the locator with the factory's bookkeeping
	ordered := true
	var last *ent
	var mainHs []uint64
	highest := uint64(0)
	for _, li := range list {
		e := &w.locEnts[li]
		if !e.Known {
			continue
		}
		if last != nil && e.Height >= last.Height {
			ordered = false
		}
		last = e
		if e.Main {
			mainHs = append(mainHs, e.Height)
			if e.Height > highest {
				highest = e.Height
			}
		}
	}
	cd := caseDesc{World: w.Name, Call: kindName[kind], Ordered: ordered, Stop: stop.Name, MaxNum: max, TimeoutAt: tAt, Got: fmtItems(w, its)}
	for _, li := range list {
		cd.Locator = append(cd.Locator, w.locEnts[li].Name)
	}
	if kind == kHeaders || kind == kWireHeaders {
		cd.Skip = fmt.Sprint(skip)
	}
	if gotErr != nil {
		cd.GotErr = gotErr.Error()
	}
	st.evals++
	st.perKind[kind]++
	if ordered {
		st.ordered++
	} else {
		st.unordered++
	}
	if len(its) > st.maxItems {
		st.maxItems = len(its)
	}

	// expected start: highest main-chain locator entry, or genesis. Unordered locators: the
	// statement only fixes "some main-chain locator entry or genesis", so the observed first
	// item is taken if it is one of them.
	startH := highest
	firstOK := true
	if len(its) > 0 {
		if ordered || len(mainHs) == 0 {
			firstOK = its[0].Height == highest && its[0].Hash == w.mainAt[highest]
		} else {
			firstOK = false
			for _, mh := range mainHs {
				if its[0].Height == mh && its[0].Hash == w.mainAt[mh] {
					firstOK = true
					startH = mh
				}
			}
		}
	} else if !ordered && len(mainHs) > 0 {
		// empty response to an unordered locator: any main entry may have been the start; the
		// reference below uses the first main entry in list order only to decide emptiness when
		// every choice agrees.
		startH = mainHs[0]
	}

	// does the implementation's uint64 step leave the range on this request?
	loopEntered := stop.Known && stop.Main && stop.Height > startH && max > 1
	overflow := false
	if loopEntered {
		s := new(big.Int).SetUint64(startH)
		s.Add(s, new(big.Int).SetUint64(skip))
		s.Add(s, big.NewInt(1))
		overflow = s.Cmp(two64) >= 0
	}
	if overflow {
		st.overflow++
	}
	sfx := ""
	if overflow {
		sfx = ".step-overflows-uint64"
	}

	// reference answer
	var want []uint64
	wantErr := false
	class := ""
	switch {
	case !stop.Known:
		wantErr, class = true, "unknown-stop"
	case !stop.Main:
		class = "stop-off-main-chain"
	case stop.Height < startH:
		class = "stop-below-start"
	default:
		want = refHeights(startH, stop.Height, skip, max)
		switch {
		case stop.Height == startH:
			class = "start-is-stop"
		case want[len(want)-1] == stop.Height:
			class = "reached-stop"
		default:
			class = "capped-by-max"
			st.capBound++
		}
		if kind == kBlocks && tAt > 0 && len(want) > tAt {
			want = want[:tAt]
			class = "cut-by-timeout"
		}
	}
	// an unordered locator whose main entries straddle the stop: emptiness depends on the choice
	ambiguousEmpty := false
	if !ordered && len(its) == 0 && stop.Known && stop.Main {
		lo, hi := false, false
		for _, mh := range mainHs {
			if mh <= stop.Height {
				lo = true
			} else {
				hi = true
			}
		}
		ambiguousEmpty = lo && hi
	}
	cd.Want, cd.WantErr = fmtHeights(want), wantErr

	// loop=true: the failure concerns what the skip/stop loop produced (items after the first,
	// their number, the error); only those keys carry the uint64-overflow class of the request.
	report := func(key, what string, loop bool) {
		if loop {
			key += sfx
		}
		if old, ok := st.viols[key]; ok && old.seq <= seq {
			return
		}
		st.viols[key] = viol{seq: seq, key: key, what: what, c: cd}
	}
	outcome := class
	if overflow {
		outcome += "+step-overflow"
	}
	defer func() {
		st.outcomes[outcome]++
		if len(its) >= 2 {
			st.nontrivial++
		}
		sk := kindName[kind] + "/" + outcome
		if old, ok := st.samples[sk]; !ok || seq < old.seq {
			st.samples[sk] = sample{seq, cd}
		}
	}()

	// --- the statement ---
	if pan != nil {
		outcome = "panic"
		report("panic."+panicClass(pan), fmt.Sprintf("%s panicked: %v", kindName[kind], pan), true)
		return
	}
	if sends > 1 {
		report("more-than-one-response", fmt.Sprintf("%d messages sent for one request", sends), false)
		return
	}
	bad := false
	if uint64(len(its)) > max {
		bad = true
		report("more-than-max-items", fmt.Sprintf("%d items, maximum %d", len(its), max), true)
	}
	for i, it := range its {
		if it.Height >= uint64(len(w.mainAt)) || w.mainAt[it.Height] != it.Hash {
			bad = true
			report("item-not-on-main-chain", fmt.Sprintf("item %d (height %d) is not the main chain block of its height", i, it.Height), i > 0)
			break
		}
	}
	for i := 1; i < len(its); i++ {
		if its[i].Height <= its[i-1].Height {
			bad = true
			report("heights-not-strictly-increasing", fmt.Sprintf("item %d has height %d after height %d", i, its[i].Height, its[i-1].Height), true)
			break
		}
	}
	if len(its) > 0 && !firstOK {
		bad = true
		if ordered || len(mainHs) == 0 {
			report("first-item-not-highest-main-locator-entry", fmt.Sprintf("first item has height %d, highest main-chain locator entry (or genesis) is at %d", its[0].Height, highest), false)
		} else {
			report("first-item-not-a-main-locator-entry", fmt.Sprintf("first item has height %d, main-chain locator entries are at %v", its[0].Height, mainHs), false)
		}
	}
	if len(its) > 0 {
		switch {
		case !stop.Known:
			bad = true
			report("response-for-unknown-stop", "items returned although the stop hash is unknown", false)
		case !stop.Main:
			bad = true
			report("response-for-stop-off-main-chain", "items returned although the stop block is not on the main chain", false)
		case its[len(its)-1].Height > stop.Height:
			bad = true
			report("last-item-passes-stop", fmt.Sprintf("last item has height %d, stop block %d", its[len(its)-1].Height, stop.Height), true)
		}
	}
	if bad {
		outcome = "ill-formed"
		return
	}

	// --- the reference ---
	if firstOK && !ambiguousEmpty {
		same := len(want) == len(its)
		for i := 0; same && i < len(want); i++ {
			same = want[i] == its[i].Height
		}
		if kind == kWireBlocks && len(its) > 0 && len(its) < len(want) {
			// the handler's wall-clock limit may cut the list anywhere after the first block
			same = true
			for i := range its {
				same = same && want[i] == its[i].Height
			}
			if same {
				outcome = "cut-by-handler-clock"
			}
		}
		if !same {
			outcome = "differs-from-reference"
			report("differs-from-reference."+class, fmt.Sprintf("heights %v, reference %v", fmtItems(w, its), fmtHeights(want)), true)
			return
		}
	}
	if (kind == kHeaders || kind == kBlocks) && (gotErr != nil) != wantErr {
		outcome = "differs-from-reference"
		report("error-mismatch."+class, fmt.Sprintf("error %v, reference says error=%v", gotErr, wantErr), true)
	}
}

// ---------- running requests ----------

func hashPtrs(w *world, list []int) []*bc.Hash {
	out := make([]*bc.Hash, len(list))
	for i, li := range list {
		h := w.locEnts[li].Hash
		out[i] = &h
	}
	return out
}

func headerItems(hs []*types.BlockHeader) []item {
	out := make([]item, len(hs))
	for i, h := range hs {
		out[i] = item{h.Height, h.Hash()}
	}
	return out
}

type job struct {
	w     *world
	kind  int
	stopI int
	base  int64
}

func (j job) run(st *stats, worker int) {
	w := j.w
	stopHash := w.stops[j.stopI].Hash
	seq := j.base
	switch j.kind {
	case kHeaders:
		for _, list := range w.lists {
			for _, skip := range w.skips {
				for _, max := range maxNums {
					seq++
					var its []item
					var err error
					var pan interface{}
					func() {
						defer func() { pan = recover() }()
						var hs []*types.BlockHeader
						hs, err = w.sync.LocateHeaders(hashPtrs(w, list), &stopHash, skip, max)
						its = headerItems(hs)
					}()
					w.judge(st, seq, j.kind, list, j.stopI, skip, max, 0, its, err, pan, 0)
				}
			}
		}
	case kBlocks:
		for _, list := range w.lists {
			for _, tAt := range timeoutAt {
				seq++
				var its []item
				var err error
				var pan interface{}
				func() {
					defer func() { pan = recover() }()
					calls := 0
					bs, e := w.sync.LocateBlocks(hashPtrs(w, list), &stopHash, func() bool { calls++; return tAt > 0 && calls >= tAt })
					err = e
					for _, b := range bs {
						its = append(its, item{b.Height, b.Hash()})
					}
				}()
				w.judge(st, seq, j.kind, list, j.stopI, 0, protoMaxBlocks, tAt, its, err, pan, 0)
			}
		}
	case kWireHeaders, kWireBlocks:
		p := w.peers[worker]
		for _, list := range w.lists[:w.lists2] {
			skips := w.skips
			if j.kind == kWireBlocks {
				skips = []uint64{0}
			}
			for _, skip := range skips {
				seq++
				var its []item
				var err error
				var pan interface{}
				undecodable := ""
				p.sent = p.sent[:0]
				max := uint64(protoMaxHeaders)
				func() {
					defer func() { pan = recover() }()
					var bz []byte
					if j.kind == kWireHeaders {
						bz = wire.BinaryBytes(struct{ msgs.BlockchainMessage }{msgs.NewGetHeadersMessage(hashPtrs(w, list), &stopHash, skip)})
					} else {
						max = protoMaxBlocks
						bz = wire.BinaryBytes(struct{ msgs.BlockchainMessage }{msgs.NewGetBlocksMessage(hashPtrs(w, list), &stopHash)})
					}
					if e := w.sync.Receive(p, bz); e != nil {
						undecodable = fmt.Sprintf("%s request, encoded by the repository's own constructor, did not decode: %v", kindName[j.kind], e)
						return
					}
					for _, m := range p.sent {
						wrapped, ok := m.(struct{ msgs.BlockchainMessage })
						if !ok {
							ev.Fatal("unexpected message wrapper %T", m)
						}
						switch resp := wrapped.BlockchainMessage.(type) {
						case *msgs.HeadersMessage:
							hs, e := resp.GetHeaders()
							if e != nil {
								err = e
							}
							its = append(its, headerItems(hs)...)
						case *msgs.BlocksMessage:
							bs, e := resp.GetBlocks()
							if e != nil {
								err = e
							}
							for _, b := range bs {
								its = append(its, item{b.Height, b.Hash()})
							}
						default:
							ev.Fatal("unexpected response type %T", resp)
						}
					}
				}()
				if pan == nil && undecodable == "" && err != nil {
					undecodable = fmt.Sprintf("%s response did not decode: %v", kindName[j.kind], err)
				}
				if pan == nil && undecodable != "" {
					if st.capped == "" {
						st.capped = fmt.Sprintf("world %s, wire handlers: could not be set up: %s", w.Name, undecodable)
					}
					continue
				}
				w.judge(st, seq, j.kind, list, j.stopI, skip, max, 0, its, nil, pan, len(p.sent))
			}
		}
	}
}

func main() {
	run := ev.Start("C33", "exploration")
	netw := labnet.Setup(2, 2, 4)
	workers := runtime.NumCPU()
	if workers > 4 {
		workers = 4
	}
	if workers < 1 {
		workers = 1
	}

	var worlds []*world
	if run.Thorough() {
		loc := []int{1, 6, 40, 41, 69, 70}
		worlds = append(worlds,
			buildWorld(netw, "main70+side41-43(never-best)", 70, 40, false, loc, nil, true, workers),
			buildWorld(netw, "main70+side41-43(was-best,reorganised)", 70, 40, true, loc, nil, true, workers))
	} else {
		loc := []int{1, 6, 7, 12}
		worlds = append(worlds,
			buildWorld(netw, "main12+side7-9(never-best)", 12, 6, false, loc, nil, true, workers),
			buildWorld(netw, "main12+side7-9(was-best,reorganised)", 12, 6, true, loc, nil, true, workers),
			// the 64-item cap cannot bind on 12 blocks: a long chain for locateBlocks and the handlers only
			buildWorld(netw, "main70+side7-9(never-best),blocks+handlers-only", 70, 6, false, []int{1, 6, 7, 70}, []int{0, 1, 6, 7, 62, 63, 64, 65, 66, 69, 70}, false, workers))
	}

	if len(worldSkips) > 0 {
		run.Capped(strings.Join(worldSkips, "; "))
		kept := worlds[:0]
		for _, w := range worlds {
			if w != nil {
				kept = append(kept, w)
			}
		}
		worlds = kept
	}
	var jobs []job
	base := int64(0)
	for _, w := range worlds {
		for kind := 0; kind < 4; kind++ {
			if kind == kHeaders && !w.direct {
				continue
			}
			for si := range w.stops {
				jobs = append(jobs, job{w, kind, si, base})
				base += int64(len(w.lists) * len(w.skips) * len(maxNums)) // upper bound of the cases of one job
			}
		}
	}

	all := make([]*stats, workers)
	var wg sync.WaitGroup
	var mu sync.Mutex
	next := 0
	for wi := 0; wi < workers; wi++ {
		all[wi] = newStats()
		wg.Add(1)
		go func(wi int) {
			defer wg.Done()
			for {
				mu.Lock()
				ji := next
				next++
				mu.Unlock()
				if ji >= len(jobs) || run.OutOfTime() {
					return
				}
				jobs[ji].run(all[wi], wi)
			}
		}(wi)
	}
	wg.Wait()

	// merge (order-independent: counters add up, first case in enumeration order wins per key)
	tot := newStats()
	for _, st := range all {
		tot.evals += st.evals
		tot.nontrivial += st.nontrivial
		tot.ordered += st.ordered
		tot.unordered += st.unordered
		tot.overflow += st.overflow
		tot.capBound += st.capBound
		if st.maxItems > tot.maxItems {
			tot.maxItems = st.maxItems
		}
		for k := range st.perKind {
			tot.perKind[k] += st.perKind[k]
		}
		for k, v := range st.outcomes {
			tot.outcomes[k] += v
		}
		if st.capped != "" {
			run.Capped(st.capped)
		}
		for k, v := range st.viols {
			if old, ok := tot.viols[k]; !ok || v.seq < old.seq {
				tot.viols[k] = v
			}
		}
	}
	run.Set("evaluations", tot.evals)
	run.Set("distinct_nontrivial", tot.nontrivial)
	run.Set("rule", "requests = (chain state, call, locator list, stop, skip, max items / timeout mode); every request of the bound is issued once, so all are distinct; locator lists are ALL tuples of <= 3 entries (<= 2 through the wire handlers) over the locator alphabet, classified as protocol-built (heights of known entries strictly descending) or unordered; a request is counted non-trivial when its response holds >= 2 items (the start was located and the skip/stop loop ran)")
	for k, n := range tot.perKind {
		run.Set("requests_"+kindName[k], n)
	}
	run.Set("requests_with_descending_locator", tot.ordered)
	run.Set("requests_with_unordered_locator", tot.unordered)
	run.Set("requests_whose_uint64_step_overflows", tot.overflow)
	run.Set("requests_where_max_items_binds", tot.capBound)
	run.Set("longest_response_items", tot.maxItems)
	var wn []string
	for _, w := range worlds {
		var ln, sn []string
		for _, e := range w.locEnts {
			ln = append(ln, e.Name)
		}
		for _, e := range w.stops {
			sn = append(sn, e.Name)
		}
		wn = append(wn, fmt.Sprintf("%s: locator alphabet %v, %d lists; %d stops %s..%s; skips %v", w.Name, ln, len(w.lists), len(sn), sn[0], sn[len(sn)-1], w.skips))
	}
	run.Set("chain_states", wn)
	run.Set("max_items_values", maxNums)
	mb, mh := chainmgr.VerifSyncMaxima()
	run.Set("protocol_maxima_in_code(blocks,headers)", []uint64{mb, mh})
	var oks []string
	for k, n := range tot.outcomes {
		oks = append(oks, k)
		for i := 0; i < n; i++ {
			run.Outcome(k)
		}
	}
	// samples: one per (call, outcome class), the first in enumeration order
	samp := map[string]sample{}
	for _, st := range all {
		for k, v := range st.samples {
			if old, ok := samp[k]; !ok || v.seq < old.seq {
				samp[k] = v
			}
		}
	}
	var sk []string
	for k := range samp {
		sk = append(sk, k)
	}
	sort.Strings(sk)
	// prefer variety: round-robin over the calls
	for _, pref := range []string{"reached-stop", "capped-by-max", "cut-by-timeout", "unknown-stop", "stop-below-start", "stop-off-main-chain", "start-is-stop"} {
		for _, k := range sk {
			if strings.HasSuffix(k, "/"+pref) {
				run.Sample(samp[k].c)
			}
		}
	}
	var vk []string
	for k := range tot.viols {
		vk = append(vk, k)
	}
	sort.Strings(vk)
	for _, k := range vk {
		v := tot.viols[k]
		run.Violation(v.key, v.what, v.c)
	}
	run.Assume("the chain states are built by the real ProcessBlock from labnet blocks (E=2, 4 federation validators, no votes); that the node's main chain is the factory's longer chain and that Chain.InMainChain agrees with the parent walk from the best block is asserted at start (its correctness under reorganisation is C11's subject)")
	run.Assume("requests are answered one at a time per peer; the chain does not change while a request is answered")
	run.Assume("maxNum = 0 is not a value the code ever passes (constants 64 and 1000) and is not enumerated; the byte-size cut of handleGetBlocksMsg (11 MB) never binds on lab blocks; the handler's 9 s wall-clock cut may shorten a blocks response, any non-empty prefix of the reference is accepted there")
	run.Finish()
}
