// C27: built and signed wallet transactions are valid and pay as requested.
//
// Enumerates every action list of <= 2 (quick) / <= 3 (thorough) actions over the concrete
// alphabet in alphabet.go, keeps the lists that are balanced by an independent arithmetic
// predicate ("the wallet can fund": every non-BTM asset balances, the BTM margin is exactly one
// or two fee units), and for every such list every combination of funding-set shape per spent
// source x placement of the funding outputs (confirmed / unconfirmed / both) x signer choice
// runs the real pipeline: JSON action decoders -> account.MergeSpendAction -> txbuilder.Build ->
// txbuilder.Sign (once per signer) -> validation.ValidateTx at the next height. The oracle
// (oracle.go) is plain arithmetic over the transaction's inputs and outputs.
//
// Second part (chain.go): the chain-transaction path (the real handler API.buildTxs of build-chain-transactions: SpendAccountChain /
// buildBtmTxChain). Enumerated: how many BTM outputs the account holds and on which of its external and
// change addresses every one of them sits; every transaction of the built chain is signed and validated.
package main

import (
	"errors"
	"fmt"
	"os"
	"runtime"
	"sort"
	"sync"

	"verif/lib/ev"
)

func main() {
	run := ev.Start("C27", "exploration")
	g, err := setupGlobal()
	if err != nil {
		var pe *os.PathError
		if errors.As(err, &pe) {
			ev.Fatal("setup: %v", err)
		}
		// the lab chain, key store, mnemonic and address functions are not what the statement is about
		run.Capped(fmt.Sprintf("world: could not be set up: %v", err))
		run.Finish()
	}
	cleanup := func() { os.RemoveAll(g.hsmDir) } // run.Finish exits the process, so no defer

	maxLen := run.Pick(2, 3)
	lists, stats := enumerateLists(maxLen)
	cases := expandCases(run, lists)
	run.Set("action_alphabet", len(alphabet()))
	run.Set("max_actions", maxLen)
	run.Set("action_lists_enumerated", stats.total)
	run.Set("action_lists_in_domain", len(lists))
	run.Set("action_lists_out_of_domain", stats.reasons)
	chain, chainFamilies := chainCases(run)

	workers := runtime.NumCPU()
	if workers > 6 {
		workers = 6
	}
	worlds := make([]*world, workers)
	for i := range worlds {
		w, err := newWorld(g, i)
		if err != nil {
			// account / address creation by the repository's account manager failed: nothing to fund
			os.RemoveAll(g.hsmDir)
			run.Capped(fmt.Sprintf("wallet: could not be set up: %v", err))
			run.Finish()
		}
		worlds[i] = w
	}

	results := make([]*caseResult, len(cases))
	chainResults := make([]*caseResult, len(chain))
	var wg sync.WaitGroup
	var mu sync.Mutex
	next := 0
	for _, w := range worlds {
		wg.Add(1)
		go func(w *world) {
			defer wg.Done()
			for {
				mu.Lock()
				i := next
				next++
				mu.Unlock()
				if i >= len(cases)+len(chain) {
					return
				}
				if i%32 == 0 && run.OutOfTime() {
					return
				}
				// the chain-transaction cases come first: they are the smaller part
				if i < len(chain) {
					chainResults[i] = w.runChain(chain[i])
				} else {
					results[i-len(chain)] = w.runCase(cases[i-len(chain)], false)
				}
			}
		}(w)
	}
	wg.Wait()

	// merge in case order (deterministic)
	nontrivial := map[string]bool{}
	shapeCount := map[string]int{}
	outcomeCount := map[string]int{}
	sampledShape := map[string]bool{}
	done := 0
	for i, r := range results {
		if r == nil {
			continue
		}
		done++
		run.Add("evaluations", 1)
		run.Add("signatures_made", r.Sigs)
		if r.Nontrivial {
			nontrivial[cases[i].id()] = true
		}
		shapeCount[cases[i].shape()]++
		outcomeCount[r.Outcome]++
		if r.Outcome != "" && !sampledShape[r.Outcome] && len(r.Viols) == 0 {
			sampledShape[r.Outcome] = true
			run.Sample(map[string]interface{}{"case": cases[i].describe(), "outcome": r.Outcome, "tx": r.Summary})
		}
		for _, v := range r.Viols {
			run.Violation(v.Key, v.What+" | "+cases[i].String(), map[string]interface{}{"case": cases[i].describe(), "tx": r.Summary, "detail": v.Detail})
		}
	}
	chainDone := 0
	chainOutcomes := map[string]int{}
	chainLevels := map[string]bool{}
	for i, r := range chainResults {
		if r == nil {
			continue
		}
		chainDone++
		run.Add("evaluations", 1)
		run.Add("signatures_made", r.Sigs)
		if r.Nontrivial {
			nontrivial[chain[i].String()] = true
		}
		outcomeCount[r.Outcome]++
		chainOutcomes[r.Outcome]++
		if r.Outcome != "" && !chainLevels[r.Outcome] && len(r.Viols) == 0 && len(chainLevels) < 4 {
			chainLevels[r.Outcome] = true
			run.Sample(map[string]interface{}{"case": chain[i].describe(), "outcome": r.Outcome, "tx": r.Summary})
		}
		for _, v := range r.Viols {
			run.Violation(v.Key, v.What+" | "+chain[i].String(), map[string]interface{}{"case": chain[i].describe(), "tx": r.Summary, "detail": v.Detail})
		}
	}
	run.Set("chain_cases", len(chain))
	run.Set("chain_cases_run", chainDone)
	run.Set("chain_layouts_per_family", chainFamilies)
	run.Set("chain_outcome_counts", chainOutcomes)
	if done < len(cases) || chainDone < len(chain) {
		run.Capped(fmt.Sprintf("time budget: %d of %d action-list cases and %d of %d chain cases run", done, len(cases), chainDone, len(chain)))
	}
	ocs := make([]string, 0, len(outcomeCount))
	for k := range outcomeCount {
		ocs = append(ocs, k)
	}
	sort.Strings(ocs)
	for _, k := range ocs {
		run.Outcome(k)
	}
	run.Set("outcome_counts", outcomeCount)
	run.Set("cases_per_list_shape", shapeCount)
	run.Set("distinct_list_shapes", len(shapeCount))
	run.Set("cases", len(cases))
	run.Set("distinct_nontrivial", len(nontrivial))
	run.Set("rule", "two case families. (1) case = (ordered action list, funding-set shape per spent (account, asset/vote) source, placement of the funding outputs + use_unconfirmed flag, which keys sign); lists are ALL sequences of <= max_actions alphabet entries that pass the balance predicate; such a case is non-trivial when the built transaction has >= 2 inputs or at least one change output (selection or change arithmetic was exercised). (2) chain case = (account, number n of BTM outputs with strictly descending amounts, the address of EVERY output, spend mode, placement, signer pair) sent as a JSON request to the real handler API.buildTxs (POST /build-chain-transactions): ALL address assignments over {ext/1, ext/2, chg/1, chg/2} for n <= 3 (thorough 5), ALL assignments over {ext/1, chg/1} up to n = 6 (thorough 10), and for n = 14 (thorough 12..26, three merge levels from 14 on) one branch with at most one output on the other branch in every position; spend modes: all outputs needed with change (every layout, both accounts), all outputs needed exactly and about half of the outputs needed (quick: 1-of-1 account and n <= 5; thorough: all non-deep layouts, both accounts); n = 2 also unconfirmed-only and every 2-of-3 signer pair; plus requests with BTM spend_account actions of BOTH accounts in both request orders x every pair of per-account layouts out of {every {ext/1, chg/1} assignment of 1..2 (thorough 3) outputs, 6 alternating outputs, thorough: 14 alternating outputs} (one output = that account needs no merge transaction); a chain case is non-trivial when at least one merge transaction was built")

	// the real pseudo-HSM (scrypt on every XSign) on a few templates per account kind: byte-identical witnesses
	hsmCompare(run, g, worlds[0], cases)

	run.Assume("C27: wallet outputs are synthetic (outputs of an unconfirmed funding transaction written to the wallet database exactly as the wallet's own indexer writes them); consensus acceptance is validation.ValidateTx at best height + 1, i.e. without the chain's UTXO-existence check; the oracle instead checks that every input spends a mature wallet output of the right account exactly once")
	run.Assume("C27: the enumeration signs through a SignFunc over the same keys held in memory (derive + Sign, password checked like the HSM); the real HSM.XSign is run on a few templates per account kind and must give byte-identical transactions")
	run.Assume("C27: the account's programs are the ones account.Manager.CreateAddress returned; external recipient programs are built byte-by-byte from the key hash")
	run.Assume("C27: lists in which a generic spend of an (account, asset) precedes a spend of a particular output of the same (account, asset) are outside the domain (the generic reservation may legitimately take that output first)")
	run.Assume("C27: the chain path is driven through the real handler API.buildTxs (exported by hooks/api/zz_verif_c27.go; package api builds in the verification build because two empty dashboard files are replaced by overlay stubs); the request is JSON text read with httpjson.Read as the server reads a body; chain requests carry one or two BTM spend_account actions (different accounts) and one control_address action; every input of a returned transaction must spend a wallet output or an output of an EARLIER RETURNED transaction; consensus acceptance of every transaction is validation.ValidateTx")
	run.Assume("C27: one reservation per source: spend_account actions of one account and asset are merged by MergeSpendAction; two veto actions on one account are not merged and are outside the domain (the second reservation can be refused with 'already reserved' although the sum is funded)")
	cleanup()
	run.Finish()
}
