// C27: built and signed wallet transactions are valid and pay as requested.
//
// Enumerates every action list of <= 2 (quick) / <= 3 (thorough) actions over the concrete
// alphabet in alphabet.go, keeps the lists that are balanced by an independent arithmetic
// predicate ("the wallet can fund": every non-BTM asset balances, the BTM margin is exactly one
// or two fee units), and for every such list every combination of funding-set shape per spent
// source x placement of the funding outputs (confirmed / unconfirmed / both) x signer choice
// runs the real pipeline: JSON action decoders -> account.MergeSpendAction -> txbuilder.Build ->
// txbuilder.Sign (once per signer) -> validation.ValidateTx at the next height. The oracle
// (oracle.go) is plain arithmetic over the transaction's inputs and outputs.
package main

import (
	"fmt"
	"os"
	"runtime"
	"sort"
	"sync"

	"verif/lib/ev"
)

func main() {
	run := ev.Start("C27", "exploration")
	g, err := setupGlobal()
	if err != nil {
		ev.Fatal("setup: %v", err)
	}
	cleanup := func() { os.RemoveAll(g.hsmDir) } // run.Finish exits the process, so no defer

	maxLen := run.Pick(2, 3)
	lists, stats := enumerateLists(maxLen)
	cases := expandCases(run, lists)
	run.Set("action_alphabet", len(alphabet()))
	run.Set("max_actions", maxLen)
	run.Set("action_lists_enumerated", stats.total)
	run.Set("action_lists_in_domain", len(lists))
	run.Set("action_lists_out_of_domain", stats.reasons)

	workers := runtime.NumCPU()
	if workers > 6 {
		workers = 6
	}
	worlds := make([]*world, workers)
	for i := range worlds {
		w, err := newWorld(g, i)
		if err != nil {
			ev.Fatal("wallet setup: %v", err)
		}
		worlds[i] = w
	}

	results := make([]*caseResult, len(cases))
	var wg sync.WaitGroup
	var mu sync.Mutex
	next := 0
	for _, w := range worlds {
		wg.Add(1)
		go func(w *world) {
			defer wg.Done()
			for {
				mu.Lock()
				i := next
				next++
				mu.Unlock()
				if i >= len(cases) {
					return
				}
				if i%32 == 0 && run.OutOfTime() {
					return
				}
				results[i] = w.runCase(cases[i], false)
			}
		}(w)
	}
	wg.Wait()

	// merge in case order (deterministic)
	nontrivial := map[string]bool{}
	shapeCount := map[string]int{}
	outcomeCount := map[string]int{}
	sampledShape := map[string]bool{}
	done := 0
	for i, r := range results {
		if r == nil {
			continue
		}
		done++
		run.Add("evaluations", 1)
		run.Add("signatures_made", r.Sigs)
		if r.Nontrivial {
			nontrivial[cases[i].id()] = true
		}
		shapeCount[cases[i].shape()]++
		outcomeCount[r.Outcome]++
		if r.Outcome != "" && !sampledShape[r.Outcome] && len(r.Viols) == 0 {
			sampledShape[r.Outcome] = true
			run.Sample(map[string]interface{}{"case": cases[i].describe(), "outcome": r.Outcome, "tx": r.Summary})
		}
		for _, v := range r.Viols {
			run.Violation(v.Key, v.What+" | "+cases[i].String(), map[string]interface{}{"case": cases[i].describe(), "tx": r.Summary, "detail": v.Detail})
		}
	}
	if done < len(cases) {
		run.Capped(fmt.Sprintf("time budget: %d of %d cases run", done, len(cases)))
	}
	ocs := make([]string, 0, len(outcomeCount))
	for k := range outcomeCount {
		ocs = append(ocs, k)
	}
	sort.Strings(ocs)
	for _, k := range ocs {
		run.Outcome(k)
	}
	run.Set("outcome_counts", outcomeCount)
	run.Set("cases_per_list_shape", shapeCount)
	run.Set("distinct_list_shapes", len(shapeCount))
	run.Set("cases", len(cases))
	run.Set("distinct_nontrivial", len(nontrivial))
	run.Set("rule", "case = (ordered action list, funding-set shape per spent (account, asset/vote) source, placement of the funding outputs + use_unconfirmed flag, which keys sign); lists are ALL sequences of <= max_actions alphabet entries that pass the balance predicate; a case is non-trivial when the built transaction has >= 2 inputs or at least one change output (selection or change arithmetic was exercised)")

	// the real pseudo-HSM (scrypt on every XSign) on a few templates per account kind: byte-identical witnesses
	hsmCompare(run, g, worlds[0], cases)

	run.Assume("C27: wallet outputs are synthetic (outputs of an unconfirmed funding transaction written to the wallet database exactly as the wallet's own indexer writes them); consensus acceptance is validation.ValidateTx at best height + 1, i.e. without the chain's UTXO-existence check; the oracle instead checks that every input spends a mature wallet output of the right account exactly once")
	run.Assume("C27: the enumeration signs through a SignFunc over the same keys held in memory (derive + Sign, password checked like the HSM); the real HSM.XSign is run on a few templates per account kind and must give byte-identical transactions")
	run.Assume("C27: the account's programs are the ones account.Manager.CreateAddress returned; external recipient programs are built byte-by-byte from the key hash")
	run.Assume("C27: lists in which a generic spend of an (account, asset) precedes a spend of a particular output of the same (account, asset) are outside the domain (the generic reservation may legitimately take that output first)")
	run.Assume("C27: one reservation per source: spend_account actions of one account and asset are merged by MergeSpendAction; two veto actions on one account are not merged and are outside the domain (the second reservation can be refused with 'already reserved' although the sum is funded)")
	cleanup()
	run.Finish()
}
