package main

import (
	"fmt"
	"strings"

	"verif/lib/ev"
)

// amounts. BTM amounts are in neu; one fee unit buys 100 000 gas, far more than any enumerated
// transaction needs, so "balanced with margin >= one fee unit" means "the wallet can fund it".
const (
	unitB = uint64(700_000_000) // 7 BTM: one seventh is still >= the minimum vote amount
	feeF  = uint64(20_000_000)  // 0.2 BTM
)

// action kinds
const (
	kSpendBTM = iota
	kSpendX
	kSpendUTXOBTM // spend_account_unspent_output of a BTM output
	kSpendUTXOX   // spend_account_unspent_output of an asset-X output
	kVeto
	kCtrlAddr
	kCtrlProg
	kRetire
	kVote
)

var kindName = []string{"spend-btm", "spend-x", "spend-utxo-btm", "spend-utxo-x", "veto", "control-address", "control-program", "retire", "vote"}

// assets
const (
	assetBTM = 0
	assetX   = 1
)

// destinations of control_address
const (
	destExternal = 0 // P2WPKH of an outside key
	destSingle   = 1 // first receive address of the 1-of-1 account
	destMulti    = 2 // first receive address of the 2-of-3 account (P2WSH)
)

var destName = []string{"external", "acct-single", "acct-multi"}

// account kinds
const (
	acctSingle = 0
	acctMulti  = 1
)

var acctName = []string{"single(1-of-1)", "multi(2-of-3)"}

// particular outputs
const (
	particularBTM = feeF + unitB
	particularX   = uint64(7)
)

type action struct {
	Kind   int    `json:"kind"`
	Acct   int    `json:"acct"`
	Asset  int    `json:"asset"`
	Amount uint64 `json:"amount"`
	Dest   int    `json:"dest"`
}

func (a action) isInput() bool { return a.Kind <= kVeto }

func (a action) String() string {
	switch a.Kind {
	case kSpendBTM, kSpendX, kVeto:
		return fmt.Sprintf("%s(%s,%d)", kindName[a.Kind], acctName[a.Acct], a.Amount)
	case kSpendUTXOBTM, kSpendUTXOX:
		return fmt.Sprintf("%s(%s)", kindName[a.Kind], acctName[a.Acct])
	case kCtrlAddr:
		return fmt.Sprintf("%s(%s,%d,%s)", kindName[a.Kind], []string{"BTM", "X"}[a.Asset], a.Amount, destName[a.Dest])
	case kVote:
		return fmt.Sprintf("vote(%d)", a.Amount)
	}
	return fmt.Sprintf("%s(%s,%d)", kindName[a.Kind], []string{"BTM", "X"}[a.Asset], a.Amount)
}

// alphabet is the concrete action alphabet.
func alphabet() []action {
	var as []action
	for acct := 0; acct < 2; acct++ {
		for _, amt := range []uint64{feeF, feeF + unitB, feeF + 2*unitB, feeF + 3*unitB, unitB, 2 * unitB} {
			as = append(as, action{Kind: kSpendBTM, Acct: acct, Asset: assetBTM, Amount: amt})
		}
		for _, amt := range []uint64{7, 11} {
			as = append(as, action{Kind: kSpendX, Acct: acct, Asset: assetX, Amount: amt})
		}
		as = append(as, action{Kind: kSpendUTXOBTM, Acct: acct, Asset: assetBTM, Amount: particularBTM})
		as = append(as, action{Kind: kSpendUTXOX, Acct: acct, Asset: assetX, Amount: particularX})
		for _, amt := range []uint64{feeF + unitB, feeF + 2*unitB, unitB} {
			as = append(as, action{Kind: kVeto, Acct: acct, Asset: assetBTM, Amount: amt})
		}
	}
	outAmounts := [][]uint64{{unitB, 2 * unitB}, {7, 4}}
	for asset := 0; asset < 2; asset++ {
		for _, amt := range outAmounts[asset] {
			for dest := 0; dest < 3; dest++ {
				as = append(as, action{Kind: kCtrlAddr, Asset: asset, Amount: amt, Dest: dest})
			}
			as = append(as, action{Kind: kCtrlProg, Asset: asset, Amount: amt})
			as = append(as, action{Kind: kRetire, Asset: asset, Amount: amt})
		}
	}
	for _, amt := range []uint64{unitB, 2 * unitB} {
		as = append(as, action{Kind: kVote, Asset: assetBTM, Amount: amt})
	}
	return as
}

type listStats struct {
	total   int
	reasons map[string]int
}

// inDomain is the "wallet can fund and the request balances" predicate (plain arithmetic).
func inDomain(list []action) (bool, string) {
	var in, out [2]uint64
	nIn, nOut := 0, 0
	particular := map[[2]int]int{}
	genericSeen := map[[2]int]bool{}
	vetoes := map[int]int{}
	for _, a := range list {
		if a.Kind == kVeto {
			// veto actions are not merged by MergeSpendAction: two of them on one account reserve
			// independently and compete for the same outputs (the second one can be refused although
			// the sum is funded) - one reservation per source is part of the domain
			if vetoes[a.Acct]++; vetoes[a.Acct] > 1 {
				return false, "two veto actions on one account"
			}
		}
		if a.isInput() {
			nIn++
			in[a.Asset] += a.Amount
		} else {
			nOut++
			out[a.Asset] += a.Amount
		}
		switch a.Kind {
		case kSpendBTM, kSpendX:
			genericSeen[[2]int{a.Acct, a.Asset}] = true
		case kSpendUTXOBTM, kSpendUTXOX:
			k := [2]int{a.Acct, a.Asset}
			particular[k]++
			if particular[k] > 1 {
				return false, "same particular output twice"
			}
			if genericSeen[k] {
				return false, "generic spend before particular output of the same source"
			}
		}
	}
	if nIn == 0 {
		return false, "no input action"
	}
	if nOut == 0 {
		return false, "no output action"
	}
	if in[assetX] != out[assetX] {
		return false, "asset X does not balance"
	}
	if in[assetBTM] < out[assetBTM] {
		return false, "BTM outputs exceed BTM inputs"
	}
	if m := in[assetBTM] - out[assetBTM]; m != feeF && m != 2*feeF {
		return false, "BTM margin is not one or two fee units"
	}
	return true, ""
}

// enumerateLists returns every in-domain sequence of 1..maxLen alphabet entries.
func enumerateLists(maxLen int) ([][]action, listStats) {
	al := alphabet()
	st := listStats{reasons: map[string]int{}}
	var lists [][]action
	var rec func(cur []action)
	rec = func(cur []action) {
		if len(cur) > 0 {
			st.total++
			if ok, why := inDomain(cur); ok {
				lists = append(lists, append([]action{}, cur...))
			} else {
				st.reasons[why]++
			}
		}
		if len(cur) == maxLen {
			return
		}
		for _, a := range al {
			rec(append(cur, a))
		}
	}
	rec(nil)
	return lists, st
}

// source classes of an account's outputs
const (
	srcBTM  = 0 // BTM without vote
	srcX    = 1
	srcVote = 2 // BTM locked by the vote key
)

var srcName = []string{"btm", "x", "vote"}

// funding-set shapes
const (
	fundExactOne = 0 // a single output of exactly the requested total
	fundExactTwo = 1 // two outputs summing exactly to the total
	fundChange   = 2 // one larger output: change needed
	fundMany     = 3 // eight small outputs, more than five needed
)

var fundName = []string{"exact-one", "exact-two", "change", "many-small"}

// placements
const (
	placeConfirmed       = 0 // wallet db, use_unconfirmed=false
	placeConfirmedFlag   = 1 // wallet db, use_unconfirmed=true
	placeUnconfirmedFlag = 2 // unconfirmed set only, use_unconfirmed=true
	placeBothFlag        = 3 // wallet db AND unconfirmed set, use_unconfirmed=true
)

var placeName = []string{"confirmed", "confirmed+use_unconfirmed", "unconfirmed+use_unconfirmed", "confirmed-and-unconfirmed+use_unconfirmed"}

// signer pairs of the 2-of-3 account (indices into its xpub list)
var signerPairs = [][2]int{{0, 1}, {0, 2}, {1, 2}}

type tcase struct {
	List    []action
	Fund    [2][3]int // funding shape per (account, source class); -1 = source not spent generically
	Place   int
	Signers int // index into signerPairs; -1 when the 2-of-3 account does not spend
}

// requested returns the generic total per (account, source class).
func requested(list []action) (r [2][3]uint64) {
	for _, a := range list {
		switch a.Kind {
		case kSpendBTM:
			r[a.Acct][srcBTM] += a.Amount
		case kSpendX:
			r[a.Acct][srcX] += a.Amount
		case kVeto:
			r[a.Acct][srcVote] += a.Amount
		}
	}
	return
}

func spends(list []action, acct int) bool {
	for _, a := range list {
		if a.isInput() && a.Acct == acct {
			return true
		}
	}
	return false
}

func expandCases(run *ev.Run, lists [][]action) []tcase {
	var cases []tcase
	for _, l := range lists {
		req := requested(l)
		var srcs [][2]int
		for a := 0; a < 2; a++ {
			for s := 0; s < 3; s++ {
				if req[a][s] > 0 {
					srcs = append(srcs, [2]int{a, s})
				}
			}
		}
		nf := 1
		for range srcs {
			nf *= 4
		}
		signerChoices := []int{-1}
		if spends(l, acctMulti) {
			signerChoices = []int{0, 1, 2}
		}
		places := []int{placeConfirmed, placeConfirmedFlag, placeUnconfirmedFlag, placeBothFlag}
		if len(l) >= 3 {
			// three-action lists: the two pure placements and the signer pairs {0,1} and {1,2}
			// (every key signs, in first and in last position); lists of <= 2 actions get everything
			places = []int{placeConfirmed, placeUnconfirmedFlag}
			if spends(l, acctMulti) {
				signerChoices = []int{0, 2}
			}
		}
		for f := 0; f < nf; f++ {
			var fund [2][3]int
			for a := 0; a < 2; a++ {
				for s := 0; s < 3; s++ {
					fund[a][s] = -1
				}
			}
			x := f
			for _, s := range srcs {
				fund[s[0]][s[1]] = x % 4
				x /= 4
			}
			for _, place := range places {
				for _, sg := range signerChoices {
					cases = append(cases, tcase{List: l, Fund: fund, Place: place, Signers: sg})
				}
			}
		}
	}
	return cases
}

func (c tcase) shape() string {
	ks := make([]string, len(c.List))
	for i, a := range c.List {
		ks[i] = kindName[a.Kind]
		if a.isInput() {
			ks[i] += ":" + []string{"s", "m"}[a.Acct]
		}
	}
	return strings.Join(ks, ",")
}

func (c tcase) fundString() string {
	var fs []string
	for a := 0; a < 2; a++ {
		for s := 0; s < 3; s++ {
			if c.Fund[a][s] >= 0 {
				fs = append(fs, fmt.Sprintf("%s/%s=%s", []string{"single", "multi"}[a], srcName[s], fundName[c.Fund[a][s]]))
			}
		}
	}
	return strings.Join(fs, " ")
}

func (c tcase) String() string {
	as := make([]string, len(c.List))
	for i, a := range c.List {
		as[i] = a.String()
	}
	sg := "-"
	if c.Signers >= 0 {
		sg = fmt.Sprint(signerPairs[c.Signers])
	}
	return fmt.Sprintf("actions [%s] funding {%s} placement %s multisig-signers %s", strings.Join(as, ", "), c.fundString(), placeName[c.Place], sg)
}

func (c tcase) id() string { return c.String() }

func (c tcase) describe() map[string]interface{} {
	as := make([]string, len(c.List))
	for i, a := range c.List {
		as[i] = a.String()
	}
	d := map[string]interface{}{"actions": as, "funding": c.fundString(), "placement": placeName[c.Place]}
	if c.Signers >= 0 {
		d["multisig_signers"] = signerPairs[c.Signers]
	}
	return d
}
