package main

// The chain-transaction path of the wallet (POST /build-chain-transactions, driven through the real handler
// API.buildTxs via hooks/api/zz_verif_c27.go): a spend_account action of
// BTM is funded by account.SpendAccountChain, which reserves as many outputs as the amount plus the merge
// gas needs, merges them in batches of at most five per transaction (buildBtmTxChain) and hands the one
// merged output to the final transaction. The enumerated dimension is the LAYOUT of the account's BTM
// outputs: how many there are and on which of the account's addresses (two external, two change) every
// one of them sits, for every position of the merge batches.

import (
	"bytes"
	"context"
	"encoding/hex"
	"encoding/json"
	"fmt"
	"strings"

	"github.com/bytom/bytom/api"
	"github.com/bytom/bytom/blockchain/txbuilder"
	"github.com/bytom/bytom/consensus"
	"github.com/bytom/bytom/crypto"
	"github.com/bytom/bytom/errors"
	"github.com/bytom/bytom/net/http/httpjson"
	"github.com/bytom/bytom/protocol/bc"
	"github.com/bytom/bytom/protocol/bc/types"
	"github.com/bytom/bytom/protocol/validation"

	"verif/lib/ev"
)

// reference constants of the chain path (the documented values, not read from the repository)
const (
	chainMaxInputs = 5                 // inputs one merge transaction may carry
	chainMergeFee  = uint64(6_000_000) // 0.06 BTM paid by every merge transaction
	chainBase      = uint64(300_000_000)
	chainStep      = uint64(1_000_000)
	chainDust      = uint64(12_345) // change of the final transaction in the "change" mode
)

// addresses an output can sit on: indices into world.progs[acct]
var chainAddrs = []int{0, 1, 3, 4}
var chainAddrName = map[int]string{0: "ext/1", 1: "ext/2", 3: "chg/1", 4: "chg/2"}

// how much of the account's BTM the payment needs
const (
	chainAllExact  = 0 // every output is needed, the merged output equals the spent amount (no change)
	chainAllChange = 1 // every output is needed, a small change output is left
	chainPartial   = 2 // about half of the outputs are enough (the keeper's replacement pass chooses)
)

var chainModeName = []string{"all-outputs-exact", "all-outputs-with-change", "part-of-the-outputs"}

// cspend is one spend_account action of a chain request together with the BTM outputs its account holds.
type cspend struct {
	Acct  int
	Addrs []int // address of output i; output 0 has the largest amount, amounts strictly descending
	Mode  int
}

// ccase is one /build-chain-transactions request: the spends in request order, then one control_address.
type ccase struct {
	Spends  []cspend
	Place   int
	Signers int // signer pair of the 2-of-3 account, -1 when it does not spend
	Family  string
}

func (c cspend) amounts() []uint64 {
	n := len(c.Addrs)
	out := make([]uint64, n)
	for i := range out {
		out[i] = chainBase + uint64(n-1-i)*chainStep
	}
	return out
}

// mergeTxs is the number of merge transactions n outputs need when at most five go into one.
func mergeTxs(n int) int {
	t := 0
	for n > 1 {
		t++
		n -= chainMaxInputs - 1
	}
	return t
}

// spendAmount is the amount of the spend_account action.
func (c cspend) spendAmount() uint64 {
	am := c.amounts()
	sum := func(k int) (s uint64) {
		for _, a := range am[:k] {
			s += a
		}
		return
	}
	n := len(am)
	switch c.Mode {
	case chainAllExact:
		return sum(n) - uint64(mergeTxs(n))*chainMergeFee
	case chainAllChange:
		return sum(n) - uint64(mergeTxs(n))*chainMergeFee - chainDust
	}
	k := (n + 1) / 2
	return sum(k) - uint64(mergeTxs(k))*chainMergeFee - chainDust
}

func (c cspend) layout() string {
	parts := make([]string, len(c.Addrs))
	for i, a := range c.Addrs {
		parts[i] = chainAddrName[a]
	}
	return strings.Join(parts, " ")
}

// pay is the amount of the control_address action: everything spent minus one fee unit.
func (c ccase) pay() uint64 {
	var t uint64
	for _, s := range c.Spends {
		t += s.spendAmount()
	}
	return t - feeF
}

func (c ccase) String() string {
	sg := "-"
	if c.Signers >= 0 {
		sg = fmt.Sprint(signerPairs[c.Signers])
	}
	var sp []string
	for _, s := range c.Spends {
		sp = append(sp, fmt.Sprintf("spend_account(%s, BTM, %d) [account holds %d BTM outputs (largest first) on addresses [%s], %s]", acctName[s.Acct], s.spendAmount(), len(s.Addrs), s.layout(), chainModeName[s.Mode]))
	}
	return fmt.Sprintf("build-chain-transactions request: %s, control_address(BTM, %d, external); placement %s, multisig-signers %s",
		strings.Join(sp, ", "), c.pay(), placeName[c.Place], sg)
}

func (c ccase) describe() map[string]interface{} {
	var sp []map[string]interface{}
	for _, s := range c.Spends {
		sp = append(sp, map[string]interface{}{"account": acctName[s.Acct], "output_amounts": s.amounts(), "output_addresses": s.layout(), "spend_amount": s.spendAmount(), "mode": chainModeName[s.Mode]})
	}
	d := map[string]interface{}{"path": "API.buildTxs", "spends_in_request_order": sp, "control_address_amount": c.pay(), "placement": placeName[c.Place], "family": c.Family}
	if c.Signers >= 0 {
		d["multisig_signers"] = signerPairs[c.Signers]
	}
	return d
}

// chainCases enumerates the requests.
//
// One spending account:
//
//	family "4addr": every assignment of {ext/1, ext/2, chg/1, chg/2} to n outputs, n = 2..nFour
//	family "2addr": every assignment of {ext/1, chg/1} to n outputs, n = nFour+1..nTwo
//	family "deep":  n = deepFrom..deepTo outputs (14 and more give three merge levels), all on one branch
//	                except at most one output, for every position of that output and both branches
//
// Every layout is run for both accounts in the mode "all outputs needed, change left" on confirmed outputs.
// The other two spend modes are added for the 1-of-1 account on layouts of <= 5 outputs (quick) / for both
// accounts on every non-deep layout (thorough). Layouts of two outputs are also run on unconfirmed-only
// outputs and with every signer pair of the 2-of-3 account. Quick runs the deep family for the 1-of-1
// account only.
//
// Two spending accounts in one request (family "two-accounts"): both request orders x every pair of
// per-account layouts out of: every assignment of {ext/1, chg/1} to n = 1..twoMax outputs (one output = the
// account needs no merge transaction), the alternating layout of 6 outputs (two merge transactions) and,
// thorough, of 14 outputs (three merge levels).
func chainCases(run *ev.Run) ([]ccase, map[string]int) {
	nFour := run.Pick(3, 5)
	nTwo := run.Pick(6, 10)
	deepFrom, deepTo := run.Pick(14, 12), run.Pick(14, 26)
	deepAccts := run.Pick(1, 2)
	var cases []ccase
	fam := map[string]int{}
	emit := func(family string, addrs []int, accts int) {
		fam[family]++
		for a := 0; a < accts; a++ {
			modes := []int{chainAllChange}
			if family != "deep" && (run.Thorough() || (a == acctSingle && len(addrs) <= 5)) {
				modes = []int{chainAllExact, chainAllChange, chainPartial}
			}
			for _, mode := range modes {
				signerChoices := []int{-1}
				if a == acctMulti {
					signerChoices = []int{0}
					if len(addrs) <= 2 && mode == chainAllChange {
						signerChoices = []int{0, 1, 2}
					}
				}
				places := []int{placeConfirmed}
				if len(addrs) <= 2 && mode == chainAllChange {
					places = []int{placeConfirmed, placeUnconfirmedFlag}
				}
				for _, pl := range places {
					for _, sg := range signerChoices {
						cases = append(cases, ccase{Spends: []cspend{{Acct: a, Addrs: append([]int{}, addrs...), Mode: mode}}, Place: pl, Signers: sg, Family: family})
					}
				}
			}
		}
	}
	var rec func(alpha []int, cur []int, n int, f func([]int))
	rec = func(alpha []int, cur []int, n int, f func([]int)) {
		if len(cur) == n {
			f(append([]int{}, cur...))
			return
		}
		for _, a := range alpha {
			rec(alpha, append(cur, a), n, f)
		}
	}
	for n := 2; n <= nFour; n++ {
		rec(chainAddrs, nil, n, func(l []int) { emit("4addr", l, 2) })
	}
	for n := nFour + 1; n <= nTwo; n++ {
		rec([]int{0, 3}, nil, n, func(l []int) { emit("2addr", l, 2) })
	}
	for n := deepFrom; n <= deepTo; n++ {
		for _, base := range []int{0, 3} {
			other := 3 - base
			for odd := -1; odd < n; odd++ {
				addrs := make([]int, n)
				for i := range addrs {
					addrs[i] = base
				}
				if odd >= 0 {
					addrs[odd] = other
				}
				emit("deep", addrs, deepAccts)
			}
		}
	}

	// two spending accounts
	var layouts [][]int
	for n := 1; n <= run.Pick(2, 3); n++ {
		rec([]int{0, 3}, nil, n, func(l []int) { layouts = append(layouts, l) })
	}
	alternating := func(n int) []int {
		l := make([]int, n)
		for i := range l {
			l[i] = []int{0, 3}[i%2]
		}
		return l
	}
	layouts = append(layouts, alternating(6))
	if run.Thorough() {
		layouts = append(layouts, alternating(14))
	}
	for _, first := range []int{acctSingle, acctMulti} {
		for _, l1 := range layouts {
			for _, l2 := range layouts {
				fam["two-accounts"]++
				cases = append(cases, ccase{Spends: []cspend{{Acct: first, Addrs: l1, Mode: chainAllChange}, {Acct: 1 - first, Addrs: l2, Mode: chainAllChange}},
					Place: placeConfirmed, Signers: 0, Family: "two-accounts"})
			}
		}
	}
	return cases, fam
}

// witnessOpens is the reference recogniser for the two program forms the wallet uses: the last witness
// item must hash to the program (P2WPKH: RIPEMD160 of the public key, P2WSH: SHA3-256 of the script).
func witnessOpens(prog []byte, args [][]byte) (bool, string) {
	if len(args) == 0 {
		return false, "no witness"
	}
	last := args[len(args)-1]
	switch {
	case len(prog) == 22 && prog[0] == 0x00 && prog[1] == 0x14:
		if !bytes.Equal(crypto.Ripemd160(last), prog[2:]) {
			return false, "the public key in the witness does not hash to the P2WPKH program"
		}
	case len(prog) == 34 && prog[0] == 0x00 && prog[1] == 0x20:
		if !bytes.Equal(crypto.Sha256(last), prog[2:]) {
			return false, "the script in the witness does not hash to the P2WSH program"
		}
	default:
		return false, "program is neither P2WPKH nor P2WSH"
	}
	return true, ""
}

// runChain sends one request to the real handler of POST /build-chain-transactions (API.buildTxs), signs and
// validates every returned template in order and applies the oracle.
func (w *world) runChain(c ccase) (res *caseResult) {
	res = &caseResult{}
	stage := "funding"
	fail := func(key, what string, detail interface{}) {
		res.Viols = append(res.Viols, cviol{Key: key, What: what, Detail: detail})
	}
	defer func() {
		if r := recover(); r != nil {
			fail("chain-panic-in-"+stage, fmt.Sprint(r), nil)
		}
	}()

	var plan []planned
	spendAmt := map[int]uint64{}
	spendOf := map[int]cspend{}
	for _, s := range c.Spends {
		for i, amt := range s.amounts() {
			plan = append(plan, planned{wutxo: wutxo{Acct: s.Acct, Src: srcBTM, Amount: amt, Mature: true}, addr: s.Addrs[i]})
		}
		plan = append(plan, planned{wutxo: wutxo{Acct: s.Acct, Src: srcBTM, Amount: 50 * unitB, Mature: false}, immature: true, addr: 2})
		spendAmt[s.Acct] = s.spendAmount()
		spendOf[s.Acct] = s
	}
	if err := w.install(plan, c.Place); err != nil {
		ev.Fatal("funding: %v", err)
	}
	pay := c.pay()

	// ---- the request as a client sends it: JSON text, read the way the API server reads a body
	btm := consensus.BTMAssetID.String()
	var acts []map[string]interface{}
	for _, s := range c.Spends {
		acts = append(acts, map[string]interface{}{"type": "spend_account", "account_id": w.accts[s.Acct].ID, "asset_id": btm, "amount": s.spendAmount(), "use_unconfirmed": c.Place != placeConfirmed})
	}
	acts = append(acts, map[string]interface{}{"type": "control_address", "asset_id": btm, "amount": pay, "address": w.g.extAddr})
	body, err := json.Marshal(map[string]interface{}{"actions": acts})
	if err != nil {
		ev.Fatal("request: %v", err)
	}
	req := &api.BuildRequest{}
	if err := httpjson.Read(bytes.NewReader(body), req); err != nil {
		// the API server's own body reader on the JSON a client sends for a fundable request
		fail("chain-request-refused-by-body-reader", "httpjson.Read refuses a well-formed fundable chain request: "+err.Error(), string(body))
		return
	}

	stage = "build"
	ctx := context.Background()
	tpls, err := w.api.VerifBuildTxs(ctx, req)
	if err != nil {
		fail("chain-build-fails-"+slug(errors.Root(err).Error()), "API.buildTxs failed on a fundable chain request: "+err.Error(), string(body))
		return
	}
	if len(tpls) == 0 {
		fail("chain-build-returns-nothing", "API.buildTxs returned no template", string(body))
		return
	}
	last := tpls[len(tpls)-1]

	// ---- sign every template (as JSON copies too: the API returns the templates and takes them back)
	stage = "sign"
	var pws []string
	if _, ok := spendOf[acctSingle]; ok {
		pws = append(pws, w.g.keys[0].pw)
	}
	if _, ok := spendOf[acctMulti]; ok {
		p := signerPairs[c.Signers]
		pws = append(pws, w.g.keys[1+p[0]].pw, w.g.keys[1+p[1]].pw)
	}
	sign := w.g.memSign(&res.Sigs)
	for i, tpl := range tpls {
		raw, err := json.Marshal(tpl)
		if err != nil {
			fail("chain-template-not-serialisable", err.Error(), nil)
			return
		}
		for _, pw := range pws {
			if err := txbuilder.Sign(ctx, tpl, pw, sign); err != nil {
				fail("chain-sign-fails", fmt.Sprintf("txbuilder.Sign of transaction %d/%d: %v", i+1, len(tpls), err), nil)
				return
			}
		}
		if !txbuilder.SignProgress(tpl) {
			fail("chain-sign-incomplete", fmt.Sprintf("transaction %d/%d: all required keys signed but SignProgress reports missing signatures", i+1, len(tpls)), nil)
		}
		n := 0
		for _, pw := range pws {
			t, err := cloneTemplate(raw)
			if err != nil {
				fail("chain-template-json-unreadable", err.Error(), nil)
				break
			}
			if err := txbuilder.Sign(ctx, t, pw, w.g.memSign(&n)); err != nil {
				fail("chain-sign-fails-after-json", err.Error(), nil)
				break
			}
			if raw, err = json.Marshal(t); err != nil {
				fail("chain-template-not-serialisable", err.Error(), nil)
				break
			}
		}
		if t, err := cloneTemplate(raw); err == nil && txHex(t.Transaction) != txHex(tpl.Transaction) {
			fail("chain-json-flow-transaction-differs", fmt.Sprintf("transaction %d/%d: signing JSON copies of the template gives a different transaction", i+1, len(tpls)), nil)
		}
	}

	// ---- oracle over the returned transactions, in the order returned
	stage = "oracle"
	type prodOut struct {
		amount uint64
		prog   []byte
		tx     int
		acct   int
		spent  bool
	}
	produced := map[bc.Hash]*prodOut{}
	walletSpent := map[bc.Hash]bool{}
	walletSpentOf := map[int]int{}
	var walletIn, mergeFees, totalChange uint64
	unreturned := false
	blk := types.MapBlock(&types.Block{BlockHeader: types.BlockHeader{Version: 1, Height: w.g.height + 1}})
	txDesc := []string{}
	rejected := 0
	maxLevel := 0
	level := map[int]int{} // merge level of the output a transaction produces
	for ti, tpl := range tpls {
		tx := tpl.Transaction
		data, err := tx.TxData.MarshalText()
		if err != nil {
			fail("chain-tx-not-serialisable", err.Error(), nil)
			return
		}
		tx.TxData.SerializedSize = uint64(len(data) / 2)
		tx.Tx.SerializedSize = uint64(len(data) / 2)
		isFinal := ti == len(tpls)-1
		name := fmt.Sprintf("transaction %d/%d", ti+1, len(tpls))
		var in, out uint64
		inOf := map[int]uint64{}
		nMerged := 0
		ins := []string{}
		for i, inp := range tx.Inputs {
			id, err := inp.SpentOutputID()
			if err != nil {
				fail("chain-input-without-output-id", err.Error(), nil)
				continue
			}
			var amount uint64
			var prog []byte
			acct := -1
			kind := ""
			if rec := w.utxos[id]; rec != nil {
				if walletSpent[id] {
					fail("chain-input-spent-twice", fmt.Sprintf("%s input %d spends wallet output %s a second time", name, i, id.String()), nil)
					continue
				}
				walletSpent[id] = true
				walletSpentOf[rec.Acct]++
				if !rec.Mature {
					fail("chain-input-immature", fmt.Sprintf("%s input %d spends an immature output", name, i), nil)
				}
				if _, ok := spendOf[rec.Acct]; !ok || rec.Src != srcBTM {
					fail("chain-input-from-unrequested-source", fmt.Sprintf("%s input %d spends an output of another source", name, i), nil)
				}
				amount, prog, acct = rec.Amount, rec.Program, rec.Acct
				walletIn += rec.Amount
				kind = "wallet"
			} else if p := produced[id]; p != nil {
				if p.spent {
					fail("chain-input-spent-twice", fmt.Sprintf("%s input %d spends the merged output of transaction %d a second time", name, i, p.tx+1), nil)
					continue
				}
				p.spent = true
				amount, prog, acct = p.amount, p.prog, p.acct
				nMerged++
				if level[p.tx]+1 > level[ti] {
					level[ti] = level[p.tx] + 1
				}
				kind = fmt.Sprintf("merged-by-tx%d", p.tx+1)
			} else {
				// not a wallet output and not an output of a RETURNED earlier transaction: the client cannot
				// submit this transaction. An input locked to a program of a spending account is the output
				// of a merge transaction that was built (and whose inputs stay reserved) but not returned.
				owner, own := w.progOwner[hex.EncodeToString(inp.ControlProgram())]
				_, spending := spendOf[owner]
				if own && spending {
					unreturned = true
					key := "chain-tx-spends-output-of-unreturned-merge-tx"
					if isFinal {
						key = "chain-final-tx-spends-output-of-unreturned-merge-tx"
					}
					fail(key, fmt.Sprintf("%s input %d spends output %s (%d BTM-neu, locked to address %s of account %s): neither a wallet output nor an output of one of the %d returned transactions - the merge transaction that creates it was not returned", name, i, id.String(), inp.Amount(), w.addrOf(inp.ControlProgram()), acctName[owner], len(tpls)), nil)
					amount, prog, acct = inp.Amount(), inp.ControlProgram(), owner
					kind = "UNRETURNED"
				} else {
					fail("chain-input-unknown-output", fmt.Sprintf("%s input %d spends %s, neither a wallet output nor an output of an earlier returned transaction", name, i, id.String()), nil)
					continue
				}
			}
			if _, ok := inp.TypedInput.(*types.SpendInput); !ok {
				fail("chain-input-type-mismatch", fmt.Sprintf("%s input %d is a %T", name, i, inp.TypedInput), nil)
			}
			if inp.Amount() != amount || inp.AssetID() != *consensus.BTMAssetID || !bytes.Equal(inp.ControlProgram(), prog) {
				fail("chain-input-data-mismatch", fmt.Sprintf("%s input %d does not carry the amount/asset/program of the output it spends", name, i), nil)
			}
			if ok, why := witnessOpens(prog, inp.Arguments()); !ok {
				what := "wallet output"
				key := "chain-witness-does-not-open-wallet-output"
				if kind != "wallet" {
					what = "merged output of an earlier chain transaction"
					key = "chain-witness-does-not-open-merged-output"
				}
				fail(key, fmt.Sprintf("%s input %d spends a %s locked to the account's address %s: %s (signing path / witness derived for another address)", name, i, what, w.addrOf(prog), why), nil)
			}
			in += amount
			inOf[acct] += amount
			ins = append(ins, fmt.Sprintf("%s:%d@%s/%s", kind, amount, []string{"single", "multi"}[acct], w.addrOf(prog)))
		}
		if level[ti] > maxLevel {
			maxLevel = level[ti]
		}
		outs := []string{}
		changeOf := map[int]uint64{}
		paid := 0
		for oi, o := range tx.Outputs {
			if *o.AssetId != *consensus.BTMAssetID {
				fail("chain-output-of-unknown-asset", name+" has an output of an asset nobody spent", nil)
				continue
			}
			out += o.Amount
			outs = append(outs, fmt.Sprintf("%d->%s", o.Amount, w.addrOf(o.ControlProgram)))
			if _, isVote := o.TypedOutput.(*types.VoteOutput); isVote {
				fail("chain-output-type-mismatch", fmt.Sprintf("%s output %d is a vote output", name, oi), nil)
			}
			if isFinal && paid == 0 && bytes.Equal(o.ControlProgram, w.g.extProg) && o.Amount == pay {
				paid++
				continue
			}
			owner, ok := w.progOwner[hex.EncodeToString(o.ControlProgram)]
			if _, spendsHere := inOf[owner]; !ok || !spendsHere {
				key := "chain-merge-output-to-foreign-program"
				if isFinal {
					key = "change-to-foreign-program"
					if bytes.Equal(o.ControlProgram, w.g.extProg) {
						key = "requested-output-amount-differs"
					}
				}
				fail(key, fmt.Sprintf("%s output %d (%d) does not pay a program of an account whose outputs the transaction spends", name, oi, o.Amount), nil)
				continue
			}
			if isFinal {
				changeOf[owner] += o.Amount
				totalChange += o.Amount
			} else {
				produced[*tx.OutputID(oi)] = &prodOut{amount: o.Amount, prog: o.ControlProgram, tx: ti, acct: owner}
			}
		}
		if in < out {
			fail("chain-outputs-exceed-inputs", fmt.Sprintf("%s: inputs %d < outputs %d", name, in, out), nil)
			continue
		}
		if tpl.Fee != in-out {
			fail("template-fee-wrong", fmt.Sprintf("%s: template fee %d, inputs - outputs = %d", name, tpl.Fee, in-out), nil)
		}
		if isFinal {
			if paid != 1 {
				fail("requested-output-missing", fmt.Sprintf("%s: no output of %d to the recipient", name, pay), nil)
			}
			for _, s := range c.Spends {
				if inOf[s.Acct]-changeOf[s.Acct] != spendAmt[s.Acct] {
					fail("change-amount-mismatch", fmt.Sprintf("%s: account %s: inputs %d - change %d != spent amount %d", name, acctName[s.Acct], inOf[s.Acct], changeOf[s.Acct], spendAmt[s.Acct]), nil)
				}
			}
			if in-out != feeF {
				fail("fee-differs-from-requested-margin", fmt.Sprintf("%s: inputs %d - outputs %d = %d, the actions leave %d", name, in, out, in-out, feeF), nil)
			}
		} else {
			mergeFees += in - out
			if len(tx.Inputs) > chainMaxInputs {
				fail("chain-merge-tx-has-too-many-inputs", fmt.Sprintf("%s has %d inputs", name, len(tx.Inputs)), nil)
			}
			if len(inOf) > 1 {
				fail("chain-merge-tx-mixes-accounts", name+" spends outputs of two accounts", nil)
			}
			if in-out != chainMergeFee {
				fail("chain-merge-fee-unexpected", fmt.Sprintf("%s pays %d, a merge transaction pays %d", name, in-out, chainMergeFee), nil)
			}
		}
		stage = "validation"
		gas, verr := validation.ValidateTx(tx.Tx, blk, w.g.node.Chain.ProgramConverter)
		stage = "oracle"
		if verr != nil {
			rejected++
			spends := "only wallet outputs"
			if nMerged > 0 {
				spends = fmt.Sprintf("%d merged output(s) of earlier chain transactions", nMerged)
			}
			fail("chain-tx-rejected-"+slug(errors.Root(verr).Error()), fmt.Sprintf("%s (%d inputs, %s) is rejected by ValidateTx: %v", name, len(tx.Inputs), spends, verr), nil)
		} else if gas.BTMValue != in-out {
			fail("validator-fee-differs", fmt.Sprintf("%s: validator reports BTM value %d, inputs - outputs = %d", name, gas.BTMValue, in-out), nil)
		}
		txDesc = append(txDesc, fmt.Sprintf("tx%d in[%s] out[%s] fee=%d", ti+1, strings.Join(ins, " "), strings.Join(outs, " "), in-out))
	}
	for _, p := range produced {
		if !p.spent {
			fail("chain-merged-output-left-unspent", fmt.Sprintf("the output of merge transaction %d (%d) is spent by no later transaction of the chain", p.tx+1, p.amount), nil)
		}
	}
	if !unreturned { // with a missing merge transaction the sums below only repeat that finding
		var spentTotal uint64
		for _, a := range spendAmt {
			spentTotal += a
		}
		if want := spentTotal + totalChange + mergeFees; walletIn != want {
			fail("chain-value-not-conserved", fmt.Sprintf("wallet outputs spent %d != payment+fee %d + change %d + merge fees %d", walletIn, spentTotal, totalChange, mergeFees), nil)
		}
		for _, s := range c.Spends {
			if s.Mode != chainPartial && walletSpentOf[s.Acct] != len(s.Addrs) {
				fail("chain-unexpected-selection", fmt.Sprintf("account %s: all %d outputs are needed, %d were spent", acctName[s.Acct], len(s.Addrs), walletSpentOf[s.Acct]), nil)
			}
		}
	}

	verdict := "valid"
	if rejected > 0 {
		verdict = "rejected"
	}
	if unreturned {
		verdict += " INCOMPLETE(merge tx not returned)"
	}
	nChange := len(last.Transaction.Outputs) - 1
	res.Outcome = fmt.Sprintf("chain accounts=%d %s merge-txs=%d merge-levels=%d final-change-outputs=%d", len(c.Spends), verdict, len(tpls)-1, maxLevel, nChange)
	res.Nontrivial = len(tpls) >= 2
	res.Summary = map[string]interface{}{"request": string(body), "returned_transactions": txDesc, "final_tx_id": last.Transaction.ID.String()}
	return res
}

// addrOf names the address a program belongs to.
func (w *world) addrOf(prog []byte) string {
	for a := 0; a < 2; a++ {
		for i, cp := range w.progs[a] {
			if bytes.Equal(cp.ControlProgram, prog) {
				if n, ok := chainAddrName[i]; ok {
					return n
				}
				return fmt.Sprintf("ext/%d", cp.KeyIndex)
			}
		}
	}
	if bytes.Equal(prog, w.g.extProg) {
		return "recipient"
	}
	return "foreign:" + hex.EncodeToString(prog)
}
