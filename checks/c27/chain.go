package main

// The chain-transaction path of the wallet (POST /build-chain-transactions): a spend_account action of
// BTM is funded by account.SpendAccountChain, which reserves as many outputs as the amount plus the merge
// gas needs, merges them in batches of at most five per transaction (buildBtmTxChain) and hands the one
// merged output to the final transaction. The enumerated dimension is the LAYOUT of the account's BTM
// outputs: how many there are and on which of the account's addresses (two external, two change) every
// one of them sits, for every position of the merge batches.

import (
	"bytes"
	"context"
	"encoding/hex"
	"encoding/json"
	"fmt"
	"strings"

	"github.com/bytom/bytom/account"
	"github.com/bytom/bytom/blockchain/txbuilder"
	"github.com/bytom/bytom/consensus"
	"github.com/bytom/bytom/crypto"
	"github.com/bytom/bytom/errors"
	"github.com/bytom/bytom/protocol/bc"
	"github.com/bytom/bytom/protocol/bc/types"
	"github.com/bytom/bytom/protocol/validation"

	"verif/lib/ev"
)

// reference constants of the chain path (the documented values, not read from the repository)
const (
	chainMaxInputs = 5                 // inputs one merge transaction may carry
	chainMergeFee  = uint64(6_000_000) // 0.06 BTM paid by every merge transaction
	chainBase      = uint64(300_000_000)
	chainStep      = uint64(1_000_000)
	chainDust      = uint64(12_345) // change of the final transaction in the "change" mode
)

// addresses an output can sit on: indices into world.progs[acct]
var chainAddrs = []int{0, 1, 3, 4}
var chainAddrName = map[int]string{0: "ext/1", 1: "ext/2", 3: "chg/1", 4: "chg/2"}

// how much of the account's BTM the payment needs
const (
	chainAllExact  = 0 // every output is needed, the merged output equals the spent amount (no change)
	chainAllChange = 1 // every output is needed, a small change output is left
	chainPartial   = 2 // about half of the outputs are enough (the keeper's replacement pass chooses)
)

var chainModeName = []string{"all-outputs-exact", "all-outputs-with-change", "part-of-the-outputs"}

type ccase struct {
	Acct    int
	Addrs   []int // address of output i; output 0 has the largest amount, amounts strictly descending
	Mode    int
	Place   int
	Signers int
	Family  string
}

func (c ccase) amounts() []uint64 {
	n := len(c.Addrs)
	out := make([]uint64, n)
	for i := range out {
		out[i] = chainBase + uint64(n-1-i)*chainStep
	}
	return out
}

// mergeTxs is the number of merge transactions n outputs need when at most five go into one.
func mergeTxs(n int) int {
	t := 0
	for n > 1 {
		t++
		n -= chainMaxInputs - 1
	}
	return t
}

// spendAmount is the amount of the spend_account action (payment + fee margin of the final transaction).
func (c ccase) spendAmount() uint64 {
	am := c.amounts()
	sum := func(k int) (s uint64) {
		for _, a := range am[:k] {
			s += a
		}
		return
	}
	n := len(am)
	switch c.Mode {
	case chainAllExact:
		return sum(n) - uint64(mergeTxs(n))*chainMergeFee
	case chainAllChange:
		return sum(n) - uint64(mergeTxs(n))*chainMergeFee - chainDust
	}
	k := (n + 1) / 2
	return sum(k) - uint64(mergeTxs(k))*chainMergeFee - chainDust
}

func (c ccase) layout() string {
	parts := make([]string, len(c.Addrs))
	for i, a := range c.Addrs {
		parts[i] = chainAddrName[a]
	}
	return strings.Join(parts, " ")
}

func (c ccase) String() string {
	sg := "-"
	if c.Signers >= 0 {
		sg = fmt.Sprint(signerPairs[c.Signers])
	}
	return fmt.Sprintf("chain build: account %s holds %d BTM outputs (largest first) on addresses [%s], spend_account %d (%s) + control-address(BTM,%d,external), placement %s, multisig-signers %s",
		acctName[c.Acct], len(c.Addrs), c.layout(), c.spendAmount(), chainModeName[c.Mode], c.spendAmount()-feeF, placeName[c.Place], sg)
}

func (c ccase) describe() map[string]interface{} {
	d := map[string]interface{}{"path": "SpendAccountChain", "account": acctName[c.Acct], "output_amounts": c.amounts(), "output_addresses": c.layout(),
		"spend_amount": c.spendAmount(), "mode": chainModeName[c.Mode], "placement": placeName[c.Place], "family": c.Family}
	if c.Signers >= 0 {
		d["multisig_signers"] = signerPairs[c.Signers]
	}
	return d
}

// chainCases enumerates the layouts.
//
//	family "4addr": every assignment of {ext/1, ext/2, chg/1, chg/2} to n outputs, n = 2..nFour
//	family "2addr": every assignment of {ext/1, chg/1} to n outputs, n = nFour+1..nTwo
//	family "deep":  n = deepFrom..deepTo outputs (14 and more give three merge levels), all on one branch
//	                except at most one output, for every position of that output and both branches
//
// Every layout is run for both accounts in the mode "all outputs needed, change left" on confirmed outputs.
// The other two spend modes are added for the 1-of-1 account on layouts of <= 5 outputs (quick) / for both
// accounts on every non-deep layout (thorough). Layouts of two outputs are also run on unconfirmed-only
// outputs and with every signer pair of the 2-of-3 account. Quick runs the deep family for the 1-of-1
// account only.
func chainCases(run *ev.Run) ([]ccase, map[string]int) {
	nFour := run.Pick(3, 5)
	nTwo := run.Pick(6, 10)
	deepFrom, deepTo := run.Pick(14, 12), run.Pick(14, 26)
	deepAccts := run.Pick(1, 2)
	var cases []ccase
	fam := map[string]int{}
	emit := func(family string, addrs []int, accts int) {
		fam[family]++
		for a := 0; a < accts; a++ {
			modes := []int{chainAllChange}
			if family != "deep" && (run.Thorough() || (a == acctSingle && len(addrs) <= 5)) {
				modes = []int{chainAllExact, chainAllChange, chainPartial}
			}
			for _, mode := range modes {
				signerChoices := []int{-1}
				if a == acctMulti {
					signerChoices = []int{0}
					if len(addrs) <= 2 && mode == chainAllChange {
						signerChoices = []int{0, 1, 2}
					}
				}
				places := []int{placeConfirmed}
				if len(addrs) <= 2 && mode == chainAllChange {
					places = []int{placeConfirmed, placeUnconfirmedFlag}
				}
				for _, pl := range places {
					for _, sg := range signerChoices {
						cases = append(cases, ccase{Acct: a, Addrs: append([]int{}, addrs...), Mode: mode, Place: pl, Signers: sg, Family: family})
					}
				}
			}
		}
	}
	var rec func(family string, alpha []int, cur []int, n int)
	rec = func(family string, alpha []int, cur []int, n int) {
		if len(cur) == n {
			emit(family, cur, 2)
			return
		}
		for _, a := range alpha {
			rec(family, alpha, append(cur, a), n)
		}
	}
	for n := 2; n <= nFour; n++ {
		rec("4addr", chainAddrs, nil, n)
	}
	for n := nFour + 1; n <= nTwo; n++ {
		rec("2addr", []int{0, 3}, nil, n)
	}
	for n := deepFrom; n <= deepTo; n++ {
		for _, base := range []int{0, 3} {
			other := 3 - base
			for odd := -1; odd < n; odd++ {
				addrs := make([]int, n)
				for i := range addrs {
					addrs[i] = base
				}
				if odd >= 0 {
					addrs[odd] = other
				}
				emit("deep", addrs, deepAccts)
			}
		}
	}
	return cases, fam
}

// witnessOpens is the reference recogniser for the two program forms the wallet uses: the last witness
// item must hash to the program (P2WPKH: RIPEMD160 of the public key, P2WSH: SHA3-256 of the script).
func witnessOpens(prog []byte, args [][]byte) (bool, string) {
	if len(args) == 0 {
		return false, "no witness"
	}
	last := args[len(args)-1]
	switch {
	case len(prog) == 22 && prog[0] == 0x00 && prog[1] == 0x14:
		if !bytes.Equal(crypto.Ripemd160(last), prog[2:]) {
			return false, "the public key in the witness does not hash to the P2WPKH program"
		}
	case len(prog) == 34 && prog[0] == 0x00 && prog[1] == 0x20:
		if !bytes.Equal(crypto.Sha256(last), prog[2:]) {
			return false, "the script in the witness does not hash to the P2WSH program"
		}
	default:
		return false, "program is neither P2WPKH nor P2WSH"
	}
	return true, ""
}

// runChain builds, signs and validates one chain case and applies the oracle.
func (w *world) runChain(c ccase) (res *caseResult) {
	res = &caseResult{}
	stage := "funding"
	fail := func(key, what string, detail interface{}) {
		res.Viols = append(res.Viols, cviol{Key: key, What: what, Detail: detail})
	}
	defer func() {
		if r := recover(); r != nil {
			fail("chain-panic-in-"+stage, fmt.Sprint(r), nil)
		}
	}()

	var plan []planned
	for i, amt := range c.amounts() {
		plan = append(plan, planned{wutxo: wutxo{Acct: c.Acct, Src: srcBTM, Amount: amt, Mature: true}, addr: c.Addrs[i]})
	}
	plan = append(plan, planned{wutxo: wutxo{Acct: c.Acct, Src: srcBTM, Amount: 50 * unitB, Mature: false}, immature: true, addr: 2})
	if err := w.install(plan, c.Place); err != nil {
		ev.Fatal("funding: %v", err)
	}
	spendAmt := c.spendAmount()
	pay := spendAmt - feeF
	btm := consensus.BTMAssetID.String()
	decode := func(dec func([]byte) (txbuilder.Action, error), m map[string]interface{}) txbuilder.Action {
		raw, err := json.Marshal(m)
		if err != nil {
			ev.Fatal("actions: %v", err)
		}
		act, err := dec(raw)
		if err != nil {
			ev.Fatal("decoding %s: %v", raw, err)
		}
		return act
	}
	actions := account.MergeSpendAction([]txbuilder.Action{
		decode(w.mgr.DecodeSpendAction, map[string]interface{}{"type": "spend_account", "account_id": w.accts[c.Acct].ID, "asset_id": btm, "amount": spendAmt, "use_unconfirmed": c.Place != placeConfirmed}),
		decode(txbuilder.DecodeControlAddressAction, map[string]interface{}{"type": "control_address", "asset_id": btm, "amount": pay, "address": w.g.extAddr}),
	})

	// ---- what API.buildTxs does with the decoded actions
	stage = "build"
	ctx := context.Background()
	builder := txbuilder.NewBuilder(farFuture)
	defer builder.Rollback() // releases the reservations
	var tpls []*txbuilder.Template
	for _, act := range actions {
		var err error
		if act.ActionType() == "spend_account" {
			tpls, err = account.SpendAccountChain(ctx, builder, act)
		} else {
			err = act.Build(ctx, builder)
		}
		if err != nil {
			fail("chain-build-fails-"+slug(errors.Root(err).Error()), "building a fundable chain request failed in action "+act.ActionType()+": "+err.Error(), nil)
			return
		}
	}
	last, _, err := builder.Build()
	if err != nil {
		fail("chain-build-fails-"+slug(errors.Root(err).Error()), "building the final transaction failed: "+err.Error(), nil)
		return
	}
	tpls = append(tpls, last)

	// ---- sign every template (as JSON copies too: the API returns the templates and takes them back)
	stage = "sign"
	var pws []string
	if c.Acct == acctSingle {
		pws = []string{w.g.keys[0].pw}
	} else {
		p := signerPairs[c.Signers]
		pws = []string{w.g.keys[1+p[0]].pw, w.g.keys[1+p[1]].pw}
	}
	sign := w.g.memSign(&res.Sigs)
	for i, tpl := range tpls {
		raw, err := json.Marshal(tpl)
		if err != nil {
			fail("chain-template-not-serialisable", err.Error(), nil)
			return
		}
		for _, pw := range pws {
			if err := txbuilder.Sign(ctx, tpl, pw, sign); err != nil {
				fail("chain-sign-fails", fmt.Sprintf("txbuilder.Sign of transaction %d/%d: %v", i+1, len(tpls), err), nil)
				return
			}
		}
		if !txbuilder.SignProgress(tpl) {
			fail("chain-sign-incomplete", fmt.Sprintf("transaction %d/%d: all required keys signed but SignProgress reports missing signatures", i+1, len(tpls)), nil)
		}
		n := 0
		for _, pw := range pws {
			t, err := cloneTemplate(raw)
			if err != nil {
				fail("chain-template-json-unreadable", err.Error(), nil)
				break
			}
			if err := txbuilder.Sign(ctx, t, pw, w.g.memSign(&n)); err != nil {
				fail("chain-sign-fails-after-json", err.Error(), nil)
				break
			}
			if raw, err = json.Marshal(t); err != nil {
				fail("chain-template-not-serialisable", err.Error(), nil)
				break
			}
		}
		if t, err := cloneTemplate(raw); err == nil && txHex(t.Transaction) != txHex(tpl.Transaction) {
			fail("chain-json-flow-transaction-differs", fmt.Sprintf("transaction %d/%d: signing JSON copies of the template gives a different transaction", i+1, len(tpls)), nil)
		}
	}

	// ---- oracle over the whole chain
	stage = "oracle"
	type prodOut struct {
		amount uint64
		prog   []byte
		tx     int
		spent  bool
	}
	produced := map[bc.Hash]*prodOut{}
	walletSpent := map[bc.Hash]bool{}
	var walletIn, mergeFees uint64
	blk := types.MapBlock(&types.Block{BlockHeader: types.BlockHeader{Version: 1, Height: w.g.height + 1}})
	txDesc := []string{}
	rejected := 0
	maxLevel := 0
	level := map[int]int{} // merge level of the output a transaction produces
	for ti, tpl := range tpls {
		tx := tpl.Transaction
		data, err := tx.TxData.MarshalText()
		if err != nil {
			fail("chain-tx-not-serialisable", err.Error(), nil)
			return
		}
		tx.TxData.SerializedSize = uint64(len(data) / 2)
		tx.Tx.SerializedSize = uint64(len(data) / 2)
		isFinal := ti == len(tpls)-1
		name := fmt.Sprintf("transaction %d/%d", ti+1, len(tpls))
		var in, out uint64
		nMerged := 0
		ins := []string{}
		for i, inp := range tx.Inputs {
			id, err := inp.SpentOutputID()
			if err != nil {
				fail("chain-input-without-output-id", err.Error(), nil)
				continue
			}
			var amount uint64
			var prog []byte
			kind := ""
			if rec := w.utxos[id]; rec != nil {
				if walletSpent[id] {
					fail("chain-input-spent-twice", fmt.Sprintf("%s input %d spends wallet output %s a second time", name, i, id.String()), nil)
					continue
				}
				walletSpent[id] = true
				if !rec.Mature {
					fail("chain-input-immature", fmt.Sprintf("%s input %d spends an immature output", name, i), nil)
				}
				if rec.Acct != c.Acct || rec.Src != srcBTM {
					fail("chain-input-from-unrequested-source", fmt.Sprintf("%s input %d spends an output of another source", name, i), nil)
				}
				amount, prog = rec.Amount, rec.Program
				walletIn += rec.Amount
				kind = "wallet"
			} else if p := produced[id]; p != nil {
				if p.spent {
					fail("chain-input-spent-twice", fmt.Sprintf("%s input %d spends the merged output of transaction %d a second time", name, i, p.tx+1), nil)
					continue
				}
				p.spent = true
				amount, prog = p.amount, p.prog
				nMerged++
				if level[p.tx]+1 > level[ti] {
					level[ti] = level[p.tx] + 1
				}
				kind = fmt.Sprintf("merged-by-tx%d", p.tx+1)
			} else {
				fail("chain-input-unknown-output", fmt.Sprintf("%s input %d spends %s, neither a wallet output nor an output of an earlier transaction of the chain", name, i, id.String()), nil)
				continue
			}
			if _, ok := inp.TypedInput.(*types.SpendInput); !ok {
				fail("chain-input-type-mismatch", fmt.Sprintf("%s input %d is a %T", name, i, inp.TypedInput), nil)
			}
			if inp.Amount() != amount || inp.AssetID() != *consensus.BTMAssetID || !bytes.Equal(inp.ControlProgram(), prog) {
				fail("chain-input-data-mismatch", fmt.Sprintf("%s input %d does not carry the amount/asset/program of the output it spends", name, i), nil)
			}
			if ok, why := witnessOpens(prog, inp.Arguments()); !ok {
				what := "wallet output"
				key := "chain-witness-does-not-open-wallet-output"
				if kind != "wallet" {
					what = "merged output of an earlier chain transaction"
					key = "chain-witness-does-not-open-merged-output"
				}
				fail(key, fmt.Sprintf("%s input %d spends a %s locked to the account's address %s: %s (signing path / witness derived for another address)", name, i, what, w.addrOf(c.Acct, prog), why), nil)
			}
			in += amount
			ins = append(ins, fmt.Sprintf("%s:%d@%s", kind, amount, w.addrOf(c.Acct, prog)))
		}
		if level[ti] > maxLevel {
			maxLevel = level[ti]
		}
		outs := []string{}
		var change uint64
		paid := 0
		for oi, o := range tx.Outputs {
			if *o.AssetId != *consensus.BTMAssetID {
				fail("chain-output-of-unknown-asset", name+" has an output of an asset nobody spent", nil)
				continue
			}
			out += o.Amount
			outs = append(outs, fmt.Sprintf("%d->%s", o.Amount, w.addrOf(c.Acct, o.ControlProgram)))
			if _, isVote := o.TypedOutput.(*types.VoteOutput); isVote {
				fail("chain-output-type-mismatch", fmt.Sprintf("%s output %d is a vote output", name, oi), nil)
			}
			if isFinal && paid == 0 && bytes.Equal(o.ControlProgram, w.g.extProg) && o.Amount == pay {
				paid++
				continue
			}
			owner, ok := w.progOwner[hex.EncodeToString(o.ControlProgram)]
			if !ok || owner != c.Acct {
				key := "chain-merge-output-to-foreign-program"
				if isFinal {
					key = "change-to-foreign-program"
					if bytes.Equal(o.ControlProgram, w.g.extProg) {
						key = "requested-output-amount-differs"
					}
				}
				fail(key, fmt.Sprintf("%s output %d (%d) does not pay a program of the spending account", name, oi, o.Amount), nil)
				continue
			}
			if isFinal {
				change += o.Amount
			} else {
				produced[*tx.OutputID(oi)] = &prodOut{amount: o.Amount, prog: o.ControlProgram, tx: ti}
			}
		}
		if in < out {
			fail("chain-outputs-exceed-inputs", fmt.Sprintf("%s: inputs %d < outputs %d", name, in, out), nil)
			continue
		}
		if tpl.Fee != in-out {
			fail("template-fee-wrong", fmt.Sprintf("%s: template fee %d, inputs - outputs = %d", name, tpl.Fee, in-out), nil)
		}
		if isFinal {
			if paid != 1 {
				fail("requested-output-missing", fmt.Sprintf("%s: no output of %d to the recipient", name, pay), nil)
			}
			if in-change != spendAmt {
				fail("change-amount-mismatch", fmt.Sprintf("%s: inputs %d - change %d != spent amount %d", name, in, change, spendAmt), nil)
			}
			if in-out != feeF {
				fail("fee-differs-from-requested-margin", fmt.Sprintf("%s: inputs %d - outputs %d = %d, the actions leave %d", name, in, out, in-out, feeF), nil)
			}
		} else {
			mergeFees += in - out
			if len(tx.Inputs) > chainMaxInputs {
				fail("chain-merge-tx-has-too-many-inputs", fmt.Sprintf("%s has %d inputs", name, len(tx.Inputs)), nil)
			}
			if in-out != chainMergeFee {
				fail("chain-merge-fee-unexpected", fmt.Sprintf("%s pays %d, a merge transaction pays %d", name, in-out, chainMergeFee), nil)
			}
		}
		stage = "validation"
		gas, verr := validation.ValidateTx(tx.Tx, blk, w.g.node.Chain.ProgramConverter)
		stage = "oracle"
		if verr != nil {
			rejected++
			spends := "only wallet outputs"
			if nMerged > 0 {
				spends = fmt.Sprintf("%d merged output(s) of earlier chain transactions", nMerged)
			}
			fail("chain-tx-rejected-"+slug(errors.Root(verr).Error()), fmt.Sprintf("%s (%d inputs, %s) is rejected by ValidateTx: %v", name, len(tx.Inputs), spends, verr), nil)
		} else if gas.BTMValue != in-out {
			fail("validator-fee-differs", fmt.Sprintf("%s: validator reports BTM value %d, inputs - outputs = %d", name, gas.BTMValue, in-out), nil)
		}
		txDesc = append(txDesc, fmt.Sprintf("tx%d in[%s] out[%s] fee=%d", ti+1, strings.Join(ins, " "), strings.Join(outs, " "), in-out))
		if isFinal {
			if want := spendAmt + change + mergeFees; walletIn != want {
				fail("chain-value-not-conserved", fmt.Sprintf("wallet outputs spent %d != payment+fee %d + change %d + merge fees %d", walletIn, spendAmt, change, mergeFees), nil)
			}
		}
	}
	for _, p := range produced {
		if !p.spent {
			fail("chain-merged-output-left-unspent", fmt.Sprintf("the output of merge transaction %d (%d) is spent by no later transaction of the chain", p.tx+1, p.amount), nil)
		}
	}
	if c.Mode != chainPartial {
		if len(walletSpent) != len(c.Addrs) {
			fail("chain-unexpected-selection", fmt.Sprintf("all %d outputs are needed, %d were spent", len(c.Addrs), len(walletSpent)), nil)
		}
	}

	verdict := "valid"
	if rejected > 0 {
		verdict = "rejected"
	}
	hasChange := 0
	if n := len(last.Transaction.Outputs); n > 1 {
		hasChange = n - 1
	}
	res.Outcome = fmt.Sprintf("chain %s merge-txs=%d merge-levels=%d final-change-outputs=%d", verdict, len(tpls)-1, maxLevel, hasChange)
	res.Nontrivial = len(tpls) >= 2
	res.Summary = map[string]interface{}{"transactions": txDesc, "final_tx_id": last.Transaction.ID.String()}
	return res
}

// addrOf names the account address a program belongs to.
func (w *world) addrOf(acct int, prog []byte) string {
	for i, cp := range w.progs[acct] {
		if bytes.Equal(cp.ControlProgram, prog) {
			if n, ok := chainAddrName[i]; ok {
				return n
			}
			return fmt.Sprintf("ext/%d", cp.KeyIndex)
		}
	}
	if bytes.Equal(prog, w.g.extProg) {
		return "recipient"
	}
	return "foreign:" + hex.EncodeToString(prog)
}
