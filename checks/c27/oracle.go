package main

import (
	"bytes"
	"context"
	"encoding/hex"
	"encoding/json"
	"fmt"
	"regexp"
	"sort"
	"strings"

	"github.com/bytom/bytom/blockchain/txbuilder"
	"github.com/bytom/bytom/consensus"
	"github.com/bytom/bytom/errors"
	"github.com/bytom/bytom/protocol/bc"
	"github.com/bytom/bytom/protocol/bc/types"
	"github.com/bytom/bytom/protocol/validation"

	"verif/lib/ev"
)

type cviol struct {
	Key    string
	What   string
	Detail interface{}
}

type caseResult struct {
	Outcome    string
	Nontrivial bool
	Sigs       int
	HSMSigs    int
	Viols      []cviol
	Summary    interface{}
}

var slugRe = regexp.MustCompile(`[^a-z0-9]+`)

func slug(s string) string {
	s = strings.Trim(slugRe.ReplaceAllString(strings.ToLower(s), "-"), "-")
	if len(s) > 60 {
		s = s[:60]
	}
	return s
}

// outTuple is one transaction output as the recipient sees it.
type outTuple struct {
	Asset   int
	Amount  uint64
	Program string
	Vote    string // empty for an ordinary output
}

func (o outTuple) String() string {
	v := ""
	if o.Vote != "" {
		v = " vote=" + o.Vote[:8] + ".."
	}
	return fmt.Sprintf("%s %d -> %s%s", []string{"BTM", "X"}[o.Asset], o.Amount, o.Program, v)
}

// requestedOutputs is what the output actions ask for, computed from the case alone.
func (w *world) requestedOutputs(c tcase) []outTuple {
	var req []outTuple
	for _, a := range c.List {
		switch a.Kind {
		case kCtrlAddr:
			req = append(req, outTuple{Asset: a.Asset, Amount: a.Amount, Program: hex.EncodeToString(w.destProgram(a.Dest))})
		case kCtrlProg:
			req = append(req, outTuple{Asset: a.Asset, Amount: a.Amount, Program: hex.EncodeToString(w.g.extP2WSH)})
		case kRetire:
			prog := []byte{0x6a} // OP_FAIL
			if cm := retireComment(a); len(cm) > 0 {
				prog = append(append(prog, byte(len(cm))), cm...) // direct push of a short comment
			}
			req = append(req, outTuple{Asset: a.Asset, Amount: a.Amount, Program: hex.EncodeToString(prog)})
		case kVote:
			req = append(req, outTuple{Asset: assetBTM, Amount: a.Amount, Program: hex.EncodeToString(w.g.extProg), Vote: hex.EncodeToString(w.g.voteKey)})
		}
	}
	return req
}

// runCase executes one case on this wallet and applies the oracle.
func (w *world) runCase(c tcase, withHSM bool) (res *caseResult) {
	res = &caseResult{}
	stage := "funding"
	fail := func(key, what string, detail interface{}) {
		res.Viols = append(res.Viols, cviol{Key: key, What: what, Detail: detail})
	}
	defer func() {
		if r := recover(); r != nil {
			fail("panic-in-"+stage, fmt.Sprint(r), nil)
		}
	}()
	if err := w.fund(c); err != nil {
		ev.Fatal("funding: %v", err)
	}
	actions, err := w.decodeActions(c)
	if err != nil {
		// the repository's action decoders were given the JSON a client sends for a fundable list
		fail("action-decoder-refuses-wellformed-action", "an action of a fundable list is refused by its decoder: "+err.Error(), nil)
		return
	}

	stage = "build"
	ctx := context.Background()
	tpl, err := txbuilder.Build(ctx, nil, actions, farFuture, w.g.height+1)
	if err != nil {
		root := errors.Root(err)
		why := root.Error()
		if root == txbuilder.ErrAction {
			if inner, ok := errors.Data(err)["actions"].([]error); ok && len(inner) > 0 {
				why = errors.Root(inner[0]).Error()
			}
		}
		fail("build-fails-"+slug(why), "txbuilder.Build failed on a fundable list: "+err.Error(), nil)
		return
	}
	rawTpl, err := json.Marshal(tpl)
	if err != nil {
		fail("template-not-serialisable", err.Error(), nil)
		return
	}

	stage = "sign"
	pws := w.passwords(c)
	sign := w.g.memSign(&res.Sigs)
	for _, pw := range pws {
		if err := txbuilder.Sign(ctx, tpl, pw, sign); err != nil {
			fail("sign-fails", "txbuilder.Sign: "+err.Error(), nil)
			return
		}
	}
	tx := tpl.Transaction
	if !txbuilder.SignProgress(tpl) {
		fail("sign-incomplete", "all required keys signed but SignProgress reports missing signatures", nil)
	}
	// what FinalizeTx does before validating
	data, err := tx.TxData.MarshalText()
	if err != nil {
		fail("tx-not-serialisable", err.Error(), nil)
		return
	}
	tx.TxData.SerializedSize = uint64(len(data) / 2)
	tx.Tx.SerializedSize = uint64(len(data) / 2)

	stage = "oracle"
	// ---- inputs
	var inSum, reqSum, changeSum [2][2]uint64 // [account][asset]
	var btmIn, btmOut uint64
	seen := map[bc.Hash]bool{}
	req := requested(c.List)
	allowed := map[[2]int]bool{}
	for a := 0; a < 2; a++ {
		for s := 0; s < 3; s++ {
			if req[a][s] > 0 {
				allowed[[2]int{a, s}] = true
			}
		}
	}
	for _, a := range c.List {
		switch a.Kind {
		case kSpendBTM, kSpendX, kVeto:
			reqSum[a.Acct][a.Asset] += a.Amount
		case kSpendUTXOBTM, kSpendUTXOX:
			reqSum[a.Acct][a.Asset] += a.Amount
		}
	}
	inputDesc := []string{}
	for i, in := range tx.Inputs {
		id, err := in.SpentOutputID()
		if err != nil {
			fail("input-without-output-id", err.Error(), nil)
			continue
		}
		rec := w.utxos[id]
		if rec == nil {
			fail("input-not-a-wallet-output", fmt.Sprintf("input %d spends %s which the wallet does not hold", i, id.String()), nil)
			continue
		}
		asset := assetBTM
		if rec.Src == srcX {
			asset = assetX
		}
		inputDesc = append(inputDesc, fmt.Sprintf("%s/%s/%d", []string{"single", "multi"}[rec.Acct], srcName[rec.Src], rec.Amount))
		if seen[id] {
			if c.Place == placeBothFlag {
				fail("input-spent-twice-output-both-confirmed-and-unconfirmed", fmt.Sprintf("input %d spends %s a second time (the output is in the wallet db and in the unconfirmed set)", i, id.String()), nil)
			} else {
				fail("input-spent-twice", fmt.Sprintf("input %d spends %s a second time", i, id.String()), nil)
			}
			continue
		}
		seen[id] = true
		if !rec.Mature {
			fail("input-immature", fmt.Sprintf("input %d spends an immature output", i), nil)
		}
		_, isVeto := in.TypedInput.(*types.VetoInput)
		if isVeto != (rec.Src == srcVote) {
			fail("input-type-mismatch", fmt.Sprintf("input %d: vote output spent by %T", i, in.TypedInput), nil)
		}
		wantAsset := *consensus.BTMAssetID
		if asset == assetX {
			wantAsset = w.g.assetX
		}
		if in.Amount() != rec.Amount || in.AssetID() != wantAsset || !bytes.Equal(in.ControlProgram(), rec.Program) {
			fail("input-data-mismatch", fmt.Sprintf("input %d does not carry the amount/asset/program of the wallet output", i), nil)
		}
		if !rec.Particular && !allowed[[2]int{rec.Acct, rec.Src}] {
			fail("input-from-unrequested-source", fmt.Sprintf("input %d spends a %s output of account %s that no action asked for", i, srcName[rec.Src], acctName[rec.Acct]), nil)
		}
		inSum[rec.Acct][asset] += rec.Amount
		if asset == assetBTM {
			btmIn += rec.Amount
		}
	}
	for a := 0; a < 2; a++ {
		for as := 0; as < 2; as++ {
			if id, ok := w.particular[[2]int{a, as}]; ok && !seen[id] {
				fail("particular-output-not-spent", fmt.Sprintf("the requested output %s of account %s is not an input", id.String(), acctName[a]), nil)
			}
		}
	}

	// ---- outputs
	var outs []outTuple
	for _, o := range tx.Outputs {
		t := outTuple{Amount: o.Amount, Program: hex.EncodeToString(o.ControlProgram)}
		switch {
		case *o.AssetId == *consensus.BTMAssetID:
			t.Asset = assetBTM
			btmOut += o.Amount
		case *o.AssetId == w.g.assetX:
			t.Asset = assetX
		default:
			fail("output-of-unknown-asset", "output of an asset nobody spent", nil)
		}
		if v, ok := o.TypedOutput.(*types.VoteOutput); ok {
			t.Vote = hex.EncodeToString(v.Vote)
		}
		outs = append(outs, t)
	}
	outDesc := make([]string, len(outs))
	for i, o := range outs {
		outDesc[i] = o.String()
	}
	left := append([]outTuple{}, outs...)
	for _, want := range w.requestedOutputs(c) {
		found := -1
		for i, o := range left {
			if o == want {
				found = i
				break
			}
		}
		if found < 0 {
			key := "requested-output-missing"
			for _, o := range left {
				if o.Program == want.Program && o.Asset == want.Asset && o.Vote == want.Vote {
					key = "requested-output-amount-differs"
				}
			}
			fail(key, "no output "+want.String(), nil)
			continue
		}
		left = append(left[:found], left[found+1:]...)
	}
	nChange := len(left)
	for _, o := range left {
		owner, ok := w.progOwner[o.Program]
		switch {
		case o.Vote != "":
			fail("change-is-a-vote-output", "unrequested vote output "+o.String(), nil)
		case !ok:
			fail("change-to-foreign-program", "unrequested output "+o.String()+" does not pay an account program", nil)
		case !spends(c.List, owner):
			fail("change-to-non-spending-account", "unrequested output "+o.String()+" pays account "+acctName[owner]+" which spends nothing", nil)
		default:
			changeSum[owner][o.Asset] += o.Amount
		}
	}
	for a := 0; a < 2; a++ {
		for as := 0; as < 2; as++ {
			if inSum[a][as]-changeSum[a][as] != reqSum[a][as] {
				fail("change-amount-mismatch", fmt.Sprintf("account %s asset %s: inputs %d - change %d != requested %d", acctName[a], []string{"BTM", "X"}[as], inSum[a][as], changeSum[a][as], reqSum[a][as]), nil)
			}
		}
	}

	// ---- fee
	var wantFee uint64
	for _, a := range c.List {
		if a.Asset != assetBTM {
			continue
		}
		if a.isInput() {
			wantFee += a.Amount
		} else {
			wantFee -= a.Amount
		}
	}
	if btmIn-btmOut != wantFee {
		fail("fee-differs-from-requested-margin", fmt.Sprintf("BTM inputs %d - outputs %d = %d, the actions leave %d", btmIn, btmOut, btmIn-btmOut, wantFee), nil)
	}
	if tpl.Fee != btmIn-btmOut {
		fail("template-fee-wrong", fmt.Sprintf("template fee %d, inputs - outputs = %d", tpl.Fee, btmIn-btmOut), nil)
	}

	// ---- consensus validation at the next height
	stage = "validation"
	blk := types.MapBlock(&types.Block{BlockHeader: types.BlockHeader{Version: 1, Height: w.g.height + 1}})
	gas, verr := validation.ValidateTx(tx.Tx, blk, w.g.node.Chain.ProgramConverter)
	if verr != nil {
		if len(res.Viols) == 0 { // otherwise the structural finding above already names the cause
			fail("validation-rejects-"+slug(errors.Root(verr).Error()), "ValidateTx: "+verr.Error(), nil)
		}
	} else if gas.BTMValue != btmIn-btmOut {
		fail("validator-fee-differs", fmt.Sprintf("validator reports BTM value %d, inputs - outputs = %d", gas.BTMValue, btmIn-btmOut), nil)
	}

	// ---- the API flow: the template travels as JSON between build and every signer
	stage = "json-flow"
	hexDirect := txHex(tx)
	raw := rawTpl
	n := 0
	jsonPws := pws
	if len(c.List) >= 3 && c.Place != placeConfirmed {
		jsonPws = nil // the JSON flow is replayed for every case of <= 2 actions and for the confirmed placement of longer lists
	}
	for _, pw := range jsonPws {
		t, err := cloneTemplate(raw)
		if err != nil {
			fail("template-json-unreadable", err.Error(), nil)
			break
		}
		if err := txbuilder.Sign(ctx, t, pw, w.g.memSign(&n)); err != nil {
			fail("sign-fails-after-json", err.Error(), nil)
			break
		}
		if raw, err = json.Marshal(t); err != nil {
			fail("template-not-serialisable", err.Error(), nil)
			break
		}
	}
	if t, err := cloneTemplate(raw); err == nil && len(jsonPws) > 0 && txHex(t.Transaction) != hexDirect {
		fail("json-flow-transaction-differs", "signing JSON copies of the template signer by signer gives a different transaction", map[string]string{"direct": hexDirect, "json": txHex(t.Transaction)})
	}

	if withHSM {
		stage = "hsm"
		t, err := cloneTemplate(rawTpl)
		if err != nil {
			fail("template-json-unreadable", err.Error(), nil)
		} else {
			for _, pw := range pws {
				if err := txbuilder.Sign(ctx, t, pw, w.g.hsmSign(&res.HSMSigs)); err != nil {
					fail("hsm-sign-fails", err.Error(), nil)
				}
			}
			if h := txHex(t.Transaction); h != hexDirect {
				fail("hsm-witness-differs-from-in-memory", "HSM.XSign and derive+Sign over the same keys give different transactions", map[string]string{"memory": hexDirect, "hsm": h})
			}
		}
	}

	nIn := len(tx.Inputs)
	bucket := fmt.Sprint(nIn)
	switch {
	case nIn >= 6:
		bucket = "6+"
	case nIn >= 3:
		bucket = "3-5"
	}
	kinds := map[string]bool{}
	for _, a := range c.List {
		kinds[kindName[a.Kind]] = true
	}
	ks := make([]string, 0, len(kinds))
	for k := range kinds {
		ks = append(ks, k)
	}
	sort.Strings(ks)
	verdict := "valid"
	if verr != nil {
		verdict = "rejected"
	}
	res.Outcome = fmt.Sprintf("%s inputs=%s change-outputs=%d", verdict, bucket, nChange)
	res.Nontrivial = nIn >= 2 || nChange >= 1
	res.Summary = map[string]interface{}{"inputs": inputDesc, "outputs": outDesc, "fee": btmIn - btmOut, "tx_id": tx.ID.String()}
	if gas != nil {
		res.Summary.(map[string]interface{})["gas_used"] = gas.GasUsed
	}
	return res
}

// hsmCompare signs a few templates per spender class with the real pseudo-HSM: for every class
// (1-of-1 only, 2-of-3 only, both) the first case of each wanted funding shape.
func hsmCompare(run *ev.Run, g *global, w *world, cases []tcase) {
	wanted := []int{fundExactOne, fundMany}
	if run.Thorough() {
		wanted = []int{fundExactOne, fundExactTwo, fundChange, fundMany}
	}
	done := map[string]bool{}
	for _, c := range cases {
		if c.Place != placeConfirmed || (c.Signers > 0) {
			continue
		}
		cls := ""
		if spends(c.List, acctSingle) {
			cls += "single"
		}
		if spends(c.List, acctMulti) {
			cls += "multi"
		}
		shape, uniform := -1, true
		for a := 0; a < 2; a++ {
			for s := 0; s < 3; s++ {
				if f := c.Fund[a][s]; f >= 0 {
					if shape >= 0 && f != shape {
						uniform = false
					}
					shape = f
				}
			}
		}
		ok := false
		for _, f := range wanted {
			ok = ok || f == shape
		}
		key := fmt.Sprintf("%s/%d", cls, shape)
		if !uniform || !ok || done[key] {
			continue
		}
		done[key] = true
		r := w.runCase(c, true)
		run.Add("hsm_templates_compared", 1)
		run.Add("hsm_signatures_made", r.HSMSigs)
		for _, v := range r.Viols {
			run.Violation(v.Key, v.What+" | (HSM pass) "+c.String(), map[string]interface{}{"case": c.describe(), "tx": r.Summary, "detail": v.Detail})
		}
	}
}
