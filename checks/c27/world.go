package main

import (
	"bytes"
	"context"
	"encoding/hex"
	"encoding/json"
	"fmt"
	"os"
	"time"

	"github.com/bytom/bytom/account"
	"github.com/bytom/bytom/api"
	"github.com/bytom/bytom/asset"
	"github.com/bytom/bytom/blockchain/pseudohsm"
	"github.com/bytom/bytom/blockchain/signers"
	"github.com/bytom/bytom/blockchain/txbuilder"
	"github.com/bytom/bytom/common"
	"github.com/bytom/bytom/consensus"
	"github.com/bytom/bytom/crypto"
	"github.com/bytom/bytom/crypto/ed25519/chainkd"
	"github.com/bytom/bytom/protocol/bc"
	"github.com/bytom/bytom/protocol/bc/types"
	"github.com/bytom/bytom/wallet"
	mnem "github.com/bytom/bytom/wallet/mnemonic"

	"verif/lib/crashkv"
	"verif/lib/labnet"
)

type keyInfo struct {
	xprv chainkd.XPrv
	xpub chainkd.XPub
	pw   string
}

// global is what all wallets share: the lab chain, the keys, the real HSM, recipients.
type global struct {
	net    *labnet.Net
	node   *labnet.Node
	height uint64

	keys   []*keyInfo // 0: the 1-of-1 account's key; 1..3: the 2-of-3 account's keys
	byXpub map[chainkd.XPub]*keyInfo
	hsm    *pseudohsm.HSM
	hsmDir string

	assetX   bc.AssetID
	extAddr  string
	extProg  []byte // P2WPKH program of the external recipient, built byte by byte
	extP2WSH []byte // an external P2WSH program for control_program
	voteKey  []byte // 64-byte vote public key
}

func setupGlobal() (*global, error) {
	g := &global{byXpub: map[chainkd.XPub]*keyInfo{}}
	g.net = labnet.Setup(2, 2, 4)
	nd, err := labnet.NewNode(crashkv.New())
	if err != nil {
		return nil, err
	}
	g.node = nd
	for _, b := range g.net.Chain(g.net.Gen, 3, 0) {
		if orphan, err := nd.Chain.ProcessBlock(b.Block); err != nil || orphan {
			return nil, fmt.Errorf("lab block %d not accepted: orphan=%v err=%v", b.Height, orphan, err)
		}
	}
	g.height = nd.Chain.BestBlockHeight()
	if g.height != 3 {
		return nil, fmt.Errorf("lab chain at height %d, want 3", g.height)
	}

	dir, err := os.MkdirTemp("", "c27-hsm-")
	if err != nil {
		return nil, err
	}
	g.hsmDir = dir
	if g.hsm, err = pseudohsm.New(dir); err != nil {
		return nil, err
	}
	for i := 0; i < 4; i++ {
		entropy := bytes.Repeat([]byte{byte(0x27 + i)}, 16)
		mnemonic, err := mnem.NewMnemonic(entropy, "en")
		if err != nil {
			return nil, err
		}
		pw := fmt.Sprintf("password-%d", i)
		hx, err := g.hsm.ImportKeyFromMnemonic(fmt.Sprintf("key%d", i), pw, mnemonic, "en")
		if err != nil {
			return nil, err
		}
		// the same key held in memory, derived from the mnemonic without the key store
		xprv, xpub, err := chainkd.NewXKeys(bytes.NewBuffer(mnem.NewSeed(mnemonic, "")))
		if err != nil {
			return nil, err
		}
		if xpub != hx.XPub {
			return nil, fmt.Errorf("in-memory key %d differs from the HSM's", i)
		}
		k := &keyInfo{xprv: xprv, xpub: xpub, pw: pw}
		g.keys = append(g.keys, k)
		g.byXpub[xpub] = k
	}

	g.assetX = bc.NewAssetID([32]byte{0xc2, 0x7a})
	ext := chainkd.RootXPrv([]byte("c27 external recipient"))
	h := crypto.Ripemd160(ext.XPub().PublicKey())
	addr, err := common.NewAddressWitnessPubKeyHash(h, &consensus.ActiveNetParams)
	if err != nil {
		return nil, err
	}
	g.extAddr = addr.EncodeAddress()
	g.extProg = append([]byte{0x00, 0x14}, h...)
	g.extP2WSH = append([]byte{0x00, 0x20}, crypto.Sha256([]byte("c27 external script"))...)
	vk := chainkd.RootXPrv([]byte("c27 validator")).XPub()
	g.voteKey = vk[:]
	return g, nil
}

// memSign is the in-memory SignFunc: the key is used only with its own password, like the HSM.
func (g *global) memSign(counter *int) txbuilder.SignFunc {
	return func(_ context.Context, xpub chainkd.XPub, path [][]byte, data [32]byte, auth string) ([]byte, error) {
		k := g.byXpub[xpub]
		if k == nil || k.pw != auth {
			return nil, fmt.Errorf("no key for this password")
		}
		x := k.xprv
		if len(path) > 0 {
			x = x.Derive(path)
		}
		*counter++
		return x.Sign(data[:]), nil
	}
}

func (g *global) hsmSign(counter *int) txbuilder.SignFunc {
	return func(_ context.Context, xpub chainkd.XPub, path [][]byte, data [32]byte, auth string) ([]byte, error) {
		sig, err := g.hsm.XSign(xpub, path, data[:], auth)
		if err == nil {
			*counter++
		}
		return sig, err
	}
}

// wutxo is the check's own record of a wallet output.
type wutxo struct {
	Acct       int
	Src        int
	Amount     uint64
	Mature     bool
	Particular bool
	Program    []byte
}

// world is one wallet (own database, own account manager) on the shared chain.
type world struct {
	g         *global
	id        int
	db        *crashkv.DB
	mgr       *account.Manager
	api       *api.API // the real build handlers over this wallet's account manager
	accts     [2]*account.Account
	progs     [2][]*account.CtrlProgram // 3 receive addresses, then 2 change addresses (the last one only used by the chain part)
	progOwner map[string]int
	counter   uint64

	utxos       map[bc.Hash]*wutxo
	particular  map[[2]int]bc.Hash
	unconfirmed []*bc.Hash
}

func newWorld(g *global, id int) (*world, error) {
	w := &world{g: g, id: id, db: crashkv.New(), progOwner: map[string]int{}}
	w.mgr = account.NewManager(w.db, g.node.Chain)
	w.api = api.VerifBuildAPI(&wallet.Wallet{AccountMgr: w.mgr, AssetReg: asset.NewRegistry(w.db, g.node.Chain)}, g.node.Chain)
	var err error
	if w.accts[acctSingle], err = w.mgr.Create([]chainkd.XPub{g.keys[0].xpub}, 1, "single", signers.BIP0044); err != nil {
		return nil, err
	}
	if w.accts[acctMulti], err = w.mgr.Create([]chainkd.XPub{g.keys[1].xpub, g.keys[2].xpub, g.keys[3].xpub}, 2, "multi", signers.BIP0044); err != nil {
		return nil, err
	}
	for a := 0; a < 2; a++ {
		for i := 0; i < 5; i++ {
			cp, err := w.mgr.CreateAddress(w.accts[a].ID, i >= 3)
			if err != nil {
				return nil, err
			}
			w.progs[a] = append(w.progs[a], cp)
			w.progOwner[hex.EncodeToString(cp.ControlProgram)] = a
		}
	}
	return w, nil
}

func fundingAmounts(shape int, r uint64) []uint64 {
	switch shape {
	case fundExactOne:
		return []uint64{r}
	case fundExactTwo:
		return []uint64{r - r/3, r / 3}
	case fundChange:
		return []uint64{r + r/2 + 1}
	}
	piece := (r + 6) / 7
	out := make([]uint64, 8)
	for i := range out {
		out[i] = piece
	}
	return out
}

// planned is one wallet output of a funding set before it is written to the wallet.
type planned struct {
	wutxo
	vote     bool
	partKey  *[2]int
	immature bool
	addr     int // index into progs[Acct]
}

// fund replaces the wallet's outputs by the funding set of the case.
func (w *world) fund(c tcase) error {
	var plan []planned
	add := func(p planned, slot int) {
		p.addr = slot % 4
		plan = append(plan, p)
	}
	req := requested(c.List)
	slot := 0
	for a := 0; a < 2; a++ {
		if !spends(c.List, a) {
			continue
		}
		for s := 0; s < 3; s++ {
			if req[a][s] == 0 {
				continue
			}
			for _, amt := range fundingAmounts(c.Fund[a][s], req[a][s]) {
				add(planned{wutxo: wutxo{Acct: a, Src: s, Amount: amt, Mature: true}, vote: s == srcVote}, slot)
				slot++
			}
		}
		for _, act := range c.List {
			if act.Acct != a {
				continue
			}
			switch act.Kind {
			case kSpendUTXOBTM:
				add(planned{wutxo: wutxo{Acct: a, Src: srcBTM, Amount: particularBTM, Mature: true, Particular: true}, partKey: &[2]int{a, assetBTM}}, slot)
				slot++
			case kSpendUTXOX:
				add(planned{wutxo: wutxo{Acct: a, Src: srcX, Amount: particularX, Mature: true, Particular: true}, partKey: &[2]int{a, assetX}}, slot)
				slot++
			}
		}
		// a large immature BTM output that must never be selected
		add(planned{wutxo: wutxo{Acct: a, Src: srcBTM, Amount: 50 * unitB, Mature: false}, immature: true}, slot)
		slot++
	}
	return w.install(plan, c.Place)
}

// install drops the previous case's wallet outputs and writes the planned ones: they are the outputs of
// one never-mined funding transaction, recorded the way the wallet's indexer records them.
func (w *world) install(plan []planned, place int) error {
	for _, k := range w.db.Keys([]byte(account.UTXOPreFix)) {
		w.db.Delete(k)
	}
	if len(w.unconfirmed) > 0 {
		w.mgr.RemoveUnconfirmedUtxo(w.unconfirmed)
		w.unconfirmed = nil
	}
	w.utxos = map[bc.Hash]*wutxo{}
	w.particular = map[[2]int]bc.Hash{}
	w.counter++

	var outs []*types.TxOutput
	for i := range plan {
		p := &plan[i]
		asset := *consensus.BTMAssetID
		if p.Src == srcX {
			asset = w.g.assetX
		}
		cp := w.progs[p.Acct][p.addr]
		p.Program = cp.ControlProgram
		if p.vote {
			outs = append(outs, types.NewVoteOutput(asset, p.Amount, cp.ControlProgram, w.g.voteKey, nil))
		} else {
			outs = append(outs, types.NewOriginalTxOutput(asset, p.Amount, cp.ControlProgram, nil))
		}
	}

	var src [32]byte
	copy(src[:], fmt.Sprintf("c27 funding %d/%d", w.id, w.counter))
	ftx := types.NewTx(types.TxData{Version: 1,
		Inputs:  []*types.TxInput{types.NewSpendInput(nil, bc.NewHash(src), *consensus.BTMAssetID, 1<<60, 0, []byte{0x51}, nil)},
		Outputs: outs})

	var unconf []*account.UTXO
	for i, p := range plan {
		u := &account.UTXO{
			OutputID:       *ftx.OutputID(i),
			AssetID:        *outs[i].AssetAmount.AssetId,
			Amount:         outs[i].AssetAmount.Amount,
			ControlProgram: outs[i].ControlProgram,
		}
		switch e := ftx.Entries[*ftx.ResultIds[i]].(type) {
		case *bc.OriginalOutput:
			u.SourceID, u.SourcePos = *e.Source.Ref, e.Source.Position
		case *bc.VoteOutput:
			u.SourceID, u.SourcePos, u.Vote = *e.Source.Ref, e.Source.Position, e.Vote
			u.ValidHeight = 1 + consensus.VotePendingBlockNums(1) // funded in block 1
		default:
			return fmt.Errorf("funding output %d has entry type %T", i, e)
		}
		if p.immature {
			u.ValidHeight = w.g.height + 5
		}
		cp := w.progs[p.Acct][p.addr]
		u.AccountID, u.Address, u.ControlProgramIndex, u.Change = cp.AccountID, cp.Address, cp.KeyIndex, cp.Change

		rec := p.wutxo
		w.utxos[u.OutputID] = &rec
		if p.partKey != nil {
			w.particular[*p.partKey] = u.OutputID
		}
		confirmed := p.immature || place == placeConfirmed || place == placeConfirmedFlag || place == placeBothFlag
		unconfirmed := !p.immature && (place == placeUnconfirmedFlag || place == placeBothFlag)
		if confirmed {
			raw, err := json.Marshal(u)
			if err != nil {
				return err
			}
			w.db.Set(account.StandardUTXOKey(u.OutputID), raw)
		}
		if unconfirmed {
			cpy := *u
			unconf = append(unconf, &cpy)
			id := u.OutputID
			w.unconfirmed = append(w.unconfirmed, &id)
		}
	}
	if len(unconf) > 0 {
		w.mgr.AddUnconfirmedUtxo(unconf)
	}
	return nil
}

// decodeActions turns the list into real actions through the JSON decoders the API uses.
func (w *world) decodeActions(c tcase) ([]txbuilder.Action, error) {
	useU := c.Place != placeConfirmed
	btm := consensus.BTMAssetID.String()
	assetHex := []string{btm, w.g.assetX.String()}
	var actions []txbuilder.Action
	for _, a := range c.List {
		var m map[string]interface{}
		var dec func([]byte) (txbuilder.Action, error)
		switch a.Kind {
		case kSpendBTM, kSpendX:
			m = map[string]interface{}{"type": "spend_account", "account_id": w.accts[a.Acct].ID, "asset_id": assetHex[a.Asset], "amount": a.Amount, "use_unconfirmed": useU}
			dec = w.mgr.DecodeSpendAction
		case kSpendUTXOBTM, kSpendUTXOX:
			id := w.particular[[2]int{a.Acct, a.Asset}]
			m = map[string]interface{}{"type": "spend_account_unspent_output", "output_id": id.String(), "use_unconfirmed": useU}
			dec = w.mgr.DecodeSpendUTXOAction
		case kVeto:
			m = map[string]interface{}{"type": "veto", "account_id": w.accts[a.Acct].ID, "asset_id": btm, "amount": a.Amount, "vote": hex.EncodeToString(w.g.voteKey), "use_unconfirmed": useU}
			dec = w.mgr.DecodeVetoAction
		case kCtrlAddr:
			m = map[string]interface{}{"type": "control_address", "asset_id": assetHex[a.Asset], "amount": a.Amount, "address": w.destAddress(a.Dest)}
			dec = txbuilder.DecodeControlAddressAction
		case kCtrlProg:
			m = map[string]interface{}{"type": "control_program", "asset_id": assetHex[a.Asset], "amount": a.Amount, "control_program": hex.EncodeToString(w.g.extP2WSH)}
			dec = txbuilder.DecodeControlProgramAction
		case kRetire:
			m = map[string]interface{}{"type": "retire", "asset_id": assetHex[a.Asset], "amount": a.Amount, "arbitrary": hex.EncodeToString(retireComment(a))}
			dec = txbuilder.DecodeRetireAction
		case kVote:
			m = map[string]interface{}{"type": "vote_output", "asset_id": btm, "amount": a.Amount, "address": w.g.extAddr, "vote": hex.EncodeToString(w.g.voteKey)}
			dec = txbuilder.DecodeVoteOutputAction
		}
		raw, err := json.Marshal(m)
		if err != nil {
			return nil, err
		}
		act, err := dec(raw)
		if err != nil {
			return nil, fmt.Errorf("decoding %s: %v", raw, err)
		}
		actions = append(actions, act)
	}
	return account.MergeSpendAction(actions), nil
}

func retireComment(a action) []byte {
	if a.Asset == assetX {
		return []byte{0xc2, 0x70}
	}
	return nil
}

func (w *world) destAddress(d int) string {
	switch d {
	case destSingle:
		return w.progs[acctSingle][0].Address
	case destMulti:
		return w.progs[acctMulti][0].Address
	}
	return w.g.extAddr
}

func (w *world) destProgram(d int) []byte {
	switch d {
	case destSingle:
		return w.progs[acctSingle][0].ControlProgram
	case destMulti:
		return w.progs[acctMulti][0].ControlProgram
	}
	return w.g.extProg
}

// passwords lists the Sign calls of the case: one per signing key.
func (w *world) passwords(c tcase) []string {
	var pws []string
	if spends(c.List, acctSingle) {
		pws = append(pws, w.g.keys[0].pw)
	}
	if c.Signers >= 0 {
		p := signerPairs[c.Signers]
		pws = append(pws, w.g.keys[1+p[0]].pw, w.g.keys[1+p[1]].pw)
	}
	return pws
}

var farFuture = time.Unix(4_000_000_000, 0)

func cloneTemplate(raw []byte) (*txbuilder.Template, error) {
	t := &txbuilder.Template{}
	return t, json.Unmarshal(raw, t)
}

func txHex(tx *types.Tx) string {
	b, err := tx.TxData.MarshalText()
	if err != nil {
		return "marshal error: " + err.Error()
	}
	return string(b)
}
