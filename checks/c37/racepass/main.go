// racepass: the same scenario bodies as the exhaustive C37 explorer, on the UNREWRITTEN sources,
// with real goroutines, built with -race and repeated. A cooperative scheduler's hand-offs are
// happens-before edges, so unsynchronised accesses can only be seen in this free-running pass.
// This part is sampling (supporting evidence); prints the race detector's reports on stderr.
package main

import (
	"fmt"
	"os"
	"strconv"
	"sync"
	"time"

	"verif/checks/c37/scen"
	"verif/lib/labnet"
)

func main() {
	n := 20
	if len(os.Args) > 1 {
		if v, err := strconv.Atoi(os.Args[1]); err == nil {
			n = v
		}
	}
	scs := scen.Build(len(os.Args) > 2 && os.Args[2] == "thorough")
	runs := 0
	for _, sc := range scs {
		for i := 0; i < n; i++ {
			nd, err := labnet.NewNode(sc.Base())
			if err != nil {
				fmt.Println("RACEPASS-ERROR", err)
				os.Exit(2)
			}
			for _, c := range sc.Setup {
				c.F(nd)
			}
			var wg sync.WaitGroup
			for _, th := range sc.Threads {
				th := th
				wg.Add(1)
				go func() {
					defer wg.Done()
					for _, c := range th {
						c.F(nd)
					}
				}()
			}
			wg.Wait()
			for _, m := range scen.CheckHeld(nd) {
				fmt.Println("RACEPASS-HELD-BLOCK-MODIFIED", sc.Name+":", m)
			}
			// progress watchdog for the BlockWaiter goroutines: every call into the node has returned, so a waiter whose
			// height is reached has been woken already and only needs to be scheduled
			lost, early := scen.CheckWaiters(nd, scen.MaxHeight(), func(ch <-chan struct{}, mustFire bool) bool {
				if !mustFire {
					select {
					case <-ch:
						return true
					default:
						return false
					}
				}
				select {
				case <-ch:
					return true
				case <-time.After(30 * time.Second):
					return false
				}
			})
			for _, m := range append(lost, early...) {
				fmt.Println("RACEPASS-WAITER", sc.Name+":", m)
			}
			if len(lost) > 0 {
				// one report is enough; every further repetition would sit out the watchdog again
				fmt.Println("RACEPASS-RUNS", runs)
				os.Exit(0)
			}
			runs++
		}
	}
	fmt.Println("RACEPASS-RUNS", runs)
}
