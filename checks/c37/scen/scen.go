// Package scen defines the concurrent scenarios of C37 (shared by the exhaustive explorer and the race pass).
package scen

import (
	"fmt"
	"sync"

	"github.com/bytom/bytom/protocol/bc/types"

	"verif/lib/chainlab"
	"verif/lib/crashkv"
	"verif/lib/ev"
	"verif/lib/labnet"
)

// Call is one call into the node.
type Call struct {
	Name string
	F    func(nd *labnet.Node) string
}

// Scenario: sequential set-up, then concurrent threads.
type Scenario struct {
	Name    string
	Base    func() *crashkv.DB
	Setup   []Call
	Threads [][]Call
	// QuickCap, when > 0, replaces the quick tier's cap on executed schedules per preemption bound (layout families
	// with many members; the thorough tier explores them up to the common cap)
	QuickCap int
}

var (
	net *labnet.Net
	W   *chainlab.World
	P   *chainlab.Prelude
	PW  *chainlab.World
	ptx *types.Tx
)

// BestName names a block hash in either world.
func BestName(nd *labnet.Node) string {
	best := nd.Chain.BestBlockHeader()
	if PW != nil && PW.Index(best.Hash()) >= 0 {
		return PW.Name(best.Hash())
	}
	return W.Name(best.Hash())
}

// Blocks the harness handed to ProcessBlock stay "held" by their caller, as a peer manager holds a block it relays
// after processing: once the call has returned nobody else may write to the object. Each held block is kept with
// its serialisation at return time; CheckHeld compares again at the end of the execution, relayCall re-serialises
// the held blocks concurrently with the other threads (for the free-running race pass).
type held struct {
	b   *types.Block
	raw string
}

var (
	heldMu     sync.Mutex
	heldBlocks = map[*labnet.Node][]held{}
)

func hold(nd *labnet.Node, b *types.Block) {
	raw, _ := b.MarshalText()
	heldMu.Lock()
	heldBlocks[nd] = append(heldBlocks[nd], held{b, string(raw)})
	heldMu.Unlock()
}

// CheckHeld reports the held blocks of nd that changed after ProcessBlock had returned, and forgets them.
func CheckHeld(nd *labnet.Node) []string {
	heldMu.Lock()
	hs := heldBlocks[nd]
	delete(heldBlocks, nd)
	heldMu.Unlock()
	var out []string
	for _, h := range hs {
		raw, _ := h.b.MarshalText()
		if string(raw) != h.raw {
			hash := h.b.Hash()
			out = append(out, fmt.Sprintf("block %s (height %d) was %d bytes when ProcessBlock returned and is %d bytes now: something kept writing to the caller's block", hash.String()[:8], h.b.Height, len(h.raw), len(raw)))
		}
	}
	return out
}

// Waiters: goroutines parked in Chain.BlockWaiter(h) (what the wallet, the websocket notifier and the trace updater
// do). waiterCall only registers the waiter (BlockWaiter returns at once, its goroutine parks on the chain's condition
// variable and is scheduled like any other thread); CheckWaiters is the progress oracle, evaluated when nothing can
// run any more: a waiter whose height the best block has reached must have delivered on its channel ("the call
// <-BlockWaiter(h) returns"), and a waiter can only have delivered if some delivered block had that height.
type waiter struct {
	h  uint64
	ch <-chan struct{}
}

var waiters = map[*labnet.Node][]waiter{}

func waiterCall(h uint64) Call {
	return Call{fmt.Sprintf("BW(%d)", h), func(nd *labnet.Node) string {
		ch := nd.Chain.BlockWaiter(h)
		heldMu.Lock()
		waiters[nd] = append(waiters[nd], waiter{h, ch})
		heldMu.Unlock()
		return ""
	}}
}

// CheckWaiters compares every registered waiter of nd with the reference and forgets them. fired(i) reports whether
// waiter i's channel has delivered (the explorer looks at the quiescent state, the race pass waits with a timeout).
// maxHeight is the largest height of any block the scenario delivers.
func CheckWaiters(nd *labnet.Node, maxHeight uint64, fired func(ch <-chan struct{}, mustFire bool) bool) (lost, early []string) {
	heldMu.Lock()
	ws := waiters[nd]
	delete(waiters, nd)
	heldMu.Unlock()
	best := nd.Chain.BestBlockHeight()
	for i, w := range ws {
		f := fired(w.ch, best >= w.h)
		switch {
		case best >= w.h && !f:
			lost = append(lost, fmt.Sprintf("waiter #%d of %d (registration order) for height %d never delivered although the best block height is %d and nothing can run any more: <-BlockWaiter(%d) does not return", i, len(ws), w.h, best, w.h))
		case f && w.h > maxHeight:
			early = append(early, fmt.Sprintf("waiter #%d for height %d delivered although no block above height %d was ever delivered", i, w.h, maxHeight))
		}
	}
	return
}

// MaxHeight is the largest block height in either world (bound for a legitimate waiter delivery).
func MaxHeight() uint64 {
	var m uint64
	for _, w := range []*chainlab.World{W, PW} {
		if w == nil {
			continue
		}
		for _, b := range w.Blocks {
			if b.Height > m {
				m = b.Height
			}
		}
	}
	return m
}

func relayCall() Call {
	return Call{"relay-held-blocks", func(nd *labnet.Node) string {
		heldMu.Lock()
		hs := append([]held(nil), heldBlocks[nd]...)
		heldMu.Unlock()
		for _, h := range hs {
			h.b.MarshalText()
		}
		return ""
	}}
}

func blockCall(w *chainlab.World, i int) Call {
	return Call{"B:" + w.Names[i], func(nd *labnet.Node) string {
		cp := *w.Blocks[i].Block
		cp.SupLinks = nil
		orphan, err := nd.Chain.ProcessBlock(&cp)
		hold(nd, &cp)
		return fmt.Sprintf("orphan=%v err=%v", orphan, err != nil)
	}}
}

// blockSLCall delivers block i carrying header signatures of the given validators for src -> i.
func blockSLCall(w *chainlab.World, i, src int, signers ...int) Call {
	return Call{fmt.Sprintf("B:%s+sig%v", w.Names[i], signers), func(nd *labnet.Node) string {
		cp := w.BlockWithLinks(chainlab.Event{Kind: chainlab.EvBlockSL, Block: i, Src: src, Signers: signers})
		orphan, err := nd.Chain.ProcessBlock(cp)
		hold(nd, cp)
		return fmt.Sprintf("orphan=%v err=%v", orphan, err != nil)
	}}
}

func voteCall(w *chainlab.World, v, s, t int) Call {
	return Call{fmt.Sprintf("V%d:%s>%s", v, w.Names[s], w.Names[t]), func(nd *labnet.Node) string {
		err := nd.Chain.ProcessBlockVerification(labnet.VoteMsg(net.Keys[v], w.Blocks[s].Hash(), w.Blocks[t].Hash()))
		return fmt.Sprintf("err=%v", err != nil)
	}}
}

func readsCall(w *chainlab.World, blk int) Call {
	return Call{"reads", func(nd *labnet.Node) string {
		nd.Chain.BestBlockHeader()
		nd.Chain.LastFinalizedHeader()
		nd.Chain.LastJustifiedHeader()
		nd.Chain.InMainChain(w.Blocks[blk].Hash())
		nd.Chain.BestBlockHeight()
		return ""
	}}
}

// Build returns the scenarios.
func Build(thorough bool) []Scenario {
	net = labnet.Setup(2, 2, 4)
	net.SetLocalKey(labnet.OutsiderKey())
	w := chainlab.NewWorld(net, net.Gen, nil)
	a1 := w.AddBlock(0, "a1", labnet.BlockOpt{})
	a2 := w.AddBlock(a1, "a2", labnet.BlockOpt{})
	a3 := w.AddBlock(a2, "a3", labnet.BlockOpt{})
	a4 := w.AddBlock(a3, "a4", labnet.BlockOpt{})
	b1 := w.AddBlock(0, "b1", labnet.BlockOpt{Tag: 1})
	b2 := w.AddBlock(b1, "b2", labnet.BlockOpt{Tag: 1})
	b3 := w.AddBlock(b2, "b3", labnet.BlockOpt{Tag: 1})
	b4 := w.AddBlock(b3, "b4", labnet.BlockOpt{Tag: 1})
	b5 := w.AddBlock(b4, "b5", labnet.BlockOpt{Tag: 1})
	W = w
	B := func(i int) Call { return blockCall(w, i) }
	V := func(v, s, t int) Call { return voteCall(w, v, s, t) }
	empty := func() *crashkv.DB { return crashkv.New() }
	forkSetup := []Call{B(a1), B(a2), B(a3), B(b1), B(b2), V(0, 0, b2), V(1, 0, b2)}
	sc := []Scenario{
		{"S1 best-changing vote alone", empty, forkSetup, [][]Call{{V(2, 0, b2)}}, 0},
		{"S2 block || best-changing vote || reads", empty, forkSetup, [][]Call{{B(a4)}, {V(2, 0, b2)}, {readsCall(w, a2)}}, 0},
		{"S4 cached votes replayed at epoch block || vote || block", empty, []Call{B(a1), V(0, 0, a2), V(1, 0, a2)}, [][]Call{{B(a2), B(a3)}, {V(2, 0, a2)}, {B(b1)}}, 0},
		// votes for b2 parked before b2 is known; b4 and b5 wait as orphans; b3 starts the epoch after b2 (the parked
		// votes are replayed and ask the chain to move to branch b) and connects the orphan run, whose b5 starts the
		// NEXT epoch while the first replay may still be waiting for the chain
		{"S7 parked best-changing votes replayed || orphan run crossing the next epoch boundary || reads", empty,
			[]Call{B(a1), B(a2), B(a3), B(a4), V(0, 0, b2), V(1, 0, b2), V(2, 0, b2), B(b1), B(b2), B(b4), B(b5)},
			[][]Call{{B(b3)}, {readsCall(w, b2)}}, 0},
		// a2 arrives carrying validator 0's signature; validator 1's vote for the same link is admitted while the
		// caller still holds (and relays) the block it had delivered
		{"S8 vote for a link the delivered block carries || relay of the delivered block || block", empty,
			[]Call{B(a1)}, [][]Call{{blockSLCall(w, a2, 0, 0), V(1, 0, a2)}, {relayCall(), relayCall()}, {B(b1)}}, 0},
	}
	// S3 needs spendable outputs: prelude built once with real goroutines (pass-through mode)
	var err error
	P, err = chainlab.NewPrelude(net, 16)
	if err != nil {
		ev.Fatal("prelude: %v", err)
	}
	pw := chainlab.NewWorld(net, P.Tip, P.Base)
	ptx = labnet.Pay([]labnet.Out{P.U[0]}, labnet.Prog(0x61))
	ptx2 := labnet.Pay([]labnet.Out{P.U[1]}, labnet.Prog(0x62))
	p1 := pw.AddBlock(0, "p1", labnet.BlockOpt{Txs: []*types.Tx{ptx}})
	PW = pw
	validate := func(t *types.Tx, n string) Call {
		return Call{"ValidateTx:" + n, func(nd *labnet.Node) string {
			_, err := nd.Chain.ValidateTx(t)
			return fmt.Sprintf("err=%v", err != nil)
		}}
	}
	poolReads := Call{"pool-reads", func(nd *labnet.Node) string {
		nd.Pool.GetTransactions()
		nd.Pool.IsTransactionInPool(&ptx.ID)
		nd.Pool.HaveTransaction(&ptx2.ID)
		return ""
	}}
	sc = append(sc, Scenario{"S3 ValidateTx || block containing it || pool reads", func() *crashkv.DB { return P.Base.Clone() }, []Call{validate(ptx2, "t2")},
		[][]Call{{validate(ptx, "t1")}, {blockCall(pw, p1)}, {poolReads}}, 0})
	// S9: waiter layouts. Every ordered list of 2 (thorough: also 3) waiter heights from {next, next+1, far} is parked
	// in that order on the chain's condition variable before two blocks are delivered, while a further waiter is
	// registered concurrently with the block processing. S10: the same with the best block changed by a vote (setState
	// through the rollback path) concurrently with a block.
	const far = 100
	lay := [][]uint64{}
	hs := []uint64{2, 3, far}
	for _, x := range hs {
		for _, y := range hs {
			lay = append(lay, []uint64{x, y})
			if thorough {
				for _, z := range hs {
					lay = append(lay, []uint64{x, y, z})
				}
			}
		}
	}
	for _, l := range lay {
		setup := []Call{B(a1)}
		for _, h := range l {
			setup = append(setup, waiterCall(h))
		}
		sc = append(sc, Scenario{fmt.Sprintf("S9 waiters parked for heights %v || two blocks || waiter registered meanwhile", l), empty, setup,
			[][]Call{{B(a2), B(a3)}, {waiterCall(3)}}, 80})
	}
	lay10 := [][]uint64{{4, 4}, {far, 4}, {4, far}}
	if thorough {
		lay10 = append(lay10, []uint64{3, 4}, []uint64{4, 3}, []uint64{far, 4, 4}, []uint64{4, far, 4}, []uint64{4, 4, 4})
	}
	for _, l := range lay10 {
		setup := append([]Call(nil), forkSetup...)
		for _, h := range l {
			setup = append(setup, waiterCall(h))
		}
		sc = append(sc, Scenario{fmt.Sprintf("S10 waiters parked for heights %v || block || best-changing vote || waiter registered meanwhile", l), empty, setup,
			[][]Call{{B(a4)}, {V(2, 0, b2)}, {waiterCall(4)}}, 80})
	}
	if thorough {
		sc = append(sc,
			Scenario{"S5 two best-changing votes || block", empty, []Call{B(a1), B(a2), B(a3), B(b1), B(b2), V(0, 0, b2), V(1, 0, b2), V(0, 0, a2), V(1, 0, a2)}, [][]Call{{V(2, 0, b2)}, {V(3, 0, a2)}, {B(b3)}}, 0},
			Scenario{"S6 blocks of both forks || vote", empty, []Call{B(a1), B(b1), B(b2), V(0, 0, b2), V(1, 0, b2)}, [][]Call{{B(a2), B(a3)}, {V(2, 0, b2)}, {B(b3)}}, 0},
		)
	}
	return sc
}
