// C37: concurrent block, vote and transaction processing neither deadlocks nor panics.
// The protocol and casper packages are rewritten mechanically so that every lock, channel
// operation, select and go statement is a scheduling point of lib/vsched; small multi-threaded
// scenarios against the REAL Chain / Casper / TxPool (including their internal goroutines:
// block processor, cached-vote replay loop) are executed under every schedule with a bounded
// number of preemptions. (Unsynchronised accesses are outside this engine: see the race pass.)
package main

import (
	"context"
	"fmt"
	"os"
	"os/exec"
	"strings"
	"time"

	"verif/checks/c37/scen"
	"verif/lib/ev"
	"verif/lib/labnet"
	"verif/lib/vsched"
)

func body(sc scen.Scenario) func(x *vsched.Exec) {
	return func(x *vsched.Exec) {
		var nd *labnet.Node
		x.Deterministic(func() {
			var err error
			nd, err = labnet.NewNode(sc.Base())
			if err != nil {
				x.Fail("infra-newnode", err.Error())
				return
			}
			for _, c := range sc.Setup {
				c.F(nd)
			}
		})
		if nd == nil {
			return
		}
		results := make([][]string, len(sc.Threads))
		for t := range sc.Threads {
			t := t
			results[t] = make([]string, len(sc.Threads[t]))
			x.Spawn(fmt.Sprintf("T%d", t), func() {
				for i, c := range sc.Threads[t] {
					results[t][i] = c.Name + ":" + c.F(nd)
				}
			})
		}
		x.Join()
		// let the background loops finish, then observe (observation only: C11 owns the fork-choice oracle)
		x.Settle()
		for _, m := range scen.CheckHeld(nd) {
			x.Fail("block-modified-after-ProcessBlock-returned", m)
		}
		// progress oracle for the goroutines parked in Chain.BlockWaiter: nothing can run any more, so a waiter that
		// has not delivered by now never will
		lost, early := scen.CheckWaiters(nd, scen.MaxHeight(), func(ch <-chan struct{}, _ bool) bool { return len(ch) > 0 })
		for _, m := range lost {
			x.Fail("blockwaiter-never-returns-although-height-reached", m)
		}
		for _, m := range early {
			x.Fail("blockwaiter-returned-before-height-reached", m)
		}
		name := scen.BestName(nd)
		var rs []string
		for _, r := range results {
			rs = append(rs, strings.Join(r, ","))
		}
		x.Observe("best=" + name + " " + strings.Join(rs, " | "))
	}
}

func main() {
	run := ev.Start("C37", "model_checking")
	thorough := run.Thorough()
	scs := scen.Build(thorough)
	bound := run.Pick(1, 2)
	totalExec, totalDec, states := 0, 0, 0
	exhaustive := true
	for _, sc := range scs {
		var names []string
		for _, th := range sc.Threads {
			var n []string
			for _, c := range th {
				n = append(n, c.Name)
			}
			names = append(names, strings.Join(n, ";"))
		}
		desc := sc.Name + ": " + strings.Join(names, " || ")
		for b := 0; b <= bound; b++ {
			if run.OutOfTime() {
				exhaustive = false
				break
			}
			maxExec := run.Pick(1500, 60000)
			if !thorough && sc.QuickCap > 0 {
				maxExec = sc.QuickCap
			}
			cfg := vsched.Config{Name: sc.Name, Bound: b, Stall: 120 * time.Second, MaxExec: maxExec, Deadline: run.DeadlineIn(time.Duration(run.Pick(60, 240)) * time.Second)}
			st := vsched.Explore(cfg, body(sc))
			if st.Infra != "" {
				if st.StallReproduced {
					run.Violation("call-never-returns-under-schedule", fmt.Sprintf("%s: the same schedule stalled three times: %s", sc.Name, st.Infra), map[string]interface{}{"scenario": sc.Name, "schedule": st.StallSchedule})
				} else {
					run.Set("stall_not_reproduced", fmt.Sprintf("%s: %s", sc.Name, st.Infra))
					run.Capped("an execution stalled once and did not stall again when its schedule was replayed twice (load or nondeterminism outside the scheduler)")
				}
				break
			}
			if b == bound || len(st.Failures) > 0 {
				totalExec += st.Executions
				totalDec += st.Decisions
				states += len(st.Outcomes)
				run.Sample(map[string]interface{}{"scenario": desc, "preemption_bound": b, "schedules": st.Executions, "distinct_outcomes": len(st.Outcomes), "diverged": st.Diverged, "complete": st.Complete})
				for o := range st.Outcomes {
					run.Outcome(sc.Name + " -> " + o)
				}
			}
			if !st.Complete {
				exhaustive = false
			}
			for _, f := range st.Failures {
				run.Violation(f.Key, fmt.Sprintf("scenario %s, preemption bound %d: %s", desc, b, f.What), map[string]interface{}{"scenario": desc, "bound": b, "schedule": f.Schedule, "what": f.What})
			}
			if len(st.Failures) > 0 {
				break
			}
		}
	}
	racePass(run)
	run.Set("states", states)
	run.Set("transitions", totalDec)
	run.Set("schedules", totalExec)
	run.Set("traces_validated_against_impl", totalExec)
	run.Set("preemption_bound", bound)
	run.Set("exhaustive", exhaustive)
	if b, err := os.ReadFile(ev.Root() + "/.build/c37/sites.json"); err == nil {
		run.Set("rewritten_sites", string(b))
	}
	run.Set("rule", "for each scenario every schedule with at most preemption_bound preemptions at lock / channel / select / go granularity is executed on the real Chain+Casper+TxPool (internal goroutines scheduled like any other); verdict per execution: every harness call returned, no deadlock, no panic, and when nothing can run any more every goroutine parked in Chain.BlockWaiter(h) (scenario families S9/S10: every ordered list of 2 (thorough 3) waiter heights from {next, next+1, far} parked before the blocks / the vote, one more registered meanwhile) has delivered if and only if allowed: delivered when final best height >= h, never for a height no delivered block has; states = distinct observed outcomes (final best block and per-call results), transitions = scheduling decisions")
	run.Assume("protocol/*.go and protocol/casper/*.go rewritten mechanically at check time (see rewritten_sites); locks inside leaf utilities (caches, store, dispatcher) stay real because they never block while held; unsynchronised memory accesses are not visible to this engine; sync.Cond is modelled with FIFO wake-up order (the runtime's notify list) and Signal/Broadcast are performed under the caller's lock; quick tier caps each S9/S10 layout at 80 schedules per preemption bound")
	run.Finish()
}

// racePass runs the free-running -race binary of the same scenario bodies (sampling, supporting evidence).
func racePass(run *ev.Run) {
	bin := ev.Root() + "/.build/bin/C37race"
	if _, err := os.Stat(bin); err != nil {
		ev.Fatal("race pass binary missing: %v", err)
	}
	n := fmt.Sprint(run.Pick(15, 300))
	args := []string{n}
	if run.Thorough() {
		args = append(args, "thorough")
	}
	// the pass runs real goroutines: code that deadlocks (the explorer above reports that as a violation) makes it
	// hang, so it runs under a generous watchdog; not finishing is recorded, never a verdict of its own
	budget := time.Duration(run.Pick(15, 300))*4*time.Second + 5*time.Minute
	ctx, cancel := context.WithTimeout(context.Background(), budget)
	defer cancel()
	cmd := exec.CommandContext(ctx, bin, args...)
	cmd.Env = append(os.Environ(), "GORACE=halt_on_error=0")
	out, err := cmd.CombinedOutput()
	text := string(out)
	if ctx.Err() != nil {
		run.Set("race_pass", fmt.Sprintf("did not finish within %v and was stopped (a call that never returns in a free-running execution; the controlled exploration is the deciding part)", budget))
		run.Capped("free-running race pass stopped by its watchdog")
		return
	}
	if !strings.Contains(text, "RACEPASS-RUNS") {
		// the pass died. When the Go runtime or the code under test killed it, that is the behaviour the statement
		// excludes (the explorer above counts a panic and a deadlock the same way); race reports printed before
		// the death are still read below
		at := func(marker string) string { return tail(text[strings.Index(text, marker):], 40) }
		switch {
		case strings.Contains(text, "fatal error: concurrent map"):
			run.Violation("race-pass-concurrent-map-access", "free-running pass: the runtime stopped the process on an unsynchronised map access:\n"+at("fatal error: concurrent map"), map[string]interface{}{"output": at("fatal error: concurrent map")})
		case strings.Contains(text, "all goroutines are asleep"):
			run.Violation("race-pass-deadlock", "free-running pass: every goroutine blocked, a call never returns:\n"+at("fatal error:"), map[string]interface{}{"output": at("fatal error:")})
		case strings.Contains(text, "\npanic: ") || strings.HasPrefix(text, "panic: "):
			run.Violation("race-pass-panic", "free-running pass: a call panicked:\n"+at("panic: "), map[string]interface{}{"output": at("panic: ")})
		default:
			ev.Fatal("race pass did not complete: %v\n%s", err, tail(text, 40))
		}
	}
	for _, l := range strings.Split(text, "\n") {
		if strings.HasPrefix(l, "RACEPASS-HELD-BLOCK-MODIFIED") {
			run.Violation("block-modified-after-ProcessBlock-returned", "free-running pass: "+strings.TrimPrefix(l, "RACEPASS-HELD-BLOCK-MODIFIED "), map[string]interface{}{"line": l})
			break
		}
	}
	for _, l := range strings.Split(text, "\n") {
		if strings.HasPrefix(l, "RACEPASS-WAITER") {
			key := "blockwaiter-never-returns-although-height-reached"
			if strings.Contains(l, "delivered although no block") {
				key = "blockwaiter-returned-before-height-reached"
			}
			run.Violation(key, "free-running pass (30 s watchdog): "+strings.TrimPrefix(l, "RACEPASS-WAITER "), map[string]interface{}{"line": l})
			break
		}
	}
	reports := strings.Split(text, "WARNING: DATA RACE")[1:]
	run.Set("race_pass_reports", len(reports))
	for _, l := range strings.Split(text, "\n") {
		if strings.HasPrefix(l, "RACEPASS-RUNS") {
			run.Set("race_pass_runs", strings.TrimSpace(strings.TrimPrefix(l, "RACEPASS-RUNS")))
		}
	}
	for _, r := range reports {
		var fns []string
		lines := strings.Split(r, "\n")
		for i, l := range lines {
			t := strings.TrimSpace(l)
			if (strings.Contains(t, " by goroutine") || strings.Contains(t, " by main goroutine")) && i+1 < len(lines) {
				f := strings.TrimSpace(lines[i+1])
				if j := strings.LastIndex(f, "/"); j >= 0 {
					f = f[j+1:]
				}
				fns = append(fns, strings.TrimSuffix(f, "()"))
			}
		}
		key := "data-race:" + strings.Join(fns, "-vs-")
		run.Violation(key, "the race detector reported an unsynchronised access in the free-running pass:\n"+tail("WARNING: DATA RACE"+r, 45), map[string]interface{}{"report": "WARNING: DATA RACE" + r})
	}
}

func tail(s string, n int) string {
	ls := strings.Split(strings.TrimRight(s, "\n"), "\n")
	if len(ls) > n {
		ls = ls[:n]
	}
	return strings.Join(ls, "\n")
}
