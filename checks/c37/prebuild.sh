#!/bin/bash
# 1. race pass binary: unrewritten sources + export hooks, -race
# 2. rewritten protocol / casper sources for the exhaustive explorer
set -e
export GOFLAGS=-mod=mod GOPROXY=off GOSUMDB=off GOTOOLCHAIN=local
D="$(cd "$(dirname "$0")" && pwd)"; ROOT="$D/../.."
cd "$ROOT"
mkdir -p .build/bin
go build -race -tags verif -overlay "$1" -o .build/bin/C37race ./checks/c37/racepass
exec "$ROOT/tools/vrw_prebuild.sh" "$1" c37 /repo/protocol/protocol.go /repo/protocol/block.go /repo/protocol/txpool.go /repo/protocol/orphan_manage.go /repo/protocol/tx.go /repo/protocol/casper/casper.go /repo/protocol/casper/apply_block.go /repo/protocol/casper/auth_verification.go /repo/protocol/casper/tree_node.go /repo/protocol/casper/verfication.go
