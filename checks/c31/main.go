// C31: checked arithmetic is exact.
//
// Every function of math/checked is executed on ALL pairs (unary: all values) of a
// boundary set that is closed under the points where its range guard flips, and
// compared with exact big.Int arithmetic: ok must be true exactly when the exact
// result is representable in the type, and then the value must be the exact result.
// A `false` for a representable result is a violation as much as a wrapped value.
package main

import (
	"fmt"
	"math/big"
	"regexp"
	"runtime"
	"sort"
	"strings"
	"sync"

	"github.com/bytom/bytom/math/checked"

	"verif/lib/ev"
)

// ---------------------------------------------------------------- types

type typ struct {
	name   string
	width  int
	signed bool
	min    *big.Int
	max    *big.Int
}

func mkTyp(name string, width int, signed bool) *typ {
	t := &typ{name: name, width: width, signed: signed}
	one := big.NewInt(1)
	if signed {
		t.max = new(big.Int).Sub(new(big.Int).Lsh(one, uint(width-1)), one)
		t.min = new(big.Int).Neg(new(big.Int).Lsh(one, uint(width-1)))
	} else {
		t.max = new(big.Int).Sub(new(big.Int).Lsh(one, uint(width)), one)
		t.min = big.NewInt(0)
	}
	return t
}

func (t *typ) fits(v *big.Int) bool { return v.Cmp(t.min) >= 0 && v.Cmp(t.max) <= 0 }

// values builds the boundary set of the type. ks is the list of exponents k used for
// the +-2^k(+-1) family; the set is then closed under the guard flip points
// MAX/a, MIN/a, MAX-a, MIN-a (each +-1) of every member a.
func (t *typ) values(ks []int) []*big.Int {
	set := map[string]*big.Int{}
	add := func(v *big.Int) {
		if t.fits(v) {
			set[v.String()] = new(big.Int).Set(v)
		}
	}
	addPM := func(v *big.Int) { // v, v+-1 and the negatives
		for d := int64(-1); d <= 1; d++ {
			x := new(big.Int).Add(v, big.NewInt(d))
			add(x)
			add(new(big.Int).Neg(x))
		}
	}
	for i := int64(-17); i <= 17; i++ {
		add(big.NewInt(i))
	}
	addPM(t.min)
	addPM(t.max)
	for _, k := range ks {
		if k > t.width {
			continue
		}
		addPM(new(big.Int).Lsh(big.NewInt(1), uint(k)))
	}
	sq := new(big.Int).Sqrt(t.max)
	addPM(sq)
	addPM(new(big.Int).Sqrt(new(big.Int).Abs(t.min)))
	// closure (one round, over the base set)
	var base []*big.Int
	for _, v := range set {
		base = append(base, v)
	}
	for _, a := range base {
		if a.Sign() != 0 {
			addPM(new(big.Int).Quo(t.max, a))
			addPM(new(big.Int).Quo(t.min, a))
		}
		addPM(new(big.Int).Sub(t.max, a))
		addPM(new(big.Int).Sub(t.min, a))
	}
	out := make([]*big.Int, 0, len(set))
	for _, v := range set {
		out = append(out, v)
	}
	sort.Slice(out, func(i, j int) bool { return out[i].Cmp(out[j]) < 0 })
	return out
}

// ---------------------------------------------------------------- functions under test

type binf func(a, b, out *big.Int) bool
type unf func(a, out *big.Int) bool

func b64(f func(a, b int64) (int64, bool)) binf {
	return func(a, b, out *big.Int) bool { r, ok := f(a.Int64(), b.Int64()); out.SetInt64(r); return ok }
}
func b32(f func(a, b int32) (int32, bool)) binf {
	return func(a, b, out *big.Int) bool {
		r, ok := f(int32(a.Int64()), int32(b.Int64()))
		out.SetInt64(int64(r))
		return ok
	}
}
func bu64(f func(a, b uint64) (uint64, bool)) binf {
	return func(a, b, out *big.Int) bool { r, ok := f(a.Uint64(), b.Uint64()); out.SetUint64(r); return ok }
}
func bu32(f func(a, b uint32) (uint32, bool)) binf {
	return func(a, b, out *big.Int) bool {
		r, ok := f(uint32(a.Uint64()), uint32(b.Uint64()))
		out.SetUint64(uint64(r))
		return ok
	}
}

type fn struct {
	name string
	op   string // add sub mul div mod neg lsh
	t    *typ
	bin  binf
	un   unf
}

var (
	tI64 = mkTyp("Int64", 64, true)
	tI32 = mkTyp("Int32", 32, true)
	tU64 = mkTyp("Uint64", 64, false)
	tU32 = mkTyp("Uint32", 32, false)
)

func functions() []fn {
	return []fn{
		{"AddInt64", "add", tI64, b64(checked.AddInt64), nil},
		{"SubInt64", "sub", tI64, b64(checked.SubInt64), nil},
		{"MulInt64", "mul", tI64, b64(checked.MulInt64), nil},
		{"DivInt64", "div", tI64, b64(checked.DivInt64), nil},
		{"ModInt64", "mod", tI64, b64(checked.ModInt64), nil},
		{"NegateInt64", "neg", tI64, nil, func(a, out *big.Int) bool { r, ok := checked.NegateInt64(a.Int64()); out.SetInt64(r); return ok }},
		{"LshiftInt64", "lsh", tI64, b64(checked.LshiftInt64), nil},
		{"AddInt32", "add", tI32, b32(checked.AddInt32), nil},
		{"SubInt32", "sub", tI32, b32(checked.SubInt32), nil},
		{"MulInt32", "mul", tI32, b32(checked.MulInt32), nil},
		{"DivInt32", "div", tI32, b32(checked.DivInt32), nil},
		{"ModInt32", "mod", tI32, b32(checked.ModInt32), nil},
		{"NegateInt32", "neg", tI32, nil, func(a, out *big.Int) bool {
			r, ok := checked.NegateInt32(int32(a.Int64()))
			out.SetInt64(int64(r))
			return ok
		}},
		{"LshiftInt32", "lsh", tI32, b32(checked.LshiftInt32), nil},
		{"AddUint64", "add", tU64, bu64(checked.AddUint64), nil},
		{"SubUint64", "sub", tU64, bu64(checked.SubUint64), nil},
		{"MulUint64", "mul", tU64, bu64(checked.MulUint64), nil},
		{"DivUint64", "div", tU64, bu64(checked.DivUint64), nil},
		{"ModUint64", "mod", tU64, bu64(checked.ModUint64), nil},
		{"LshiftUint64", "lsh", tU64, bu64(checked.LshiftUint64), nil},
		{"AddUint32", "add", tU32, bu32(checked.AddUint32), nil},
		{"SubUint32", "sub", tU32, bu32(checked.SubUint32), nil},
		{"MulUint32", "mul", tU32, bu32(checked.MulUint32), nil},
		{"DivUint32", "div", tU32, bu32(checked.DivUint32), nil},
		{"ModUint32", "mod", tU32, bu32(checked.ModUint32), nil},
		{"LshiftUint32", "lsh", tU32, bu32(checked.LshiftUint32), nil},
	}
}

// ---------------------------------------------------------------- oracle

// exact computes the mathematically exact result into res. defined=false means the
// operation has no value (division by zero, negative shift count): failure is required.
// Division truncates toward zero and the remainder takes the sign of the dividend (the
// functions document themselves as "a / b" and "a % b"); for (MIN,-1) every convention
// gives remainder 0.
func exact(op string, t *typ, a, b, res *big.Int) (defined bool, class string) {
	switch op {
	case "add":
		res.Add(a, b)
	case "sub":
		res.Sub(a, b)
	case "mul":
		res.Mul(a, b)
	case "div":
		if b.Sign() == 0 {
			return false, "div-by-zero"
		}
		res.Quo(a, b)
	case "mod":
		if b.Sign() == 0 {
			return false, "div-by-zero"
		}
		res.Rem(a, b)
	case "neg":
		res.Neg(a)
	case "lsh":
		if b.Sign() < 0 {
			return false, "negative-count"
		}
		if !b.IsInt64() || b.Int64() > int64(t.width)+2 {
			// a * 2^b with b beyond the width: 0 if a == 0, otherwise certainly outside the type
			if a.Sign() == 0 {
				res.SetInt64(0)
			} else {
				res.Lsh(t.max, 3) // any value outside the type, sign irrelevant for the verdict
				if a.Sign() < 0 {
					res.Neg(res)
				}
			}
			return true, ""
		}
		res.Lsh(a, uint(b.Int64()))
	}
	return true, ""
}

type viol struct {
	key, what string
	c         map[string]string
}

type stats struct {
	fn        string
	evals     int
	okExp     int
	failExp   int
	onFlip    int // cases whose neighbour (b-1 or b+1, also enumerated) has the opposite required verdict
	classes   map[string]int
	viols     []viol
	seen      map[string]bool
	firstFlip map[string]string
}

func (s *stats) violation(key, what string, c map[string]string) {
	if s.seen[key] {
		return
	}
	s.seen[key] = true
	s.viols = append(s.viols, viol{key, what, c})
}

func checkFn(f fn, as, bs []*big.Int) *stats {
	s := &stats{fn: f.name, classes: map[string]int{}, seen: map[string]bool{}}
	lname := strings.ToLower(f.name)
	res, out := new(big.Int), new(big.Int)
	one := big.NewInt(1)
	minusOne := big.NewInt(-1)
	tmp := new(big.Int)
	judge := func(a, b *big.Int) (wantOK bool) {
		defined, class := exact(f.op, f.t, a, b, res)
		wantOK = defined && f.t.fits(res)
		var gotOK bool
		func() {
			defer func() {
				if r := recover(); r != nil {
					s.violation(lname+"-panic", fmt.Sprintf("%s(%v,%v) panicked: %v", f.name, a, b, r), map[string]string{"fn": f.name, "a": a.String(), "b": fmt.Sprint(b)})
					gotOK = wantOK
					out.Set(res)
				}
			}()
			if f.un != nil {
				gotOK = f.un(a, out)
			} else {
				gotOK = f.bin(a, b, out)
			}
		}()
		s.evals++
		if wantOK {
			s.okExp++
			class = "ok"
		} else {
			s.failExp++
			if class == "" {
				if res.Sign() < 0 {
					class = "underflow"
				} else {
					class = "overflow"
				}
			}
		}
		s.classes[class]++
		c := map[string]string{"fn": f.name, "a": a.String(), "exact": res.String(), "got_ok": fmt.Sprint(gotOK), "got_value": out.String()}
		if b != nil {
			c["b"] = b.String()
		}
		if !defined {
			c["exact"] = "undefined (" + class + ")"
		}
		switch {
		case wantOK && !gotOK:
			// A false failure tied to one recognisable operand pattern is keyed by the
			// mechanism (shared by the 32/64-bit twins); everything else by the function.
			key := lname + "-false-failure"
			switch {
			case f.op == "mod" && f.t.signed && a.Cmp(f.t.min) == 0 && b.Cmp(minusOne) == 0:
				key = "mod-false-failure-min-by-minus-one"
			case f.op == "lsh" && a.Sign() == 0 && b.Cmp(big.NewInt(int64(f.t.width))) >= 0:
				key = "lshift-false-failure-zero-by-count-ge-width"
			}
			s.violation(key, fmt.Sprintf("%s(%v,%v) reports failure although the exact result %v fits %s", f.name, a, b, res, f.t.name), c)
		case !wantOK && gotOK:
			s.violation(lname+"-missed-"+class, fmt.Sprintf("%s(%v,%v) reports success with value %v although the exact result (%s) is not representable", f.name, a, b, out, c["exact"]), c)
		case wantOK && gotOK && out.Cmp(res) != 0:
			s.violation(lname+"-wrong-value", fmt.Sprintf("%s(%v,%v) = %v, exact result is %v", f.name, a, b, out, res), c)
		}
		return wantOK
	}
	if f.un != nil {
		prev, prevOK, havePrev := new(big.Int), false, false
		for _, a := range as {
			w := judge(a, nil)
			if havePrev && tmp.Sub(a, prev).Cmp(one) == 0 && w != prevOK {
				s.onFlip += 2
			}
			prev.Set(a)
			prevOK, havePrev = w, true
		}
		return s
	}
	prev := new(big.Int)
	for _, a := range as {
		havePrev, prevOK := false, false
		for _, b := range bs {
			w := judge(a, b)
			if havePrev && tmp.Sub(b, prev).Cmp(one) == 0 && w != prevOK {
				s.onFlip += 2 // both members of the adjacent pair sit on the flip
			}
			prev.Set(b)
			prevOK, havePrev = w, true
		}
	}
	return s
}

// ---------------------------------------------------------------- NewUInt256

var decimalRe = regexp.MustCompile(`^[+-]?[0-9]+$`)

func mustBig(s string) *big.Int {
	v, _ := new(big.Int).SetString(strings.TrimPrefix(s, "+"), 10)
	return v
}

func checkNewUInt256(run *ev.Run) (evals, nontrivial int, classes map[string]int) {
	classes = map[string]int{}
	two256 := new(big.Int).Lsh(big.NewInt(1), 256)
	var ins []string
	seen := map[string]bool{}
	add := func(s string) {
		if !seen[s] {
			seen[s] = true
			ins = append(ins, s)
		}
	}
	var nums []*big.Int
	for _, k := range []uint{0, 1, 7, 8, 31, 32, 63, 64, 65, 127, 128, 129, 191, 192, 193, 254, 255, 256, 257, 258, 320, 512} {
		for d := int64(-2); d <= 2; d++ {
			nums = append(nums, new(big.Int).Add(new(big.Int).Lsh(big.NewInt(1), k), big.NewInt(d)))
		}
	}
	for _, e := range []int64{1, 19, 20, 76, 77, 78, 79, 100} {
		p := new(big.Int).Exp(big.NewInt(10), big.NewInt(e), nil)
		nums = append(nums, p, new(big.Int).Sub(p, big.NewInt(1)))
	}
	for _, n := range nums {
		add(n.String())
		add(new(big.Int).Neg(n).String())
		if n.Sign() >= 0 {
			add("+" + n.String())
			add("000" + n.String())
		}
	}
	for _, s := range []string{"", " ", "-", "+", "-0", "+0", "0", "00", " 1", "1 ", "1\n", "0x10", "0X10", "0b1", "0o7", "1e3", "1.0", "1_000", "abc", "--1", "+-1", "1-", "١", "１", "1,0", "ff", "0xff"} {
		add(s)
	}
	for _, s := range ins {
		var want *big.Int
		wantOK := false
		if decimalRe.MatchString(s) {
			v, _ := new(big.Int).SetString(strings.TrimPrefix(s, "+"), 10)
			if v != nil && v.Sign() >= 0 && v.Cmp(two256) < 0 {
				want, wantOK = v, true
			}
		}
		var got *big.Int
		gotOK := false
		func() {
			defer func() {
				if r := recover(); r != nil {
					run.Violation("newuint256-panic", fmt.Sprintf("NewUInt256(%q) panicked: %v", s, r), map[string]string{"fn": "NewUInt256", "a": s})
					gotOK = wantOK
					got = want
				}
			}()
			n, ok := checked.NewUInt256(s)
			gotOK = ok
			if ok && n != nil {
				got = n.ToBig()
			}
		}()
		evals++
		c := map[string]string{"fn": "NewUInt256", "a": s, "got_ok": fmt.Sprint(gotOK), "got_value": fmt.Sprint(got)}
		class := "ok"
		switch {
		case !decimalRe.MatchString(s):
			class = "not-a-decimal"
		case strings.HasPrefix(s, "-") && !wantOK:
			class = "negative"
		case !wantOK:
			class = "overflow"
		}
		classes[class]++
		if class != "not-a-decimal" {
			nontrivial++
		}
		switch {
		case wantOK && !gotOK:
			run.Violation("newuint256-false-failure", fmt.Sprintf("NewUInt256(%q) reports failure although the value fits 256 bits", s), c)
		case !wantOK && gotOK && class == "negative" && got != nil && new(big.Int).Add(got, new(big.Int).Neg(mustBig(s))).Cmp(two256) == 0:
			// Observation, not a violation: NewUInt256 is a parser, not one of the operations the
			// statement lists, and the assembler (protocol/vm, its tests assemble "-1" and
			// "-9223372036854775808") relies on a negative decimal being accepted as its 256-bit
			// two's complement. Counted so that the behaviour is visible.
			run.Add("observed_newuint256_negative_accepted_as_twos_complement", 1)
		case !wantOK && gotOK:
			run.Violation("newuint256-missed-"+class, fmt.Sprintf("NewUInt256(%q) reports success with value %v although the input is %s (a wrapped or invented value)", s, got, class), c)
		case wantOK && gotOK && (got == nil || got.Cmp(want) != 0):
			run.Violation("newuint256-wrong-value", fmt.Sprintf("NewUInt256(%q) = %v", s, got), c)
		}
	}
	return
}

// ---------------------------------------------------------------- exhaustive unary (thorough)

// All 2^32 arguments of NegateInt32; oracle = the same negation carried out in 64-bit
// integers, where it cannot overflow.
func negate32Exhaustive(run *ev.Run) int {
	const chunks = 16
	var wg sync.WaitGroup
	bad := make([]int64, chunks)
	for c := 0; c < chunks; c++ {
		wg.Add(1)
		go func(c int) {
			defer wg.Done()
			bad[c] = 1 << 40
			lo := int64(-1<<31) + int64(c)*(1<<32/chunks)
			hi := lo + 1<<32/chunks
			for v := lo; v < hi; v++ {
				r, ok := checked.NegateInt32(int32(v))
				want := -v
				wantOK := want >= -1<<31 && want <= 1<<31-1
				if ok != wantOK || (ok && int64(r) != want) {
					bad[c] = v
					return
				}
			}
		}(c)
	}
	wg.Wait()
	for c := 0; c < chunks; c++ {
		if bad[c] != 1<<40 {
			v := bad[c]
			r, ok := checked.NegateInt32(int32(v))
			run.Violation("negateint32-exhaustive-mismatch", fmt.Sprintf("NegateInt32(%d) = (%d,%v), exact result %d", v, r, ok, -v), map[string]string{"fn": "NegateInt32", "a": fmt.Sprint(v)})
			break
		}
	}
	return 1 << 32
}

// ---------------------------------------------------------------- main

func main() {
	run := ev.Start("C31", "exploration")
	var ks []int
	if run.Thorough() {
		for k := 0; k <= 64; k++ {
			ks = append(ks, k)
		}
	} else {
		ks = []int{0, 1, 2, 3, 4, 7, 8, 15, 16, 24, 30, 31, 32, 33, 47, 48, 62, 63, 64}
	}
	vals := map[*typ][]*big.Int{}
	for _, t := range []*typ{tI64, tI32, tU64, tU32} {
		vals[t] = t.values(ks)
		run.Set("values_"+t.name, len(vals[t]))
	}
	// shift counts: every member of the set plus every b in -1..width+1
	shiftB := func(t *typ) []*big.Int {
		set := map[string]*big.Int{}
		for _, v := range vals[t] {
			set[v.String()] = v
		}
		for b := int64(-1); b <= int64(t.width)+1; b++ {
			v := big.NewInt(b)
			if t.fits(v) {
				set[v.String()] = v
			}
		}
		var out []*big.Int
		for _, v := range set {
			out = append(out, v)
		}
		sort.Slice(out, func(i, j int) bool { return out[i].Cmp(out[j]) < 0 })
		return out
	}

	fns := functions()
	results := make([]*stats, len(fns))
	sem := make(chan struct{}, runtime.NumCPU())
	var wg sync.WaitGroup
	for i, f := range fns {
		wg.Add(1)
		go func(i int, f fn) {
			defer wg.Done()
			sem <- struct{}{}
			defer func() { <-sem }()
			bs := vals[f.t]
			if f.op == "lsh" {
				bs = shiftB(f.t)
			}
			results[i] = checkFn(f, vals[f.t], bs)
		}(i, f)
	}
	wg.Wait()

	perFn := map[string]map[string]int{}
	nontrivial := 0
	type mergedViol struct {
		what  string
		fns   []string
		cases []map[string]string
	}
	merged := map[string]*mergedViol{}
	var order []string
	for _, s := range results {
		run.Add("evaluations", s.evals)
		run.Add("required_ok", s.okExp)
		run.Add("required_failure", s.failExp)
		nontrivial += s.onFlip
		m := map[string]int{"evaluations": s.evals, "on_guard_flip": s.onFlip}
		var cl []string
		for c := range s.classes {
			cl = append(cl, c)
		}
		sort.Strings(cl)
		for _, c := range cl {
			m["class_"+c] = s.classes[c]
			run.Outcome(c)
		}
		perFn[s.fn] = m
		for _, v := range s.viols {
			if _, ok := merged[v.key]; !ok {
				order = append(order, v.key)
				merged[v.key] = &mergedViol{what: v.what}
			}
			merged[v.key].fns = append(merged[v.key].fns, s.fn)
			merged[v.key].cases = append(merged[v.key].cases, v.c)
		}
	}
	for _, k := range order {
		m := merged[k]
		what := m.what
		if len(m.fns) > 1 {
			what += " (same mechanism in " + strings.Join(m.fns, ", ") + ")"
		}
		run.Violation(k, what, m.cases)
	}
	run.Set("per_function", perFn)
	run.Set("functions", len(fns)+1)

	e, nt, cls := checkNewUInt256(run)
	run.Add("evaluations", e)
	nontrivial += nt
	m := map[string]int{"evaluations": e}
	for c, n := range cls {
		m["class_"+c] = n
		run.Outcome("newuint256-" + c)
	}
	perFn["NewUInt256"] = m

	if run.Thorough() {
		run.Add("evaluations", negate32Exhaustive(run))
		run.Set("negateint32_all_2^32_arguments", true)
	}

	run.Set("distinct_nontrivial", nontrivial)
	run.Set("rule", "cases = (function, a, b) with a and b running independently over the whole sorted, de-duplicated boundary set of the type (so all cases are distinct); shifts additionally take every count in -1..width+1. Non-trivial = cases sitting exactly on a guard flip: the case and the enumerated case with the adjacent second operand (b-1 or b+1; unary: a-1 or a+1) have opposite required verdicts; plus every well-formed decimal input of NewUInt256. Outcome classes are the oracle's classes (ok, overflow, underflow, div-by-zero, negative-count), counted once per function in the histogram and in full in per_function.")
	run.Sample(map[string]string{"fn": "AddInt64", "a": tI64.max.String(), "b": "1", "required": "failure (overflow)"})
	run.Sample(map[string]string{"fn": "MulInt64", "a": "3037000500", "b": "3037000500", "required": "failure (exact 9223372037000250000 > MAX)"})
	run.Sample(map[string]string{"fn": "MulInt64", "a": "3037000499", "b": "3037000499", "required": "ok 9223372030926249001"})
	run.Sample(map[string]string{"fn": "ModInt64", "a": tI64.min.String(), "b": "-1", "required": "ok 0"})
	run.Sample(map[string]string{"fn": "DivInt32", "a": tI32.min.String(), "b": "-1", "required": "failure (exact 2147483648 > MAX)"})
	run.Sample(map[string]string{"fn": "LshiftUint32", "a": "1", "b": "31", "required": "ok 2147483648"})
	run.Sample(map[string]string{"fn": "LshiftInt64", "a": "-1", "b": "63", "required": "ok -9223372036854775808"})
	run.Sample(map[string]string{"fn": "SubUint64", "a": "0", "b": "1", "required": "failure (underflow)"})
	run.Sample(map[string]string{"fn": "NewUInt256", "a": "115792089237316195423570985008687907853269984665640564039457584007913129639936", "required": "failure (2^256 does not fit)"})
	run.Assume("math/big is the reference for exact integer arithmetic")
	run.Assume("division truncates toward zero and the remainder has the sign of the dividend (the documented a / b, a % b); a negative shift count and a zero divisor have no value, so failure is required")
	run.Assume("operands outside the enumerated boundary set are not executed; the set contains, for every first operand in it, the second operands at which the guard flips (MAX/a, MIN/a, MAX-a, MIN-a, each +-1)")
	run.Finish()
}
