// C05: decoding untrusted bytes never panics and allocates at most proportionally to the input.
//
// From a corpus of well-formed encodings produced by the independent reference encoder of
// package model (transactions, headers, blocks, every netsync / consensus message) the check
// enumerates, completely: every prefix, every single-byte substitution, every replacement of
// every varint / length / count field by boundary values (raw, and with the enclosing lengths
// fixed up), every "prefix up to a length field + one byte", and all byte strings of length
// <= 2; each through UnmarshalText of Tx / Block / BlockHeader, the two reactors'
// decodeMessage followed by every payload getter, and the message getters with mutated
// payloads. Every decode runs in a worker subprocess (verif/lib/par, ulimit -v) between two
// runtime.ReadMemStats calls; a recovered panic, a dead worker or TotalAlloc growth above
// 64*len(input)+64KiB is a violation whose key names the repository function and mechanism.
package main

import (
	"encoding/base64"
	"encoding/binary"
	"encoding/hex"
	"encoding/json"
	"fmt"
	"hash/fnv"
	"os"
	"path/filepath"
	"regexp"
	"runtime"
	"sort"
	"strings"
	"syscall"
	"time"

	"github.com/bytom/bytom/netsync/chainmgr"
	"github.com/bytom/bytom/netsync/consensusmgr"
	msgs "github.com/bytom/bytom/netsync/messages"
	"github.com/bytom/bytom/protocol/bc/types"

	"verif/checks/c04/model"
	"verif/lib/ev"
	"verif/lib/par"
)

// ---------------------------------------------------------------------------
// decoders under test

type entry struct {
	name string
	prep func(in []byte) []byte              // unmeasured: builds what the decoder is handed
	dec  func(p []byte) (interface{}, error) // measured
}

func hexPrep(in []byte) []byte {
	out := make([]byte, hex.EncodedLen(len(in)))
	hex.Encode(out, in)
	return out
}

func jsonHexPrep(in []byte) []byte { return []byte(`"` + hex.EncodeToString(in) + `"`) }

func ident(in []byte) []byte { return in }

func decTx(p []byte) (interface{}, error) {
	tx := &types.Tx{}
	err := tx.UnmarshalText(p)
	return tx, err
}

func decBlock(p []byte) (interface{}, error) {
	b := &types.Block{}
	err := b.UnmarshalText(p)
	return b, err
}

func decHeader(p []byte) (interface{}, error) {
	h := &types.BlockHeader{}
	err := h.UnmarshalText(p)
	return h, err
}

type getterErr struct {
	msg string
	err error
}

func (g *getterErr) Error() string { return "getter " + g.msg + ": " + g.err.Error() }

// decChain is what ProtocolReactor.Receive does with peer bytes, followed by every payload
// getter the message handlers call on the decoded message.
func decChain(p []byte) (interface{}, error) {
	_, msg, err := chainmgr.VerifDecodeMessage(p)
	if err != nil {
		return nil, err
	}
	switch m := msg.(type) {
	case nil:
		return "nil-message", nil
	case *msgs.GetBlockMessage:
		_, _ = m.GetHash(), m.String()
	case *msgs.BlockMessage:
		_ = m.String()
		if _, err := m.GetBlock(); err != nil {
			return msg, &getterErr{"GetBlock", err}
		}
	case *msgs.GetHeadersMessage:
		_, _, _, _ = m.GetBlockLocator(), m.GetStopHash(), m.GetSkip(), m.String()
	case *msgs.HeadersMessage:
		_ = m.String()
		if _, err := m.GetHeaders(); err != nil {
			return msg, &getterErr{"GetHeaders", err}
		}
	case *msgs.GetBlocksMessage:
		_, _, _ = m.GetBlockLocator(), m.GetStopHash(), m.String()
	case *msgs.BlocksMessage:
		_ = m.String()
		if _, err := m.GetBlocks(); err != nil {
			return msg, &getterErr{"GetBlocks", err}
		}
	case *msgs.StatusMessage:
		_, _, _ = m.GetBestHash(), m.GetIrreversibleHash(), m.String()
	case *msgs.TransactionMessage:
		_ = m.String()
		if _, err := m.GetTransaction(); err != nil {
			return msg, &getterErr{"GetTransaction", err}
		}
	case *msgs.TransactionsMessage:
		_ = m.String()
		if _, err := m.GetTransactions(); err != nil {
			return msg, &getterErr{"GetTransactions", err}
		}
	case *msgs.MineBlockMessage:
		_ = m.String()
		if _, err := m.GetMineBlock(); err != nil {
			return msg, &getterErr{"GetMineBlock", err}
		}
	case *msgs.FilterLoadMessage:
		_ = m.String()
	case *msgs.FilterAddMessage:
		_ = m.String()
	case *msgs.FilterClearMessage:
		_ = m.String()
	case *msgs.GetMerkleBlockMessage:
		_, _ = m.GetHash(), m.String()
	case *msgs.MerkleBlockMessage:
		_ = m.String()
	}
	return msg, nil
}

func decConsensus(p []byte) (interface{}, error) {
	_, msg, err := consensusmgr.VerifDecodeMessage(p)
	if err != nil {
		return nil, err
	}
	switch m := msg.(type) {
	case nil:
		return "nil-message", nil
	case *consensusmgr.BlockVerificationMsg:
		_ = m.String()
	case *consensusmgr.BlockProposeMsg:
		_ = m.String()
		if _, err := m.GetProposeBlock(); err != nil {
			return msg, &getterErr{"GetProposeBlock", err}
		}
	}
	return msg, nil
}

// wrap builds the wire bytes of a message carrying the (mutated) payload, with the reference
// wire encoder; decChain / decConsensus then does what the reactor does.
func wrap(typ byte, name, field string, list bool, jsonText bool) func(in []byte) []byte {
	return func(in []byte) []byte {
		var payload []byte
		if jsonText {
			payload = jsonHexPrep(in)
		} else {
			payload = hexPrep(in)
		}
		f := model.WField{Name: field, Kind: "bytes", Bytes: payload}
		if list {
			f = model.WField{Name: field, Kind: "byteslist", List: [][]byte{payload}}
		}
		return model.EncWire(&model.WMsg{Type: typ, Name: name, Fields: []model.WField{f}}).Bytes()
	}
}

func decHeadersRaw(p []byte) (interface{}, error) {
	return (&msgs.HeadersMessage{RawHeaders: [][]byte{p}}).GetHeaders()
}

func decBlocksRaw(p []byte) (interface{}, error) {
	return (&msgs.BlocksMessage{RawBlocks: [][]byte{p}}).GetBlocks()
}

var entries = []entry{
	{"Tx.UnmarshalText", hexPrep, decTx},                                                                                             // 0
	{"Block.UnmarshalText", hexPrep, decBlock},                                                                                       // 1
	{"BlockHeader.UnmarshalText", hexPrep, decHeader},                                                                                // 2
	{"chainmgr.decodeMessage+getters", ident, decChain},                                                                              // 3
	{"consensusmgr.decodeMessage+getters", ident, decConsensus},                                                                      // 4
	{"Tx.UnmarshalText(raw text)", ident, decTx},                                                                                     // 5
	{"Block.UnmarshalText(raw text)", ident, decBlock},                                                                               // 6
	{"BlockHeader.UnmarshalText(raw text)", ident, decHeader},                                                                        // 7
	{"HeadersMessage.GetHeaders(raw json)", ident, decHeadersRaw},                                                                    // 8
	{"BlocksMessage.GetBlocks(raw json)", ident, decBlocksRaw},                                                                       // 9
	{"TransactionMessage(payload)->decodeMessage->GetTransaction", wrap(0x30, "transaction", "rawtx", false, false), decChain},       // 10
	{"TransactionsMessage(payload)->decodeMessage->GetTransactions", wrap(0x31, "transactions", "rawtxs", true, false), decChain},    // 11
	{"BlockMessage(payload)->decodeMessage->GetBlock", wrap(0x11, "block", "rawblock", false, false), decChain},                      // 12
	{"MineBlockMessage(payload)->decodeMessage->GetMineBlock", wrap(0x40, "mineblock", "rawblock", false, false), decChain},          // 13
	{"BlocksMessage(payload)->decodeMessage->GetBlocks", wrap(0x15, "blocks", "rawblocks", true, true), decChain},                    // 14
	{"HeadersMessage(payload)->decodeMessage->GetHeaders", wrap(0x13, "headers", "rawheaders", true, true), decChain},                // 15
	{"BlockProposeMsg(payload)->decodeMessage->GetProposeBlock", wrap(0x11, "blockpropose", "rawblock", false, false), decConsensus}, // 16
}

// ---------------------------------------------------------------------------
// corpus

type seed struct {
	name  string
	kind  string // tx, header, block, chainmsg, consmsg, text-tx, text-block, text-header, json-header, json-block
	quick bool
	root  *model.Node // nil for text seeds
	bytes []byte
	// derived
	varints []model.Field // u63, count, len, wlen, wcount fields
	leaves  []model.Field // u63 / count leaves (consistent replacement)
	counts  []model.Field // element-count leaves of lists (LEB128 "count", go-wire "wcount")
}

var lebBoundary = []uint64{0, 1, 2, 127, 128, 1 << 16, 1 << 20, 1<<31 - 1, 1 << 31, 1<<63 - 1, 1 << 63, 1<<64 - 1}
var wireBoundary = []int64{0, 1, 2, 255, 256, 1 << 16, 1 << 20, 22020098, 22020099, 1<<31 - 1, 1 << 31, 1<<63 - 1, -1, -(1 << 31)}

// "size computation wraps" probes: a guard of the shape count*elementSize <= remaining, computed
// in 32 (or 31, or 64) bits, is passed by count = ceil(2^k/m) for element size m because the
// product wraps to a value below m. For every m in 2..128: ceil(2^32/m), ceil(2^32/m)+1 and
// ceil(2^31/m); for go-wire counts (a 64-bit int) also ceil(2^64/m) and ceil(2^63/m) where they fit.
const wrapPad = 128 // zero bytes inserted after the count so that a wrapped bound (< m <= 128, +m for the +1 value) is satisfied

func wrapValues(wire bool) []uint64 {
	set := map[uint64]bool{}
	for m := uint64(2); m <= 128; m++ {
		c32 := (1<<32-1)/m + 1
		set[c32], set[c32+1] = true, true
		set[(1<<31-1)/m+1] = true
		if wire {
			if c64 := (1<<64-1)/m + 1; c64 <= 1<<63-1 {
				set[c64] = true
			}
			set[(1<<63-1)/m+1] = true
		}
	}
	var out []uint64
	for v := range set {
		out = append(out, v)
	}
	sort.Slice(out, func(i, j int) bool { return out[i] < out[j] })
	return out
}

var wrapLEB, wrapWire = wrapValues(false), wrapValues(true)

func wrapVals(f model.Field) []uint64 {
	if f.Kind == "wcount" {
		return wrapWire
	}
	return wrapLEB
}

func mkSeed(name, kind string, quick bool, root *model.Node) *seed {
	s := &seed{name: name, kind: kind, quick: quick, root: root, bytes: root.Bytes()}
	for _, f := range root.Fields() {
		switch f.Kind {
		case "u63", "count", "len", "wlen", "wcount":
			s.varints = append(s.varints, f)
		}
		if f.Kind == "u63" || f.Kind == "count" {
			s.leaves = append(s.leaves, f)
		}
		if f.Kind == "count" || f.Kind == "wcount" {
			s.counts = append(s.counts, f)
		}
	}
	return s
}

func textSeed(name, kind string, quick bool, text []byte) *seed {
	return &seed{name: name, kind: kind, quick: quick, bytes: text}
}

func wireSeed(name, kind string, quick bool, msg interface{}) *seed {
	wm, err := model.WMsgOf(msg)
	if err != nil {
		ev.Fatal("%v", err)
	}
	return mkSeed(name, kind, quick, model.EncWire(wm))
}

func corpus() []*seed {
	in := func(k int) model.In { i := model.BaseIn(k); i.Fill(); return i }
	rich := func(k int) model.In {
		i := model.RichIn(k)
		i.Program = model.Pat(20, 3)
		i.Args = [][]byte{model.Pat(8, 1), {}}
		i.Fill()
		return i
	}
	out, richOut := model.BaseOut, model.RichOut
	ret := model.BaseOut(model.KOriginal)
	ret.Program = []byte{0x6a}
	tx := func(ins []model.In, outs []model.Out) *model.Tx {
		return &model.Tx{Version: 1, TimeRange: 128, Ins: ins, Outs: outs}
	}
	t1 := tx([]model.In{in(model.KCoinbase)}, []model.Out{out(model.KOriginal)})
	t2 := tx([]model.In{in(model.KSpend)}, []model.Out{out(model.KVote)})
	t3 := tx([]model.In{in(model.KIssuance)}, []model.Out{out(model.KOriginal)})
	t4 := tx([]model.In{in(model.KVeto)}, []model.Out{ret})
	t5 := tx([]model.In{rich(model.KSpend)}, []model.Out{richOut(model.KOriginal)})
	t6 := tx([]model.In{in(model.KSpend), in(model.KIssuance)}, []model.Out{out(model.KOriginal), out(model.KVote)})
	t7 := tx(nil, nil)
	t8 := tx([]model.In{rich(model.KVeto)}, []model.Out{richOut(model.KVote)})
	t9 := tx([]model.In{rich(model.KIssuance), rich(model.KCoinbase)}, []model.Out{ret})
	t10 := tx([]model.In{in(model.KCoinbase), in(model.KCoinbase), in(model.KCoinbase)}, nil)

	h1 := model.BaseHeader()
	h2 := model.BaseHeader()
	h2.Sups = []model.Sup{model.MakeSup(1, 1, 64)}
	h3 := model.BaseHeader()
	h3.Sups = []model.Sup{model.MakeSup(3, 0, 1), model.MakeSup(2, 1, 2)}
	h3.Witness = nil
	h4 := model.Header{}

	b1 := &model.Block{Header: h1, Txs: []model.Tx{*t1}}
	b2 := &model.Block{Header: h3, Txs: []model.Tx{*t1, *t2}}
	b3 := &model.Block{Header: h4, Txs: []model.Tx{}}

	hx := func(n *model.Node) []byte { return hexPrep(n.Bytes()) }
	hv := model.HashVals()
	ss := []*seed{
		// quick corpus (8 binary seeds + text seeds)
		mkSeed("tx:coinbase->original", "tx", true, model.EncTx(t1)),
		mkSeed("tx:spend->vote", "tx", true, model.EncTx(t2)),
		mkSeed("tx:issuance->original", "tx", true, model.EncTx(t3)),
		mkSeed("header:no-suplinks", "header", true, model.EncHeader(&h1, 1)),
		mkSeed("header:one-suplink", "header", true, model.EncHeader(&h2, 1)),
		mkSeed("block:one-coinbase-tx", "block", true, model.EncBlock(b1, 3)),
		wireSeed("msg:getheaders", "chainmsg", true, &msgs.GetHeadersMessage{RawBlockLocator: [][32]byte{hv[0], hv[2]}, RawStopHash: hv[1], Skip: 2}),
		wireSeed("msg:transaction", "chainmsg", true, &msgs.TransactionMessage{RawTx: hx(model.EncTx(t1))}),
		wireSeed("cmsg:blockverification", "consmsg", true, &consensusmgr.BlockVerificationMsg{PubKey: model.Pat(8, 1), Signature: model.Pat(8, 2)}),
		textSeed("text:tx", "text-tx", true, hx(model.EncTx(t1))),
		textSeed("text:header", "text-header", true, hx(model.EncHeader(&h1, 1))),
		textSeed("text:block", "text-block", true, hx(model.EncBlock(b1, 3))),
		textSeed("json:header", "json-header", true, jsonHexPrep(model.EncHeader(&h2, 1).Bytes())),
		textSeed("json:block", "json-block", true, jsonHexPrep(model.EncBlock(b1, 3).Bytes())),
		// thorough corpus
		mkSeed("tx:veto->retirement", "tx", false, model.EncTx(t4)),
		mkSeed("tx:rich-spend->rich-original", "tx", false, model.EncTx(t5)),
		mkSeed("tx:2in-2out", "tx", false, model.EncTx(t6)),
		mkSeed("tx:empty", "tx", false, model.EncTx(t7)),
		mkSeed("tx:rich-veto->rich-vote", "tx", false, model.EncTx(t8)),
		mkSeed("tx:rich-issuance+coinbase->retirement", "tx", false, model.EncTx(t9)),
		mkSeed("tx:3-coinbase-no-output", "tx", false, model.EncTx(t10)),
		mkSeed("header:two-suplinks-short-sigs", "header", false, model.EncHeader(&h3, 1)),
		mkSeed("header:zero", "header", false, model.EncHeader(&h4, 1)),
		mkSeed("block:two-tx-two-suplinks", "block", false, model.EncBlock(b2, 3)),
		mkSeed("block:empty", "block", false, model.EncBlock(b3, 3)),
		mkSeed("block:header-only-form", "block", false, model.EncBlock(b1, 1)),
		mkSeed("block:transactions-only-form", "block", false, model.EncBlock(b1, 2)),
		wireSeed("msg:getblock", "chainmsg", false, &msgs.GetBlockMessage{Height: 128, RawHash: hv[0]}),
		wireSeed("msg:block", "chainmsg", false, &msgs.BlockMessage{RawBlock: hx(model.EncBlock(b3, 3))}),
		wireSeed("msg:headers", "chainmsg", false, &msgs.HeadersMessage{RawHeaders: [][]byte{jsonHexPrep(model.EncHeader(&h4, 1).Bytes()), jsonHexPrep(model.EncHeader(&h4, 1).Bytes())}}),
		wireSeed("msg:getblocks", "chainmsg", false, &msgs.GetBlocksMessage{RawBlockLocator: [][32]byte{hv[0]}, RawStopHash: hv[2]}),
		wireSeed("msg:blocks", "chainmsg", false, &msgs.BlocksMessage{RawBlocks: [][]byte{jsonHexPrep(model.EncBlock(b3, 3).Bytes())}}),
		wireSeed("msg:status", "chainmsg", false, &msgs.StatusMessage{BestHeight: 128, BestHash: hv[0], JustifiedHeight: 2, JustifiedHash: hv[2]}),
		wireSeed("msg:transactions", "chainmsg", false, &msgs.TransactionsMessage{RawTxs: [][]byte{hx(model.EncTx(t7)), hx(model.EncTx(t1))}}),
		wireSeed("msg:mineblock", "chainmsg", false, &msgs.MineBlockMessage{RawBlock: hx(model.EncBlock(b3, 3))}),
		wireSeed("msg:filterload", "chainmsg", false, &msgs.FilterLoadMessage{Addresses: [][]byte{model.Pat(4, 1), {}, model.Pat(2, 2)}}),
		wireSeed("msg:filteradd", "chainmsg", false, &msgs.FilterAddMessage{Address: model.Pat(4, 1)}),
		wireSeed("msg:filterclear", "chainmsg", false, &msgs.FilterClearMessage{}),
		wireSeed("msg:getmerkleblock", "chainmsg", false, &msgs.GetMerkleBlockMessage{Height: 2, RawHash: hv[0]}),
		wireSeed("msg:merkleblock", "chainmsg", false, &msgs.MerkleBlockMessage{RawBlockHeader: hx(model.EncHeader(&h4, 1)), TxHashes: [][32]byte{hv[0]}, RawTxDatas: [][]byte{hx(model.EncTx(t7))}, Flags: []byte{1}}),
		wireSeed("cmsg:blockpropose", "consmsg", false, &consensusmgr.BlockProposeMsg{RawBlock: hx(model.EncBlock(b3, 3))}),
	}
	return ss
}

// ---------------------------------------------------------------------------
// mutation classes

const (
	cSeed = iota
	cPrefix
	cSubst
	cVarRaw
	cVarFix
	cLenAppend
	cShort
	cShort1
	cWrap
	nClasses
)

var className = []string{"seed", "prefix", "substitution", "varint-raw", "varint-lengths-fixed", "prefix+byte-at-length-field", "all-strings-len<=2", "all-strings-len<=1", "count-product-wraps"}

func boundaryCount(f model.Field) int {
	if f.Kind == "wlen" || f.Kind == "wcount" {
		return len(wireBoundary)
	}
	return len(lebBoundary)
}

func boundaryBytes(f model.Field, j int) []byte {
	if f.Kind == "wlen" || f.Kind == "wcount" {
		return model.WireVarint(wireBoundary[j])
	}
	return model.Uvarint(lebBoundary[j])
}

// count returns the number of inputs of a class for a seed.
func (s *seed) count(class int) int {
	switch class {
	case cSeed:
		return 1
	case cPrefix:
		return len(s.bytes)
	case cSubst:
		return 255 * len(s.bytes)
	case cVarRaw:
		n := 0
		for _, f := range s.varints {
			n += boundaryCount(f)
		}
		return n
	case cVarFix:
		return len(s.leaves) * len(lebBoundary)
	case cLenAppend:
		return 256 * len(s.varints)
	case cShort:
		return 1 + 256 + 65536
	case cShort1:
		return 1 + 256
	case cWrap:
		n := 0
		for _, f := range s.counts {
			n += 2 * len(wrapVals(f))
		}
		return n
	}
	return 0
}

// input generates the i-th input of a class; also a short description of the mutation.
func (s *seed) input(class, i int) ([]byte, string) {
	b := s.bytes
	switch class {
	case cSeed:
		return append([]byte{}, b...), "unmodified"
	case cPrefix:
		return append([]byte{}, b[:i]...), fmt.Sprintf("first %d of %d bytes", i, len(b))
	case cSubst:
		p, k := i/255, i%255
		v := byte(k)
		if v >= b[p] {
			v++
		}
		out := append([]byte{}, b...)
		out[p] = v
		return out, fmt.Sprintf("byte %d: %#02x -> %#02x", p, b[p], v)
	case cVarRaw:
		for _, f := range s.varints {
			n := boundaryCount(f)
			if i < n {
				nb := boundaryBytes(f, i)
				out := append(append(append([]byte{}, b[:f.Off]...), nb...), b[f.Off+f.Len:]...)
				return out, fmt.Sprintf("field %s at %d (%d bytes) replaced by %x", f.Name, f.Off, f.Len, nb)
			}
			i -= n
		}
	case cVarFix:
		f := s.leaves[i/len(lebBoundary)]
		v := lebBoundary[i%len(lebBoundary)]
		old := f.Node.Raw
		f.Node.Raw = model.Uvarint(v)
		out := s.root.Bytes()
		f.Node.Raw = old
		return out, fmt.Sprintf("field %s set to %d, enclosing lengths re-computed", f.Name, v)
	case cLenAppend:
		f := s.varints[i/256]
		out := append(append([]byte{}, b[:f.Off]...), byte(i%256))
		return out, fmt.Sprintf("prefix up to field %s at %d, then byte %#02x", f.Name, f.Off, i%256)
	case cWrap:
		for _, f := range s.counts {
			vals := wrapVals(f)
			if i >= 2*len(vals) {
				i -= 2 * len(vals)
				continue
			}
			v, padded := vals[i/2], i%2 == 1
			var nb []byte
			if f.Kind == "wcount" {
				nb = model.WireVarint(int64(v))
			} else {
				nb = model.Uvarint(v)
			}
			desc := fmt.Sprintf("count field %s set to %d (wraps a 32/31/64-bit count*elementSize), enclosing lengths re-computed", f.Name, v)
			if padded {
				nb = append(nb, make([]byte, wrapPad)...)
				desc += fmt.Sprintf(", %d zero bytes inserted after the count", wrapPad)
			}
			old := f.Node.Raw
			f.Node.Raw = nb
			out := s.root.Bytes()
			f.Node.Raw = old
			return out, desc
		}
	case cShort, cShort1:
		switch {
		case i == 0:
			return []byte{}, "empty string"
		case i <= 256:
			return []byte{byte(i - 1)}, "one byte"
		default:
			return []byte{byte((i - 257) >> 8), byte(i - 257)}, "two bytes"
		}
	}
	return nil, "?"
}

// ---------------------------------------------------------------------------
// targets = (decoder, seed, classes)

type target struct {
	e       int
	s       int
	classes []int
}

func targets(ss []*seed, thorough bool) []target {
	all := []int{cSeed, cPrefix, cSubst, cVarRaw, cVarFix, cLenAppend, cWrap}
	cheap := []int{cSeed, cPrefix, cVarRaw, cVarFix, cLenAppend, cWrap}
	wrapped := []int{cSeed, cPrefix, cVarRaw, cVarFix}
	if thorough {
		wrapped = append(wrapped, cWrap) // quick: the wrap probes go to the direct decoders only
	}
	wireAll := []int{cSeed, cPrefix, cSubst, cVarRaw, cLenAppend, cWrap}
	var ts []target
	shortDone := map[int]bool{}
	for si, s := range ss {
		if !s.quick && !thorough {
			continue
		}
		wrapped := wrapped
		if thorough && s.quick {
			wrapped = all // the small seeds go through the message wrappers with every class
		}
		add := func(e int, cl []int) {
			if !shortDone[e] && e <= 9 {
				// all strings of length <= 2 do not depend on the seed: once per direct decoder
				// (quick: length <= 2 for Tx and the two reactors, <= 1 for the other seven)
				shortDone[e] = true
				if !thorough && e != 0 && e != 3 && e != 4 {
					cl = append(append([]int{}, cl...), cShort1)
				} else {
					cl = append(append([]int{}, cl...), cShort)
				}
			}
			ts = append(ts, target{e, si, cl})
		}
		switch s.kind {
		case "tx":
			add(0, all)
			add(10, wrapped)
			add(11, wrapped)
		case "header":
			add(2, all)
			if thorough {
				add(1, all)
			} else {
				add(1, cheap)
			}
			add(15, wrapped)
		case "block":
			add(1, all)
			add(2, cheap)
			add(12, wrapped)
			add(13, wrapped)
			add(14, wrapped)
			add(16, wrapped)
		case "chainmsg":
			add(3, wireAll)
		case "consmsg":
			add(4, wireAll)
		case "text-tx":
			add(5, textClasses(thorough))
		case "text-block":
			add(6, textClasses(thorough))
		case "text-header":
			add(7, textClasses(thorough))
		case "json-header":
			add(8, textClasses(thorough))
		case "json-block":
			add(9, textClasses(thorough))
		}
	}
	return ts
}

func textClasses(thorough bool) []int {
	if thorough {
		return []int{cSeed, cPrefix, cSubst}
	}
	return []int{cSeed, cPrefix}
}

// ---------------------------------------------------------------------------
// worker

type req struct {
	T, C, From, To int    // target index, class, input index range
	Trace          string // if set: directory in which the worker keeps its stderr (one file per worker process, restarted for every item)
}

type vio struct {
	Key, What, Entry, Seed, Class, Mutation, Input string
	Index                                          int
	Alloc                                          uint64
}

type resp struct {
	N        int
	Out      map[string]int
	NonTriv  string // base64 of 8-byte hashes of non-trivial inputs
	V        []vio
	MaxAlloc uint64
	MaxRatio float64
}

var (
	reNum = regexp.MustCompile(`0x[0-9a-fA-F]+|[0-9a-fA-F]{16,}|\d+`)
	reStr = regexp.MustCompile(`'[^']{1,10}'|".*?"|U\+[0-9A-F]+|type byte [0-9A-F]+`)
)

func classify(err error) string {
	s := err.Error()
	s = reStr.ReplaceAllString(s, "S")
	s = reNum.ReplaceAllString(s, "N")
	if len(s) > 90 {
		s = s[:90]
	}
	return s
}

// trivial: rejected on syntax or on the first flag / type byte, before any field is decoded
func trivialClass(c string) bool {
	for _, p := range []string{"encoding/hex", "unsupported serflags", "unsupported serialization flags", "Unexpected type byte", "invalid character", "unexpected end of JSON", "json: cannot unmarshal"} {
		if strings.Contains(c, p) {
			return true
		}
	}
	return false
}

func shortFn(f string) string {
	if i := strings.LastIndex(f, "/"); i >= 0 {
		f = f[i+1:]
	}
	return strings.NewReplacer("(", "", ")", "", "*", "").Replace(f)
}

func isRuntimeFrame(f string) bool {
	return strings.HasPrefix(f, "runtime.") || strings.HasPrefix(f, "runtime/") || strings.HasPrefix(f, "reflect.") || strings.HasPrefix(f, "internal/")
}

// frameKey names the repository function (first frame under github.com/bytom/bytom, the
// export hook excluded) and, if different, the function where the event happened.
func frameKey(pcs []uintptr) (string, []string) {
	fr := runtime.CallersFrames(pcs)
	site, repo := "", ""
	var trace []string
	for {
		f, more := fr.Next()
		fn := f.Function
		if fn != "" && !strings.HasPrefix(fn, "main.") {
			trace = append(trace, fn)
			if site == "" && !isRuntimeFrame(fn) {
				site = fn
			}
			if repo == "" && strings.Contains(fn, "github.com/bytom/bytom/") && !strings.Contains(fn, "Verif") {
				repo = fn
			}
		}
		if !more || strings.HasPrefix(fn, "main.") && repo != "" {
			break
		}
	}
	if len(trace) > 14 {
		trace = trace[:14]
	}
	switch {
	case repo == "" && site == "":
		return "unknown", trace
	case repo == "":
		return "via-" + shortFn(site), trace
	case site == repo || site == "":
		return shortFn(repo), trace
	}
	return shortFn(repo) + "-via-" + shortFn(site), trace
}

func panicClass(v interface{}) string {
	s := fmt.Sprint(v)
	s = strings.TrimPrefix(s, "runtime error: ")
	if i := strings.IndexAny(s, "[:("); i > 0 {
		s = s[:i]
	}
	s = strings.ToLower(strings.TrimSpace(s))
	s = regexp.MustCompile(`[^a-z]+`).ReplaceAllString(s, "-")
	return strings.Trim(s, "-")
}

type panicInfo struct {
	val   string
	key   string
	trace []string
}

func runGuarded(e *entry, p []byte) (val interface{}, err error, pan *panicInfo) {
	defer func() {
		if r := recover(); r != nil {
			pcs := make([]uintptr, 64)
			n := runtime.Callers(2, pcs)
			fk, trace := frameKey(pcs[:n])
			pan = &panicInfo{val: fmt.Sprint(r), key: "panic-" + fk + "-" + panicClass(r), trace: trace}
		}
	}()
	val, err = e.dec(p)
	return
}

// allocSite re-runs one decode with every allocation profiled and names the stack that
// allocated most.
func allocSite(e *entry, p []byte) (string, []string, int64) {
	old := runtime.MemProfileRate
	runtime.MemProfileRate = 1
	defer func() { runtime.MemProfileRate = old }()
	snap := func() map[[32]uintptr]int64 {
		for i := 0; i < 3; i++ {
			runtime.GC() // the profile lags up to two cycles behind
		}
		n, _ := runtime.MemProfile(nil, true)
		recs := make([]runtime.MemProfileRecord, n+200)
		n, ok := runtime.MemProfile(recs, true)
		if !ok {
			return nil
		}
		m := map[[32]uintptr]int64{}
		for _, r := range recs[:n] {
			m[r.Stack0] += r.AllocBytes
		}
		return m
	}
	before := snap()
	runGuarded(e, p)
	after := snap()
	// candidates in decreasing order of bytes allocated between the snapshots; only stacks that
	// pass through this decode call count (the profile may still publish older allocations of
	// the worker loop)
	type cand struct {
		k [32]uintptr
		d int64
	}
	var cs []cand
	for k, v := range after {
		if d := v - before[k]; d > 0 {
			cs = append(cs, cand{k, d})
		}
	}
	sort.Slice(cs, func(i, j int) bool {
		if cs[i].d != cs[j].d {
			return cs[i].d > cs[j].d
		}
		for x := 0; x < 32; x++ {
			if cs[i].k[x] != cs[j].k[x] {
				return cs[i].k[x] < cs[j].k[x]
			}
		}
		return false
	})
	var best [32]uintptr
	var bestD int64
	for _, c := range cs {
		n := 0
		for n < 32 && c.k[n] != 0 {
			n++
		}
		inDecode := n == 32 // a truncated stack cannot be told apart: accept it
		fr := runtime.CallersFrames(c.k[:n])
		for {
			f, more := fr.Next()
			if f.Function == "main.runGuarded" {
				inDecode = true
			}
			if !more {
				break
			}
		}
		if inDecode {
			best, bestD = c.k, c.d
			break
		}
	}
	if bestD == 0 {
		return "unknown", nil, 0
	}
	n := 0
	for n < 32 && best[n] != 0 {
		n++
	}
	fk, trace := frameKey(best[:n])
	return fk, trace, bestD
}

func bound(n int) uint64 { return 64*uint64(n) + 64<<10 }

var traceDir string

var (
	wSeeds   []*seed
	wTargets []target
)

func setup(thorough bool) {
	wSeeds = corpus()
	wTargets = targets(wSeeds, thorough)
}

func warmup() {
	for _, t := range wTargets {
		e := &entries[t.e]
		in, _ := wSeeds[t.s].input(cSeed, 0)
		runGuarded(e, e.prep(in))
		runGuarded(e, e.prep(nil))
	}
}

var traceF *os.File

func traceHeader(q req) string { return fmt.Sprintf("ITEM %d %d %d", q.T, q.C, q.From) }

// traceBegin keeps the worker's stderr in a file of its own that is restarted for every
// single-input item: a fatal runtime error (out of memory) cannot be recovered, its complete
// trace is then found under the header of the item that was in flight.
func traceBegin(dir, header string) {
	if traceF == nil {
		f, err := os.OpenFile(filepath.Join(dir, fmt.Sprintf("w%d.txt", os.Getpid())), os.O_CREATE|os.O_WRONLY|os.O_APPEND|os.O_TRUNC, 0o644)
		if err != nil {
			return
		}
		traceF = f
		syscall.Dup2(int(f.Fd()), 2)
	}
	traceF.Truncate(0)
	traceF.WriteString(header + "\n")
}

func findTrace(dir, header string) string {
	es, _ := os.ReadDir(dir)
	for _, e := range es {
		b, err := os.ReadFile(filepath.Join(dir, e.Name()))
		if err == nil && strings.HasPrefix(string(b), header+"\n") {
			return string(b)
		}
	}
	return ""
}

func serve(raw json.RawMessage) interface{} {
	var q req
	if err := json.Unmarshal(raw, &q); err != nil {
		return resp{}
	}
	t := wTargets[q.T]
	e := &entries[t.e]
	s := wSeeds[t.s]
	if q.Trace != "" {
		traceBegin(q.Trace, traceHeader(q))
	}
	out := resp{Out: map[string]int{}}
	var nt []byte
	seenKey := map[string]bool{}
	var m0, m1 runtime.MemStats
	for i := q.From; i < q.To; i++ {
		in, desc := s.input(q.C, i)
		p := e.prep(in)
		runtime.ReadMemStats(&m0)
		val, err, pan := runGuarded(e, p)
		runtime.ReadMemStats(&m1)
		_ = val
		out.N++
		delta := m1.TotalAlloc - m0.TotalAlloc
		if delta > out.MaxAlloc {
			out.MaxAlloc = delta
		}
		if r := float64(delta) / float64(bound(len(p))); r > out.MaxRatio {
			out.MaxRatio = r
		}
		var class string
		trivial := false
		switch {
		case pan != nil:
			class = "PANIC " + pan.key
			if !seenKey[pan.key] {
				seenKey[pan.key] = true
				out.V = append(out.V, vio{Key: pan.key, What: fmt.Sprintf("panic %q; stack %v", pan.val, pan.trace), Entry: e.name, Seed: s.name,
					Class: className[q.C], Mutation: desc, Input: hex.EncodeToString(p), Index: i})
			}
		case err != nil:
			class = "error: " + classify(err)
			trivial = trivialClass(class) || len(p) == 0
		default:
			class = fmt.Sprintf("value: %T", val)
			if sv, ok := val.(string); ok {
				class = "value: " + sv
			}
		}
		if pan == nil && delta > bound(len(p)) {
			fk, trace, got := allocSite(e, p)
			key := "alloc-" + fk
			class = "ALLOC " + key
			if !seenKey[key] {
				seenKey[key] = true
				out.V = append(out.V, vio{Key: key, What: fmt.Sprintf("decoding %d input bytes allocated %d bytes (bound 64*len+64KiB = %d); largest allocating stack (%d bytes) %v", len(p), delta, bound(len(p)), got, trace),
					Entry: e.name, Seed: s.name, Class: className[q.C], Mutation: desc, Input: hex.EncodeToString(p), Index: i, Alloc: delta})
			}
		}
		out.Out[class]++
		if !trivial {
			h := fnv.New64a()
			h.Write([]byte(e.name))
			h.Write([]byte{0})
			h.Write(p)
			nt = binary.BigEndian.AppendUint64(nt, h.Sum64())
		}
	}
	out.NonTriv = base64.StdEncoding.EncodeToString(nt)
	return out
}

// ---------------------------------------------------------------------------
// coordinator

type finding struct {
	first   vio
	entries map[string]int
}

func deathKey(e string, trace string) string {
	// fatal errors (out of memory) cannot be recovered: name the first repository frame of the
	// trace of the running goroutine. Running out of memory in a decoder is the same mechanism
	// as a recoverable over-allocation at that site, hence the same "alloc-" key.
	oom := strings.Contains(trace, "out of memory") || strings.Contains(trace, "cannot allocate memory")
	site := ""
	for _, l := range strings.Split(trace, "\n") {
		l = strings.TrimSpace(l)
		if strings.HasPrefix(l, "github.com/bytom/bytom/") && !strings.Contains(l, "Verif") {
			if i := strings.LastIndex(l, "("); i > 0 {
				l = l[:i]
			}
			site = shortFn(l)
			break
		}
	}
	switch {
	case site == "":
		return "worker-died-in-" + regexp.MustCompile(`[^A-Za-z.]+`).ReplaceAllString(e, "-")
	case oom:
		return "alloc-" + site
	}
	return "worker-died-" + site
}

func main() {
	thorough := false
	for _, a := range argsAndEnv() {
		if a == "thorough" {
			thorough = true
		} else if a == "quick" {
			thorough = false
		}
	}
	setup(thorough)
	if par.IsWorker() {
		warmup()
		par.Serve(serve)
	}
	run := ev.Start("C05", "exploration")
	if run.Thorough() != thorough {
		ev.Fatal("tier mismatch")
	}
	batch := run.Pick(1500, 4000)
	var err error
	if traceDir, err = os.MkdirTemp("", "verif-c05-"); err != nil {
		ev.Fatal("%v", err)
	}
	var reqs []interface{}
	perClass := map[string]int{}
	perEntry := map[string]int{}
	for ti, t := range wTargets {
		for _, c := range t.classes {
			n := wSeeds[t.s].count(c)
			perClass[className[c]] += n
			perEntry[entries[t.e].name] += n
			if c == cVarRaw || c == cVarFix || c == cWrap {
				// attacker-chosen sizes live here: one input per item, so that a worker killed by the
				// memory limit is attributed to exactly one input, with its trace kept
				for i := 0; i < n; i++ {
					reqs = append(reqs, req{T: ti, C: c, From: i, To: i + 1, Trace: traceDir})
				}
				continue
			}
			for from := 0; from < n; from += batch {
				to := from + batch
				if to > n {
					to = n
				}
				reqs = append(reqs, req{T: ti, C: c, From: from, To: to})
			}
		}
	}
	pool := par.NewPool(0, 2000)
	pool.MemKB = 3 << 20 // 3 GiB of address space per worker
	found := map[string]*finding{}
	nontriv := map[uint64]struct{}{}
	outcomes := map[string]int{}
	var maxAlloc uint64
	var maxRatio float64
	note := func(v vio) {
		f := found[v.Key]
		if f == nil {
			f = &finding{first: v, entries: map[string]int{}}
			found[v.Key] = f
		} else if less(v, f.first) {
			f.first = v
		}
		f.entries[v.Entry]++
	}
	handle := func(rq req, r par.Result, singles *[]interface{}) {
		t := wTargets[rq.T]
		if r.Died {
			if rq.To-rq.From > 1 && singles != nil {
				for i := rq.From; i < rq.To; i++ {
					*singles = append(*singles, req{rq.T, rq.C, i, i + 1, traceDir})
				}
				return
			}
			in, desc := wSeeds[t.s].input(rq.C, rq.From)
			p := entries[t.e].prep(in)
			run.Add("evaluations", 1)
			run.Add("worker_deaths", 1)
			trace := r.Stderr
			if rq.Trace != "" {
				if t := findTrace(rq.Trace, traceHeader(rq)); t != "" {
					trace = t
				}
			}
			key := deathKey(entries[t.e].name, trace)
			outcomes["DIED "+key]++
			if len(trace) > 3000 {
				trace = trace[:3000] + " ..."
			}
			note(vio{Key: key, What: "the worker process died while decoding this input (twice, the second time alone in a fresh worker); its output:\n" + trace,
				Entry: entries[t.e].name, Seed: wSeeds[t.s].name, Class: className[rq.C], Mutation: desc, Input: hex.EncodeToString(p), Index: rq.From})
			return
		}
		var rs resp
		if err := json.Unmarshal(r.Resp, &rs); err != nil {
			ev.Fatal("bad worker response: %v", err)
		}
		run.Add("evaluations", rs.N)
		for k, v := range rs.Out {
			outcomes[k] += v
		}
		for _, v := range rs.V {
			note(v)
		}
		if rs.MaxAlloc > maxAlloc {
			maxAlloc = rs.MaxAlloc
		}
		if rs.MaxRatio > maxRatio {
			maxRatio = rs.MaxRatio
		}
		b, _ := base64.StdEncoding.DecodeString(rs.NonTriv)
		for i := 0; i+8 <= len(b); i += 8 {
			nontriv[binary.BigEndian.Uint64(b[i:])] = struct{}{}
		}
	}
	var singles []interface{}
	t0 := time.Now()
	pool.Do(reqs, func(r par.Result) { handle(reqs[r.Index].(req), r, &singles) })
	run.Set("main_pass_s", time.Since(t0).Seconds())
	t0 = time.Now()
	if len(singles) > 0 {
		run.Set("batches_split_after_worker_death", len(singles))
		pool.Do(singles, func(r par.Result) { handle(singles[r.Index].(req), r, nil) })
		run.Set("singles_pass_s", time.Since(t0).Seconds())
	}

	for k := range outcomes {
		run.Outcome(k) // the histogram of ev counts classes; the per-class input counts are in outcome_counts
	}
	run.Set("outcome_counts", outcomes)
	// samples: the corpus and one written-out input per class
	nSeeds := 0
	for _, s := range wSeeds {
		if s.quick || thorough {
			nSeeds++
			run.Sample(map[string]interface{}{"seed": s.name, "bytes": sampleBytes(s)})
		}
	}
	keys := make([]string, 0, len(found))
	for k := range found {
		keys = append(keys, k)
	}
	sort.Strings(keys)
	for _, k := range keys {
		f := found[k]
		var es []string
		for e := range f.entries {
			es = append(es, e)
		}
		sort.Strings(es)
		run.Violation(k, fmt.Sprintf("%s [first case: decoder %s, seed %s, %s: %s] reached through decoders %v", f.first.What, f.first.Entry, f.first.Seed, f.first.Class, f.first.Mutation, es),
			map[string]interface{}{"decoder": f.first.Entry, "seed": f.first.Seed, "mutation_class": f.first.Class, "mutation": f.first.Mutation,
				"input_handed_to_decoder_hex": f.first.Input, "input_handed_to_decoder_text": printable(f.first.Input), "alloc_bytes": f.first.Alloc, "decoders_reaching_it": es})
	}
	os.RemoveAll(traceDir)
	run.Set("seeds", nSeeds)
	run.Set("targets", len(wTargets))
	run.Set("inputs_per_class", perClass)
	run.Set("inputs_per_decoder", perEntry)
	run.Set("max_alloc_bytes_single_decode", int(maxAlloc))
	run.Set("max_alloc_over_bound_ratio", maxRatio)
	run.Set("alloc_bound", "64*len(bytes handed to the decoder) + 65536")
	run.Set("distinct_nontrivial", len(nontriv))
	run.Set("rule", "inputs are enumerated from the corpus (samples): every prefix, every single-byte substitution (position x 255 other values), every varint/length/count field replaced by each of 12 (LEB128) or 14 (go-wire) boundary values without and with re-computed enclosing lengths, every list-count field (inputs, outputs, varstr lists, supLinks, block transactions, message lists) set to each of the ~380 'count*elementSize wraps' values ceil(2^32/m), ceil(2^32/m)+1, ceil(2^31/m) for m in 2..128 (go-wire counts: also ceil(2^64/m), ceil(2^63/m)) with enclosing lengths re-computed, without and with 128 zero bytes inserted after the count, every prefix ending before a length/count field followed by each of 256 bytes, all 65793 strings of length <= 2 per decoder; text-level prefixes (and substitutions in thorough) of the hex / JSON forms. An input is non-trivial if the decoder returned a value or failed after the syntax / first flag byte was accepted (not a hex, JSON, serialization-flag or message-type-byte rejection); distinct_nontrivial counts distinct (decoder, input bytes) among those (64-bit hashes)")
	run.Assume("allocation is measured as the runtime.MemStats.TotalAlloc delta around the decode call in a single-goroutine worker; the bound 64*len+64KiB is the property's 'proportional' with generous constants")
	run.Assume("go-wire (tendermint/go-amino v0.6.2) is part of the decoding path of P2P messages and is included in the measurement; its limit argument is chosen by the reactors")
	run.Assume("workers run under ulimit -v 3GiB; an allocation that exceeds it kills the worker and is attributed to the input in flight")
	run.Finish()
}

func argsAndEnv() []string {
	return append(append([]string{}, os.Args[1:]...), os.Getenv("VERIF_TIER"))
}

func less(a, b vio) bool {
	if a.Entry != b.Entry {
		return a.Entry < b.Entry
	}
	if a.Seed != b.Seed {
		return a.Seed < b.Seed
	}
	if a.Class != b.Class {
		return a.Class < b.Class
	}
	return a.Index < b.Index
}

func printable(hx string) string {
	b, _ := hex.DecodeString(hx)
	for _, c := range b {
		if c < 0x20 || c > 0x7e {
			return "(not printable)"
		}
	}
	return string(b)
}

func sampleBytes(s *seed) string {
	if s.root == nil {
		return string(s.bytes)
	}
	return hex.EncodeToString(s.bytes)
}
