// C09: program parsing, disassembly/assembly and standard-program recognisers.
//
//	A. every byte string of length <= 2 (quick) / <= 3 (thorough) through vm.ParseProgram,
//	   compared with an independent byte-level decoder; success => lengths tile, Data inside;
//	   parsable => Disassemble -> Assemble -> ParseProgram gives the same normalised sequence.
//	B. longer shapes: every push / jump form with every truncation point, and every sequence
//	   of <= 2 (quick) / <= 3 (thorough) atoms with every jump address 0..len+1 and 2^32-1.
//	C. builders vs recognisers vs extractors for every hash / contract length 0..300 and
//	   65535..65537 (P2WPKH, P2WSH, Retire, Register, CallContract), against reference
//	   encoders / recognisers written from the documented shapes.
//	D. the other direction: every single-byte edit, every push re-encoding and every
//	   single-instruction edit of the builder outputs through the recognisers, against the
//	   reference recognisers and "recognised => builder(extracted operand) is this program".
package main

import (
	"bytes"
	"encoding/hex"
	"fmt"
	"sort"
	"strings"
	"sync"

	"github.com/bytom/bytom/consensus/bcrp"
	"github.com/bytom/bytom/consensus/segwit"
	"github.com/bytom/bytom/protocol/vm"
	"github.com/bytom/bytom/protocol/vm/vmutil"

	"verif/lib/ev"
)

// ---------- reference decoder ----------

type rinst struct {
	op   byte
	data []byte
	off  int // offset of the instruction
	hdr  int // opcode + length bytes
	ln   int // total length
}

var defined [256]bool

func init() {
	set := func(lo, hi int) {
		for i := lo; i <= hi; i++ {
			defined[i] = true
		}
	}
	set(0x00, 0x4e)
	set(0x51, 0x61)
	set(0x63, 0x64)
	set(0x69, 0x7d)
	set(0x7e, 0x89)
	set(0x8b, 0x8e)
	set(0x91, 0xa5)
	set(0xa8, 0xa8)
	set(0xaa, 0xae)
	set(0xc0, 0xc4)
	set(0xc9, 0xcb)
	set(0xcd, 0xcd)
}

func isPushOp(op byte) bool { return op <= 0x4e || (op >= 0x51 && op <= 0x60) }
func isJumpOp(op byte) bool { return op == 0x63 || op == 0x64 }

// refParse decodes a whole program; ok=false when some instruction does not fit.
func refParse(prog []byte) (out []rinst, ok bool) {
	l := uint64(len(prog))
	for pc := uint64(0); pc < l; {
		op := prog[pc]
		hdr, n := uint64(1), uint64(0)
		var data []byte
		switch {
		case op >= 0x01 && op <= 0x4b:
			n = uint64(op)
		case op >= 0x4c && op <= 0x4e:
			w := uint64(1) << (op - 0x4c)
			if pc+1+w > l {
				return nil, false
			}
			for i := uint64(0); i < w; i++ {
				n |= uint64(prog[pc+1+i]) << (8 * i)
			}
			hdr = 1 + w
		case op >= 0x51 && op <= 0x60:
			data = []byte{op - 0x50}
		case op == 0x63 || op == 0x64:
			n = 4
		}
		if hdr+n > 0xffffffff || pc+hdr+n > l {
			return nil, false
		}
		if n > 0 {
			data = prog[pc+hdr : pc+hdr+n]
		}
		out = append(out, rinst{op: op, data: data, off: int(pc), hdr: int(hdr), ln: int(hdr + n)})
		pc += hdr + n
	}
	return out, true
}

// features of a parsable program that DESIGN.md section 8 expects not to survive the text form
type feats struct {
	expansion, emptyPushdataN, offBoundaryJump bool
}

func features(prog []byte, ri []rinst) feats {
	var f feats
	starts := map[uint32]bool{uint32(len(prog)): true}
	for _, in := range ri {
		starts[uint32(in.off)] = true
	}
	for _, in := range ri {
		if !defined[in.op] {
			f.expansion = true
		}
		if in.op >= 0x4c && in.op <= 0x4e && len(in.data) == 0 {
			f.emptyPushdataN = true
		}
		if isJumpOp(in.op) && !starts[le32(in.data)] {
			f.offBoundaryJump = true
		}
	}
	return f
}

func le32(b []byte) uint32 {
	return uint32(b[0]) | uint32(b[1])<<8 | uint32(b[2])<<16 | uint32(b[3])<<24
}

// normalise renders the implementation's instruction list in the comparison form of the
// oracle: pushes by data, jumps by target instruction index (raw address if the target is
// not an instruction boundary), everything else by opcode.
func normalise(insts []vm.Instruction) []string {
	starts := map[uint32]int{}
	var pc uint32
	for i, in := range insts {
		starts[pc] = i
		pc += in.Len
	}
	starts[pc] = len(insts)
	out := make([]string, len(insts))
	for i, in := range insts {
		op := byte(in.Op)
		switch {
		case isPushOp(op):
			out[i] = "push:" + hex.EncodeToString(in.Data)
		case isJumpOp(op) && len(in.Data) == 4:
			a := le32(in.Data)
			if k, ok := starts[a]; ok {
				out[i] = fmt.Sprintf("jump%02x->inst#%d", op, k)
			} else {
				out[i] = fmt.Sprintf("jump%02x->addr%d", op, a)
			}
		default:
			out[i] = fmt.Sprintf("op%02x", op)
		}
	}
	return out
}

// ---------- report ----------

type viol struct {
	key, what string
	rc        interface{}
}

type report struct {
	evals, nontrivial int
	counters          map[string]int
	outcomes          map[string]int
	viols             []viol
	seenKey           map[string]bool
	samples           []interface{}
}

func newReport() *report {
	return &report{counters: map[string]int{}, outcomes: map[string]int{}, seenKey: map[string]bool{}}
}

func (r *report) violation(key, what string, rc interface{}) {
	r.counters["fail:"+key]++
	if r.seenKey[key] {
		return
	}
	r.seenKey[key] = true
	r.viols = append(r.viols, viol{key, what, rc})
}

func (r *report) merge(o *report) {
	r.evals += o.evals
	r.nontrivial += o.nontrivial
	for k, v := range o.counters {
		r.counters[k] += v
	}
	for k, v := range o.outcomes {
		r.outcomes[k] += v
	}
	for _, v := range o.viols {
		if !r.seenKey[v.key] {
			r.seenKey[v.key] = true
			r.viols = append(r.viols, v)
		}
	}
	if len(r.samples) < 12 {
		r.samples = append(r.samples, o.samples...)
	}
}

type progCase struct {
	Program     string   `json:"program"`
	Disassembly string   `json:"disassembly,omitempty"`
	Reassembled string   `json:"reassembled,omitempty"`
	Original    []string `json:"original_normalised,omitempty"`
	After       []string `json:"after_roundtrip_normalised,omitempty"`
	Detail      string   `json:"detail,omitempty"`
}

func short(b []byte) string {
	if len(b) > 96 {
		return hex.EncodeToString(b[:48]) + fmt.Sprintf("...(%d bytes)", len(b))
	}
	return hex.EncodeToString(b)
}

// ---------- panic-safe calls into the code under test ----------

func safeParse(prog []byte) (insts []vm.Instruction, err error, pnc interface{}) {
	defer func() { pnc = recover() }()
	insts, err = vm.ParseProgram(prog)
	return
}

func safeDisassemble(prog []byte) (text string, err error, pnc interface{}) {
	defer func() { pnc = recover() }()
	text, err = vm.Disassemble(prog)
	return
}

func safeAssemble(text string) (prog []byte, err error, pnc interface{}) {
	defer func() { pnc = recover() }()
	prog, err = vm.Assemble(text)
	return
}

func safeRecog(p []byte) (rc recog, pnc interface{}) {
	defer func() { pnc = recover() }()
	rc = implRecog(p)
	return
}

// ---------- the per-program oracle ----------

// checkProgram runs the parse oracle and, if roundTrip, the text round trip.
func (r *report) checkProgram(prog []byte, roundTrip bool) {
	r.evals++
	// exact capacity: an over-read past the end of the program must fault, not read spare bytes
	exact := make([]byte, len(prog))
	copy(exact, prog)
	prog = exact
	insts, err, pnc := safeParse(prog)
	if pnc != nil {
		r.violation("panic-in-ParseProgram", fmt.Sprintf("program %s: %v", short(prog), pnc), progCase{Program: short(prog)})
		return
	}
	ri, rok := refParse(prog)

	if (err == nil) != rok {
		r.violation("parse-accept-reject-differs-from-reference",
			fmt.Sprintf("program %s: ParseProgram error=%v, reference decoder accepts=%v", short(prog), err, rok), progCase{Program: short(prog)})
		return
	}
	if err != nil {
		r.outcomes["parse-rejected"]++
		return
	}
	// the statement itself: lengths tile the program, Data lies inside it
	var pc uint64
	for i, in := range insts {
		end := pc + uint64(in.Len)
		if in.Len == 0 || end > uint64(len(prog)) {
			r.violation("parse-lengths-do-not-tile", fmt.Sprintf("program %s: instruction %d at %d has length %d", short(prog), i, pc, in.Len), progCase{Program: short(prog)})
			return
		}
		op := byte(in.Op)
		if op != prog[pc] {
			r.violation("parse-opcode-not-at-offset", fmt.Sprintf("program %s: instruction %d reports opcode %02x, byte at %d is %02x", short(prog), i, op, pc, prog[pc]), progCase{Program: short(prog)})
			return
		}
		if !(op >= 0x51 && op <= 0x60) && len(in.Data) > 0 {
			// payload must be the tail of the instruction's own bytes
			if uint64(len(in.Data)) >= uint64(in.Len) || !bytes.Equal(in.Data, prog[end-uint64(len(in.Data)):end]) {
				r.violation("parse-data-outside-instruction", fmt.Sprintf("program %s: instruction %d data %x is not the payload inside the program", short(prog), i, in.Data), progCase{Program: short(prog)})
				return
			}
		}
		pc = end
	}
	if pc != uint64(len(prog)) {
		r.violation("parse-lengths-do-not-tile", fmt.Sprintf("program %s: lengths sum to %d, program has %d bytes", short(prog), pc, len(prog)), progCase{Program: short(prog)})
		return
	}
	// agreement with the reference decoder, instruction by instruction
	if len(insts) != len(ri) {
		r.violation("parse-instruction-count-differs-from-reference", fmt.Sprintf("program %s: %d instructions, reference %d", short(prog), len(insts), len(ri)), progCase{Program: short(prog)})
		return
	}
	for i := range insts {
		if byte(insts[i].Op) != ri[i].op || int(insts[i].Len) != ri[i].ln || !bytes.Equal(insts[i].Data, ri[i].data) {
			r.violation("parse-instruction-differs-from-reference",
				fmt.Sprintf("program %s: instruction %d is {op %02x len %d data %x}, reference {op %02x len %d data %x}", short(prog), i, byte(insts[i].Op), insts[i].Len, insts[i].Data, ri[i].op, ri[i].ln, ri[i].data),
				progCase{Program: short(prog)})
			return
		}
	}
	if len(insts) >= 2 {
		r.nontrivial++
	}
	if !roundTrip {
		r.outcomes["parsed"]++
		return
	}
	r.roundTrip(prog, insts, features(prog, ri))
}

func (r *report) roundTrip(prog []byte, insts []vm.Instruction, f feats) {
	pcase := progCase{Program: short(prog)}
	text, err, pnc := safeDisassemble(prog)
	if pnc != nil {
		r.violation("panic-in-Disassemble", fmt.Sprintf("program %s: %v", short(prog), pnc), pcase)
		return
	}
	if err != nil {
		r.violation("roundtrip-disassemble-fails", fmt.Sprintf("program %s parses but Disassemble fails: %v", short(prog), err), pcase)
		return
	}
	pcase.Disassembly = text
	if len(text) > 300 {
		pcase.Disassembly = text[:300] + "..."
	}
	prog2, err, pnc := safeAssemble(text)
	if pnc != nil {
		r.violation("panic-in-Assemble", fmt.Sprintf("text %q: %v", pcase.Disassembly, pnc), pcase)
		return
	}
	if err != nil {
		msg := err.Error()
		key := "roundtrip-assemble-fails"
		switch {
		case strings.HasSuffix(msg, vm.ErrToken.Error()) && strings.HasPrefix(msg, "NOPx") && f.expansion:
			key = "roundtrip-expansion-opcode"
		case strings.HasSuffix(msg, vm.ErrToken.Error()) && strings.HasPrefix(msg, "PUSHDATA") && f.emptyPushdataN:
			key = "roundtrip-empty-pushdataN"
		case strings.HasPrefix(msg, "undefined label") && f.offBoundaryJump:
			key = "roundtrip-jump-target-not-at-boundary"
		}
		pcase.Detail = msg
		r.outcomes[key]++
		r.violation(key, fmt.Sprintf("program %s disassembles to %q which Assemble rejects: %v", short(prog), pcase.Disassembly, err), pcase)
		return
	}
	pcase.Reassembled = short(prog2)
	insts2, err, pnc := safeParse(prog2)
	if pnc != nil {
		r.violation("panic-in-ParseProgram", fmt.Sprintf("program %s: %v", short(prog2), pnc), pcase)
		return
	}
	if err != nil {
		r.violation("roundtrip-reassembled-program-unparsable", fmt.Sprintf("program %s -> %q -> %s does not parse: %v", short(prog), pcase.Disassembly, short(prog2), err), pcase)
		return
	}
	a, b := normalise(insts), normalise(insts2)
	pcase.Original, pcase.After = a, b
	if len(a) != len(b) {
		r.violation("roundtrip-sequence-differs:count", fmt.Sprintf("program %s -> %q -> %s: %d instructions became %d", short(prog), pcase.Disassembly, short(prog2), len(a), len(b)), pcase)
		return
	}
	for i := range a {
		if a[i] != b[i] {
			kind := "opcode"
			switch {
			case strings.HasPrefix(a[i], "push") && strings.HasPrefix(b[i], "push"):
				kind = "push-data"
			case strings.HasPrefix(a[i], "jump") && strings.HasPrefix(b[i], "jump"):
				kind = "jump-target"
			}
			r.violation("roundtrip-sequence-differs:"+kind, fmt.Sprintf("program %s -> %q -> %s: instruction %d %s became %s", short(prog), pcase.Disassembly, short(prog2), i, a[i], b[i]), pcase)
			return
		}
	}
	r.outcomes["roundtrip-ok"]++
	r.counters["roundtrip_ok"]++
	if len(r.samples) < 1 && len(insts) >= 2 && bytes.IndexByte(prog, 0x4c) >= 0 {
		r.samples = append(r.samples, pcase)
	}
}

// ---------- part A: all short byte strings ----------

func partA(run *ev.Run, maxLen int, total *report) {
	// lengths 0 and 1
	for _, p := range [][]byte{{}} {
		total.checkProgram(p, true)
		total.recognisersOn(p)
	}
	reports := make([]*report, 256)
	var wg sync.WaitGroup
	sem := make(chan struct{}, 6)
	for b0 := 0; b0 < 256; b0++ {
		wg.Add(1)
		sem <- struct{}{}
		go func(b0 int) {
			defer wg.Done()
			defer func() { <-sem }()
			r := newReport()
			reports[b0] = r
			buf := make([]byte, 0, 3)
			var rec func(p []byte)
			rec = func(p []byte) {
				q := append([]byte{}, p...) // ParseProgram's Data aliases the program: give it its own copy
				r.checkProgram(q, true)
				if len(q) <= 2 {
					r.recognisersOn(q)
				}
				if len(p) == maxLen {
					return
				}
				for b := 0; b < 256; b++ {
					if len(p) == 1 && b == 0 && run.OutOfTime() {
						return
					}
					rec(append(p, byte(b)))
				}
			}
			rec(append(buf, byte(b0)))
		}(b0)
	}
	wg.Wait()
	for _, r := range reports {
		total.merge(r)
	}
}

// ---------- part B: longer shapes ----------

func seq(n int) []byte {
	out := make([]byte, n)
	for i := range out {
		out[i] = byte(i*7 + 1)
	}
	return out
}

func pushForm(op byte, n int) []byte {
	switch op {
	case 0x4c:
		return append([]byte{op, byte(n)}, seq(n)...)
	case 0x4d:
		return append([]byte{op, byte(n), byte(n >> 8)}, seq(n)...)
	case 0x4e:
		return append([]byte{op, byte(n), byte(n >> 8), byte(n >> 16), byte(n >> 24)}, seq(n)...)
	}
	return append([]byte{op}, seq(n)...)
}

func partB(run *ev.Run, total *report) {
	thorough := run.Thorough()
	r := newReport()
	var forms [][]byte
	for n := 1; n <= 75; n++ {
		forms = append(forms, pushForm(byte(n), n))
	}
	for _, n := range []int{0, 1, 75, 76, 255} {
		forms = append(forms, pushForm(0x4c, n))
	}
	p2 := []int{0, 1, 255, 256, 300}
	p4 := []int{0, 1, 255, 256, 300}
	if thorough {
		p2 = append(p2, 65535)
		p4 = append(p4, 65535, 65536)
	}
	for _, n := range p2 {
		forms = append(forms, pushForm(0x4d, n))
	}
	for _, n := range p4 {
		forms = append(forms, pushForm(0x4e, n))
	}
	// declared lengths that can never fit
	forms = append(forms, []byte{0x4e, 0xff, 0xff, 0xff, 0xff, 1, 2, 3}, []byte{0x4e, 0xfb, 0xff, 0xff, 0xff, 1}, []byte{0x4e, 0xfa, 0xff, 0xff, 0xff}, []byte{0x4d, 0xff, 0xff, 9})
	for _, op := range []byte{0x63, 0x64} {
		for _, a := range []uint32{0, 5, 6, 0xffffffff} {
			forms = append(forms, []byte{op, byte(a), byte(a >> 8), byte(a >> 16), byte(a >> 24)})
		}
	}
	r.counters["push_jump_forms"] = len(forms)
	for _, f := range forms {
		long := len(f) > 1000
		for k := 0; k <= len(f); k++ {
			if long && k > 8 && k < len(f)-8 && k%997 != 0 {
				continue // long payloads: every truncation point near both ends, a stride in between
			}
			for _, pre := range [][]byte{nil, {0x61}} {
				for _, post := range [][]byte{nil, {0x51}, {0x61, 0x61, 0x61, 0x61, 0x61}} {
					p := append(append(append([]byte{}, pre...), f[:k]...), post...)
					r.checkProgram(p, !long)
					r.counters["truncation_cases"]++
				}
			}
		}
		if run.OutOfTime() {
			break
		}
	}

	// atom sequences with every jump address
	type atom struct {
		b    []byte
		jump bool
	}
	atoms := []atom{
		{b: []byte{0x61}}, {b: []byte{0x00}}, {b: []byte{0x55}}, {b: []byte{0x01, 0xaa}}, {b: []byte{0x4c, 0x01, 0xaa}},
		{b: []byte{0x4c, 0x00}}, {b: []byte{0x4d, 0x00, 0x00}}, {b: []byte{0x4e, 0, 0, 0, 0}}, {b: []byte{0x50}}, {b: []byte{0x93}},
		{b: []byte{0x63, 0, 0, 0, 0}, jump: true}, {b: []byte{0x64, 0, 0, 0, 0}, jump: true},
	}
	maxAtoms := run.Pick(2, 3)
	var build func(seqn []atom)
	build = func(seqn []atom) {
		if len(seqn) > 0 {
			var prog []byte
			var jumpAt []int
			for _, a := range seqn {
				if a.jump {
					jumpAt = append(jumpAt, len(prog)+1)
				}
				prog = append(prog, a.b...)
			}
			addrs := []uint32{}
			for a := 0; a <= len(prog)+1; a++ {
				addrs = append(addrs, uint32(a))
			}
			addrs = append(addrs, 0xffffffff)
			var setJ func(j int)
			setJ = func(j int) {
				if j == len(jumpAt) {
					r.checkProgram(append([]byte{}, prog...), true)
					r.counters["atom_sequence_cases"]++
					return
				}
				for _, a := range addrs {
					prog[jumpAt[j]], prog[jumpAt[j]+1], prog[jumpAt[j]+2], prog[jumpAt[j]+3] = byte(a), byte(a>>8), byte(a>>16), byte(a>>24)
					setJ(j + 1)
				}
			}
			setJ(0)
		}
		if len(seqn) == maxAtoms || run.OutOfTime() {
			return
		}
		for _, a := range atoms {
			build(append(seqn, a))
		}
	}
	build(nil)

	// more distinct jump targets than the disassembler has label words (26)
	for _, n := range []int{26, 27, 60} {
		var prog []byte
		for i := 0; i < n; i++ {
			a := uint32(i * 5)
			prog = append(prog, 0x63, byte(a), byte(a>>8), byte(a>>16), byte(a>>24))
		}
		r.checkProgram(prog, true)
		r.counters["many_label_cases"]++
	}
	total.merge(r)
}

// ---------- part C: builders, recognisers, extractors ----------

var bcrpTag = []byte("bcrp")

func minimalPush(b []byte) []byte {
	n := len(b)
	var h []byte
	switch {
	case n == 0:
		return []byte{0x00}
	case n <= 75:
		h = []byte{byte(n)}
	case n < 256:
		h = []byte{0x4c, byte(n)}
	case n < 65536:
		h = []byte{0x4d, byte(n), byte(n >> 8)}
	default:
		h = []byte{0x4e, byte(n), byte(n >> 8), byte(n >> 16), byte(n >> 24)}
	}
	return append(h, b...)
}

// reference recognisers: the documented shapes, on raw bytes
func refIsP2W(prog []byte, n int) bool {
	return len(prog) == 2+n && prog[0] == 0x00 && int(prog[1]) == n
}
func refIsCall(prog []byte) bool {
	return len(prog) == 38 && prog[0] == 0x04 && bytes.Equal(prog[1:5], bcrpTag) && prog[5] == 0x20
}
func refIsStraightforward(prog []byte) bool {
	return len(prog) == 1 && (prog[0] == 0x51 || prog[0] == 0x6a)
}

// refIsRegister: FAIL, "bcrp", version 1, then exactly one more instruction carrying data.
func refIsRegister(prog []byte) bool {
	head := append([]byte{0x6a, 0x04}, bcrpTag...)
	head = append(head, 0x01, 0x01)
	if len(prog) <= len(head) || !bytes.Equal(prog[:len(head)], head) {
		return false
	}
	ri, ok := refParse(prog[len(head):])
	return ok && len(ri) == 1 && len(ri[0].data) > 0
}

type recog struct {
	P2WPKH, P2WSH, P2W, Straight, BCRP, Call, Unspendable bool
}

func implRecog(p []byte) recog {
	return recog{segwit.IsP2WPKHScript(p), segwit.IsP2WSHScript(p), segwit.IsP2WScript(p), segwit.IsStraightforward(p),
		bcrp.IsBCRPScript(p), bcrp.IsCallContractScript(p), vmutil.IsUnspendable(p)}
}

func refRecog(p []byte) recog {
	a, b, s := refIsP2W(p, 20), refIsP2W(p, 32), refIsStraightforward(p)
	return recog{a, b, a || b || s, s, refIsRegister(p), refIsCall(p), len(p) > 0 && p[0] == 0x6a}
}

func (r *report) recognisersOn(p []byte) {
	got, pnc := safeRecog(p)
	want := refRecog(p)
	r.counters["recogniser_evaluations"] += 7
	if pnc != nil {
		r.violation("panic-in-recogniser", fmt.Sprintf("program %s: %v", short(p), pnc), progCase{Program: short(p)})
		return
	}
	if got != want {
		r.violation("recogniser-differs-on-short-string", fmt.Sprintf("program %s: recognisers %+v, documented shapes %+v", short(p), got, want), progCase{Program: short(p)})
	}
	if got.Straight {
		r.outcomes["recognised-straightforward"]++
	}
}

type buildCase struct {
	Builder string `json:"builder"`
	Length  int    `json:"operand_length"`
	Fill    string `json:"fill"`
	Program string `json:"program"`
	Detail  string `json:"detail"`
}

func partC(run *ev.Run, total *report) {
	r := newReport()
	lengths := []int{}
	for l := 0; l <= 300; l++ {
		lengths = append(lengths, l)
	}
	lengths = append(lengths, 65535, 65536, 65537)
	fills := []struct {
		name string
		f    func(l int) []byte
	}{
		{"pattern", func(l int) []byte {
			b := make([]byte, l)
			for i := range b {
				b[i] = byte(i*13 + l)
			}
			return b
		}},
		{"zeros", func(l int) []byte { return make([]byte, l) }},
		{"ff", func(l int) []byte { return bytes.Repeat([]byte{0xff}, l) }},
		{"bcrp-lookalike", func(l int) []byte { return bytes.Repeat([]byte{0x6a, 0x04, 'b', 'c', 'r', 'p', 0x01, 0x01}, l/8+1)[:l] }},
	}
	type builder struct {
		name  string
		build func([]byte) ([]byte, error)
		ref   func([]byte) []byte
	}
	builders := []builder{
		{"P2WPKHProgram", vmutil.P2WPKHProgram, func(h []byte) []byte { return append([]byte{0x00}, minimalPush(h)...) }},
		{"P2WSHProgram", vmutil.P2WSHProgram, func(h []byte) []byte { return append([]byte{0x00}, minimalPush(h)...) }},
		{"RetireProgram", vmutil.RetireProgram, func(c []byte) []byte {
			if len(c) == 0 {
				return []byte{0x6a}
			}
			return append([]byte{0x6a}, minimalPush(c)...)
		}},
		{"RegisterProgram", vmutil.RegisterProgram, func(c []byte) []byte {
			p := append([]byte{0x6a, 0x04}, bcrpTag...)
			p = append(p, 0x01, 0x01)
			return append(p, minimalPush(c)...)
		}},
		{"CallContractProgram", vmutil.CallContractProgram, func(h []byte) []byte {
			p := append([]byte{0x04}, bcrpTag...)
			return append(p, minimalPush(h)...)
		}},
	}
	for _, bd := range builders {
		for _, l := range lengths {
			for _, fl := range fills {
				operand := fl.f(l)
				bc := buildCase{Builder: bd.name, Length: l, Fill: fl.name}
				fail := func(key, detail string, prog []byte) {
					bc.Program, bc.Detail = short(prog), detail
					r.violation(key, fmt.Sprintf("%s(%d bytes, %s): %s", bd.name, l, fl.name, detail), bc)
				}
				r.evals++
				r.counters["builder_cases"]++
				func() {
					defer func() {
						if pnc := recover(); pnc != nil {
							fail("panic-in-builder-or-extractor:"+bd.name, fmt.Sprint(pnc), nil)
						}
					}()
					prog, err := bd.build(append([]byte{}, operand...))
					if err != nil {
						fail("builder-returns-error", err.Error(), nil)
						return
					}
					// 1. the documented encoding (length classes of the push)
					if want := bd.ref(operand); !bytes.Equal(prog, want) {
						fail("builder-encoding-differs:"+bd.name, fmt.Sprintf("built %s, documented encoding %s", short(prog), short(want)), prog)
						return
					}
					// 2. recognisers: true exactly for the legal operand length of that builder
					got, pnc := safeRecog(prog)
					if pnc != nil {
						fail("panic-in-recogniser", fmt.Sprint(pnc), prog)
						return
					}
					want := recog{Unspendable: bd.name == "RetireProgram" || bd.name == "RegisterProgram"}
					switch bd.name {
					case "P2WPKHProgram", "P2WSHProgram":
						want.P2WPKH, want.P2WSH = l == 20, l == 32
						want.P2W = want.P2WPKH || want.P2WSH
					case "RetireProgram":
						want.Straight = l == 0
						want.P2W = want.Straight
					case "RegisterProgram":
						want.BCRP = l > 0
					case "CallContractProgram":
						want.Call = l == 32
					}
					r.counters["recogniser_evaluations"] += 7
					if got != want {
						fail("recogniser-disagrees-with-builder:"+bd.name, fmt.Sprintf("recognisers say %+v, legal-length rule says %+v", got, want), prog)
						return
					}
					if rr := refRecog(prog); rr != want {
						ev.Fatal("reference recognisers inconsistent with the legal-length rule for %s(%d): %+v vs %+v", bd.name, l, rr, want)
					}
					cls := "built-not-recognised"
					if got.P2WPKH || got.P2WSH || got.BCRP || got.Call || got.Straight {
						cls = "built-recognised"
						r.nontrivial++
					}
					r.outcomes[cls]++
					// 3. extractors give back the operand
					switch bd.name {
					case "P2WPKHProgram", "P2WSHProgram":
						h, err := segwit.GetHashFromStandardProg(prog)
						if err != nil || !bytes.Equal(h, operand) {
							fail("extractor-differs:GetHashFromStandardProg", fmt.Sprintf("returned %s, %v", short(h), err), prog)
							return
						}
					case "RegisterProgram":
						c, err := bcrp.ParseContract(prog)
						if err != nil || !bytes.Equal(c, operand) {
							fail("extractor-differs:ParseContract", fmt.Sprintf("returned %s, %v", short(c), err), prog)
							return
						}
					case "CallContractProgram":
						if l == 32 {
							h, err := bcrp.ParseContractHash(prog)
							if err != nil || !bytes.Equal(h[:], operand) {
								fail("extractor-differs:ParseContractHash", fmt.Sprintf("returned %x, %v", h, err), prog)
								return
							}
						}
					}
					// 4. parse oracle (and the text round trip for programs of the statement's size)
					if l <= 300 {
						r.checkProgram(prog, true)
					} else {
						r.checkProgram(prog, false)
						if text, err := vm.Disassemble(prog); err == nil {
							if _, err := vm.Assemble(text); err != nil {
								r.counters["obs_roundtrip_fails_for_pushes_beyond_scanner_token_limit"]++
							}
						}
					}
				}()
			}
		}
	}

	// observation, outside the statement's quantifier (programs NOT made by the builder):
	// how liberal is IsBCRPScript about the last instruction?
	head := append([]byte{0x6a, 0x04}, bcrpTag...)
	head = append(head, 0x01, 0x01)
	for _, tail := range [][]byte{{0x4c, 0x01, 0xaa}, {0x4d, 0x01, 0x00, 0xaa}, {0x4e, 1, 0, 0, 0, 0xaa}, {0x55}, {0x63, 0, 0, 0, 0}, {0x64, 1, 0, 0, 0}} {
		p := append(append([]byte{}, head...), tail...)
		if bcrp.IsBCRPScript(p) {
			c, _ := bcrp.ParseContract(p)
			if built, err := vmutil.RegisterProgram(c); err == nil && !bytes.Equal(built, p) {
				r.counters["obs_bcrp_recogniser_accepts_program_the_builder_never_makes"]++
			}
		}
	}
	total.merge(r)
}

// ---------- part D: the neighbourhood of the standard shapes (recogniser => builder) ----------
//
// Part C goes builder -> recogniser. Part D goes the other way: it enumerates programs that are
// NOT builder outputs but lie next to one, and demands (1) the seven recognisers equal the
// reference recognisers written on raw bytes and (2) whenever a recogniser of a shape with an
// extractor says yes, builder(extractor(program)) is that very program.
//
//	D1 every single-byte substitution, insertion and deletion of every builder output
//	D2 every combination of push encodings of its instructions (OP_0 / OP_N / DATA_n /
//	   PUSHDATA1 / PUSHDATA2 / PUSHDATA4 - every form that can carry the data)
//	D3 one instruction inserted at every position (6 atoms), each instruction deleted or
//	   doubled, adjacent instructions swapped

// pushEncodings lists every instruction encoding that pushes exactly d.
func pushEncodings(d []byte) [][]byte {
	n := len(d)
	var out [][]byte
	if n == 0 {
		out = append(out, []byte{0x00})
	}
	if n == 1 && d[0] >= 1 && d[0] <= 16 {
		out = append(out, []byte{0x50 + d[0]})
	}
	if n >= 1 && n <= 75 {
		out = append(out, append([]byte{byte(n)}, d...))
	}
	if n < 256 {
		out = append(out, append([]byte{0x4c, byte(n)}, d...))
	}
	if n < 65536 {
		out = append(out, append([]byte{0x4d, byte(n), byte(n >> 8)}, d...))
	}
	out = append(out, append([]byte{0x4e, byte(n), byte(n >> 8), byte(n >> 16), byte(n >> 24)}, d...))
	return out
}

type shapeBuilder struct {
	name  string
	build func([]byte) ([]byte, error)
}

var shapeBuilders = []shapeBuilder{
	{"P2WPKHProgram", vmutil.P2WPKHProgram},
	{"P2WSHProgram", vmutil.P2WSHProgram},
	{"RetireProgram", vmutil.RetireProgram},
	{"RegisterProgram", vmutil.RegisterProgram},
	{"CallContractProgram", vmutil.CallContractProgram},
}

type variantCase struct {
	Builder string `json:"neighbour_of_builder"`
	Length  int    `json:"operand_length"`
	Edit    string `json:"edit"`
	Program string `json:"program"`
	Detail  string `json:"detail"`
}

// checkVariant: the oracle of part D for one program.
func (r *report) checkVariant(p []byte, origin shapeBuilder, l int, edit string) {
	exact := make([]byte, len(p))
	copy(exact, p)
	p = exact
	r.evals++
	r.counters["neighbour_programs"]++
	vc := variantCase{Builder: origin.name, Length: l, Edit: edit, Program: short(p)}
	fail := func(key, detail string) {
		vc.Detail = detail
		r.violation(key, fmt.Sprintf("program %s (%s of %s(%d bytes)): %s", short(p), edit, origin.name, l, detail), vc)
	}
	got, pnc := safeRecog(p)
	r.counters["recogniser_evaluations"] += 7
	if pnc != nil {
		fail("panic-in-recogniser", fmt.Sprint(pnc))
		return
	}
	want := refRecog(p)
	// (2) recognised => the program is what the builder makes of the extracted operand
	rebuilt := func(shape string, extract func() ([]byte, error), build func([]byte) ([]byte, error), observeOnly bool) bool {
		var operand, again []byte
		var err error
		func() {
			defer func() {
				if x := recover(); x != nil {
					err = fmt.Errorf("panic: %v", x)
				}
			}()
			if operand, err = extract(); err == nil {
				again, err = build(append([]byte{}, operand...))
			}
		}()
		if err == nil && bytes.Equal(again, p) {
			return true
		}
		if observeOnly {
			r.counters["obs_"+shape+"_recogniser_accepts_neighbour_the_builder_never_makes"]++
			return true
		}
		fail("recogniser-accepts-program-the-builder-never-makes:"+shape,
			fmt.Sprintf("recognised as %s, extracted operand %s (err %v), builder makes %s of it", shape, short(operand), err, short(again)))
		return false
	}
	segwitHash := func() ([]byte, error) { return segwit.GetHashFromStandardProg(p) }
	okAll := true
	if got.P2WPKH {
		okAll = rebuilt("P2WPKH", segwitHash, vmutil.P2WPKHProgram, false) && okAll
	}
	if got.P2WSH {
		okAll = rebuilt("P2WSH", segwitHash, vmutil.P2WSHProgram, false) && okAll
	}
	if got.Call {
		okAll = rebuilt("CallContract", func() ([]byte, error) { h, err := bcrp.ParseContractHash(p); return h[:], err }, vmutil.CallContractProgram, false) && okAll
	}
	if got.BCRP {
		// documented as liberal about the encoding of the contract push (NOTES.md): observation
		rebuilt("bcrp", func() ([]byte, error) { return bcrp.ParseContract(p) }, vmutil.RegisterProgram, true)
	}
	if got.Straight {
		a, _ := vmutil.DefaultCoinbaseProgram()
		b, _ := vmutil.RetireProgram(nil)
		if !bytes.Equal(p, a) && !bytes.Equal(p, b) {
			fail("recogniser-accepts-program-the-builder-never-makes:Straightforward", "neither DefaultCoinbaseProgram() nor RetireProgram(nil)")
			okAll = false
		}
	}
	if got.P2W != (got.P2WPKH || got.P2WSH || got.Straight) {
		fail("recogniser-IsP2WScript-is-not-the-union-of-its-shapes", fmt.Sprintf("%+v", got))
		okAll = false
	}
	// (1) the documented shapes on raw bytes
	if got != want {
		fail("recogniser-differs-from-documented-shape", fmt.Sprintf("recognisers say %+v, documented shapes %+v", got, want))
		okAll = false
	}
	if !okAll {
		return
	}
	if got.P2WPKH || got.P2WSH || got.BCRP || got.Call || got.Straight {
		r.outcomes["neighbour-recognised"]++
		r.nontrivial++
	} else {
		r.outcomes["neighbour-not-recognised"]++
	}
}

func partD(run *ev.Run, total *report) {
	lengths := []int{0, 1, 2, 19, 20, 21, 31, 32, 33, 75, 76}
	if run.Thorough() {
		lengths = append(lengths, 16, 64, 255, 256, 257, 300)
	}
	fills := []func(l int) []byte{
		func(l int) []byte {
			b := make([]byte, l)
			for i := range b {
				b[i] = byte(i*13 + l)
			}
			return b
		},
		// a one-byte operand that also has an OP_N form; longer: bytes that are push opcodes themselves
		func(l int) []byte {
			b := make([]byte, l)
			for i := range b {
				b[i] = []byte{0x01, 0x00, 0x4c, 0x14, 0x20, 0x6a, 0x51}[i%7]
			}
			return b
		},
	}
	atoms := [][]byte{{0x61}, {0x00}, {0x51}, {0x6a}, {0x01, 0xaa}, {0x4c, 0x00}}

	type job struct {
		sb   shapeBuilder
		l    int
		base []byte
	}
	var jobs []job
	seen := map[string]int{}
	for _, sb := range shapeBuilders {
		for _, l := range lengths {
			for _, f := range fills {
				base, err := sb.build(f(l))
				if err != nil {
					ev.Fatal("part D: %s(%d bytes): %v", sb.name, l, err)
				}
				if at, dup := seen[string(base)]; dup { // P2WPKHProgram and P2WSHProgram build the same bytes: one base
					if !strings.Contains(jobs[at].sb.name, sb.name) {
						jobs[at].sb.name += "/" + sb.name
					}
				} else {
					seen[string(base)] = len(jobs)
					jobs = append(jobs, job{sb, l, base})
				}
			}
		}
	}
	reports := make([]*report, len(jobs))
	var wg sync.WaitGroup
	sem := make(chan struct{}, 6)
	for ji, j := range jobs {
		wg.Add(1)
		sem <- struct{}{}
		go func(ji int, j job) {
			defer wg.Done()
			defer func() { <-sem }()
			r := newReport()
			reports[ji] = r
			if run.OutOfTime() {
				r.counters["neighbour_bases_skipped_out_of_time"]++
				return
			}
			base := j.base
			r.counters["neighbour_bases"]++
			r.checkVariant(base, j.sb, j.l, "unchanged")
			// D1: byte edits
			for pos := 0; pos <= len(base); pos++ {
				for b := 0; b < 256; b++ {
					if pos == len(base) || base[pos] != byte(b) { // else: same program as the insertion one position later
						p := make([]byte, 0, len(base)+1)
						p = append(append(append(p, base[:pos]...), byte(b)), base[pos:]...)
						r.checkVariant(p, j.sb, j.l, fmt.Sprintf("byte %02x inserted at %d", b, pos))
					}
					if pos < len(base) && byte(b) != base[pos] {
						q := append([]byte{}, base...)
						q[pos] = byte(b)
						r.checkVariant(q, j.sb, j.l, fmt.Sprintf("byte at %d replaced by %02x", pos, b))
					}
				}
				if pos < len(base) && (pos+1 == len(base) || base[pos] != base[pos+1]) {
					q := append(append([]byte{}, base[:pos]...), base[pos+1:]...)
					r.checkVariant(q, j.sb, j.l, fmt.Sprintf("byte at %d deleted", pos))
				}
			}
			r.counters["neighbour_byte_edit_bases"]++
			// D2 / D3 work on the instructions of the builder output
			ri, ok := refParse(base)
			if !ok {
				// the builders' own output is not a parsable program: builder and parser disagree
				r.violation("builder-output-does-not-parse", fmt.Sprintf("part D: the program %s built by %s (payload length %d) does not parse", short(base), j.sb.name, j.l), map[string]interface{}{"program": fmt.Sprintf("%x", base), "builder": j.sb.name, "payload_length": j.l})
				return
			}
			alts := make([][][]byte, len(ri))
			for i, in := range ri {
				own := base[in.off : in.off+in.ln]
				if isPushOp(in.op) {
					alts[i] = pushEncodings(in.data)
				} else {
					alts[i] = [][]byte{own}
				}
			}
			var prod func(i int, acc []byte, desc []string)
			prod = func(i int, acc []byte, desc []string) {
				if i == len(ri) {
					r.checkVariant(acc, j.sb, j.l, "push encodings "+strings.Join(desc, ","))
					r.checkProgram(acc, len(acc) <= 400)
					r.counters["neighbour_push_encoding_combinations"]++
					return
				}
				for _, enc := range alts[i] {
					prod(i+1, append(append([]byte{}, acc...), enc...), append(append([]string{}, desc...), fmt.Sprintf("%02x", enc[0])))
				}
			}
			prod(0, nil, nil)
			piece := func(i int) []byte { return base[ri[i].off : ri[i].off+ri[i].ln] }
			join := func(parts ...[]byte) []byte {
				var out []byte
				for _, p := range parts {
					out = append(out, p...)
				}
				return out
			}
			d3 := func(p []byte, edit string) {
				r.checkVariant(p, j.sb, j.l, edit)
				r.checkProgram(p, len(p) <= 400)
				r.counters["neighbour_instruction_edits"]++
			}
			for i := 0; i <= len(ri); i++ {
				off := len(base)
				if i < len(ri) {
					off = ri[i].off
				}
				for _, a := range atoms {
					d3(join(base[:off], a, base[off:]), fmt.Sprintf("instruction %x inserted before #%d", a, i))
				}
				if i < len(ri) {
					end := off + ri[i].ln
					d3(join(base[:off], base[end:]), fmt.Sprintf("instruction #%d deleted", i))
					d3(join(base[:end], piece(i), base[end:]), fmt.Sprintf("instruction #%d doubled", i))
					if i+1 < len(ri) {
						d3(join(base[:off], piece(i+1), piece(i), base[ri[i+1].off+ri[i+1].ln:]), fmt.Sprintf("instructions #%d and #%d swapped", i, i+1))
					}
				}
			}
		}(ji, j)
	}
	wg.Wait()
	for _, r := range reports {
		total.merge(r)
	}
}

func main() {
	run := ev.Start("C09", "exploration")
	total := newReport()
	maxLen := run.Pick(2, 3)
	partA(run, maxLen, total)
	partB(run, total)
	partC(run, total)
	partD(run, total)

	run.Add("evaluations", total.evals)
	run.Add("distinct_nontrivial", total.nontrivial)
	ck := make([]string, 0, len(total.counters))
	for k := range total.counters {
		ck = append(ck, k)
	}
	sort.Strings(ck)
	for _, k := range ck {
		run.Set(strings.ReplaceAll(k, ":", "_"), total.counters[k])
	}
	ok := make([]string, 0, len(total.outcomes))
	for k := range total.outcomes {
		ok = append(ok, k)
	}
	sort.Strings(ok)
	for _, k := range ok {
		for i := 0; i < total.outcomes[k]; i++ {
			run.Outcome(k)
		}
	}
	for _, s := range total.samples {
		run.Sample(s)
	}
	sort.SliceStable(total.viols, func(i, j int) bool { return total.viols[i].key < total.viols[j].key })
	for _, v := range total.viols {
		run.Violation(v.key, v.what, v.rc)
	}
	run.Set("max_string_length_exhaustive", maxLen)
	run.Set("rule", fmt.Sprintf("A: every byte string of length 0..%d; B: every prefix of every DATA_n/PUSHDATA1/2/4/JUMP/JUMPIF form (with and without a leading NOP and trailing ops) and every sequence of <= %d atoms from a 12-atom alphabet with every jump address 0..len+1 and 2^32-1; C: 5 builders x lengths 0..300, 65535..65537 x 4 fills; D: for every builder output with operand length in {0,1,2,19,20,21,31,32,33,75,76%s} x 2 fills: every single-byte substitution / insertion / deletion, every combination of the push encodings (OP_0, OP_N, DATA_n, PUSHDATA1/2/4) of its instructions, one instruction from a 6-atom alphabet inserted at every position, every instruction deleted / doubled, adjacent instructions swapped - all seven recognisers against byte-level reference recognisers, and recognised => builder(extractor(program)) == program. "+
		"evaluations = programs put through the parse oracle (+ builder cases). distinct_nontrivial = parsable programs of >= 2 instructions (all distinct inside A; B and C add their own) plus built programs that a recogniser accepted plus neighbour programs of part D (distinct per builder output) that a recogniser accepted.", maxLen, run.Pick(2, 3), map[bool]string{false: "", true: ",16,64,255,256,257,300"}[run.Thorough()]))
	run.Assume("normalised comparison: pushes by data, jumps by target instruction index (raw address when the target is no instruction boundary), other instructions by opcode - the assembler always emits minimal pushes")
	run.Assume("the text round trip is demanded for programs up to a few hundred bytes (statement's quantifier); for 64 KiB pushes a failure is only counted (bufio.Scanner token limit)")
	run.Assume("recogniser/builder agreement is asserted in both directions: over builder outputs (part C) and over their edit / re-encoding neighbourhood (part D: a recognised program must be the builder's output for the extracted operand); only IsBCRPScript, whose documented shape leaves the last instruction open, accepting non-builder encodings of the contract push is counted as an observation")
	run.Finish()
}
