// C24: see lib/walletlab. BFS over in-order block deliveries of three branches containing wallet-owned
// normal, coinbase and vote outputs with their spends / veto, votes that justify the shorter branch,
// and a node+wallet restart; the wallet's own walletUpdater goroutine performs the reorganisation walk.
package main

import (
	"encoding/json"
	"fmt"
	"os"
	"time"

	"verif/lib/ev"
	"verif/lib/par"
	"verif/lib/walletlab"
	"verif/lib/xplore"
)

const prop = "C24"

var W *walletlab.World

func runHist(h []int, _ json.RawMessage) (out xplore.Out) {
	if len(h) > 0 && h[0] == steppedMarker {
		return runStepped(h[1:])
	}
	x, err := W.NewInst()
	if err != nil {
		return xplore.Out{Viols: []xplore.Viol{{Key: "infra-newnode", What: err.Error()}}}
	}
	add := func(fs []walletlab.Finding, when string) {
		for _, f := range fs {
			out.Viols = append(out.Viols, xplore.Viol{Key: f.Key, What: fmt.Sprintf("%s after %v: %s", when, W.Describe(h), f.What)})
		}
	}
	for _, ei := range h {
		x.Apply(W.Events[ei])
	}
	enabled := W.Enabled(x, h)
	// the wallet only wakes when the chain grows past its height: compare whenever it has caught up
	synced := x.Synced()
	outcome := "lagging"
	if synced {
		outcome = "synced"
		out.Checks++
		if prop == "C24" {
			fs, o := x.CheckC24()
			add(fs, "live wallet")
			outcome += " " + o
		} else {
			add(x.CheckC25(), "live wallet")
		}
	}
	out.Digest = x.Digest()
	check := func(y *walletlab.Inst, when string) string {
		out.Checks++
		if prop == "C24" {
			fs, o := y.CheckC24()
			add(fs, when)
			return o
		}
		fs := y.CheckC25()
		add(fs, when)
		return fmt.Sprintf("violations=%d", len(fs))
	}
	if !synced {
		// a wallet that lags behind a reorganisation (the chain did not grow past its height) gets a rescan request:
		// on a second instance, so that the closing restart below still starts from the lagging state
		if y, err := W.NewInst(); err == nil {
			for _, ei := range h {
				y.Apply(W.Events[ei])
			}
			y.Apply(walletlab.Ev{Kind: "rescan"})
			switch {
			case y.RescanIgnored:
				out.Viols = append(out.Viols, xplore.Viol{Key: "rescan-request-not-taken-up", What: fmt.Sprintf("after %v", W.Describe(h))})
			case y.Synced():
				outcome += " rescan-while-lagging:" + check(y, "rescan requested while the wallet lagged")
			default:
				outcome += " rescan-while-lagging:still-lagging"
			}
			y.In.DB.Wipe()
		}
	}
	// closing step: restart node and wallet (the restarted wallet walks to the chain's best block at once)
	x.Apply(walletlab.Ev{Kind: "restart"})
	if x.WaitSync(20 * time.Second) {
		out.Checks++
		if prop == "C24" {
			fs, o := x.CheckC24()
			add(fs, "after restart")
			outcome += " restart:" + o
		} else {
			fs := x.CheckC25()
			add(fs, "after restart")
			outcome += fmt.Sprintf(" restart:violations=%d", len(fs))
		}
		// thorough: and a rescan of the restarted, caught-up wallet
		if !W.Thorough {
			// skip
		} else if x.Apply(walletlab.Ev{Kind: "rescan"}); x.RescanIgnored {
			out.Viols = append(out.Viols, xplore.Viol{Key: "rescan-request-not-taken-up", What: fmt.Sprintf("after restart after %v", W.Describe(h))})
		} else if x.Synced() {
			outcome += " rescan:" + check(x, "rescan after restart")
		}
	} else {
		outcome += " restart:lagging"
	}
	out.Outcome = outcome
	out.Enabled = enabled
	x.In.DB.Wipe()
	return
}

func main() {
	thorough := os.Getenv("VERIF_TIER") == "thorough"
	for _, a := range os.Args[1:] {
		if a == "thorough" {
			thorough = true
		}
	}
	W = walletlab.Build(thorough)
	spec := &xplore.Spec{Name: "wallet", Run: runHist, Recycle: 40, Describe: func(h []int) interface{} {
		if len(h) > 0 && h[0] == steppedMarker {
			return append([]string{"world:lagging-wallet", "a1..a5"}, steppedWorld().Describe(h[1:])...)
		}
		return W.Describe(h)
	}}
	if par.IsWorker() {
		xplore.Worker(spec)
	}
	run := ev.Start(prop, "model_checking")
	spec.MaxDepth = len(W.Events) + 1
	st := xplore.BFS(run, spec)
	stepped(run, spec)
	run.Set("states", st.States)
	run.Set("transitions", st.Transitions)
	run.Set("traces_validated_against_impl", st.Checks)
	run.Set("max_depth", st.MaxDepth)
	var all []int
	for i := range W.Events {
		all = append(all, i)
	}
	run.Set("events", W.Describe(all))
	run.Set("rule", "BFS over interleavings of in-order block deliveries of branches A (creates wallet vote + normal outputs, spends, vetoes, spends a wallet coinbase exactly at maturity), B (empty, shorter, justified by three votes), C (fork below the veto), and one node+wallet restart; states merged on node digest + wallet UTXO set; the oracle is evaluated when the real walletUpdater has caught up and again after a closing restart")
	run.Assume("wallet accounts are two P2WPKH programs registered in the wallet store; the wallet legitimately lags after a reorganisation to an equal or lower height (it only wakes when the chain grows past its height): such states are compared after the closing restart only")
	run.Finish()
}
