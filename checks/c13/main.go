// C13: blocks violating consensus rules never enter the main chain; valid blocks are accepted.
// For every position of a chain (with spends, a vote, a coinbase spend, a veto, two reward payouts)
// and every single-rule mutant of the block at that position, in two histories (mutant extends the
// best chain; mutant sits on a side branch that then grows longer than the main chain), the real node
// is fed: valid prefix, mutant, a child of the mutant, then the valid blocks.
package main

import (
	"encoding/json"
	"fmt"
	"strings"

	"github.com/bytom/bytom/consensus"
	"github.com/bytom/bytom/crypto/ed25519/chainkd"
	"github.com/bytom/bytom/protocol/bc"
	"github.com/bytom/bytom/protocol/bc/types"

	"verif/lib/chainlab"
	"verif/lib/ev"
	"verif/lib/labnet"
	"verif/lib/par"
	"verif/lib/xplore"
)

const last = 7 // length of the valid chain: strictly longer than any mutant branch (position <= 4, plus two children)

var (
	net   *labnet.Net
	P     *chainlab.Prelude
	valid []*labnet.B // valid[0] = prelude tip, valid[i] = l_i
	vtx   map[string]*types.Tx
	muts  []mutant
)

func btm(amount uint64, prog []byte) *types.TxOutput {
	return types.NewOriginalTxOutput(*consensus.BTMAssetID, amount, prog, nil)
}

type mutant struct {
	name string
	// build returns the mutated block options for a block replacing valid[pos] (parent = valid[pos-1]); ok=false: not applicable
	build func(pos int, base labnet.BlockOpt) (labnet.BlockOpt, bool)
}

func validOpt(pos int) labnet.BlockOpt {
	switch pos {
	case 1:
		return labnet.BlockOpt{Txs: []*types.Tx{vtx["spendU0"]}}
	case 2:
		return labnet.BlockOpt{Txs: []*types.Tx{vtx["vote"]}}
	case 3:
		return labnet.BlockOpt{Txs: []*types.Tx{vtx["spendCb7"]}}
	case 4:
		return labnet.BlockOpt{Txs: []*types.Tx{vtx["veto"]}}
	}
	return labnet.BlockOpt{}
}

func setup() {
	net = labnet.Setup(2, 2, 4)
	net.SetLocalKey(labnet.OutsiderKey())
	var err error
	P, err = chainlab.NewPrelude(net, 16)
	if err != nil {
		if par.IsWorker() {
			ev.Fatal("prelude: %v", err)
		}
		run := ev.Start("C13", "model_checking")
		if strings.HasPrefix(err.Error(), "prelude block ") {
			// 16 valid blocks (empty, coinbase rewards, spends of matured rewards) in order on a fresh node
			run.Violation("valid-block-refused:prelude", err.Error(), map[string]interface{}{"what": err.Error()})
			run.Capped("nothing beyond the prelude was enumerated")
		} else {
			run.Capped(fmt.Sprintf("world: could not be set up: %v", err))
		}
		run.Finish()
	}
	vtx = map[string]*types.Tx{}
	vtx["spendU0"] = labnet.Pay([]labnet.Out{P.U[0]}, labnet.Prog(0x31))
	vtx["vote"] = labnet.Tx([]labnet.Out{P.U[1]}, []*types.TxOutput{types.NewVoteOutput(*consensus.BTMAssetID, 100000000, labnet.Prog(0x32), net.Pubs[1][:], nil), btm(chainlab.UAmount-100000000-labnet.Fee, labnet.Prog(0x33))})
	vtx["spendCb7"] = labnet.Pay([]labnet.Out{P.Reward[7]}, labnet.Prog(0x34))
	vtx["veto"] = labnet.Pay([]labnet.Out{{Tx: vtx["vote"], Idx: 0}}, labnet.Prog(0x35))
	valid = []*labnet.B{P.Tip}
	for pos := 1; pos <= last; pos++ {
		valid = append(valid, net.NewBlock(valid[pos-1], validOpt(pos)))
	}
	other := func(parent *labnet.B, slot int) *chainkd.XPrv {
		ts := parent.Block.Timestamp + uint64(slot)*consensus.ActiveNetParams.BlockTimeInterval
		sched := net.Proposer(parent, ts)
		for i, p := range net.Pubs[:4] {
			if p.String() != sched {
				k := net.Keys[i]
				return &k
			}
		}
		return nil
	}
	hdr := func(name string, f func(pos int, b *types.Block)) mutant {
		return mutant{name, func(pos int, o labnet.BlockOpt) (labnet.BlockOpt, bool) {
			o.Mutate = func(b *types.Block) { f(pos, b) }
			return o, true
		}}
	}
	addTx := func(name string, mk func(pos int) *types.Tx) mutant {
		return mutant{name, func(pos int, o labnet.BlockOpt) (labnet.BlockOpt, bool) {
			t := mk(pos)
			if t == nil {
				return o, false
			}
			o.Txs = append(append([]*types.Tx{}, o.Txs...), t)
			return o, true
		}}
	}
	cbOuts := func(name string, f func(pos int, outs []*types.TxOutput) []*types.TxOutput) mutant {
		return mutant{name, func(pos int, o labnet.BlockOpt) (labnet.BlockOpt, bool) {
			std := net.Coinbase(valid[pos-1], 0, nil, nil)
			var outs []*types.TxOutput
			for _, x := range std.Outputs {
				c := *x
				outs = append(outs, &c)
			}
			res := f(pos, outs)
			if res == nil {
				return o, false
			}
			o.CoinbaseOutputs = res
			return o, true
		}}
	}
	fabricated := labnet.Out{Tx: labnet.Tx([]labnet.Out{P.U[5]}, []*types.TxOutput{btm(1234567, labnet.Prog(0x51))}), Idx: 0}
	muts = []mutant{
		hdr("height+1", func(_ int, b *types.Block) { b.Height++ }),
		hdr("height-1", func(_ int, b *types.Block) { b.Height-- }),
		hdr("version-2", func(_ int, b *types.Block) { b.Version = 2 }),
		hdr("wrong-parent", func(pos int, b *types.Block) {
			if pos >= 2 {
				b.PreviousBlockHash = valid[pos-2].Hash()
			} else {
				b.PreviousBlockHash = P.Blocks[len(P.Blocks)-2].Hash()
			}
		}),
		hdr("timestamp-before-interval", func(_ int, b *types.Block) { b.Timestamp -= 1 }),
		hdr("timestamp-equal-parent", func(pos int, b *types.Block) { b.Timestamp = valid[pos-1].Block.Timestamp }),
		{"timestamp-in-neighbour-slot-signed-by-slot-1-proposer", func(pos int, o labnet.BlockOpt) (labnet.BlockOpt, bool) {
			o.Slot = 2
			iv := consensus.ActiveNetParams.BlockTimeInterval
			pub := net.Proposer(valid[pos-1], valid[pos-1].Block.Timestamp+iv)
			if pub == net.Proposer(valid[pos-1], valid[pos-1].Block.Timestamp+2*iv) {
				return o, false // a one-validator epoch: the neighbour slot belongs to the same proposer
			}
			k, _ := net.KeyFor(pub)
			o.Signer = &k
			return o, true
		}},
		{"signed-by-another-validator", func(pos int, o labnet.BlockOpt) (labnet.BlockOpt, bool) {
			o.Signer = other(valid[pos-1], 1)
			return o, true
		}},
		{"signed-by-non-validator", func(pos int, o labnet.BlockOpt) (labnet.BlockOpt, bool) {
			k := labnet.OutsiderKey()
			o.Signer = &k
			return o, true
		}},
		{"garbage-signature", func(pos int, o labnet.BlockOpt) (labnet.BlockOpt, bool) {
			o.PostSign = func(b *types.Block) { w := append([]byte{}, b.BlockWitness...); w[3] ^= 0x10; b.BlockHeader.Set(w) }
			return o, true
		}},
		{"empty-signature", func(pos int, o labnet.BlockOpt) (labnet.BlockOpt, bool) {
			o.PostSign = func(b *types.Block) { b.BlockHeader.Set(nil) }
			return o, true
		}},
		{"signature-of-another-header", func(pos int, o labnet.BlockOpt) (labnet.BlockOpt, bool) {
			o.PostSign = func(b *types.Block) { b.BlockHeader.Set(valid[pos].Block.BlockWitness) }
			o.Tag = 9 // different header than valid[pos], carrying valid[pos]'s signature
			return o, true
		}},
		hdr("merkle-root-flipped", func(_ int, b *types.Block) {
			r := b.TransactionsMerkleRoot.Bytes()
			r[0] ^= 1
			var a [32]byte
			copy(a[:], r)
			b.TransactionsMerkleRoot = bc.NewHash(a)
		}),
		{"tx-added-after-root", func(pos int, o labnet.BlockOpt) (labnet.BlockOpt, bool) {
			extra := labnet.Pay([]labnet.Out{P.U[4]}, labnet.Prog(0x52))
			o.Mutate = func(b *types.Block) { b.Transactions = append(b.Transactions, extra) }
			return o, true
		}},
		{"tx-removed-after-root", func(pos int, o labnet.BlockOpt) (labnet.BlockOpt, bool) {
			if len(o.Txs) == 0 {
				return o, false
			}
			o.Mutate = func(b *types.Block) { b.Transactions = b.Transactions[:1] }
			return o, true
		}},
		{"no-transactions", func(pos int, o labnet.BlockOpt) (labnet.BlockOpt, bool) {
			o.Mutate = func(b *types.Block) { b.Transactions = nil }
			return o, true
		}},
		{"coinbase-not-first", func(pos int, o labnet.BlockOpt) (labnet.BlockOpt, bool) {
			if len(o.Txs) == 0 {
				return o, false
			}
			o.Mutate = func(b *types.Block) {
				b.Transactions[0], b.Transactions[1] = b.Transactions[1], b.Transactions[0]
				var ts []*bc.Tx
				for _, t := range b.Transactions {
					ts = append(ts, t.Tx)
				}
				b.TransactionsMerkleRoot, _ = types.TxMerkleRoot(ts)
			}
			return o, true
		}},
		addTx("tx-unbalanced-creates-money", func(int) *types.Tx {
			return labnet.Tx([]labnet.Out{P.U[4]}, []*types.TxOutput{btm(chainlab.UAmount+1, labnet.Prog(0x53))})
		}),
		addTx("tx-fee-below-storage-gas", func(int) *types.Tx {
			return labnet.Tx([]labnet.Out{P.U[4]}, []*types.TxOutput{btm(chainlab.UAmount-10, labnet.Prog(0x53))})
		}),
		addTx("tx-program-returns-false", func(int) *types.Tx {
			t := labnet.Pay([]labnet.Out{P.U[4]}, labnet.Prog(0x54))
			t.Inputs[0].TypedInput.(*types.SpendInput).ControlProgram = []byte{0x00} // OP_FALSE: also changes the spent output id
			return labnet.SizedTx(t.TxData)
		}),
		addTx("tx-wrong-version", func(int) *types.Tx {
			t := labnet.Pay([]labnet.Out{P.U[4]}, labnet.Prog(0x55))
			d := t.TxData
			d.Version = 2
			return labnet.SizedTx(d)
		}),
		addTx("tx-expired-time-range", func(pos int) *types.Tx {
			t := labnet.Pay([]labnet.Out{P.U[4]}, labnet.Prog(0x56))
			d := t.TxData
			d.TimeRange = valid[pos].Height - 1
			return labnet.SizedTx(d)
		}),
		addTx("tx-vote-below-minimum", func(int) *types.Tx {
			return labnet.Tx([]labnet.Out{P.U[4]}, []*types.TxOutput{types.NewVoteOutput(*consensus.BTMAssetID, consensus.MinVoteOutputAmount-1, labnet.Prog(0x57), net.Pubs[2][:], nil), btm(chainlab.UAmount-consensus.MinVoteOutputAmount+1-labnet.Fee, labnet.Prog(0x58))})
		}),
		addTx("second-coinbase-tx", func(pos int) *types.Tx {
			return labnet.SizedTx(types.TxData{Version: 1, Inputs: []*types.TxInput{types.NewCoinbaseInput([]byte{0x00, 0x77})}, Outputs: []*types.TxOutput{btm(0, labnet.OpTrue)}})
		}),
		{"first-tx-has-two-coinbase-inputs", func(pos int, o labnet.BlockOpt) (labnet.BlockOpt, bool) {
			o.Mutate = func(b *types.Block) {
				d := b.Transactions[0].TxData
				d.Inputs = append(append([]*types.TxInput{}, d.Inputs...), types.NewCoinbaseInput([]byte{0x00, 0x78}))
				b.Transactions[0] = labnet.SizedTx(d)
				var ts []*bc.Tx
				for _, t := range b.Transactions {
					ts = append(ts, t.Tx)
				}
				b.TransactionsMerkleRoot, _ = types.TxMerkleRoot(ts)
			}
			return o, true
		}},
		cbOuts("coinbase-extra-output", func(pos int, outs []*types.TxOutput) []*types.TxOutput {
			return append(outs, btm(1, labnet.Prog(0x59)))
		}),
		cbOuts("coinbase-amount+1", func(pos int, outs []*types.TxOutput) []*types.TxOutput {
			outs[0].Amount++
			return outs
		}),
		cbOuts("coinbase-amount-1", func(pos int, outs []*types.TxOutput) []*types.TxOutput {
			if outs[0].Amount == 0 {
				return nil
			}
			outs[0].Amount--
			return outs
		}),
		cbOuts("coinbase-reward-to-another-program", func(pos int, outs []*types.TxOutput) []*types.TxOutput {
			if outs[0].Amount == 0 {
				return nil
			}
			return []*types.TxOutput{btm(0, labnet.OpTrue), btm(outs[0].Amount, labnet.Prog(0x5a))}
		}),
		cbOuts("coinbase-reward-missing", func(pos int, outs []*types.TxOutput) []*types.TxOutput {
			if outs[0].Amount == 0 {
				return nil
			}
			outs[0].Amount = 0
			return outs
		}),
		cbOuts("coinbase-reward-in-non-epoch-start-block", func(pos int, outs []*types.TxOutput) []*types.TxOutput {
			if outs[0].Amount != 0 {
				return nil
			}
			outs[0].Amount = 570776254
			return outs
		}),
		cbOuts("coinbase-non-btm-asset", func(pos int, outs []*types.TxOutput) []*types.TxOutput {
			a := bc.NewAssetID([32]byte{7})
			outs[0].AssetId = &a
			return outs
		}),
		cbOuts("coinbase-vote-output", func(pos int, outs []*types.TxOutput) []*types.TxOutput {
			return []*types.TxOutput{types.NewVoteOutput(*consensus.BTMAssetID, outs[0].Amount, labnet.OpTrue, net.Pubs[1][:], nil)}
		}),
		// spend rules (checked when the block is attached)
		addTx("spend-missing-output", func(int) *types.Tx { return labnet.Pay([]labnet.Out{fabricated}, labnet.Prog(0x5b)) }),
		addTx("spend-output-spent-in-earlier-block", func(pos int) *types.Tx {
			if pos < 2 {
				return nil
			}
			return labnet.Pay([]labnet.Out{P.U[0]}, labnet.Prog(0x5c))
		}),
		{"double-spend-inside-block", func(pos int, o labnet.BlockOpt) (labnet.BlockOpt, bool) {
			o.Txs = append(append([]*types.Tx{}, o.Txs...), labnet.Pay([]labnet.Out{P.U[4]}, labnet.Prog(0x5d)), labnet.Pay([]labnet.Out{P.U[4]}, labnet.Prog(0x5e)))
			return o, true
		}},
		addTx("spend-immature-coinbase", func(pos int) *types.Tx {
			// reward of block 9 matures at height 19, of block 11 at 21: one block too early at positions 2 and 4
			if pos <= 2 {
				return labnet.Pay([]labnet.Out{P.Reward[9]}, labnet.Prog(0x5f))
			}
			return labnet.Pay([]labnet.Out{P.Reward[11]}, labnet.Prog(0x5f))
		}),
		addTx("veto-locked-vote", func(pos int) *types.Tx {
			if pos != 3 {
				return nil // vote created at height 18, lock 2: vetoable from height 20
			}
			return labnet.Pay([]labnet.Out{{Tx: vtx["vote"], Idx: 0}}, labnet.Prog(0x60))
		}),
		addTx("spend-output-created-later-in-same-block", nil),
	}
	// the last one needs two txs in reverse order
	muts[len(muts)-1] = mutant{"spend-before-creation-in-block-order", func(pos int, o labnet.BlockOpt) (labnet.BlockOpt, bool) {
		t1 := labnet.Pay([]labnet.Out{P.U[4]}, labnet.Prog(0x61))
		t2 := labnet.Pay([]labnet.Out{{Tx: t1, Idx: 0}}, labnet.Prog(0x62))
		o.Txs = append(append([]*types.Tx{}, o.Txs...), t2, t1)
		return o, true
	}}
}

func ledgerOf(in *chainlab.Inst) string { return strings.Join(in.LedgerDump(), ";") }

func deliver(nd *labnet.Node, b *types.Block) (bool, error) {
	cp := *b
	cp.SupLinks = nil
	return nd.Chain.ProcessBlock(&cp)
}

// runCase: h = [mode, pos, mutant]; mode 0: mutant extends the best chain; mode 1: mutant on a side branch
// (valid chain already at pos+0, side branch = mutant + 2 children, longer than the main chain at that time).
// pairVariants: an invalid block that is only invalid TOGETHER with its parent (both attached by one reorganisation).
var pairVariants = []string{"child-respends-output-spent-by-parent", "child-respends-output-created-and-spent-in-parent", "child-spends-output-of-other-branch", "child-spends-output-created-and-spent-in-two-detached-blocks", "side-branch-spends-coinbase-immature-after-its-mature-spend-was-detached", "side-branch-vetoes-locked-vote-after-its-legal-veto-was-detached"}

// runPair: mode 2 = the pair sits on a side branch that outgrows the main chain (fork switch);
// mode 3 = the child is delivered first (orphan), then the parent extends the best chain (both connect in one call).
func runPair(h []int) (out xplore.Out) {
	mode, pos, vi := h[0], h[1], h[2]
	name := pairVariants[vi]
	viol := func(key, what string) {
		out.Viols = append(out.Viols, xplore.Viol{Key: key, What: fmt.Sprintf("pair %s at position %d (height %d), mode %d: %s", name, pos, valid[pos].Height, mode, what)})
	}
	var s1txs, s2txs []*types.Tx
	switch vi {
	case 0:
		s1txs = []*types.Tx{labnet.Pay([]labnet.Out{P.U[4]}, labnet.Prog(0x71))}
		s2txs = []*types.Tx{labnet.Pay([]labnet.Out{P.U[4]}, labnet.Prog(0x72))}
	case 1:
		t1 := labnet.Pay([]labnet.Out{P.U[4]}, labnet.Prog(0x73))
		t2 := labnet.Pay([]labnet.Out{{Tx: t1, Idx: 0}}, labnet.Prog(0x74))
		s1txs = []*types.Tx{t1, t2}
		s2txs = []*types.Tx{labnet.Pay([]labnet.Out{{Tx: t1, Idx: 0}}, labnet.Prog(0x75))}
	case 2:
		// the output of the valid chain's own transaction at this position does not exist on the side branch
		vo := validOpt(pos)
		if len(vo.Txs) == 0 || mode == 3 {
			out.Digest, out.Outcome = "n/a", "not-applicable"
			return
		}
		s1txs = nil
		s2txs = []*types.Tx{labnet.Pay([]labnet.Out{{Tx: vo.Txs[0], Idx: len(vo.Txs[0].Outputs) - 1}}, labnet.Prog(0x76))}
	}
	// variant 3: the best chain first grows by m1 (creates X) and m2 (spends X); the side branch forks below both
	// and its second block carries m2's transaction without m1's: the reorganisation detaches m2 AND m1 before it
	// meets the invalid block, whatever the detach leaves behind of X must not make that spend valid
	var detached []*labnet.B
	if vi == 3 {
		if mode == 3 {
			out.Digest, out.Outcome = "n/a", "not-applicable"
			return
		}
		t1 := labnet.Pay([]labnet.Out{P.U[5]}, labnet.Prog(0x77))
		t2 := labnet.Pay([]labnet.Out{{Tx: t1, Idx: 0}}, labnet.Prog(0x78))
		m1 := net.NewBlock(valid[pos-1], labnet.BlockOpt{Tag: 12, Txs: []*types.Tx{t1}})
		m2 := net.NewBlock(m1, labnet.BlockOpt{Tag: 12, Txs: []*types.Tx{t2}})
		detached = []*labnet.B{m1, m2}
		s2txs = []*types.Tx{t2}
	}
	// variants 4/5: the main chain spends a coinbase reward / vetoes a vote legally; a side branch that forks below
	// does the same at a height where the output is still immature / locked. The reorganisation detaches the legal
	// spender first: whatever the detach restores must keep the maturity constraint
	if vi == 4 || vi == 5 {
		return runMaturity(h)
	}
	s1 := net.NewBlock(valid[pos-1], labnet.BlockOpt{Tag: 11, Txs: s1txs})
	s2 := net.NewBlock(s1, labnet.BlockOpt{Tag: 11, Txs: s2txs})
	s3 := net.NewBlock(s2, labnet.BlockOpt{Tag: 11})
	bad := map[bc.Hash]string{s2.Hash(): "child", s3.Hash(): "grandchild"}
	w := chainlab.NewWorld(net, P.Tip, P.Base)
	in, err := w.NewInst()
	if err != nil {
		return xplore.Out{Viols: []xplore.Viol{{Key: "infra-newnode", What: err.Error()}}}
	}
	nd := in.Node
	check := func(when string) {
		out.Checks++
		best := nd.Chain.BestBlockHeader()
		if n, isBad := bad[best.Hash()]; isBad {
			viol("invalid-block-became-best:pair-"+name, fmt.Sprintf("%s: best block is the %s", when, n))
		}
		for hsh, n := range bad {
			if nd.Chain.InMainChain(hsh) {
				viol("invalid-block-in-main-chain:pair-"+name, fmt.Sprintf("%s: %s reported in main chain", when, n))
			}
		}
	}
	validUpTo := pos - 1
	if mode == 2 && vi != 3 {
		validUpTo = pos
	}
	for i := 1; i <= validUpTo; i++ {
		if orphan, err := deliver(nd, valid[i].Block); err != nil || orphan {
			viol("valid-block-refused", fmt.Sprintf("l%d: orphan=%v err=%v", i, orphan, err))
			return
		}
	}
	for i, m := range detached {
		if orphan, err := deliver(nd, m.Block); err != nil || orphan {
			viol("valid-block-refused", fmt.Sprintf("m%d: orphan=%v err=%v", i+1, orphan, err))
			return
		}
	}
	if vi == 3 {
		s4 := net.NewBlock(s3, labnet.BlockOpt{Tag: 11})
		bad[s4.Hash()] = "great-grandchild"
		deliver(nd, s1.Block)
		check("after parent")
		deliver(nd, s2.Block)
		check("after child")
		deliver(nd, s3.Block)
		check("after grandchild (side branch longer than the main chain)")
		deliver(nd, s4.Block)
		check("after great-grandchild")
	} else if mode == 2 {
		deliver(nd, s1.Block)
		check("after parent")
		deliver(nd, s2.Block)
		check("after child")
		deliver(nd, s3.Block)
		check("after grandchild")
	} else {
		deliver(nd, s3.Block)
		deliver(nd, s2.Block)
		check("after orphans")
		deliver(nd, s1.Block)
		check("after parent connected the orphans")
	}
	for i := validUpTo + 1; i <= last; i++ {
		deliver(nd, valid[i].Block)
		check(fmt.Sprintf("after l%d", i))
	}
	// the ledger must be that of the best chain replayed alone
	best := nd.Chain.BestBlockHeader()
	out.Checks++
	if best.Hash() != valid[last].Hash() {
		viol("best-chain-differs-from-run-without-mutant:pair", fmt.Sprintf("best height %d, expected the valid tip at height %d", best.Height, valid[last].Height))
	}
	out.Steps = 9
	out.Digest = fmt.Sprintf("%v", h)
	out.Outcome = "pair-" + name
	in.DB.Wipe()
	return
}

// linkVariants: header links (not covered by the block hash) that anybody can attach to a VALID block.
var linkVariants = []string{"link-from-unknown-source", "link-with-wrong-source-height", "link-with-garbage-signature", "link-in-slot-beyond-the-validator-set"}

// runLink: mode 8 = the valid block at pos arrives first carrying such a link, then as it is; mode 9 = the same with a
// restart in between. Whatever the node does with the first copy, the valid chain must be taken completely.
func runLink(h []int) (out xplore.Out) {
	mode, pos, vi := h[0], h[1], h[2]
	name := linkVariants[vi]
	viol := func(key, what string) {
		out.Viols = append(out.Viols, xplore.Viol{Key: key, What: fmt.Sprintf("%s on the valid block at position %d (height %d), mode %d: %s", name, pos, valid[pos].Height, mode, what)})
	}
	w := chainlab.NewWorld(net, P.Tip, P.Base)
	in, err := w.NewInst()
	if err != nil {
		return xplore.Out{Viols: []xplore.Viol{{Key: "infra-newnode", What: err.Error()}}}
	}
	cp := *valid[pos].Block
	cp.SupLinks = nil
	gen := net.Gen.Hash()
	sig := labnet.VoteSig(net.Keys[0], gen, valid[pos].Hash())
	switch vi {
	case 0:
		cp.SupLinks.AddSupLink(0, bc.NewHash([32]byte{0xde, 0xad}), sig, 0)
	case 1:
		cp.SupLinks.AddSupLink(7, gen, sig, 0)
	case 2:
		cp.SupLinks.AddSupLink(0, gen, make([]byte, 64), 0)
	case 3:
		cp.SupLinks.AddSupLink(0, gen, sig, 9)
	}
	for i := 1; i < pos; i++ {
		if orphan, err := deliver(in.Node, valid[i].Block); err != nil || orphan {
			viol("valid-block-refused", fmt.Sprintf("l%d before: orphan=%v err=%v", i, orphan, err))
			return
		}
	}
	_, ferr := in.Node.Chain.ProcessBlock(&cp)
	if mode == 9 {
		nd, err := labnet.NewNode(in.DB)
		if err != nil {
			viol("restart-failed", err.Error())
			return
		}
		in.Node = nd
	}
	for i := pos; i <= last; i++ {
		orphan, err := deliver(in.Node, valid[i].Block)
		out.Checks++
		if orphan || err != nil {
			viol("valid-block-refused-after-copy-with-bad-header-link:"+name, fmt.Sprintf("l%d: orphan=%v err=%v (the first copy was answered with err=%v)", i, orphan, err, ferr))
		}
	}
	best := in.Node.Chain.BestBlockHeader()
	out.Checks++
	if best.Hash() != valid[last].Hash() {
		viol("best-chain-differs-from-run-without-bad-link:"+name, fmt.Sprintf("best height %d, expected the valid tip at height %d", best.Height, valid[last].Height))
	}
	out.Steps = last + 1
	out.Digest = fmt.Sprintf("%v", h)
	if ferr != nil {
		out.Outcome = "copy-with-bad-link-refused"
	} else {
		out.Outcome = "copy-with-bad-link-taken"
	}
	in.DB.Wipe()
	return
}

func runMaturity(h []int) (out xplore.Out) {
	mode, pos, vi := h[0], h[1], h[2]
	name := pairVariants[vi]
	if mode != 2 || pos != 1 {
		out.Digest, out.Outcome = "n/a", "not-applicable"
		return
	}
	viol := func(key, what string) {
		out.Viols = append(out.Viols, xplore.Viol{Key: key, What: fmt.Sprintf("%s: %s", name, what)})
	}
	var mainExtra []*labnet.B // legal spender on top of the valid prefix
	var fork, upTo int       // side branch forks at valid[fork]; valid[1..upTo] are delivered first
	var early *types.Tx
	if vi == 4 {
		// reward of block 9 matures at height 19 (position 3)
		fork, upTo = 1, 2
		mainExtra = []*labnet.B{net.NewBlock(valid[2], labnet.BlockOpt{Tag: 12, Txs: []*types.Tx{labnet.Pay([]labnet.Out{P.Reward[9]}, labnet.Prog(0x79))}})}
		early = labnet.Pay([]labnet.Out{P.Reward[9]}, labnet.Prog(0x7a))
	} else {
		// vote created at height 18 (position 2), vetoable from height 20 (position 4, where the valid chain vetoes it)
		fork, upTo = 2, 4
		early = labnet.Pay([]labnet.Out{{Tx: vtx["vote"], Idx: 0}}, labnet.Prog(0x7b))
	}
	s1 := net.NewBlock(valid[fork], labnet.BlockOpt{Tag: 11, Txs: []*types.Tx{early}})
	side := []*labnet.B{s1}
	for i := 0; i < 3; i++ {
		side = append(side, net.NewBlock(side[len(side)-1], labnet.BlockOpt{Tag: 11}))
	}
	bad := map[bc.Hash]string{}
	for i, b := range side {
		bad[b.Hash()] = fmt.Sprintf("side-%d", i+1)
	}
	w := chainlab.NewWorld(net, P.Tip, P.Base)
	in, err := w.NewInst()
	if err != nil {
		return xplore.Out{Viols: []xplore.Viol{{Key: "infra-newnode", What: err.Error()}}}
	}
	nd := in.Node
	check := func(when string) {
		out.Checks++
		best := nd.Chain.BestBlockHeader()
		if n, isBad := bad[best.Hash()]; isBad {
			viol("invalid-block-became-best:pair-"+name, fmt.Sprintf("%s: best block is %s", when, n))
		}
		for hsh, n := range bad {
			if nd.Chain.InMainChain(hsh) {
				viol("invalid-block-in-main-chain:pair-"+name, fmt.Sprintf("%s: %s reported in main chain", when, n))
			}
		}
	}
	for i := 1; i <= upTo; i++ {
		if orphan, err := deliver(nd, valid[i].Block); err != nil || orphan {
			viol("valid-block-refused", fmt.Sprintf("l%d: orphan=%v err=%v", i, orphan, err))
			return
		}
	}
	for i, m := range mainExtra {
		if orphan, err := deliver(nd, m.Block); err != nil || orphan {
			viol("valid-block-refused", fmt.Sprintf("legal spender %d: orphan=%v err=%v", i+1, orphan, err))
			return
		}
	}
	for i, b := range side {
		deliver(nd, b.Block)
		check(fmt.Sprintf("after side block %d", i+1))
	}
	for i := upTo + 1; i <= last; i++ {
		deliver(nd, valid[i].Block)
		check(fmt.Sprintf("after l%d", i))
	}
	best := nd.Chain.BestBlockHeader()
	out.Checks++
	if best.Hash() != valid[last].Hash() {
		viol("best-chain-differs-from-run-without-mutant:pair", fmt.Sprintf("best height %d, expected the valid tip at height %d", best.Height, valid[last].Height))
	}
	out.Steps = upTo + len(mainExtra) + len(side) + last - upTo
	out.Digest = fmt.Sprintf("%v", h)
	out.Outcome = "pair-" + name
	in.DB.Wipe()
	return
}

func runCase(h []int, _ json.RawMessage) (out xplore.Out) {
	if h[0] == 2 || h[0] == 3 {
		return runPair(h)
	}
	if h[0] == 8 || h[0] == 9 {
		return runLink(h)
	}
	mode, pos, mi := h[0], h[1], h[2]
	m := muts[mi]
	viol := func(key, what string) {
		out.Viols = append(out.Viols, xplore.Viol{Key: key, What: fmt.Sprintf("mutant %s at position %d (height %d), mode %d: %s", m.name, pos, valid[pos].Height, mode, what)})
	}
	opt, ok := m.build(pos, validOpt(pos))
	if !ok {
		out.Digest = "n/a"
		out.Outcome = "not-applicable"
		return
	}
	if opt.Tag == 0 {
		opt.Tag = 7
	}
	var mb *labnet.B
	func() {
		defer func() {
			if r := recover(); r != nil {
				mb = nil
			}
		}()
		mb = net.NewBlock(valid[pos-1], opt)
	}()
	if mb == nil {
		out.Digest = "n/a"
		out.Outcome = "not-buildable"
		return
	}
	// children of the mutant: look valid by themselves; enough of them to outgrow the valid chain (mode 6)
	kids := []*labnet.B{}
	for prev, i := mb, 0; i < last-pos+2 || i < 2; i++ {
		prev = net.NewBlock(prev, labnet.BlockOpt{Tag: 8})
		kids = append(kids, prev)
	}
	bad := map[bc.Hash]string{mb.Hash(): "mutant"}
	for i, k := range kids {
		bad[k.Hash()] = fmt.Sprintf("descendant-%d-of-mutant", i+1)
	}
	w := chainlab.NewWorld(net, P.Tip, P.Base)
	in, err := w.NewInst()
	if err != nil {
		return xplore.Out{Viols: []xplore.Viol{{Key: "infra-newnode", What: err.Error()}}}
	}
	check := func(when string) {
		out.Checks++
		nd := in.Node
		best := nd.Chain.BestBlockHeader()
		if n, isBad := bad[best.Hash()]; isBad {
			viol("invalid-block-became-best:"+m.name, fmt.Sprintf("%s: best block is the %s", when, n))
		}
		for hsh, n := range bad {
			if nd.Chain.InMainChain(hsh) {
				viol("invalid-block-in-main-chain:"+m.name, fmt.Sprintf("%s: %s reported in main chain", when, n))
			}
		}
	}
	// schedule: 'v' i = valid block i, 'm' = mutant, 'k' i = descendant i of the mutant, 'r' = restart
	type step struct {
		kind byte
		i    int
	}
	var sched []step
	vs := func(from, to int) {
		for i := from; i <= to; i++ {
			sched = append(sched, step{'v', i})
		}
	}
	switch mode {
	case 0: // mutant extends the best chain
		vs(1, pos-1)
		sched = append(sched, step{'m', 0}, step{'k', 0}, step{'k', 1})
		vs(pos, last)
	case 1: // mutant on a side branch that outgrows the main chain
		vs(1, pos)
		sched = append(sched, step{'m', 0}, step{'k', 0}, step{'k', 1})
		vs(pos+1, last)
	case 4: // as 0, the node restarts once the invalid branch is known, and again at the end
		vs(1, pos-1)
		sched = append(sched, step{'m', 0}, step{'k', 0}, step{'k', 1}, step{'r', 0})
		vs(pos, last)
		sched = append(sched, step{'r', 0})
	case 5: // the mutant's descendants arrive first (orphans), then the mutant
		vs(1, pos-1)
		sched = append(sched, step{'k', 0}, step{'k', 1}, step{'m', 0})
		vs(pos, last)
	case 6: // the whole valid chain first, then an invalid branch longer than it, then a restart
		vs(1, last)
		sched = append(sched, step{'m', 0})
		for i := range kids {
			sched = append(sched, step{'k', i})
		}
		sched = append(sched, step{'r', 0})
	case 7: // as 1 with a restart once the invalid branch is known
		vs(1, pos)
		sched = append(sched, step{'m', 0}, step{'k', 0}, step{'k', 1}, step{'r', 0})
		vs(pos+1, last)
		sched = append(sched, step{'r', 0})
	}
	var merr error
	seenMutant := false
	for _, st := range sched {
		switch st.kind {
		case 'v':
			orphan, err := deliver(in.Node, valid[st.i].Block)
			switch {
			case orphan:
				viol("valid-block-refused", fmt.Sprintf("l%d became orphan", st.i))
			case err != nil && !seenMutant:
				viol("valid-block-refused", fmt.Sprintf("l%d before the mutant: err=%v", st.i, err))
				return
			case err != nil:
				viol("valid-block-reported-error-while-invalid-branch-known:"+classOf(m.name), fmt.Sprintf("ProcessBlock(l%d) returned %v", st.i, err))
			}
			check(fmt.Sprintf("after l%d", st.i))
		case 'm':
			_, merr = deliver(in.Node, mb.Block)
			seenMutant = true
			check("after mutant")
		case 'k':
			deliver(in.Node, kids[st.i].Block)
			seenMutant = true // a descendant waiting in the orphan pool counts as "invalid branch known"
			check(fmt.Sprintf("after descendant %d of mutant", st.i+1))
		case 'r':
			nd, err := labnet.NewNode(in.DB)
			if err != nil {
				viol("restart-failed", err.Error())
				return
			}
			in.Node = nd
			check("after restart")
		}
	}
	nd := in.Node
	best := nd.Chain.BestBlockHeader()
	out.Checks++
	if best.Hash() != valid[last].Hash() {
		viol("best-chain-differs-from-run-without-mutant:"+classOf(m.name), fmt.Sprintf("best height %d, expected the valid tip at height %d", best.Height, valid[last].Height))
	} else {
		ref, err := w.NewInst()
		if err == nil {
			for i := 1; i <= last; i++ {
				deliver(ref.Node, valid[i].Block)
			}
			if ledgerOf(in) != ledgerOf(ref) {
				viol("ledger-differs-from-run-without-mutant:"+m.name, "utxo/contract ranges differ")
			}
			ref.DB.Wipe()
		}
	}
	out.Steps = len(sched)
	out.Digest = fmt.Sprintf("%v", h)
	if merr != nil {
		out.Outcome = "mutant-refused-on-delivery"
	} else {
		out.Outcome = "mutant-stored-not-connected"
	}
	in.DB.Wipe()
	return
}

func classOf(name string) string {
	switch {
	case strings.HasPrefix(name, "spend-"), strings.HasPrefix(name, "double-spend"), strings.HasPrefix(name, "veto-"):
		return "spend-rule-mutant"
	}
	return "validation-rule-mutant"
}

func main() {
	setup()
	spec := &xplore.Spec{Name: "c13", Run: runCase, Recycle: 150}
	if par.IsWorker() {
		xplore.Worker(spec)
	}
	run := ev.Start("C13", "model_checking")
	var items [][]int
	positions := []int{1, 2, 3, 4}
	if run.Thorough() {
		positions = []int{1, 2, 3, 4}
	}
	for mode := 0; mode <= 1; mode++ {
		for _, pos := range positions {
			for mi := range muts {
				items = append(items, []int{mode, pos, mi})
			}
		}
	}
	if run.Thorough() {
		for _, mode := range []int{4, 5, 6, 7} {
			for _, pos := range positions {
				for mi := range muts {
					items = append(items, []int{mode, pos, mi})
				}
			}
		}
	}
	for mode := 8; mode <= 9; mode++ {
		for _, pos := range positions {
			for vi := range linkVariants {
				items = append(items, []int{mode, pos, vi})
			}
		}
	}
	for mode := 2; mode <= 3; mode++ {
		for _, pos := range positions {
			for vi := range pairVariants {
				items = append(items, []int{mode, pos, vi})
			}
		}
	}
	spec.Describe = func(h []int) interface{} {
		if h[0] == 8 || h[0] == 9 {
			return map[string]interface{}{"mode": map[int]string{8: "valid block first delivered carrying a bad header link, then as it is", 9: "the same with a restart in between"}[h[0]], "position": h[1], "link": linkVariants[h[2]]}
		}
		if h[0] == 2 || h[0] == 3 {
			return map[string]interface{}{"mode": []string{"", "", "pair on a side branch that outgrows the main chain (fork switch)", "child delivered before its parent (both connect in one call)"}[h[0]], "position": h[1], "pair": pairVariants[h[2]]}
		}
		return map[string]interface{}{"mode": []string{"mutant extends best chain", "mutant on side branch that outgrows the main chain", "", "", "mutant extends best chain, restart once the invalid branch is known and at the end", "descendants of the mutant arrive first as orphans", "whole valid chain first, then an invalid branch longer than it, then a restart", "mutant on side branch, restart once the invalid branch is known and at the end"}[h[0]], "position": h[1], "mutant": muts[h[2]].name}
	}
	st := xplore.Flat(run, spec, items)
	run.Set("states", st.States)
	run.Set("transitions", st.Transitions)
	run.Set("traces_validated_against_impl", st.Checks)
	run.Set("mutants", len(muts))
	run.Set("histories", len(items))
	run.Set("rule", "histories = (mode, position, single-rule mutant); each: valid prefix, mutant, child and grandchild of the mutant, remaining valid blocks, on a fresh real node started from the prelude; after every delivery no invalid block is best or in the main chain; at the end best = the valid tip and the ledger equals the run without mutant; every valid block must be taken without error")
	run.Assume("blocks of a 7-block chain over two epoch boundaries (E=2) with spend, vote, coinbase spend, veto; block gas limit and large transactions are not exercised")
	run.Finish()
}
