// C10: ledger state depends only on the main chain, not on reorganisation history.
// BFS over interleavings of three branches carrying spends, coinbase spends, a vote and its veto,
// contract registrations by two different transactions, conflicting spends and spend+recreate in
// one block, plus votes that force a reorganisation to a shorter chain. In every state the store's
// utxo and contract ranges are compared with a fresh node fed only the current main chain, and probe
// blocks (early veto, immature coinbase, double spend, contract call) must get the same verdict on both.
package main

import (
	"encoding/json"
	"fmt"
	"os"
	"sort"
	"strings"

	"github.com/golang/protobuf/proto"

	"github.com/bytom/bytom/consensus"
	"github.com/bytom/bytom/crypto/sha3pool"
	"github.com/bytom/bytom/database"
	"github.com/bytom/bytom/database/storage"
	"github.com/bytom/bytom/protocol/bc/types"
	"github.com/bytom/bytom/protocol/vm/vmutil"

	"verif/lib/chainlab"
	"verif/lib/crashkv"
	"verif/lib/ev"
	"verif/lib/labnet"
	"verif/lib/par"
	"verif/lib/xplore"
)

var (
	W      *chainlab.World
	P      *chainlab.Prelude
	probes []probe
)

type probe struct {
	name string
	tx   *types.Tx
}

func btm(amount uint64, prog []byte) *types.TxOutput {
	return types.NewOriginalTxOutput(*consensus.BTMAssetID, amount, prog, nil)
}

func world(thorough bool) {
	net := labnet.Setup(2, 2, 4)
	net.SetLocalKey(labnet.OutsiderKey())
	// the vote lock grows at height 20 (as it does on main net at 432000): a vote output whose creation
	// height is forgotten becomes spendable too early
	consensus.ActiveNetParams.VotePendingBlockNums = []consensus.VotePendingBlockNum{{BeginBlock: 0, EndBlock: 20, Num: 2}, {BeginBlock: 20, EndBlock: ^uint64(0), Num: 6}}
	var err error
	P, err = chainlab.NewPrelude(net, 16)
	if err != nil {
		if par.IsWorker() {
			ev.Fatal("prelude: %v", err)
		}
		// a linear chain of valid blocks refused by a fresh node says nothing about dependence on forks seen before (valid blocks are C13's subject)
		run := ev.Start("C10", "model_checking")
		run.Capped(fmt.Sprintf("world: could not be set up: %v", err))
		run.Finish()
	}
	w := chainlab.NewWorld(net, P.Tip, P.Base)
	contract := []byte{0x51}
	reg, _ := vmutil.RegisterProgram(contract)
	var h [32]byte
	sha3pool.Sum256(h[:], contract)
	call, _ := vmutil.CallContractProgram(h[:])

	tv := labnet.Tx([]labnet.Out{P.U[0]}, []*types.TxOutput{types.NewVoteOutput(*consensus.BTMAssetID, 100000000, labnet.Prog(0x30), net.Pubs[1][:], nil), btm(chainlab.UAmount-100000000-labnet.Fee, labnet.Prog(0x31))})
	tk1 := labnet.Tx([]labnet.Out{P.U[1]}, []*types.TxOutput{btm(10000000, reg), btm(100000000, call), btm(chainlab.UAmount-110000000-labnet.Fee, labnet.Prog(0x32))})
	a1 := w.AddBlock(0, "a1", labnet.BlockOpt{Txs: []*types.Tx{tv, tk1}})
	tcb := labnet.Pay([]labnet.Out{P.Reward[7]}, labnet.Prog(0x33))
	a2 := w.AddBlock(a1, "a2", labnet.BlockOpt{Txs: []*types.Tx{tcb}})
	tveto := labnet.Pay([]labnet.Out{{Tx: tv, Idx: 0}}, labnet.Prog(0x34))
	// a3 registers contract K once more (by another transaction than a1 did): when a1..a3 are attached by ONE
	// reorganisation and a3 is detached later, K must stay registered by a1's transaction
	tk3 := labnet.Tx([]labnet.Out{{Tx: tk1, Idx: 2}}, []*types.TxOutput{btm(10000000, reg), btm(chainlab.UAmount-110000000-labnet.Fee-10000000-labnet.Fee, labnet.Prog(0x3a))})
	a3 := w.AddBlock(a2, "a3", labnet.BlockOpt{Txs: []*types.Tx{tveto, tk3}})
	tn1 := labnet.Pay([]labnet.Out{{Tx: tv, Idx: 1}}, labnet.Prog(0x35))
	c3 := w.AddBlock(a2, "c3", labnet.BlockOpt{Tag: 2, Txs: []*types.Tx{tn1}})
	c4 := w.AddBlock(c3, "c4", labnet.BlockOpt{Tag: 2})
	tu0 := labnet.Pay([]labnet.Out{P.U[0]}, labnet.Prog(0x36))
	tk2 := labnet.Tx([]labnet.Out{P.U[2]}, []*types.TxOutput{btm(10000000, reg), btm(100000000, call), btm(chainlab.UAmount-110000000-labnet.Fee, labnet.Prog(0x37))})
	b1 := w.AddBlock(0, "b1", labnet.BlockOpt{Tag: 1, Txs: []*types.Tx{tu0, tk2}})
	tn2 := labnet.Pay([]labnet.Out{{Tx: tu0, Idx: 0}}, labnet.Prog(0x38))
	tn3 := labnet.Pay([]labnet.Out{{Tx: tn2, Idx: 0}}, labnet.Prog(0x39))
	b2 := w.AddBlock(b1, "b2", labnet.BlockOpt{Tag: 1, Txs: []*types.Tx{tn2, tn3}})
	b3 := w.AddBlock(b2, "b3", labnet.BlockOpt{Tag: 1})
	if thorough {
		b4 := w.AddBlock(b3, "b4", labnet.BlockOpt{Tag: 1})
		a4 := w.AddBlock(a3, "a4", labnet.BlockOpt{})
		_ = a4
		w.AddBlock(c4, "c5", labnet.BlockOpt{Tag: 2})
		b5 := w.AddBlock(b4, "b5", labnet.BlockOpt{Tag: 1})
		w.AddBlock(b5, "b6", labnet.BlockOpt{Tag: 1})
	}
	w.AddBlockEvents()
	for v := 0; v < 3; v++ {
		// source: genesis is the only justified checkpoint; the world root (prelude tip) is index 0, so the
		// vote is built by hand with the genesis hash as source
		w.Events = append(w.Events, chainlab.Event{Kind: chainlab.EvVote, Val: v, Src: -1, Tgt: a2, Name: fmt.Sprintf("V%d:genesis>a2", v)})
	}
	W = w
	probes = []probe{
		{"veto-vote", labnet.Pay([]labnet.Out{{Tx: tv, Idx: 0}}, labnet.Prog(0x40))},
		{"call-contract-K", labnet.Pay([]labnet.Out{{Tx: tk1, Idx: 1}}, labnet.Prog(0x41))},
		{"call-contract-K-from-b", labnet.Pay([]labnet.Out{{Tx: tk2, Idx: 1}}, labnet.Prog(0x42))},
		{"spend-U0", labnet.Pay([]labnet.Out{P.U[0]}, labnet.Prog(0x43))},
		{"spend-coinbase-9", labnet.Pay([]labnet.Out{P.Reward[9]}, labnet.Prog(0x44))},
		{"spend-coinbase-7", labnet.Pay([]labnet.Out{P.Reward[7]}, labnet.Prog(0x45))},
		{"spend-n1", labnet.Pay([]labnet.Out{{Tx: tv, Idx: 1}}, labnet.Prog(0x46))},
	}
}

// ledger returns the normalised ledger: unspent outputs with type (and height for coinbase / vote outputs),
// and the contract table.
func ledger(db *crashkv.DB) []string {
	var out []string
	for _, k := range db.Keys(database.UtxoKeyPrefix) {
		var e storage.UtxoEntry
		if err := proto.Unmarshal(db.Get(k), &e); err != nil {
			out = append(out, fmt.Sprintf("utxo %x UNDECODABLE", k))
			continue
		}
		if e.Spent {
			continue // tombstones of spent coinbase outputs
		}
		switch e.Type {
		case storage.CoinbaseUTXOType, storage.VoteUTXOType:
			out = append(out, fmt.Sprintf("utxo %x type=%d height=%d", k[len(database.UtxoKeyPrefix):], e.Type, e.BlockHeight))
		default:
			out = append(out, fmt.Sprintf("utxo %x type=%d", k[len(database.UtxoKeyPrefix):], e.Type))
		}
	}
	for _, k := range db.Keys(database.ContractPrefix) {
		out = append(out, fmt.Sprintf("contract %x=%x", k[len(database.ContractPrefix):], db.Get(k)))
	}
	sort.Strings(out)
	return out
}

func applyEv(in *chainlab.Inst, ei int) {
	e := W.Events[ei]
	if e.Kind == chainlab.EvVote && e.Src == -1 {
		msg := labnet.VoteMsg(W.Net.Keys[e.Val], W.Net.Gen.Hash(), W.Blocks[e.Tgt].Hash())
		in.Node.Chain.ProcessBlockVerification(msg)
		in.Results = append(in.Results, "vote")
		return
	}
	in.Apply(ei)
}

func mainChainOf(in *chainlab.Inst) (int, []int) {
	best := in.Node.Chain.BestBlockHeader()
	bi := W.Index(best.Hash())
	var chain []int
	for x := bi; x > 0; x = W.Parent[x] {
		chain = append([]int{x}, chain...)
	}
	return bi, chain
}

func diff(a, b []string) string {
	ma, mb := map[string]bool{}, map[string]bool{}
	for _, x := range a {
		ma[x] = true
	}
	for _, x := range b {
		mb[x] = true
	}
	var d []string
	for _, x := range a {
		if !mb[x] {
			d = append(d, "node-only:"+x)
		}
	}
	for _, x := range b {
		if !ma[x] {
			d = append(d, "mainchain-only:"+x)
		}
	}
	if len(d) > 6 {
		d = d[:6]
	}
	return strings.Join(d, " | ")
}

func classify(a, b []string) string {
	d := diff(a, b)
	switch {
	case strings.Contains(d, "contract"):
		return "contract-table-differs"
	case strings.Contains(d, "type=2"):
		return "vote-output-differs"
	case strings.Contains(d, "type=1"):
		return "coinbase-output-differs"
	}
	return "normal-output-differs"
}

func build(h []int) (*chainlab.Inst, error) {
	in, err := W.NewInst()
	if err != nil {
		return nil, err
	}
	for _, ei := range h {
		applyEv(in, ei)
		if in.Hung {
			return in, nil
		}
	}
	return in, nil
}

func fresh(chain []int) (*chainlab.Inst, error) {
	in, err := W.NewInst()
	if err != nil {
		return nil, err
	}
	for _, bi := range chain {
		for ei, e := range W.Events {
			if e.Kind == chainlab.EvBlock && e.Block == bi {
				if r := in.Apply(ei); r != "ok" {
					return nil, fmt.Errorf("main-chain replay rejected %s: %s", W.Names[bi], r)
				}
			}
		}
	}
	return in, nil
}

func runHist(h []int, extra json.RawMessage) (out xplore.Out) {
	viol := func(key, what string) {
		out.Viols = append(out.Viols, xplore.Viol{Key: key, What: what})
	}
	in, err := build(h)
	if err != nil {
		return xplore.Out{Viols: []xplore.Viol{{Key: "infra-newnode", What: err.Error()}}}
	}
	if in.Hung {
		viol("call-did-not-return", "")
		out.Fatal = true
		return
	}
	bi, chain := mainChainOf(in)
	if bi < 0 {
		viol("best-block-foreign", "")
		return
	}
	ref, err := fresh(chain)
	if err != nil {
		viol("main-chain-replay-rejected", err.Error())
		return
	}
	la, lb := ledger(in.DB), ledger(ref.DB)
	out.Checks++
	if strings.Join(la, "\n") != strings.Join(lb, "\n") {
		viol("ledger-differs-from-main-chain-replay:"+classify(la, lb), fmt.Sprintf("best=%s: %s", W.Names[bi], diff(la, lb)))
	}
	out.Digest = in.Digest()
	out.Outcome = "best=" + W.Names[bi]
	// probe blocks: same verdict on the node with history and on the node that only saw the main chain
	// (second pass: once per distinct state)
	withProbes := string(extra) == "true"
	for pi, p := range probes {
		if !withProbes {
			break
		}
		a, err1 := build(h)
		b, err2 := fresh(chain)
		if err1 != nil || err2 != nil || a.Hung {
			continue
		}
		blk := W.Net.NewBlock(W.Blocks[bi], labnet.BlockOpt{Txs: []*types.Tx{p.tx}, Tag: byte(0x50 + pi), SkipCP: true})
		_, ea := a.Node.Chain.ProcessBlock(blk.Block)
		cp := *blk.Block
		_, eb := b.Node.Chain.ProcessBlock(&cp)
		out.Checks++
		va, vb := "accept", "accept"
		if ea != nil {
			va = "reject"
		}
		if eb != nil {
			vb = "reject"
		}
		if va != vb {
			viol("probe-verdict-depends-on-history:"+p.name, fmt.Sprintf("on best=%s probe %s: node with history %s (%v), main-chain-only node %s (%v)", W.Names[bi], p.name, va, ea, vb, eb))
		}
		out.Outcome += fmt.Sprintf(" %s=%s", p.name, vb)
		a.DB.Wipe()
		b.DB.Wipe()
	}
	used := map[int]bool{}
	for _, e := range h {
		used[e] = true
	}
	for ei, e := range W.Events {
		if used[ei] {
			continue
		}
		switch e.Kind {
		case chainlab.EvBlock:
			if in.Delivered[W.Parent[e.Block]] {
				out.Enabled = append(out.Enabled, ei)
			}
		case chainlab.EvVote:
			// votes are delivered in validator order (their mutual order is irrelevant to the ledger)
			if in.Delivered[e.Tgt] && (e.Val == 0 || used[ei-1]) {
				out.Enabled = append(out.Enabled, ei)
			}
		}
	}
	in.DB.Wipe()
	ref.DB.Wipe()
	return
}

func main() {
	thorough := os.Getenv("VERIF_TIER") == "thorough"
	for _, a := range os.Args[1:] {
		if a == "thorough" {
			thorough = true
		}
	}
	world(thorough)
	if !thorough {
		probes = probes[:3]
	}
	spec := &xplore.Spec{Name: "c10", Run: runHist, Recycle: 60, Describe: func(h []int) interface{} { return W.Describe(h) }}
	if par.IsWorker() {
		xplore.Worker(spec)
	}
	run := ev.Start("C10", "model_checking")
	spec.MaxDepth = len(W.Events) + 1
	spec.Extra = false
	st := xplore.BFS(run, spec)
	spec.Extra = true
	st2 := xplore.Flat(run, spec, st.Reps)
	run.Set("states", st.States)
	run.Set("transitions", st.Transitions)
	run.Set("probe_verdicts_compared", st2.Checks-len(st.Reps))
	run.Set("traces_validated_against_impl", st.Checks+st2.Checks)
	run.Set("max_depth", st.MaxDepth)
	var all []int
	for i := range W.Events {
		all = append(all, i)
	}
	run.Set("events", W.Describe(all))
	var pn []string
	for _, p := range probes {
		pn = append(pn, p.name)
	}
	run.Set("probes", pn)
	run.Set("rule", "BFS over interleavings of in-order deliveries of three branches (A: vote + contract registration, coinbase spend, veto; C: fork below the veto; B: conflicting spend, second registration of the same contract, spend+recreate in one block, longest) and three votes justifying the shorter A/C side; states merged on the node-state digest; in every state the normalised utxo set (type, height of coinbase/vote outputs) and contract table equal those of a fresh node fed only the main chain, and each probe block gets the same verdict on both nodes")
	run.Assume("16-block prelude processed by the real node provides spendable outputs; vote lock is 2 blocks below height 20 and 6 from height 20 on (main net has the same kind of step at 432000)")
	run.Finish()
}
