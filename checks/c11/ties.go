package main

import (
	"fmt"
	"sort"

	"verif/lib/chainlab"
	"verif/lib/ev"
	"verif/lib/labnet"
	"verif/lib/xplore"
)

// Tie family: two branches of equal height and equal justified height. The fork-choice rule breaks the tie on the
// hash of the TIP; an implementation that compares any other pair of blocks of the two branches (the branches'
// checkpoint blocks, their first blocks, ...) agrees with the rule on half of all block trees. For each shape
// (fork at genesis / inside the first epoch / at the first checkpoint) block variants are searched (coinbase
// tags) until, for both outcomes of the tip comparison, every other cross-branch pair of blocks compares the
// opposite way in some chosen variant. Every delivery order of each variant is run on the real node.
type tieWorld struct {
	W     *chainlab.World
	shape string
	tags  [2]byte
}

var tieNet *labnet.Net

const tieMarker = -1

func buildTie(net *labnet.Net, shape int, ta, tb byte) (*chainlab.World, [][2]int, [2]int) {
	w := chainlab.NewWorld(net, net.Gen, nil)
	var brA, brB []int
	switch shape {
	case 0: // fork at genesis
		a1 := w.AddBlock(0, "a1", labnet.BlockOpt{Tag: ta})
		a2 := w.AddBlock(a1, "a2", labnet.BlockOpt{Tag: ta})
		a3 := w.AddBlock(a2, "a3", labnet.BlockOpt{Tag: ta})
		b1 := w.AddBlock(0, "b1", labnet.BlockOpt{Tag: tb})
		b2 := w.AddBlock(b1, "b2", labnet.BlockOpt{Tag: tb})
		b3 := w.AddBlock(b2, "b3", labnet.BlockOpt{Tag: tb})
		brA, brB = []int{a1, a2, a3}, []int{b1, b2, b3}
	case 1: // fork inside the first epoch
		r1 := w.AddBlock(0, "r1", labnet.BlockOpt{})
		a2 := w.AddBlock(r1, "a2", labnet.BlockOpt{Tag: ta})
		a3 := w.AddBlock(a2, "a3", labnet.BlockOpt{Tag: ta})
		b2 := w.AddBlock(r1, "b2", labnet.BlockOpt{Tag: tb})
		b3 := w.AddBlock(b2, "b3", labnet.BlockOpt{Tag: tb})
		brA, brB = []int{a2, a3}, []int{b2, b3}
	case 2: // fork two epochs below the tips
		a1 := w.AddBlock(0, "a1", labnet.BlockOpt{Tag: ta})
		a2 := w.AddBlock(a1, "a2", labnet.BlockOpt{Tag: ta})
		a3 := w.AddBlock(a2, "a3", labnet.BlockOpt{Tag: ta})
		a4 := w.AddBlock(a3, "a4", labnet.BlockOpt{Tag: ta})
		a5 := w.AddBlock(a4, "a5", labnet.BlockOpt{Tag: ta})
		b1 := w.AddBlock(0, "b1", labnet.BlockOpt{Tag: tb})
		b2 := w.AddBlock(b1, "b2", labnet.BlockOpt{Tag: tb})
		b3 := w.AddBlock(b2, "b3", labnet.BlockOpt{Tag: tb})
		b4 := w.AddBlock(b3, "b4", labnet.BlockOpt{Tag: tb})
		b5 := w.AddBlock(b4, "b5", labnet.BlockOpt{Tag: tb})
		brA, brB = []int{a1, a2, a3, a4, a5}, []int{b1, b2, b3, b4, b5}
	}
	w.AddBlockEvents()
	var pairs [][2]int
	for _, x := range brA {
		for _, y := range brB {
			if x == brA[len(brA)-1] && y == brB[len(brB)-1] {
				continue
			}
			pairs = append(pairs, [2]int{x, y})
		}
	}
	return w, pairs, [2]int{brA[len(brA)-1], brB[len(brB)-1]}
}

func hashGreater(w *chainlab.World, x, y int) bool {
	hx, hy := w.Blocks[x].Hash(), w.Blocks[y].Hash()
	return hx.String() > hy.String()
}

// tieWorlds is deterministic (same result in the main process and in every worker).
func tieWorlds() []*tieWorld {
	if tieNet == nil {
		tieNet = labnet.Setup(2, 2, 4)
		tieNet.SetLocalKey(labnet.OutsiderKey())
	}
	var out []*tieWorld
	for shape := 0; shape <= 2; shape++ {
		// constraint (polarity, pair index): a variant whose tip comparison has that polarity and whose pair compares the other way
		covered := map[[2]int]bool{}
		need := -1
		for k := 0; k < 400 && (need < 0 || len(covered) < need); k++ {
			ta, tb := byte(k%4), byte(k/4+1)
			w, pairs, tips := buildTie(tieNet, shape, 50+ta, 100+tb)
			need = 2 * len(pairs)
			pol := 0
			tipGreater := hashGreater(w, tips[0], tips[1])
			if tipGreater {
				pol = 1
			}
			gain := false
			for pi, p := range pairs {
				if hashGreater(w, p[0], p[1]) != tipGreater && !covered[[2]int{pol, pi}] {
					covered[[2]int{pol, pi}] = true
					gain = true
				}
			}
			if gain {
				out = append(out, &tieWorld{W: w, shape: []string{"fork-at-genesis", "fork-inside-first-epoch", "fork-two-epochs-below-tips"}[shape], tags: [2]byte{50 + ta, 100 + tb}})
			}
		}
		if len(covered) < need {
			ev.Fatal("tie family: shape %d: only %d of %d hash-order constraints covered", shape, len(covered), need)
		}
	}
	return out
}

// tieOrders: delivery orders of all block events of w; parentFirst restricts to orders without orphans.
func tieOrders(w *chainlab.World, parentFirst bool, cap int) [][]int {
	n := len(w.Events)
	var out [][]int
	used := make([]bool, n)
	cur := []int{}
	var rec func()
	rec = func() {
		if cap > 0 && len(out) >= cap {
			return
		}
		if len(cur) == n {
			out = append(out, append([]int(nil), cur...))
			return
		}
		for e := 0; e < n; e++ {
			if used[e] {
				continue
			}
			if parentFirst {
				p := w.Parent[w.Events[e].Block]
				ok := p <= 0
				for _, c := range cur {
					if w.Events[c].Block == p {
						ok = true
					}
				}
				if !ok {
					continue
				}
			}
			used[e] = true
			cur = append(cur, e)
			rec()
			cur = cur[:len(cur)-1]
			used[e] = false
		}
	}
	rec()
	return out
}

var tieCache []*tieWorld

func runTie(h []int) xplore.Out {
	if tieCache == nil {
		tieCache = tieWorlds()
	}
	tw := tieCache[h[1]]
	saved := W
	W = tw.W
	defer func() { W = saved }()
	out := runHist(h[2:], nil)
	out.Digest = fmt.Sprintf("tie%d/%s", h[1], out.Digest)
	out.Enabled = nil
	return out
}

// tieDescribe renders a tie item from the worlds THIS process built (coordinator and worker each do; xplore
// compares the fingerprints).
func tieDescribe(h []int) interface{} {
	if tieCache == nil {
		tieCache = tieWorlds()
	}
	if len(h) < 2 || h[1] >= len(tieCache) {
		return "no such tie world"
	}
	tw := tieCache[h[1]]
	return map[string]interface{}{"family": "equal-height-tie", "shape": tw.shape, "variant-tags": tw.tags, "order": tw.W.Describe(h[2:])}
}

func ties(run *ev.Run, spec *xplore.Spec, thorough bool) {
	if tieCache == nil {
		tieCache = tieWorlds()
	}
	tws := tieCache
	var items [][]int
	shapes := map[string]int{}
	for wi, tw := range tws {
		shapes[tw.shape]++
		parentFirst := !thorough || len(tw.W.Events) > 6
		for _, o := range tieOrders(tw.W, parentFirst, 0) {
			items = append(items, append([]int{tieMarker, wi}, o...))
		}
	}
	st := xplore.Flat(run, spec, items)
	var names []string
	for s, n := range shapes {
		names = append(names, fmt.Sprintf("%s:%d variants", s, n))
	}
	sort.Strings(names)
	run.Set("tie_family", map[string]interface{}{"worlds": names, "histories": len(items), "transitions": st.Transitions, "oracle_evaluations": st.Checks,
		"rule": "two branches of equal height and equal justified height, in block variants chosen so that for both outcomes of the tip-hash comparison every other cross-branch pair of blocks compares the opposite way in some variant; every delivery order (quick: parents first; thorough: all orders incl. orphans for the 6-block shapes) on the real node, best block / height index / InMainChain compared with the reference after every event"})
}
