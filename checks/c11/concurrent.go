package main

// Interleaving part of C11: the node's internal goroutines (block processor, cached-vote replay loop) and
// concurrent callers are scheduled by lib/vsched on the rewritten protocol / casper packages; at quiescence
// the chain's best block must be the fork-choice result of the node's own checkpoint tree, and the height
// index must agree with it.

import (
	"fmt"
	"strings"
	"time"

	"verif/lib/chainlab"
	"verif/lib/crashkv"
	"verif/lib/ev"
	"verif/lib/labnet"
	"verif/lib/vsched"
)

type cscen struct {
	name    string
	setup   []string
	threads [][]string
}

func concScenarios(thorough bool) []cscen {
	sc := []cscen{
		// votes for b2 arrive before b2 (cached); b3 triggers their replay while the processor is still busy with b3
		{"cached votes replayed while the triggering block is processed", []string{"B:a1", "B:a2", "B:b1", "V0:root>b2", "V1:root>b2", "V2:root>b2", "B:b2"}, [][]string{{"B:b3"}}},
		{"best-changing vote || block extending the old best", []string{"B:a1", "B:a2", "B:a3", "B:b1", "B:b2", "V0:root>b2", "V1:root>b2"}, [][]string{{"V2:root>b2"}, {"B:a4"}}},
	}
	if thorough {
		sc = append(sc, cscen{"replay || another vote || block of the other branch", []string{"B:a1", "B:b1", "V0:root>b2", "V1:root>b2", "B:b2"}, [][]string{{"B:b3"}, {"V2:root>b2"}, {"B:a2"}}})
	}
	return sc
}

func concBody(W *chainlab.World, sc cscen, idx map[string]int) func(x *vsched.Exec) {
	apply := func(nd *labnet.Node, name string) {
		e := W.Events[idx[name]]
		if e.Kind == 0 { // block
			cp := *W.Blocks[e.Block].Block
			cp.SupLinks = nil
			nd.Chain.ProcessBlock(&cp)
			return
		}
		nd.Chain.ProcessBlockVerification(W.VoteMsg(e))
	}
	return func(x *vsched.Exec) {
		var nd *labnet.Node
		x.Deterministic(func() {
			var err error
			nd, err = labnet.NewNode(crashkv.New())
			if err != nil {
				x.Fail("infra-newnode", err.Error())
				return
			}
			for _, n := range sc.setup {
				apply(nd, n)
			}
		})
		if nd == nil {
			return
		}
		for t := range sc.threads {
			t := t
			x.Spawn(fmt.Sprintf("T%d", t), func() {
				for _, n := range sc.threads[t] {
					apply(nd, n)
				}
			})
		}
		x.Join()
		x.Settle()
		best := nd.Chain.BestBlockHeader()
		fc := nd.Chain.VerifCasper().BestChain()
		if best.Hash() != fc {
			x.Fail("quiescent-best-differs-from-fork-choice-of-the-tree", fmt.Sprintf("chain best=%s, fork choice of the node's checkpoint tree=%s", W.Name(best.Hash()), W.Name(fc)))
		}
		for h := uint64(0); h <= best.Height; h++ {
			if hd, err := nd.Chain.GetHeaderByHeight(h); err != nil || !nd.Chain.InMainChain(hd.Hash()) {
				x.Fail("height-index-inconsistent-after-concurrent-run", fmt.Sprintf("height %d: err=%v", h, err))
			}
		}
		x.Observe("best=" + W.Name(best.Hash()))
	}
}

func concurrent(run *ev.Run, thorough bool) {
	W := world(true) // the interleaving scenarios always use the larger world (b3, a4 exist)
	idx := map[string]int{}
	for i, e := range W.Events {
		idx[e.String()] = i
	}
	bound := run.Pick(1, 2)
	total, dec := 0, 0
	for _, sc := range concScenarios(thorough) {
		for _, n := range append(append([]string{}, sc.setup...), strings.Join(func() []string {
			var all []string
			for _, th := range sc.threads {
				all = append(all, th...)
			}
			return all
		}(), "|")) {
			for _, one := range strings.Split(n, "|") {
				if _, ok := idx[one]; !ok {
					ev.Fatal("concurrent scenario uses unknown event %s", one)
				}
			}
		}
		var names []string
		for _, th := range sc.threads {
			names = append(names, strings.Join(th, ";"))
		}
		desc := "concurrent: " + sc.name + ": setup " + strings.Join(sc.setup, " ") + " then " + strings.Join(names, " || ")
		// wall-clock share of this scenario (all bounds): what does not finish inside it is reported as capped
		deadline := run.DeadlineIn(time.Duration(run.Pick(60, 240)) * time.Second)
		for b := 0; b <= bound; b++ {
			st := vsched.Explore(vsched.Config{Name: sc.name, Bound: b, Stall: 120 * time.Second, MaxExec: run.Pick(3000, 60000), Deadline: deadline}, concBody(W, sc, idx))
			if st.Infra != "" {
				if st.StallReproduced {
					run.Violation("call-never-returns-under-schedule", fmt.Sprintf("%s: the same schedule stalled three times: %s", sc.name, st.Infra), map[string]interface{}{"scenario": sc.name, "schedule": st.StallSchedule})
				} else {
					run.Set("stall_not_reproduced", fmt.Sprintf("%s: %s", sc.name, st.Infra))
					run.Capped("an execution stalled once and did not stall again when its schedule was replayed twice (load or nondeterminism outside the scheduler)")
				}
				break
			}
			if b == bound || len(st.Failures) > 0 {
				total += st.Executions
				dec += st.Decisions
				run.Sample(map[string]interface{}{"scenario": desc, "preemption_bound": b, "schedules": st.Executions, "distinct_outcomes": len(st.Outcomes), "complete": st.Complete})
				for o := range st.Outcomes {
					run.Outcome("concurrent " + o)
				}
				if !st.Complete {
					run.Capped("concurrent scenario capped: " + sc.name)
				}
			}
			for _, f := range st.Failures {
				run.Violation(f.Key, fmt.Sprintf("%s, preemption bound %d: %s", desc, b, f.What), map[string]interface{}{"scenario": desc, "bound": b, "schedule": f.Schedule, "what": f.What})
			}
			if len(st.Failures) > 0 {
				break
			}
		}
	}
	run.Set("concurrent_schedules", total)
	run.Set("concurrent_decisions", dec)
	run.Set("concurrent_preemption_bound", bound)
	run.Assume("interleaving part: protocol and casper packages rewritten mechanically for lib/vsched")
}
