package main

import "os"

func argsTier() []string {
	out := os.Args[1:]
	if t := os.Getenv("VERIF_TIER"); t != "" {
		out = append(out, t)
	}
	return out
}
