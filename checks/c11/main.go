// C11: best chain follows the fork-choice rule and the height / main-chain indexes stay consistent.
// Explicit-state search over all delivery orders of a small block tree and a set of votes,
// on the real Chain+Casper, against the reference fork choice of lib/chainlab.
package main

import (
	"encoding/json"
	"fmt"

	"verif/lib/chainlab"
	"verif/lib/ev"
	"verif/lib/labnet"
	"verif/lib/par"
	"verif/lib/xplore"
)

func world(thorough bool) *chainlab.World {
	net := labnet.Setup(2, 2, 4)
	net.SetLocalKey(labnet.OutsiderKey())
	w := chainlab.NewWorld(net, net.Gen, nil)
	a1 := w.AddBlock(0, "a1", labnet.BlockOpt{})
	a2 := w.AddBlock(a1, "a2", labnet.BlockOpt{})
	a3 := w.AddBlock(a2, "a3", labnet.BlockOpt{})
	b1 := w.AddBlock(0, "b1", labnet.BlockOpt{Tag: 1})
	b2 := w.AddBlock(b1, "b2", labnet.BlockOpt{Tag: 1})
	var a4, b3 int
	if thorough {
		w.AddBlock(a1, "c2", labnet.BlockOpt{Tag: 2})
		a4 = w.AddBlock(a3, "a4", labnet.BlockOpt{})
		b3 = w.AddBlock(b2, "b3", labnet.BlockOpt{Tag: 1})
		_ = b3
	}
	w.AddBlockEvents()
	// three validators justify b2 from genesis: the shorter branch must win
	for v := 0; v < 3; v++ {
		w.AddVote(v, 0, b2)
	}
	if thorough {
		// a competing vote for a2 by validator 0 (conflicts with its b2 vote: whichever comes second is refused)
		w.AddVote(0, 0, a2)
		w.AddVote(3, 0, a2)
		w.AddVote(1, 0, a4)
		w.AddVote(3, 0, a4)
	}
	return w
}

var W *chainlab.World

func runHist(h []int, _ json.RawMessage) (out xplore.Out) {
	if len(h) > 0 && h[0] == tieMarker {
		return runTie(h)
	}
	in, err := W.NewInst()
	if err != nil {
		return xplore.Out{Viols: []xplore.Viol{{Key: "infra-newnode", What: err.Error()}}}
	}
	ref := chainlab.NewRef(W)
	viol := func(key, what string) { out.Viols = append(out.Viols, xplore.Viol{Key: key, What: what}) }
	lastKind := "init"
	check := func(lastKind string) {
		// oracle on the state reached (every state of the search is the end of some history)
		best := in.Node.Chain.BestBlockHeader()
		bestHash := best.Hash()
		bi := W.Index(bestHash)
		rb := ref.Best()
		out.Checks++
		if bi != rb {
			viol("best-differs-from-fork-choice-after-"+lastKind, fmt.Sprintf("node best=%s, fork choice=%s (%s)", W.Name(bestHash), W.Names[rb], ref.Summary()))
		}
		if bi >= 0 {
			// height index: every height up to best maps to best's ancestor
			anc := map[uint64]int{}
			for x := bi; x >= 0; x = W.Parent[x] {
				anc[W.Blocks[x].Height] = x
			}
			for ht := uint64(0); ht <= best.Height; ht++ {
				out.Checks++
				hd, err := in.Node.Chain.GetHeaderByHeight(ht)
				if err != nil {
					viol("height-index-missing", fmt.Sprintf("height %d <= best height %d has no main-chain entry: %v", ht, best.Height, err))
					continue
				}
				if hh := hd.Hash(); hh != W.Blocks[anc[ht]].Hash() {
					viol("height-index-wrong-block", fmt.Sprintf("height %d maps to %s, best's ancestor is %s", ht, W.Name(hh), W.Names[anc[ht]]))
				}
			}
			for i := range W.Blocks {
				if !in.Stored(i) {
					continue
				}
				out.Checks++
				want := W.IsAncestor(i, bi)
				got := in.Node.Chain.InMainChain(W.Blocks[i].Hash())
				if got != want {
					key := "inmainchain-false-for-ancestor"
					if got {
						key = "inmainchain-true-for-non-ancestor"
						if W.Blocks[i].Height > best.Height {
							key = "inmainchain-true-above-best-height"
						}
					}
					viol(key, fmt.Sprintf("InMainChain(%s)=%v but best=%s", W.Names[i], got, W.Names[bi]))
				}
			}
		}
	}
	check(lastKind)
	for step, ei := range h {
		res := in.Apply(ei)
		ref.Apply(ei)
		if in.Hung {
			viol("call-did-not-return", fmt.Sprintf("event %s (step %d) did not return within %v", W.Events[ei], step, chainlab.CallTimeout))
			out.Digest = fmt.Sprintf("hung-%v", h)
			out.Prune = true
			out.Fatal = true
			return
		}
		_ = res
		switch W.Events[ei].Kind {
		case chainlab.EvVote:
			lastKind = "vote"
		default:
			lastKind = "block"
		}
		// the oracle runs after EVERY event of the replay: reads populate the store's caches, so an index entry
		// that is only stale in a cache (read before a reorganisation, not invalidated by it) is seen as well
		check(lastKind)
	}
	best := in.Node.Chain.BestBlockHeader()
	bestHash := best.Hash()
	out.Digest = in.Digest()
	out.Outcome = fmt.Sprintf("best=%s", W.Name(bestHash))
	// successors: every event not yet used
	used := map[int]bool{}
	for _, e := range h {
		used[e] = true
	}
	for e := range W.Events {
		if !used[e] {
			out.Enabled = append(out.Enabled, e)
		}
	}
	in.DB.Wipe()
	return
}

func main() {
	thorough := false
	for _, a := range append([]string{}, append([]string{}, argsTier()...)...) {
		if a == "thorough" {
			thorough = true
		}
	}
	W = world(thorough)
	spec := &xplore.Spec{Name: "c11", Run: runHist, Recycle: 300, Describe: func(h []int) interface{} {
		if len(h) > 0 && h[0] == tieMarker {
			return tieDescribe(h)
		}
		return W.Describe(h)
	}}
	if par.IsWorker() {
		xplore.Worker(spec)
	}
	run := ev.Start("C11", "model_checking")
	spec.MaxDepth = len(W.Events)
	ties(run, spec, thorough)
	st := xplore.BFS(run, spec)
	concurrent(run, thorough)
	W = world(thorough)
	run.Set("states", st.States)
	run.Set("transitions", st.Transitions)
	run.Set("traces_validated_against_impl", st.Checks)
	run.Set("max_depth", st.MaxDepth)
	run.Set("events", W.Describe(allEvents()))
	run.Set("rule", "BFS over all orders of delivering the world's blocks (orphans allowed) and votes to a fresh real node, de-duplicated on a digest of the node's whole store + checkpoint tree + orphan pool + cached votes + best header; in every state the node's best block is compared with the reference fork choice and the height index / InMainChain with best's ancestor set")
	run.Assume("world blocks are valid empty blocks (E=2, 4 federation validators, node key outside the validator set); votes have justified sources; cached votes are replayed by the node's own background loop and the harness waits for it to finish before observing")
	run.Finish()
}

func allEvents() []int {
	var h []int
	for i := range W.Events {
		h = append(h, i)
	}
	return h
}
