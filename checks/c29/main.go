// C29: addresses and text encodings round-trip and detect corruption.
//
//	A  every enumerated P2WPKH / P2WSH program on each network: program -> address ->
//	   program is the identity, the address string equals an independent BIP-173
//	   encoder, it is rejected on every other network, and EVERY single-character
//	   substitution of it is rejected.
//	B  bech32, bit regrouping and base32 round-trip all byte strings of length <= 2 and
//	   patterned data of every length 0..40 (base32 encoders compared with the Go
//	   standard library, bech32 with the independent encoder).
//	C  mnemonics: every entropy length, patterned entropies and every word of every
//	   word list, compared with an independent BIP-39 encoder, decode(encode) = id.
//	D  decoders never panic: all short strings over a hostile alphabet, alone and
//	   spliced into every window of valid encodings; whatever an address / bech32
//	   decoder accepts must re-encode to the (lower-cased) input.
//	E  correctly checksummed bech32 strings over a structured payload family (all 5-bit
//	   strings of length <= 2, witness version x program length x tail shape) under
//	   network and foreign prefixes, in four case forms, on every network: no panic, and
//	   accepted exactly when an independent predicate says the string is an address.
package main

import (
	"bytes"
	"crypto/sha256"
	stdbase32 "encoding/base32"
	"fmt"
	"io/ioutil"
	"math/big"
	"os"
	"regexp"
	"runtime"
	"sort"
	"strings"
	"sync"
	"time"

	"github.com/bytom/bytom/common"
	"github.com/bytom/bytom/common/bech32"
	"github.com/bytom/bytom/consensus"
	"github.com/bytom/bytom/consensus/segwit"
	"github.com/bytom/bytom/encoding/base32"
	"github.com/bytom/bytom/protocol/vm/vmutil"
	"github.com/bytom/bytom/wallet/mnemonic"
	"github.com/bytom/bytom/wallet/mnemonic/wordlists"

	"verif/lib/ev"
)

// ---------------------------------------------------------------- independent BIP-173

const refCharset = "qpzry9x8gf2tvdw0s3jn54khce6mua7l"

func refPolymod(values []byte) uint32 {
	gen := [5]uint32{0x3b6a57b2, 0x26508e6d, 0x1ea119fa, 0x3d4233dd, 0x2a1462b3}
	chk := uint32(1)
	for _, v := range values {
		top := chk >> 25
		chk = (chk&0x1ffffff)<<5 ^ uint32(v)
		for i := uint(0); i < 5; i++ {
			if top>>i&1 == 1 {
				chk ^= gen[i]
			}
		}
	}
	return chk
}

func refHrpExpand(hrp string) []byte {
	var out []byte
	for i := 0; i < len(hrp); i++ {
		out = append(out, hrp[i]>>5)
	}
	out = append(out, 0)
	for i := 0; i < len(hrp); i++ {
		out = append(out, hrp[i]&31)
	}
	return out
}

// refBech32 encodes 5-bit groups.
func refBech32(hrp string, data []byte) string {
	values := append(refHrpExpand(hrp), data...)
	pm := refPolymod(append(values, 0, 0, 0, 0, 0, 0)) ^ 1
	var sb strings.Builder
	sb.WriteString(hrp)
	sb.WriteByte('1')
	for _, d := range data {
		sb.WriteByte(refCharset[d])
	}
	for i := 0; i < 6; i++ {
		sb.WriteByte(refCharset[(pm>>uint(5*(5-i)))&31])
	}
	return sb.String()
}

// ref8to5 regroups bytes into 5-bit groups, zero padded (via one big bit string).
func ref8to5(data []byte) []byte {
	var bits []byte
	for _, b := range data {
		for i := 7; i >= 0; i-- {
			bits = append(bits, b>>uint(i)&1)
		}
	}
	for len(bits)%5 != 0 {
		bits = append(bits, 0)
	}
	var out []byte
	for i := 0; i < len(bits); i += 5 {
		out = append(out, bits[i]<<4|bits[i+1]<<3|bits[i+2]<<2|bits[i+3]<<1|bits[i+4])
	}
	return out
}

func refSegwitAddress(hrp string, version byte, program []byte) string {
	return refBech32(hrp, append([]byte{version}, ref8to5(program)...))
}

// ---------------------------------------------------------------- independent BIP-39

func refMnemonic(entropy []byte, words []string) string {
	sum := sha256.Sum256(entropy)
	v := new(big.Int).SetBytes(entropy)
	cs := uint(len(entropy) / 4) // checksum bits
	v.Lsh(v, cs)
	v.Or(v, big.NewInt(int64(sum[0]>>(8-cs))))
	n := (len(entropy)*8 + int(cs)) / 11
	out := make([]string, n)
	mask := big.NewInt(2047)
	for i := n - 1; i >= 0; i-- {
		out[i] = words[new(big.Int).And(v, mask).Int64()]
		v.Rsh(v, 11)
	}
	return strings.Join(out, " ")
}

// ---------------------------------------------------------------- bookkeeping

type viol struct {
	key, what string
	c         interface{}
}

type acc struct {
	mu       sync.Mutex
	counts   map[string]int
	classes  map[string]int
	viols    map[string]viol
	order    map[string]string // key -> sort key (deterministic choice of the reported instance)
	samples  []interface{}
	nontriv  int
}

func newAcc() *acc {
	return &acc{counts: map[string]int{}, classes: map[string]int{}, viols: map[string]viol{}, order: map[string]string{}}
}

func (a *acc) add(k string, n int) {
	a.mu.Lock()
	a.counts[k] += n
	a.mu.Unlock()
}
func (a *acc) class(k string, n int) {
	a.mu.Lock()
	a.classes[k] += n
	a.mu.Unlock()
}

// violation keeps, per key, the instance with the smallest sort key so that the reported
// case does not depend on goroutine scheduling.
func (a *acc) violation(key, sortKey, what string, c interface{}) {
	a.mu.Lock()
	if old, ok := a.order[key]; !ok || sortKey < old {
		a.order[key] = sortKey
		a.viols[key] = viol{key, what, c}
	}
	a.mu.Unlock()
}

// merge folds a goroutine-local accumulator into a (the locals avoid lock contention).
func (a *acc) merge(b *acc) {
	a.mu.Lock()
	defer a.mu.Unlock()
	for k, v := range b.counts {
		a.counts[k] += v
	}
	for k, v := range b.classes {
		a.classes[k] += v
	}
	a.nontriv += b.nontriv
	for k, v := range b.viols {
		if old, ok := a.order[k]; !ok || b.order[k] < old {
			a.order[k] = b.order[k]
			a.viols[k] = v
		}
	}
}

var (
	reDigits = regexp.MustCompile(`[0-9]+`)
	reQuoted = regexp.MustCompile(`(?s)'.*?'|\x60.*?\x60`)
)

func errClass(err error) string {
	if err == nil {
		return "accepted"
	}
	s := err.Error()
	for _, p := range []string{"checksum failed", "string not all lowercase", "invalid index of", "invalid bech32 string length", "unknown address type", "illegal base32 data"} {
		if strings.HasPrefix(s, p) {
			return p
		}
	}
	if i := strings.Index(s, "Expected"); i >= 0 {
		s = s[:i]
	}
	if i := strings.Index(s, "not part of charset"); i >= 0 {
		s = s[:i+len("not part of charset")]
	}
	s = reQuoted.ReplaceAllString(s, "'_'")
	s = reDigits.ReplaceAllString(s, "N")
	s = strings.TrimSpace(s)
	if len(s) > 70 {
		s = s[:70]
	}
	return s
}

// guard runs f and converts a panic into a violation of the given key.
func guard(a *acc, key, input string, f func()) {
	defer func() {
		if r := recover(); r != nil {
			a.violation(key, input, fmt.Sprintf("panic on input %q: %v", input, r), map[string]string{"input": input, "input_hex": ev.Hex([]byte(input))})
		}
	}()
	f()
}

// ---------------------------------------------------------------- A: addresses

type netDef struct {
	name string
	p    *consensus.Params
}

var nets = []netDef{{"main", &consensus.MainNetParams}, {"test", &consensus.TestNetParams}, {"solo", &consensus.SoloNetParams}}

func programs(size int, thorough bool) [][]byte {
	var out [][]byte
	out = append(out, bytes.Repeat([]byte{0x00}, size), bytes.Repeat([]byte{0xff}, size))
	cnt := make([]byte, size)
	for i := range cnt {
		cnt[i] = byte(i + 1)
	}
	out = append(out, cnt)
	step := 5 // quick: every 5th single-bit value (5 is coprime to the 8-bit and 5-bit group sizes)
	if thorough {
		step = 1
	}
	for bit := 0; bit < size*8; bit += step {
		h := make([]byte, size)
		h[bit/8] = 1 << uint(7-bit%8)
		out = append(out, h)
	}
	if thorough {
		for bit := 0; bit < size*8; bit++ { // complements: single-bit-cleared
			h := bytes.Repeat([]byte{0xff}, size)
			h[bit/8] ^= 1 << uint(7-bit%8)
			out = append(out, h)
		}
	}
	return out
}

const extraSubst = "1bioBQ0 -_=\x00\x7f\xff"

func checkAddress(a *acc, nd netDef, hash []byte) {
	kind := "p2wpkh"
	if len(hash) == 32 {
		kind = "p2wsh"
	}
	id := fmt.Sprintf("%s/%s/%x", nd.name, kind, hash)
	c := map[string]string{"network": nd.name, "kind": kind, "hash": ev.Hex(hash)}
	var prog []byte
	var addr common.Address
	var err error
	if kind == "p2wpkh" {
		prog, err = vmutil.P2WPKHProgram(hash)
		if err == nil {
			addr, err = common.NewAddressWitnessPubKeyHash(hash, nd.p)
		}
	} else {
		prog, err = vmutil.P2WSHProgram(hash)
		if err == nil {
			addr, err = common.NewAddressWitnessScriptHash(hash, nd.p)
		}
	}
	a.add("evaluations", 1)
	if err != nil {
		a.violation("program-or-address-construction-failed", id, fmt.Sprintf("%s: %v", id, err), c)
		return
	}
	// the control program is version 0 + one push of the hash
	wantProg := append([]byte{0x00, byte(len(hash))}, hash...)
	if !bytes.Equal(prog, wantProg) {
		a.violation("program-bytes-unexpected", id, fmt.Sprintf("%s: program %x, expected %x", id, prog, wantProg), c)
	}
	isStd := (kind == "p2wpkh" && segwit.IsP2WPKHScript(prog) && !segwit.IsP2WSHScript(prog)) || (kind == "p2wsh" && segwit.IsP2WSHScript(prog) && !segwit.IsP2WPKHScript(prog))
	h2, herr := segwit.GetHashFromStandardProg(prog)
	if !isStd || herr != nil || !bytes.Equal(h2, hash) {
		a.violation("program-not-recognised-as-its-kind", id, fmt.Sprintf("%s: program %x recognised=%v hash-from-program=%x err=%v", id, prog, isStd, h2, herr), c)
	}
	s := addr.EncodeAddress()
	c["address"] = s
	want := refSegwitAddress(nd.p.Bech32HRPSegwit, 0, hash)
	if s != want || addr.String() != want {
		a.violation("address-differs-from-bip173-reference", id, fmt.Sprintf("%s: EncodeAddress %q, independent encoder %q", id, s, want), c)
		if s == "" {
			return
		}
	}
	if !addr.IsForNet(nd.p) {
		a.violation("address-not-for-its-own-net", id, id, c)
	}
	// decode on its own network -> same program
	roundTrip := func(str, key string) {
		a.add("evaluations", 1)
		d, err := common.DecodeAddress(str, nd.p)
		if err != nil {
			a.violation(key, id, fmt.Sprintf("%s: DecodeAddress(%q) on its own network: %v", id, str, err), c)
			return
		}
		var p2 []byte
		okType := false
		switch t := d.(type) {
		case *common.AddressWitnessPubKeyHash:
			okType = kind == "p2wpkh"
			p2, _ = vmutil.P2WPKHProgram(t.ScriptAddress())
		case *common.AddressWitnessScriptHash:
			okType = kind == "p2wsh"
			p2, _ = vmutil.P2WSHProgram(t.ScriptAddress())
		}
		if !okType || !bytes.Equal(d.ScriptAddress(), hash) || !bytes.Equal(p2, prog) || !d.IsForNet(nd.p) || d.EncodeAddress() != want {
			a.violation(key, id, fmt.Sprintf("%s: DecodeAddress(%q) gives type-ok=%v hash=%x program=%x", id, str, okType, d.ScriptAddress(), p2), c)
		}
	}
	roundTrip(s, "address-does-not-decode-to-its-program")
	roundTrip(strings.ToUpper(s), "all-uppercase-address-does-not-decode-to-its-program")
	a.class("address round trip ok", 1)
	// other networks reject it
	for _, o := range nets {
		if o.name == nd.name {
			continue
		}
		a.add("evaluations", 1)
		if d, err := common.DecodeAddress(s, o.p); err == nil {
			a.violation("address-accepted-on-another-network", id, fmt.Sprintf("%s: %q decodes on network %s to %x", id, s, o.name, d.ScriptAddress()), c)
		} else {
			a.class("other network: "+errClass(err), 1)
		}
	}
	// every single-character substitution
	sepIdx := strings.IndexByte(s, '1')
	for pos := 0; pos < len(s); pos++ {
		orig := s[pos]
		var subs []byte
		for i := 0; i < len(refCharset); i++ {
			if refCharset[i] != orig {
				subs = append(subs, refCharset[i])
			}
		}
		if orig >= 'a' && orig <= 'z' {
			subs = append(subs, orig-32) // case change
		}
		for i := 0; i < len(extraSubst); i++ {
			if extraSubst[i] != orig && bytes.IndexByte(subs, extraSubst[i]) < 0 {
				subs = append(subs, extraSubst[i])
			}
		}
		for _, ch := range subs {
			t := s[:pos] + string([]byte{ch}) + s[pos+1:]
			targets := []netDef{nd}
			if pos <= sepIdx { // a changed prefix could name another network
				targets = nets
			}
			for _, o := range targets {
				a.add("evaluations", 1)
				a.add("substitutions", 1)
				var d common.Address
				var err error
				guard(a, "address-decoder-panic", t, func() { d, err = common.DecodeAddress(t, o.p) })
				if err == nil && d != nil {
					cc := map[string]string{"network": nd.name, "kind": kind, "hash": ev.Hex(hash), "address": s, "substituted": t, "position": fmt.Sprint(pos), "decoded_on": o.name, "decoded_hash": ev.Hex(d.ScriptAddress())}
					where := "data"
					if pos < sepIdx {
						where = "hrp"
					} else if pos == sepIdx {
						where = "separator"
					} else if pos >= len(s)-6 {
						where = "checksum"
					}
					a.violation("substituted-"+where+"-character-accepted", id+fmt.Sprintf("/%03d/%02x", pos, ch), fmt.Sprintf("%s: address %q with character %d changed to %q is accepted on %s", id, s, pos, string([]byte{ch}), o.name), cc)
					continue
				}
				cl := errClass(err)
				a.class("substitution: "+cl, 1)
				if strings.HasPrefix(cl, "checksum failed") {
					a.mu.Lock()
					a.nontriv++
					a.mu.Unlock()
				}
			}
		}
	}
}

func sectionAddresses(a *acc, thorough bool) {
	type job struct {
		nd   netDef
		hash []byte
	}
	var jobs []job
	for _, nd := range nets {
		for _, size := range []int{20, 32} {
			for _, h := range programs(size, thorough) {
				jobs = append(jobs, job{nd, h})
			}
		}
	}
	a.add("addresses", len(jobs))
	ch := make(chan job, len(jobs))
	for _, j := range jobs {
		ch <- j
	}
	close(ch)
	var wg sync.WaitGroup
	for w := 0; w < runtime.NumCPU(); w++ {
		wg.Add(1)
		go func() {
			defer wg.Done()
			la := newAcc()
			defer a.merge(la)
			for j := range ch {
				checkAddress(la, j.nd, j.hash)
			}
		}()
	}
	wg.Wait()
	// wrong program sizes must not yield an address
	for _, nd := range nets {
		for _, n := range []int{0, 1, 19, 21, 31, 33, 40, 41} {
			a.add("evaluations", 2)
			if ad, err := common.NewAddressWitnessPubKeyHash(make([]byte, n), nd.p); err == nil && n != 20 {
				a.violation("address-constructed-for-wrong-hash-size", fmt.Sprint(n), fmt.Sprintf("NewAddressWitnessPubKeyHash accepted %d bytes: %v", n, ad), nil)
			}
			if ad, err := common.NewAddressWitnessScriptHash(make([]byte, n), nd.p); err == nil && n != 32 {
				a.violation("address-constructed-for-wrong-hash-size", fmt.Sprint(n), fmt.Sprintf("NewAddressWitnessScriptHash accepted %d bytes: %v", n, ad), nil)
			}
		}
	}
}

// ---------------------------------------------------------------- B: bech32 / base32 round trips

func patterned(maxLen int) [][]byte {
	var out [][]byte
	for n := 0; n <= maxLen; n++ {
		for _, f := range []func(i int) byte{
			func(i int) byte { return 0 },
			func(i int) byte { return 0xff },
			func(i int) byte { return byte(i + 1) },
			func(i int) byte { return 0xa5 ^ byte(i*37) },
			func(i int) byte {
				if i == n-1 {
					return 0x01
				}
				return 0
			},
			func(i int) byte {
				if i == 0 {
					return 0x80
				}
				return 0
			},
		} {
			b := make([]byte, n)
			for i := range b {
				b[i] = f(i)
			}
			out = append(out, b)
		}
	}
	return out
}

func allShort(maxLen int, radix int) [][]byte {
	out := [][]byte{{}}
	prev := [][]byte{{}}
	for l := 1; l <= maxLen; l++ {
		var cur [][]byte
		for _, p := range prev {
			for v := 0; v < radix; v++ {
				cur = append(cur, append(append([]byte(nil), p...), byte(v)))
			}
		}
		out = append(out, cur...)
		prev = cur
	}
	return out
}

func sectionCodecs(a *acc) {
	byteInputs := append(allShort(2, 256), patterned(40)...)
	// --- base32 (four encodings), reference = Go standard library
	type encPair struct {
		name string
		e    *base32.Encoding
		ref  *stdbase32.Encoding
	}
	encs := []encPair{
		{"std", base32.StdEncoding, stdbase32.StdEncoding},
		{"hex", base32.HexEncoding, stdbase32.HexEncoding},
		{"std-nopad", base32.StdEncoding.WithPadding(base32.NoPadding), stdbase32.StdEncoding.WithPadding(stdbase32.NoPadding)},
		{"hex-nopad", base32.HexEncoding.WithPadding(base32.NoPadding), stdbase32.HexEncoding.WithPadding(stdbase32.NoPadding)},
	}
	for _, ep := range encs {
		for _, in := range byteInputs {
			id := ep.name + "/" + ev.Hex(in)
			c := map[string]string{"encoding": ep.name, "input_hex": ev.Hex(in)}
			guard(a, "base32-panic-on-round-trip", id, func() {
				s := ep.e.EncodeToString(in)
				a.add("evaluations", 3)
				if want := ep.ref.EncodeToString(in); s != want {
					a.violation("base32-encoding-differs-from-rfc4648-reference", id, fmt.Sprintf("base32 %s of %x is %q, standard library gives %q", ep.name, in, s, want), c)
				}
				back, err := ep.e.DecodeString(s)
				if err != nil || !bytes.Equal(back, in) {
					a.violation("base32-round-trip-broken", id, fmt.Sprintf("base32 %s: decode(encode(%x)) = %x, err=%v", ep.name, in, back, err), c)
				}
				// streaming interfaces
				var buf bytes.Buffer
				w := base32.NewEncoder(ep.e, &buf)
				w.Write(in)
				w.Close()
				nopad := strings.HasSuffix(ep.name, "nopad")
				if buf.String() != s {
					key := "base32-stream-encoder-differs"
					if nopad && len(buf.String()) == (len(in)+4)/5*8 {
						key = "base32-nopadding-stream-encoder-emits-whole-quantum"
					}
					a.violation(key, id, fmt.Sprintf("base32 %s: stream encoder (NewEncoder, Write, Close) of %x gives %q, EncodeToString gives %q", ep.name, in, buf.String(), s), c)
				}
				got, err := ioutil.ReadAll(base32.NewDecoder(ep.e, strings.NewReader(s)))
				if err != nil || !bytes.Equal(got, in) {
					key := "base32-stream-round-trip-broken"
					if nopad && len(in)%5 != 0 && len(got) == len(in)/5*5 && bytes.Equal(got, in[:len(got)]) {
						key = "base32-nopadding-stream-decoder-loses-final-partial-quantum"
					}
					a.violation(key, id, fmt.Sprintf("base32 %s: stream decode (NewDecoder) of %q = %x err=%v, want %x", ep.name, s, got, err, in), c)
				}
				a.class("base32 round trip ok", 1)
			})
		}
	}
	// --- bit regrouping 8 -> 5 -> 8
	for _, in := range byteInputs {
		id := ev.Hex(in)
		c := map[string]string{"input_hex": id}
		guard(a, "convertbits-panic", id, func() {
			a.add("evaluations", 2)
			five, err := bech32.ConvertBits(in, 8, 5, true)
			if err != nil || !bytes.Equal(five, ref8to5(in)) {
				a.violation("convertbits-differs-from-reference", id, fmt.Sprintf("ConvertBits(%x,8,5,pad) = %x err=%v, reference %x", in, five, err, ref8to5(in)), c)
				return
			}
			back, err := bech32.ConvertBits(five, 5, 8, false)
			if err != nil || !bytes.Equal(back, in) {
				a.violation("convertbits-round-trip-broken", id, fmt.Sprintf("ConvertBits 5->8 of %x = %x err=%v, want %x", five, back, err, in), c)
			}
			a.class("bit regrouping round trip ok", 1)
		})
	}
	// --- bech32 over 5-bit strings
	var fiveInputs [][]byte
	fiveInputs = append(fiveInputs, allShort(2, 32)...)
	for _, p := range patterned(40) {
		fiveInputs = append(fiveInputs, ref8to5(p))
	}
	for _, hrp := range []string{"a", "bn", "tn", "sn", "bc", "x-y_z", "~!", "abcdefgh"} {
		for _, in := range fiveInputs {
			if len(hrp)+1+len(in)+6 > 90 {
				continue
			}
			id := hrp + "/" + ev.Hex(in)
			c := map[string]string{"hrp": hrp, "data_5bit_hex": ev.Hex(in)}
			guard(a, "bech32-panic-on-round-trip", id, func() {
				a.add("evaluations", 2)
				s, err := bech32.Bech32Encode(hrp, append([]byte(nil), in...))
				want := refBech32(hrp, in)
				if err != nil || s != want {
					a.violation("bech32-encoding-differs-from-bip173-reference", id, fmt.Sprintf("Bech32Encode(%q,%x) = %q err=%v, independent encoder %q", hrp, in, s, err, want), c)
					return
				}
				h2, d2, err := bech32.Bech32Decode(s)
				if err != nil || h2 != hrp || !bytes.Equal(d2, in) {
					a.violation("bech32-round-trip-broken", id, fmt.Sprintf("Bech32Decode(%q) = (%q,%x,%v), want (%q,%x)", s, h2, d2, err, hrp, in), c)
				}
				a.class("bech32 round trip ok", 1)
			})
		}
	}
	// values that are not 5-bit groups must be refused by the encoder
	for _, v := range []byte{32, 33, 255} {
		a.add("evaluations", 1)
		if s, err := bech32.Bech32Encode("bn", []byte{0, v}); err == nil {
			a.violation("bech32-encodes-out-of-range-group", fmt.Sprint(v), fmt.Sprintf("Bech32Encode accepted data value %d: %q", v, s), nil)
		}
	}
}

// ---------------------------------------------------------------- C: mnemonics

var languages = []struct {
	code  string
	words []string
}{
	{"en", wordlists.English}, {"zh_CN", wordlists.ChineseSimplified}, {"zh_TW", wordlists.ChineseTraditional},
	{"it", wordlists.Italian}, {"ja", wordlists.Japanese}, {"ko", wordlists.Korean}, {"es", wordlists.Spanish},
}

func checkMnemonic(a *acc, lang string, words []string, entropy []byte) {
	id := lang + "/" + ev.Hex(entropy)
	c := map[string]string{"language": lang, "entropy": ev.Hex(entropy)}
	guard(a, "mnemonic-panic-on-round-trip", id, func() {
		a.add("evaluations", 4)
		a.add("mnemonics", 1)
		m, err := mnemonic.NewMnemonic(append([]byte(nil), entropy...), lang)
		want := refMnemonic(entropy, words)
		if err != nil || m != want {
			a.violation("mnemonic-differs-from-bip39-reference", id, fmt.Sprintf("NewMnemonic(%x,%s) = %q err=%v, independent encoder %q", entropy, lang, m, err, want), c)
			return
		}
		c["mnemonic"] = m
		if !mnemonic.IsMnemonicValid(m, lang) {
			a.violation("own-mnemonic-reported-invalid", id, fmt.Sprintf("IsMnemonicValid(%q,%s) = false", m, lang), c)
		}
		back, err := mnemonic.EntropyFromMnemonic(m, lang)
		if err != nil || !bytes.Equal(back, entropy) {
			a.violation("mnemonic-round-trip-broken-entropyfrommnemonic", id, fmt.Sprintf("EntropyFromMnemonic(NewMnemonic(%x)) = %x err=%v", entropy, back, err), c)
		}
		raw, err := mnemonic.MnemonicToByteArray(m, lang, true)
		if err != nil || !bytes.Equal(raw, entropy) {
			a.violation("mnemonic-round-trip-broken-mnemonictobytearray", id, fmt.Sprintf("MnemonicToByteArray(NewMnemonic(%x),raw) = %x err=%v", entropy, raw, err), c)
		}
		a.class("mnemonic round trip ok", 1)
	})
}

func sectionMnemonics(a *acc, thorough bool) {
	var wg sync.WaitGroup
	for _, l := range languages {
		wg.Add(1)
		go func(code string, words []string) {
			defer wg.Done()
			parent := a
			a := newAcc()
			defer parent.merge(a)
			// duplicate words would make decoding ambiguous
			seen := map[string]int{}
			for i, w := range words {
				if j, dup := seen[w]; dup {
					a.violation("wordlist-has-duplicate-word", code, fmt.Sprintf("language %s: word %q at indices %d and %d", code, w, j, i), nil)
				}
				seen[w] = i
			}
			for _, size := range []int{16, 20, 24, 28, 32} {
				var ents [][]byte
				for _, p := range patterned(size) {
					if len(p) == size {
						ents = append(ents, p)
					}
				}
				// every single-bit-set entropy (thorough), every 8th bit (quick)
				step := 13
				if thorough {
					step = 1
				}
				for bit := 0; bit < size*8; bit += step {
					e := make([]byte, size)
					e[bit/8] = 1 << uint(7-bit%8)
					ents = append(ents, e)
				}
				for _, e := range ents {
					checkMnemonic(a, code, words, e)
				}
			}
			// every word of the list: index v in the first and in the last full word position
			stepW := 1
			if !thorough {
				stepW = 61
				if code == "en" {
					stepW = 7
				}
			}
			for v := 0; v < 2048; v += stepW {
				e := new(big.Int).Lsh(big.NewInt(int64(v)), 128-11)
				checkMnemonic(a, code, words, leftPad(e.Bytes(), 16))
				if thorough {
					e2 := new(big.Int).Lsh(big.NewInt(int64(v)), 128-121) // 11th word
					checkMnemonic(a, code, words, leftPad(e2.Bytes(), 16))
				}
			}
		}(l.code, l.words)
	}
	wg.Wait()
	// entropy sizes that are not allowed must be refused, not crash
	for _, n := range []int{0, 1, 4, 12, 15, 17, 31, 33, 36, 40, 64} {
		guard(a, "mnemonic-panic-on-invalid-entropy-size", fmt.Sprint(n), func() {
			a.add("evaluations", 1)
			m, err := mnemonic.NewMnemonic(make([]byte, n), "en")
			if err == nil {
				a.violation("mnemonic-created-for-invalid-entropy-size", fmt.Sprint(n), fmt.Sprintf("NewMnemonic accepted %d bytes of entropy: %q", n, m), nil)
			} else {
				a.class("mnemonic: "+errClass(err), 1)
			}
		})
	}
}

func leftPad(b []byte, n int) []byte {
	if len(b) >= n {
		return b
	}
	return append(make([]byte, n-len(b)), b...)
}

// ---------------------------------------------------------------- D: hostile strings

var hostileAlphabet = []byte{'1', 'q', 'b', 'Q', '0', '2', 'A', '=', ' ', '\n', 0x00, 0xff}

func hostileStrings(maxLen int) []string {
	var out []string
	for _, b := range allShort(maxLen, len(hostileAlphabet)) {
		s := make([]byte, len(b))
		for i, v := range b {
			s[i] = hostileAlphabet[v]
		}
		out = append(out, string(s))
	}
	return out
}

// splice replaces every window [i, i+w) with w <= maxWin of stem by every hostile string.
func splice(stem string, hs []string, maxWin int, f func(string)) {
	for i := 0; i <= len(stem); i++ {
		for w := 0; w <= maxWin && i+w <= len(stem); w++ {
			for _, h := range hs {
				if w == 0 && h == "" {
					continue
				}
				f(stem[:i] + h + stem[i+w:])
			}
		}
	}
}

func decodeAddressHostile(a *acc, s string, on []netDef) {
	for _, nd := range on {
		guard(a, "address-decoder-panic", s, func() {
			a.add("evaluations", 1)
			a.add("hostile_inputs", 1)
			d, err := common.DecodeAddress(s, nd.p)
			if err == nil {
				if d == nil || d.EncodeAddress() != strings.ToLower(s) {
					a.violation("address-decoder-accepts-string-that-is-not-an-encoding", s, fmt.Sprintf("DecodeAddress(%q,%s) succeeds but the result encodes to %q", s, nd.name, d), map[string]string{"input": s, "input_hex": ev.Hex([]byte(s))})
				}
				a.class("hostile address: accepted (is a valid encoding)", 1)
				return
			}
			a.class("hostile address: "+errClass(err), 1)
		})
	}
}

func decodeBech32Hostile(a *acc, s string) {
	guard(a, "bech32-decoder-panic", s, func() {
		a.add("evaluations", 1)
		a.add("hostile_inputs", 1)
		hrp, data, err := bech32.Bech32Decode(s)
		if err == nil {
			if refBech32(hrp, data) != strings.ToLower(s) {
				a.violation("bech32-decoder-accepts-string-that-is-not-an-encoding", s, fmt.Sprintf("Bech32Decode(%q) = (%q,%x) which encodes to %q", s, hrp, data, refBech32(hrp, data)), map[string]string{"input": s, "input_hex": ev.Hex([]byte(s))})
			}
			a.class("hostile bech32: accepted (is a valid encoding)", 1)
			return
		}
		a.class("hostile bech32: "+errClass(err), 1)
	})
}

func decodeBase32Hostile(a *acc, s string) {
	for name, e := range map[string]*base32.Encoding{"std": base32.StdEncoding, "hex": base32.HexEncoding,
		"std-nopad": base32.StdEncoding.WithPadding(base32.NoPadding)} {
		guard(a, "base32-decoder-panic", name+"/"+s, func() {
			a.add("evaluations", 3)
			a.add("hostile_inputs", 1)
			out, err := e.DecodeString(s)
			dst := make([]byte, e.DecodedLen(len(s)))
			n, err2 := e.Decode(dst, []byte(s))
			if (err == nil) != (err2 == nil) || (err == nil && !bytes.Equal(out, dst[:n])) {
				a.violation("base32-decode-and-decodestring-disagree", name+"/"+s, fmt.Sprintf("base32 %s %q: DecodeString=(%x,%v) Decode=(%x,%v)", name, s, out, err, dst[:n], err2), map[string]string{"input": s, "input_hex": ev.Hex([]byte(s))})
			}
			ioutil.ReadAll(base32.NewDecoder(e, strings.NewReader(s)))
			if err == nil {
				a.class("hostile base32: accepted", 1)
			} else {
				a.class("hostile base32: "+errClass(err), 1)
			}
		})
	}
}

func decodeMnemonicHostile(a *acc, s, lang string) {
	guard(a, "mnemonic-decoder-panic", lang+"/"+s, func() {
		a.add("evaluations", 3)
		a.add("hostile_inputs", 1)
		valid := mnemonic.IsMnemonicValid(s, lang)
		ent, err := mnemonic.EntropyFromMnemonic(s, lang)
		_, err2 := mnemonic.MnemonicToByteArray(s, lang, true)
		switch {
		case err == nil:
			// an accepted sentence must be a sentence of the language: re-encoding its entropy
			// gives the same words
			m2, e2 := mnemonic.NewMnemonic(ent, lang)
			if e2 != nil || strings.Join(strings.Fields(s), " ") != m2 || !valid {
				a.violation("mnemonic-decoder-accepts-sentence-that-is-not-an-encoding", lang+"/"+s, fmt.Sprintf("EntropyFromMnemonic(%q,%s) = %x but that entropy encodes to %q (IsMnemonicValid=%v)", s, lang, ent, m2, valid), map[string]string{"input": s, "language": lang})
			}
			a.class("hostile mnemonic: accepted (is a valid sentence)", 1)
		default:
			a.class("hostile mnemonic: "+errClass(err), 1)
		}
		_ = err2
	})
}

func sectionHostile(a *acc, thorough bool) {
	short := hostileStrings(3)
	if thorough {
		short = hostileStrings(4)
	}
	spliceStrs := hostileStrings(2)
	win := 2
	if thorough {
		spliceStrs = hostileStrings(3)
		win = 3
	}
	a.add("hostile_alphabet_size", len(hostileAlphabet))
	a.add("hostile_short_strings", len(short))
	var wg sync.WaitGroup
	par := func(f func(a *acc)) {
		wg.Add(1)
		go func() {
			defer wg.Done()
			la := newAcc()
			defer a.merge(la)
			f(la)
		}()
	}
	// bare short strings into every decoder
	par(func(a *acc) {
		for _, s := range short {
			decodeAddressHostile(a, s, nets)
			decodeBech32Hostile(a, s)
			decodeBase32Hostile(a, s)
			decodeMnemonicHostile(a, s, "en")
		}
		for _, lang := range []string{"", "e", "en", "xx", "en_US", "zh_CN", "zh_cn", "zz_ZZ", "english", "\x00\x00", "ja"} {
			for _, s := range []string{"", " ", "abandon", strings.Repeat("abandon ", 11) + "about"} {
				decodeMnemonicHostile(a, s, lang)
				guard(a, "mnemonic-panic-on-language", lang, func() { mnemonic.NewMnemonic(make([]byte, 16), lang) })
			}
		}
	})
	// spliced into valid addresses (one per kind and network)
	for _, nd := range nets {
		for _, size := range []int{20, 32} {
			nd, size := nd, size
			par(func(a *acc) {
				h := make([]byte, size)
				for i := range h {
					h[i] = byte(i*7 + 3)
				}
				stem := refSegwitAddress(nd.p.Bech32HRPSegwit, 0, h)
				splice(stem, spliceStrs, win, func(s string) {
					// a string whose first characters differ from the stem may name another network
					if thorough || !strings.HasPrefix(s, stem[:3]) {
						decodeAddressHostile(a, s, nets)
					} else {
						decodeAddressHostile(a, s, []netDef{nd})
					}
				})
				if size == 20 && nd.name == "main" {
					splice(stem, spliceStrs, win, func(s string) { decodeBech32Hostile(a, s) })
					splice(strings.ToUpper(stem), spliceStrs, win, func(s string) { decodeBech32Hostile(a, s) })
				}
			})
		}
	}
	// bech32 strings at the length limits (8 and 90)
	par(func(a *acc) {
		for _, stem := range []string{refBech32("a", nil), refBech32("bn", make([]byte, 81)), refBech32("bn", make([]byte, 82)), refBech32("a", []byte{31})} {
			splice(stem, hostileStrings(2), 2, func(s string) { decodeBech32Hostile(a, s) })
		}
	})
	// base32 stems reaching the padding logic
	par(func(a *acc) {
		for _, stem := range []string{"AAAAAAAA", "AA======", "AAAA====", "AAAAA===", "AAAAAAA=", "MZXW6YTBOI======", "AAAAAAAAAA", "77777777"} {
			splice(stem, spliceStrs, win, func(s string) { decodeBase32Hostile(a, s) })
		}
	})
	// mnemonics: hostile tokens spliced into every window of valid sentences
	par(func(a *acc) {
		tokens := []string{"", "abandon", "zoo", "Abandon", "xyz", "的", " ", "\t", "\n", "abandon\x00", "zoo zoo", "about"}
		for _, size := range []int{16, 20, 24, 28, 32} {
			e := make([]byte, size)
			for i := range e {
				e[i] = byte(i*11 + 5)
			}
			stem := strings.Split(refMnemonic(e, wordlists.English), " ")
			for i := 0; i <= len(stem); i++ {
				for w := 0; w <= 2 && i+w <= len(stem); w++ {
					if !thorough && size != 16 && w != 1 {
						continue
					}
					for _, t1 := range tokens {
						for _, t2 := range append([]string{"\x01none"}, tokens...) {
							if t2 != "\x01none" && (size != 16 || (!thorough && w != 2)) {
								continue
							}
							ins := []string{t1}
							if t2 != "\x01none" {
								ins = append(ins, t2)
							}
							parts := append(append(append([]string(nil), stem[:i]...), ins...), stem[i+w:]...)
							for _, sep := range []string{" ", "  "} {
								if sep == "  " && (t2 != "\x01none" || w != 1) {
									continue
								}
								decodeMnemonicHostile(a, strings.Join(parts, sep), "en")
							}
						}
					}
				}
			}
		}
	})
	wg.Wait()
}

// ---------------------------------------------------------------- E: checksummed bech32 strings that are (mostly) not addresses
//
// Sections A and D only ever hand the address decoder (a) encodings of 20/32-byte programs
// and (b) strings whose checksum is wrong, so everything behind the checksum test of
// DecodeAddress (witness version, regrouping, program length) saw exactly one shape of
// payload. Here every payload of a structured family gets a CORRECT checksum from the
// independent encoder and is decoded on every network; the oracle is an independent
// statement of which (hrp, payload) pairs are addresses.

// ref5to8Strict regroups 5-bit groups into bytes; the unused tail must be < 5 bits of zeroes.
func ref5to8Strict(groups []byte) ([]byte, bool) {
	var bits []byte
	for _, g := range groups {
		for i := 4; i >= 0; i-- {
			bits = append(bits, g>>uint(i)&1)
		}
	}
	n := len(bits) / 8
	out := make([]byte, n)
	for i := 0; i < n*8; i++ {
		out[i/8] |= bits[i] << uint(7-i%8)
	}
	tail := bits[n*8:]
	if len(tail) >= 5 {
		return nil, false
	}
	for _, b := range tail {
		if b != 0 {
			return nil, false
		}
	}
	return out, true
}

// refIsAddress: is the bech32 string with this hrp and payload an address of the network?
func refIsAddress(hrp string, payload []byte, netHrp string) ([]byte, bool) {
	if hrp != netHrp || len(hrp)+1+len(payload)+6 > 90 || len(payload) < 1 || payload[0] != 0 {
		return nil, false
	}
	prog, ok := ref5to8Strict(payload[1:])
	if !ok || (len(prog) != 20 && len(prog) != 32) {
		return nil, false
	}
	return prog, true
}

// payloadFamily: all 5-bit strings up to shortLen, and witness version x program length x
// program pattern x shape of the tail (canonical padding, non-zero padding bits, one more
// group, one group less). Lengths run past the 90-character limit of bech32.
func payloadFamily(shortLen int, thorough bool) [][]byte {
	out := allShort(shortLen, 32)
	pats := []func(i int) byte{func(i int) byte { return byte(i*7 + 3) }}
	if thorough {
		pats = append(pats, func(i int) byte { return 0 }, func(i int) byte { return 0xff })
	}
	for v := 0; v < 32; v++ {
		for n := 0; n <= 52; n++ {
			for _, pf := range pats {
				prog := make([]byte, n)
				for i := range prog {
					prog[i] = pf(i)
				}
				g := ref8to5(prog)
				base := append([]byte{byte(v)}, g...)
				out = append(out, base)
				if len(g) > 0 {
					if pad := uint(len(g)*5 - n*8); pad > 0 {
						ones := append([]byte(nil), base...)
						ones[len(ones)-1] |= 1<<pad - 1
						low := append([]byte(nil), base...)
						low[len(low)-1] |= 1
						out = append(out, ones, low)
					}
					out = append(out, append([]byte(nil), base[:len(base)-1]...))
				}
				out = append(out, append(append([]byte(nil), base...), 0), append(append([]byte(nil), base...), 31))
			}
		}
	}
	return out
}

func checkChecksummed(a *acc, hrp string, payload []byte) {
	lower := refBech32(hrp, payload)
	sepAt := len(hrp)
	forms := []struct{ name, s string }{
		{"lower", lower},
		{"upper", strings.ToUpper(lower)},
		{"hrp-upper-data-lower", strings.ToUpper(lower[:sepAt]) + lower[sepAt:]},
		{"hrp-lower-data-upper", lower[:sepAt] + strings.ToUpper(lower[sepAt:])},
	}
	for fi, f := range forms {
		mixed := f.s != lower && f.s != strings.ToUpper(lower)
		if fi >= 2 && !mixed {
			continue // nothing to change the case of
		}
		if fi == 1 && f.s == lower {
			continue
		}
		c := map[string]string{"hrp": hrp, "payload_5bit_hex": ev.Hex(payload), "form": f.name, "input": f.s}
		id := f.s
		// the bech32 layer: a correctly checksummed string of legal length decodes to (hrp, payload)
		guard(a, "bech32-decoder-panic-on-checksummed-string", id, func() {
			a.add("evaluations", 1)
			h2, d2, err := bech32.Bech32Decode(f.s)
			wantOK := len(f.s) <= 90 && !mixed
			if wantOK && (err != nil || h2 != hrp || !bytes.Equal(d2, payload)) {
				a.violation("bech32-round-trip-broken", id, fmt.Sprintf("Bech32Decode(%q) = (%q,%x,%v), want (%q,%x)", f.s, h2, d2, err, hrp, payload), c)
			}
			if !wantOK && err == nil {
				a.violation("bech32-decoder-accepts-string-that-is-not-an-encoding", id, fmt.Sprintf("Bech32Decode(%q) (length %d, mixed case %v) accepted", f.s, len(f.s), mixed), c)
			}
		})
		for _, nd := range nets {
			guard(a, "address-decoder-panic-on-checksummed-bech32-string", id, func() {
				a.add("evaluations", 1)
				a.add("checksummed_inputs", 1)
				d, err := common.DecodeAddress(f.s, nd.p)
				prog, isAddr := refIsAddress(hrp, payload, nd.p.Bech32HRPSegwit)
				if mixed {
					isAddr = false
				}
				switch {
				case err == nil && !isAddr:
					a.violation("checksummed-bech32-string-that-is-not-an-address-accepted", id, fmt.Sprintf("DecodeAddress(%q,%s) (hrp %q, payload groups %x, %s) is accepted as %v", f.s, nd.name, hrp, payload, f.name, d), c)
				case err != nil && isAddr:
					a.violation("checksummed-address-rejected", id, fmt.Sprintf("DecodeAddress(%q,%s): %v, but it is version 0 with the %d-byte program %x", f.s, nd.name, err, len(prog), prog), c)
				case err == nil:
					_, isPKH := d.(*common.AddressWitnessPubKeyHash)
					_, isSH := d.(*common.AddressWitnessScriptHash)
					if !bytes.Equal(d.ScriptAddress(), prog) || isPKH != (len(prog) == 20) || isSH != (len(prog) == 32) || d.EncodeAddress() != lower || !d.IsForNet(nd.p) {
						a.violation("checksummed-address-decodes-to-another-program", id, fmt.Sprintf("DecodeAddress(%q,%s) = %T %x, want program %x", f.s, nd.name, d, d.ScriptAddress(), prog), c)
					}
					a.class("checksummed string: accepted (is an address of the network)", 1)
				default:
					a.class("checksummed string: "+errClass(err), 1)
				}
			})
		}
	}
}

func sectionChecksummed(a *acc, thorough bool) {
	shortLen := 2
	if thorough {
		shortLen = 3
	}
	fam := payloadFamily(shortLen, thorough)
	a.add("checksummed_payloads", len(fam))
	// the three network prefixes, a foreign one, a one-character one (the address decoder
	// wants more than one), a longer one sharing a network's first characters, one with a
	// '1' inside and one without letters
	hrps := []string{"bn", "tn", "sn", "bc", "b", "bnn", "b1n", "~!"}
	var wg sync.WaitGroup
	for _, hrp := range hrps {
		wg.Add(1)
		go func(hrp string) {
			defer wg.Done()
			la := newAcc()
			defer a.merge(la)
			for _, p := range fam {
				checkChecksummed(la, hrp, p)
			}
		}(hrp)
	}
	wg.Wait()
}

// ---------------------------------------------------------------- main

func main() {
	run := ev.Start("C29", "exploration")

	// anchor the independent encoders on published vectors (BIP-173, BIP-39)
	bip173 := map[string]string{
		"751e76e8199196d454941c45d1b3a323f1433bd6":                         "bc1qw508d6qejxtdg4y5r3zarvary0c5xw7kv8f3t4",
		"1863143c14c5166804bd19203356da136c985678cd4d27a1b8c6329604903262": "bc1qrp33g0q5c5txsp9arysrx4k6zdkfs4nce4xj0gdcccefvpysxf3qccfmv3",
	}
	bc := consensus.Params{Name: "bip173-vector", Bech32HRPSegwit: "bc"}
	for hx, want := range bip173 {
		var prog []byte
		fmt.Sscanf(hx, "%x", &prog)
		if got := refSegwitAddress("bc", 0, prog); got != want {
			ev.Fatal("independent BIP-173 encoder is wrong: %s -> %s, vector %s", hx, got, want)
		}
		var got string
		if len(prog) == 20 {
			ad, _ := common.NewAddressWitnessPubKeyHash(prog, &bc)
			got = ad.EncodeAddress()
		} else {
			ad, _ := common.NewAddressWitnessScriptHash(prog, &bc)
			got = ad.EncodeAddress()
		}
		if got != want {
			run.Violation("bip173-vector-mismatch", fmt.Sprintf("program %s with hrp bc encodes to %q, BIP-173 says %q", hx, got, want), map[string]string{"program": hx})
		}
	}
	if got := refMnemonic(make([]byte, 16), wordlists.English); got != "abandon abandon abandon abandon abandon abandon abandon abandon abandon abandon abandon about" {
		// the encoder is fixed code, the word list is the repository's: a list that is not the BIP-39 English list
		// is outside the statement (round trips); the reference keeps using the same list as the implementation
		run.Capped(fmt.Sprintf("BIP-39 anchor: could not be set up: the repository's English word list does not give the published vector: %s", got))
	}
	if got := refMnemonic(bytes.Repeat([]byte{0x7f}, 16), wordlists.English); got != "legal winner thank year wave sausage worth useful legal winner thank yellow" {
		run.Capped(fmt.Sprintf("BIP-39 anchor: could not be set up: the repository's English word list does not give the published vector: %s", got))
	}

	a := newAcc()
	var wg sync.WaitGroup
	for si, f := range []func(){
		func() { sectionAddresses(a, run.Thorough()) },
		func() { la := newAcc(); sectionCodecs(la); a.merge(la) },
		func() { sectionMnemonics(a, run.Thorough()) },
		func() { sectionHostile(a, run.Thorough()) },
		func() { sectionChecksummed(a, run.Thorough()) },
	} {
		if only := os.Getenv("VERIF_C29_ONLY"); only != "" && only != fmt.Sprint(si) {
			continue // debugging aid: run one section
		}
		wg.Add(1)
		go func(si int, f func()) {
			defer wg.Done()
			t0 := time.Now()
			f()
			if os.Getenv("VERIF_C29_TIMING") != "" {
				fmt.Fprintf(os.Stderr, "section %d: %.1fs\n", si, time.Since(t0).Seconds())
			}
		}(si, f)
	}
	wg.Wait()

	var ck []string
	for k := range a.counts {
		ck = append(ck, k)
	}
	sort.Strings(ck)
	for _, k := range ck {
		run.Add(k, a.counts[k])
	}
	var cl []string
	for k := range a.classes {
		cl = append(cl, k)
	}
	sort.Strings(cl)
	for _, k := range cl {
		run.Outcome(k)
	}
	run.Set("outcome_class_counts", a.classes)
	run.Set("distinct_nontrivial", a.nontriv)
	var vk []string
	for k := range a.viols {
		vk = append(vk, k)
	}
	sort.Strings(vk)
	for _, k := range vk {
		run.Violation(k, a.viols[k].what, a.viols[k].c)
	}
	run.Set("rule", "cases: (network, kind, hash) addresses with hash in {00.., ff.., 01 02 .., every single-bit-set value (thorough: also every single-bit-cleared value)} of 20 and 32 bytes on 3 networks; per address every position x every other bech32 character, the case change and 14 further characters (separator, out-of-charset, upper case, control, high bytes); a changed prefix or separator is tried on all 3 networks. Non-trivial = distinct substituted addresses that got past the length/charset/case stages and were rejected by the checksum itself (measured from the decoder's error). Codecs: all byte strings of length <= 2 and 6 patterns of every length 0..40; mnemonics: 5 entropy sizes x patterns x single-bit entropies x every word index in two positions x 7 languages; hostile: all strings over a 12-character alphabet up to the stated length, alone and spliced into every window of valid encodings. Checksummed strings: hrp in {bn, tn, sn, bc, b, bnn, b1n, ~!} x payload in {all 5-bit strings of length <= 2 (thorough 3)} + {witness version 0..31 x program length 0..52 bytes (crossing the 90-character limit) x program pattern (thorough 3 patterns) x tail in {canonical zero padding, all padding bits set, lowest padding bit set, last group dropped, one more group 0, one more group 31}}, checksum from the independent encoder, x {lower, upper, upper-case hrp with lower-case data, lower-case hrp with upper-case data} x 3 networks; DecodeAddress must not panic and must accept exactly when hrp = network hrp, version = 0 and the groups regroup strictly to 20 or 32 bytes, returning that program.")
	run.Sample(map[string]string{"network": "main", "kind": "p2wpkh", "hash": strings.Repeat("00", 20), "address": refSegwitAddress("bn", 0, make([]byte, 20))})
	run.Sample(map[string]string{"network": "test", "kind": "p2wsh", "hash": strings.Repeat("ff", 32), "address": refSegwitAddress("tn", 0, bytes.Repeat([]byte{0xff}, 32))})
	run.Sample(map[string]string{"substitution": "bn1q... position 5 'q'->'p'", "required": "rejected (checksum)"})
	run.Sample(map[string]string{"substitution": "position 0 'b'->'t' (names the test network)", "required": "rejected on all three networks"})
	run.Sample(map[string]string{"mnemonic": refMnemonic(bytes.Repeat([]byte{0xff}, 32), wordlists.English), "entropy": strings.Repeat("ff", 32)})
	run.Sample(map[string]string{"hostile": "AA=\\n=\\xff== into base32 decoders", "required": "no panic"})
	run.Sample(map[string]string{"checksummed": refBech32("bn", nil) + " (network prefix, empty payload, valid checksum)", "required": "DecodeAddress returns an error, no panic"})
	run.Sample(map[string]string{"checksummed": refBech32("tn", append([]byte{1}, ref8to5(make([]byte, 20))...)) + " (witness version 1, 20-byte program)", "required": "rejected"})
	run.Assume("the BIP-173 and BIP-39 reference encoders of this check are anchored on published vectors; the word lists themselves are data and trusted (checked for duplicates only)")
	run.Assume("Go's encoding/base32 is the RFC 4648 reference for the base32 encoders")
	run.Assume("bech32 human-readable parts are lower case (every caller lower-cases them); an upper-case HRP passed to Bech32Encode is outside the enumerated domain")
	run.Assume("which checksummed bech32 strings are addresses is stated independently as: prefix of the network, at most 90 characters, one case, witness version 0, remaining groups regroup to exactly 20 or 32 bytes with fewer than 5 zero padding bits (BIP-173 rules restricted to the two supported program kinds)")
	run.Assume("single-character corruption means substitution of one character; insertions and deletions are only exercised for 'no panic' and for 'accepted implies it is an encoding'")
	run.Finish()
}
