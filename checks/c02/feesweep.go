// Phase 4 of C02: the fee / gas dimension.
//
// The other phases run every witness with an ample fee. The spending rule must hold for EVERY fee the
// spender chooses: the run limit the program gets is fee/VMGasRate, and a P2WSH redeem script runs as a
// CHECKPREDICATE child that can die of that limit at any of its instructions with the forged signatures,
// the signature hash, the keys or the quorum still on its stack. So every gas level from 0 up to well
// beyond what the honest spend needs (quick: steps of 25 gas, thorough: every level) is tried with
//
//	forged     every signature made by a key that is not in the program (over the right hash)
//	one-forged m-1 valid signatures and one forged (multisig with m >= 2)
//	honest     the valid witness: must be accepted at the top level of the sweep, and once accepted at a
//	           level it must be accepted at every higher level (the statement says nothing about low fees)
//
// The fee is set through output 0, so the transaction id and with it the signature hash change per
// level: every witness is signed again for every level.
package main

import (
	"fmt"

	"github.com/bytom/bytom/consensus"
	"github.com/bytom/bytom/protocol/bc/types"

	"verif/checks/c03/txmut"
)

func (r *runner) feeSweep() {
	p := r.j.p
	step, top := int64(25), int64(16000)
	if r.thorough {
		step = 1
	}
	var inSum, fixedOut uint64
	for _, in := range r.base.Inputs {
		inSum += in.Amount()
	}
	for i, o := range r.base.Outputs {
		if i > 0 {
			fixedOut += o.AssetAmount.Amount
		}
	}
	forgers := make([]signer, p.m)
	for i := range forgers {
		forgers[i] = stdSigner(fmt.Sprintf("forger-%s-%d", p.String(), i))
	}
	acceptedFrom := int64(-1)
	for g := int64(0); g <= top; g += step {
		if r.stop() {
			r.halted = true
			return
		}
		fee := uint64(g * consensus.VMGasRate)
		d := txmut.Clone(r.base)
		setOutputAmount(d, 0, inSum-fixedOut-fee)
		tx := types.NewTx(*d)
		h := sigHash(tx, 0)
		rep := func(kind string) map[string]interface{} {
			return map[string]interface{}{"gas_level": g, "fee": fee, "witness": kind}
		}
		// forged: all signatures by keys outside the program
		var forged [][]byte
		for _, f := range forgers {
			forged = append(forged, f.sign(h))
		}
		dd := txmut.Clone(d)
		setArgs(dd, 0, p.witness(forged))
		r.expect("fee-sweep:forged", false, dd, "accepts-forged-witness-at-some-fee", fmt.Sprintf("every signature by a key outside the program, fee %d (run limit %d gas)", fee, g), rep("forged"))
		// m-1 valid + one forged
		var honest [][]byte
		for i := 0; i < p.m; i++ {
			honest = append(honest, p.keys[i].sign(h))
		}
		if p.m >= 2 {
			mixed := append(append([][]byte{}, honest[:p.m-1]...), forged[0])
			dd = txmut.Clone(d)
			setArgs(dd, 0, p.witness(mixed))
			r.expect("fee-sweep:one-forged", false, dd, "accepts-forged-witness-at-some-fee", fmt.Sprintf("%d valid signatures and one by a key outside the program, fee %d (run limit %d gas)", p.m-1, fee, g), rep("one-forged"))
		}
		// honest: monotone acceptance, accepted at the top
		dd = txmut.Clone(d)
		setArgs(dd, 0, p.witness(honest))
		got := validate(dd)
		r.res.evals++
		r.res.outcomes[got]++
		r.res.groups["fee-sweep:honest"]++
		switch {
		case got == "ok":
			r.res.groupsOK["fee-sweep:honest"]++
			if acceptedFrom < 0 {
				acceptedFrom = g
			}
		case acceptedFrom >= 0:
			r.res.addViol(viol{"valid-witness-rejected-at-higher-fee", fmt.Sprintf("%s: the valid witness is accepted with a run limit of %d gas and rejected (%s) with %d", r.j, acceptedFrom, got, g), rep("honest")})
			acceptedFrom = -1
		}
	}
	if acceptedFrom < 0 {
		r.res.addViol(viol{"valid-witness-rejected:fee-sweep", fmt.Sprintf("%s: the valid witness is not accepted with a run limit of %d gas", r.j, top), nil})
	}
}

func setOutputAmount(d *types.TxData, i int, amount uint64) {
	o := txmut.CloneOutput(d.Outputs[i])
	o.AssetAmount.Amount = amount
	d.Outputs[i] = o
}
