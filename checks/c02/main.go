// C02 — outputs locked by standard programs are spendable only with a matching witness.
//
// For P2WPKH, P2WSH(m-of-n multisig) and the bare multisig program, for spend and veto inputs:
//   - every sequence (with repetition) of m-1 and m signers out of n as witness signatures, and every
//     ordered selection of m distinct signers with one more signature (any signer) below it;
//     the statement decides: valid iff the last m signatures are by strictly increasing signers
//     (the key order committed in the program) - an extra leading item is ignored junk,
//   - on one valid spend per program: every single-bit flip of every signature, of the public key /
//     redeem script carried in the witness, non-canonical S+L signatures, a signature by an outside key,
//     a signature over the sighash of another input and of another transaction, wrong witness layouts,
//   - every committed-field mutation of the transaction (the C03 list, package txmut): the signature
//     made before the mutation must stop validating; re-signing shows the signature was decisive.
//
// Oracle: exactly the enumerated-valid witnesses validate. Signatures are produced with the standard
// library (and chainkd for one wallet-style key) over an own SHA3(inputID || txID).
package main

import (
	"crypto/ed25519"
	"crypto/sha256"
	"fmt"
	"math/big"
	"runtime"
	"sort"
	"strings"
	"sync"

	"golang.org/x/crypto/ripemd160"
	"golang.org/x/crypto/sha3"

	"github.com/bytom/bytom/consensus"
	"github.com/bytom/bytom/crypto/ed25519/chainkd"
	"github.com/bytom/bytom/errors"
	"github.com/bytom/bytom/protocol/bc"
	"github.com/bytom/bytom/protocol/bc/types"
	"github.com/bytom/bytom/protocol/validation"
	"github.com/bytom/bytom/protocol/vm/vmutil"

	"verif/checks/c03/txmut"
	"verif/lib/ev"
)

// ---------------------------------------------------------------------------
// keys and programs

type signer struct {
	name string
	pub  []byte
	sign func(msg []byte) []byte
}

func stdSigner(tag string) signer {
	seed := sha256.Sum256([]byte("c02-key-" + tag))
	priv := ed25519.NewKeyFromSeed(seed[:])
	return signer{name: "std:" + tag, pub: []byte(priv.Public().(ed25519.PublicKey)), sign: func(msg []byte) []byte { return ed25519.Sign(priv, msg) }}
}

func kdSigner(tag string) signer {
	xprv := chainkd.RootXPrv([]byte("c02-xprv-" + tag))
	return signer{name: "chainkd:" + tag, pub: []byte(xprv.XPub().PublicKey()), sign: func(msg []byte) []byte { return xprv.Sign(msg) }}
}

type program struct {
	kind    string // p2wpkh, p2wsh, bare
	m, n    int
	keys    []signer
	control []byte
	redeem  []byte // p2wpkh: the public key; p2wsh: the multisig script; bare: nil
}

func (p program) String() string {
	if p.kind == "p2wpkh" {
		return "p2wpkh(" + p.keys[0].name + ")"
	}
	return fmt.Sprintf("%s(%d-of-%d)", p.kind, p.m, p.n)
}

// builderErr: a program builder of the repository refused well-formed arguments. The statement is
// about spending, not about the builders (C09): the run is capped, no verdict either way.
var builderErr error

func must(b []byte, err error) []byte {
	if err != nil && builderErr == nil {
		builderErr = err
	}
	return b
}

func mkP2WPKH(k signer) program {
	h := ripemd160.New()
	h.Write(k.pub)
	return program{kind: "p2wpkh", m: 1, n: 1, keys: []signer{k}, control: must(vmutil.P2WPKHProgram(h.Sum(nil))), redeem: k.pub}
}

func mkMulti(kind string, m, n int) program {
	var keys []signer
	var pubs []ed25519.PublicKey
	for i := 0; i < n; i++ {
		k := stdSigner(fmt.Sprintf("%s-%d-%d-%d", kind, m, n, i))
		keys = append(keys, k)
		pubs = append(pubs, ed25519.PublicKey(k.pub))
	}
	script := must(vmutil.P2SPMultiSigProgram(pubs, m))
	p := program{kind: kind, m: m, n: n, keys: keys}
	if kind == "bare" {
		p.control = script
	} else {
		h := sha3.Sum256(script)
		p.control = must(vmutil.P2WSHProgram(h[:]))
		p.redeem = script
	}
	return p
}

// ---------------------------------------------------------------------------
// transaction under test

var btm = *consensus.BTMAssetID

func seq(n int, start byte) []byte {
	b := make([]byte, n)
	for i := range b {
		b[i] = start + byte(i)
	}
	return b
}

const ourSourceTag = 0xc02

// baseTx: input 0 is locked by the program under test, input 1 by OP_TRUE.
func baseTx(p program, veto bool) (*types.TxData, error) {
	d := &types.TxData{Version: 1, TimeRange: 1000}
	src := bc.Hash{V0: ourSourceTag, V1: 1, V2: 2, V3: 3}
	if veto {
		d.Inputs = append(d.Inputs, types.NewVetoInput(nil, src, btm, 1000000000, 1, p.control, seq(64, 0x40), nil))
	} else {
		d.Inputs = append(d.Inputs, types.NewSpendInput(nil, src, btm, 1000000000, 1, p.control, nil))
	}
	d.Inputs = append(d.Inputs, types.NewSpendInput(nil, bc.Hash{V0: 0xfee, V1: 9}, btm, 1000000000, 0, []byte{0x51}, [][]byte{{0x05}}))
	d.Outputs = append(d.Outputs,
		types.NewOriginalTxOutput(btm, 1000000000, append([]byte{0x00, 0x14}, seq(20, 0x70)...), [][]byte{seq(3, 1)}),
		types.NewVoteOutput(btm, 500000000, []byte{0x51}, seq(64, 0x11), nil),
		types.NewOriginalTxOutput(btm, 1000, []byte{0x6a, 0x01, 0x07}, nil),
	)
	b, err := d.MarshalText()
	if err != nil {
		return nil, err
	}
	d.SerializedSize = uint64(len(b) / 2)
	return d, nil
}

// own signature hash: SHA3-256(input entry id || transaction id)
func sigHash(tx *types.Tx, input int) []byte {
	h := sha3.New256()
	h.Write(tx.InputIDs[input].Bytes())
	h.Write(tx.ID.Bytes())
	return h.Sum(nil)
}

func setArgs(d *types.TxData, input int, args [][]byte) {
	d.Inputs[input].SetArguments(args)
}

var noContracts = func(prog []byte) ([]byte, error) { return nil, fmt.Errorf("no contracts in C02") }

func validate(d *types.TxData) (class string) {
	defer func() {
		if r := recover(); r != nil {
			class = fmt.Sprintf("panic: %v", r)
		}
	}()
	tx := types.NewTx(*d)
	blk := &bc.Block{BlockHeader: &bc.BlockHeader{Height: 100, Version: 1}}
	_, err := validation.ValidateTx(tx.Tx, blk, noContracts)
	if err == nil {
		return "ok"
	}
	root := errors.Root(err).Error()
	if i := strings.Index(root, ":"); i > 0 {
		root = root[:i]
	}
	return root
}

// witness for a list of signatures
func (p program) witness(sigs [][]byte) [][]byte {
	w := append([][]byte{}, sigs...)
	if p.redeem != nil {
		w = append(w, p.redeem)
	}
	return w
}

// ---------------------------------------------------------------------------

type viol struct {
	key, what string
	replay    interface{}
}

type job struct {
	p    program
	veto bool
}

func (j job) String() string {
	t := "spend"
	if j.veto {
		t = "veto"
	}
	return t + " of " + j.p.String()
}

type result struct {
	evals          int
	expectedValid  int
	outcomes       map[string]int
	groups         map[string]int
	groupsOK       map[string]int // how many cases of the group validated
	viols          []viol
	capReason      string // a part that could not be set up (run reported exhaustive:false)
	decisive       int    // committed-field mutations where the stale signature failed and the re-signed transaction validated
	notResignable  int
	observedFields map[string]int // C03-known fields the signature does not cover
	sample         []interface{}
}

type runner struct {
	j        job
	res      *result
	base     *types.TxData
	baseTx   *types.Tx
	sigs     [][]byte // signature of signer i over the base sighash of input 0
	stop     func() bool
	halted   bool
	thorough bool
}

func (r *runner) expect(group string, valid bool, d *types.TxData, violKey, what string, rep map[string]interface{}) string {
	got := validate(d)
	r.res.evals++
	r.res.outcomes[got]++
	r.res.groups[group]++
	if got == "ok" {
		r.res.groupsOK[group]++
	}
	if valid {
		r.res.expectedValid++
	}
	if (got == "ok") != valid {
		if rep == nil {
			rep = map[string]interface{}{}
		}
		rep["job"] = r.j.String()
		rep["group"] = group
		rep["expected_valid"] = valid
		rep["got"] = got
		if raw, err := d.MarshalText(); err == nil {
			rep["raw_tx"] = string(raw)
		}
		if valid {
			violKey = "valid-witness-rejected:" + group
		}
		r.res.addViol(viol{violKey, fmt.Sprintf("%s: %s (expected valid=%v, got %s)", r.j, what, valid, got), rep})
	}
	return got
}

func (res *result) addViol(v viol) {
	for _, o := range res.viols {
		if o.key == v.key {
			return
		}
	}
	res.viols = append(res.viols, v)
}

func (r *runner) withArgs(args [][]byte) *types.TxData {
	d := txmut.Clone(r.base)
	setArgs(d, 0, args)
	return d
}

// --- phase 1: signer sequences

func strictlyIncreasing(s []int) bool {
	for i := 1; i < len(s); i++ {
		if s[i] <= s[i-1] {
			return false
		}
	}
	return true
}

func (r *runner) sequences() {
	p := r.j.p
	if p.kind == "p2wpkh" {
		return
	}
	for _, length := range []int{p.m - 1, p.m, p.m + 1} {
		if length < 0 {
			continue
		}
		idx := make([]int, length)
		var rec func(pos int)
		n := 0
		rec = func(pos int) {
			if r.halted {
				return
			}
			if pos == length {
				n++
				if n%64 == 0 && r.stop() {
					r.halted = true
					return
				}
				var sigs [][]byte
				for _, k := range idx {
					sigs = append(sigs, r.sigs[k])
				}
				valid := length >= p.m && strictlyIncreasing(idx[length-p.m:])
				key := "accepts-unordered-signers"
				switch {
				case length < p.m:
					key = "accepts-too-few-signatures"
				case hasRepeat(idx[length-p.m:]):
					key = "accepts-repeated-signer"
				}
				group := fmt.Sprintf("signers-len-m%+d", length-p.m)
				r.expect(group, valid, r.withArgs(p.witness(sigs)), key, fmt.Sprintf("signer sequence %v", idx), map[string]interface{}{"signers": append([]int{}, idx...)})
				return
			}
			for k := 0; k < p.n; k++ {
				// m+1 signatures: one extra signature (any signer) below every ordered selection of
				// m distinct signers; repetitions among the deciding m are exhausted at length m
				if length == p.m+1 && pos >= 1 && containsInt(idx[1:pos], k) {
					continue
				}
				idx[pos] = k
				rec(pos + 1)
			}
		}
		rec(0)
	}
}

func containsInt(s []int, v int) bool {
	for _, x := range s {
		if x == v {
			return true
		}
	}
	return false
}

func hasRepeat(s []int) bool {
	seen := map[int]bool{}
	for _, v := range s {
		if seen[v] {
			return true
		}
		seen[v] = true
	}
	return false
}

// --- phase 2: witness mutations of one valid spend

var groupOrderL, _ = new(big.Int).SetString("7237005577332262213973186563042994240857116359379907606001950938285454250989", 10)

// S+L: the same signature in non-canonical form
func malleate(sig []byte) []byte {
	s := make([]byte, 32)
	for i := 0; i < 32; i++ {
		s[i] = sig[63-i] // little endian -> big endian
	}
	v := new(big.Int).SetBytes(s)
	v.Add(v, groupOrderL)
	b := v.Bytes()
	if len(b) > 32 {
		return nil
	}
	out := append([]byte{}, sig[:32]...)
	le := make([]byte, 32)
	for i := 0; i < len(b); i++ {
		le[i] = b[len(b)-1-i]
	}
	return append(out, le...)
}

func (r *runner) validSigs() [][]byte {
	var sigs [][]byte
	for i := 0; i < r.j.p.m; i++ {
		sigs = append(sigs, r.sigs[i])
	}
	return sigs
}

func cpSigs(s [][]byte) [][]byte {
	out := make([][]byte, len(s))
	for i := range s {
		out[i] = append([]byte{}, s[i]...)
	}
	return out
}

func (r *runner) witnessMutations() {
	p := r.j.p
	valid := r.validSigs()
	r.expect("base-valid-spend", true, r.withArgs(p.witness(valid)), "", "the reference valid spend", nil)
	// leading junk is ignored
	r.expect("leading-junk", true, r.withArgs(append([][]byte{{0xde, 0xad}}, p.witness(valid)...)), "", "valid witness below an extra bottom item", nil)

	// every single-bit flip of every signature
	for s := range valid {
		for bit := 0; bit < 512; bit++ {
			if bit%128 == 0 && r.stop() {
				r.halted = true
				return
			}
			sigs := cpSigs(valid)
			sigs[s][bit/8] ^= 1 << uint(bit%8)
			r.expect("sig-bitflip", false, r.withArgs(p.witness(sigs)), "accepts-bitflipped-signature", fmt.Sprintf("signature %d bit %d flipped", s, bit), map[string]interface{}{"sig": s, "bit": bit})
		}
		// non-canonical S
		if ms := malleate(valid[s]); ms != nil {
			sigs := cpSigs(valid)
			sigs[s] = ms
			r.expect("sig-noncanonical-S", false, r.withArgs(p.witness(sigs)), "accepts-noncanonical-signature", fmt.Sprintf("signature %d with S+L", s), nil)
		}
		// truncated / extended / empty
		for _, lv := range []struct {
			name string
			f    func([]byte) []byte
		}{
			{"droplast", func(b []byte) []byte { return b[:63] }},
			{"append00", func(b []byte) []byte { return append(append([]byte{}, b...), 0) }},
			{"empty", func(b []byte) []byte { return []byte{} }},
		} {
			sigs := cpSigs(valid)
			sigs[s] = lv.f(sigs[s])
			r.expect("sig-length", false, r.withArgs(p.witness(sigs)), "accepts-wrong-length-signature", fmt.Sprintf("signature %d %s", s, lv.name), nil)
		}
		// a key outside the committed set, over the right hash
		out := stdSigner("outsider")
		sigs := cpSigs(valid)
		sigs[s] = out.sign(sigHash(r.baseTx, 0))
		r.expect("sig-outsider", false, r.withArgs(p.witness(sigs)), "accepts-outsider-signature", fmt.Sprintf("signature %d by an uncommitted key", s), nil)
		// the right key over the sighash of the other input
		sigs = cpSigs(valid)
		sigs[s] = p.keys[s].sign(sigHash(r.baseTx, 1))
		r.expect("sig-other-input", false, r.withArgs(p.witness(sigs)), "accepts-signature-for-other-input", fmt.Sprintf("signature %d over the sighash of input 1", s), nil)
		// the right key over the same input of another transaction
		other := txmut.Clone(r.base)
		other.Outputs[0].Amount--
		sigs = cpSigs(valid)
		sigs[s] = p.keys[s].sign(sigHash(types.NewTx(*other), 0))
		r.expect("sig-other-tx", false, r.withArgs(p.witness(sigs)), "accepts-signature-for-other-tx", fmt.Sprintf("signature %d over another transaction", s), nil)
		// the right key over the bare transaction id / the bare input id (not the sighash)
		sigs = cpSigs(valid)
		sigs[s] = p.keys[s].sign(r.baseTx.ID.Bytes())
		r.expect("sig-over-txid", false, r.withArgs(p.witness(sigs)), "accepts-signature-over-txid", fmt.Sprintf("signature %d over the tx id", s), nil)
	}

	// every single-bit flip of the public key / redeem script carried in the witness
	if p.redeem != nil {
		for bit := 0; bit < len(p.redeem)*8; bit++ {
			if bit%128 == 0 && r.stop() {
				r.halted = true
				return
			}
			red := append([]byte{}, p.redeem...)
			red[bit/8] ^= 1 << uint(bit%8)
			key, group := "accepts-bitflipped-redeem-script", "redeem-script-bitflip"
			if p.kind == "p2wpkh" {
				key, group = "accepts-bitflipped-pubkey", "pubkey-bitflip"
			}
			r.expect(group, false, r.withArgs(append(cpSigs(valid), red)), key, fmt.Sprintf("witness %s bit %d flipped", group, bit), map[string]interface{}{"bit": bit})
		}
		for _, lv := range []struct {
			name string
			red  []byte
		}{{"droplast", p.redeem[:len(p.redeem)-1]}, {"append00", append(append([]byte{}, p.redeem...), 0)}, {"empty", []byte{}}} {
			r.expect("redeem-length", false, r.withArgs(append(cpSigs(valid), lv.red)), "accepts-wrong-length-redeem", "witness pubkey/script "+lv.name, nil)
		}
		// missing pubkey/script, swapped order
		r.expect("layout", false, r.withArgs(cpSigs(valid)), "accepts-witness-without-redeem", "witness without the pubkey/script", nil)
		r.expect("layout", false, r.withArgs(append([][]byte{p.redeem}, valid...)), "accepts-swapped-witness", "pubkey/script below the signatures", nil)
		r.expect("layout", false, r.withArgs([][]byte{p.redeem}), "accepts-witness-without-signature", "witness with the pubkey/script only", nil)
	}
	r.expect("layout", false, r.withArgs(nil), "accepts-empty-witness", "empty witness", nil)

	// two inputs locked by the same program and keys: every signature is bound to its own input
	{
		d2 := txmut.Clone(r.base)
		sib := txmut.CloneInput(r.base.Inputs[0])
		sc, _ := spendCommitment(sib)
		sc.SourceID = bc.Hash{V0: ourSourceTag, V1: 77, V2: 2, V3: 3}
		d2.Inputs[1] = sib
		tx2 := types.NewTx(*d2)
		var w [2][][]byte
		for in := 0; in < 2; in++ {
			var sigs [][]byte
			for i := 0; i < p.m; i++ {
				sigs = append(sigs, p.keys[i].sign(sigHash(tx2, in)))
			}
			w[in] = p.witness(sigs)
		}
		with := func(a, b [][]byte) *types.TxData {
			d := txmut.Clone(d2)
			setArgs(d, 0, a)
			setArgs(d, 1, b)
			return d
		}
		r.expect("sibling-input-own-signatures", true, with(w[0], w[1]), "", "two inputs of the same program, each with its own signatures", nil)
		r.expect("sibling-input-replay", false, with(w[0], w[0]), "accepts-signature-replayed-on-sibling-input", "signatures of input 0 reused on input 1 (same keys)", nil)
		r.expect("sibling-input-replay", false, with(w[1], w[1]), "accepts-signature-replayed-on-sibling-input", "signatures of input 1 reused on input 0 (same keys)", nil)
		r.expect("sibling-input-replay", false, with(w[1], w[0]), "accepts-signature-replayed-on-sibling-input", "signatures of the two inputs exchanged", nil)
	}

	switch p.kind {
	case "p2wpkh":
		// a complete, self-consistent witness of another key
		out := stdSigner("outsider")
		r.expect("other-key-witness", false, r.withArgs([][]byte{out.sign(sigHash(r.baseTx, 0)), out.pub}), "accepts-uncommitted-pubkey", "signature and pubkey of an uncommitted key", nil)
	case "p2wsh":
		// a redeem script of the same shape over outside keys, correctly signed
		var pubs []ed25519.PublicKey
		var sigs [][]byte
		for i := 0; i < p.n; i++ {
			k := stdSigner(fmt.Sprintf("outsider-%d", i))
			pubs = append(pubs, ed25519.PublicKey(k.pub))
			if i < p.m {
				sigs = append(sigs, k.sign(sigHash(r.baseTx, 0)))
			}
		}
		script := must(vmutil.P2SPMultiSigProgram(pubs, p.m))
		r.expect("other-key-witness", false, r.withArgs(append(sigs, script)), "accepts-uncommitted-redeem-script", "self-consistent multisig script over uncommitted keys", nil)
		// a lower threshold over the committed keys
		if p.m > 1 {
			var cpubs []ed25519.PublicKey
			for _, k := range p.keys {
				cpubs = append(cpubs, ed25519.PublicKey(k.pub))
			}
			weak := must(vmutil.P2SPMultiSigProgram(cpubs, p.m-1))
			r.expect("other-key-witness", false, r.withArgs(append(cpSigs(valid[:p.m-1]), weak)), "accepts-lower-threshold-script", "committed keys with quorum m-1", nil)
		}
	}
}

// --- phase 3: committed-field mutations (the C03 list)

// fields of an unspendable output that C03 shows are not part of the transaction id; the signature
// cannot cover them. Reported by C03, recorded here as an observation.
func knownFromC03(field string) bool {
	switch field {
	case "out-retirement.program", "out-retirement.type", "out-voteretire.program", "out-voteretire.type", "out-voteretire.vote":
		return true
	}
	return false
}

// quick tier: of the 256 single-bit flips of a 32-byte hash field only every 16th bit is replayed
// against the signature (C03 runs all of them against the id; thorough runs all of them here too).
func thinned(path string) bool {
	i := strings.LastIndex(path, ":flipbit")
	if i < 0 {
		return false
	}
	n := 0
	fmt.Sscanf(path[i+len(":flipbit"):], "%d", &n)
	return n%16 != 0
}

func spendCommitment(in *types.TxInput) (*types.SpendCommitment, [][]byte) {
	switch t := in.TypedInput.(type) {
	case *types.SpendInput:
		return &t.SpendCommitment, t.Arguments
	case *types.VetoInput:
		return &t.SpendCommitment, t.Arguments
	}
	return nil, nil
}

func sameList(a, b [][]byte) bool {
	if len(a) != len(b) {
		return false
	}
	for i := range a {
		if string(a[i]) != string(b[i]) {
			return false
		}
	}
	return true
}

// the input that carries the stale witness (-1: the mutation removed it)
func findStale(d *types.TxData, witness [][]byte) int {
	for i, in := range d.Inputs {
		if sc, args := spendCommitment(in); sc != nil && len(args) > 0 && sameList(args, witness) {
			return i
		}
	}
	return -1
}

// standardForm recognises, at byte level, the program forms the statement is about.
// A mutated control program that left its form is an arbitrary other program (a different
// output, possibly anyone-can-spend): outside the statement.
func standardForm(prog []byte) string {
	switch {
	case len(prog) == 22 && prog[0] == 0x00 && prog[1] == 0x14:
		return "p2wpkh"
	case len(prog) == 34 && prog[0] == 0x00 && prog[1] == 0x20:
		return "p2wsh"
	}
	// TXSIGHASH, k x (DATA_32 key), OP_m, OP_n, CHECKMULTISIG with 1 <= m <= n = k <= 16
	if len(prog) >= 4+33 && prog[0] == 0xae && prog[len(prog)-1] == 0xad && (len(prog)-4)%33 == 0 {
		k := (len(prog) - 4) / 33
		for i := 0; i < k; i++ {
			if prog[1+33*i] != 0x20 {
				return ""
			}
		}
		m, n := int(prog[len(prog)-3])-0x50, int(prog[len(prog)-2])-0x50
		if n == k && m >= 1 && m <= n && n <= 16 {
			return "bare"
		}
	}
	return ""
}

func (r *runner) fieldMutations() {
	p := r.j.p
	stale := p.witness(r.validSigs())
	signed := r.withArgs(stale)
	signedDigest := txmut.Digest(signed)
	if standardForm(p.control) != p.kind {
		// the repository's builder produced another shape (C09's subject); the mutation classes below assume the standard one
		r.res.capReason = fmt.Sprintf("field mutations of %s: could not be set up: the built control program %x does not have the standard %s form", r.j, p.control, p.kind)
		return
	}
	muts := txmut.Mutations(signed)
	for n, m := range muts {
		if n%64 == 0 && r.stop() {
			r.halted = true
			return
		}
		if m.Class != txmut.Consensus {
			continue
		}
		if !r.thorough && thinned(m.Path) {
			continue
		}
		d := txmut.Clone(signed)
		m.Apply(d)
		if txmut.Digest(d) == signedDigest {
			continue
		}
		record := func(group string) string {
			got := validate(d)
			r.res.evals++
			r.res.outcomes[got]++
			r.res.groups[group]++
			if got == "ok" {
				r.res.groupsOK[group]++
			}
			return got
		}
		idx := findStale(d, stale)
		if idx < 0 {
			record("stale-signature/locked-input-removed") // nothing is spent with the old witness any more
			continue
		}
		sc, _ := spendCommitment(d.Inputs[idx])
		if standardForm(sc.ControlProgram) != p.kind {
			record("stale-signature/program-left-standard-form")
			continue
		}
		if knownFromC03(m.Field) {
			if record("stale-signature/known-from-C03") == "ok" {
				r.res.observedFields[m.Field]++
			}
			continue
		}
		got := r.expect("stale-signature", false, d, "stale-signature-survives:"+m.Field, "signature made before mutation "+m.Path+" still validates", map[string]interface{}{"mutation": m.Path})
		if got == "ok" {
			continue
		}
		// was the signature the deciding element? re-sign the mutated transaction
		if string(sc.ControlProgram) != string(p.control) {
			r.res.notResignable++ // another key hash / script hash / key: nobody holds its keys
			continue
		}
		h := sigHash(types.NewTx(*d), idx)
		var sigs [][]byte
		for i := 0; i < p.m; i++ {
			sigs = append(sigs, p.keys[i].sign(h))
		}
		setArgs(d, idx, p.witness(sigs))
		again := validate(d)
		r.res.evals++
		r.res.outcomes["resigned:"+again]++
		r.res.groups["resigned"]++
		if again == "ok" {
			r.res.decisive++
			if len(r.res.sample) < 1 {
				r.res.sample = append(r.res.sample, map[string]interface{}{"job": r.j.String(), "mutation": m.Path, "stale_signature": got, "re_signed": again})
			}
		}
	}
}

func runJob(j job, thorough bool, stop func() bool) *result {
	res := &result{outcomes: map[string]int{}, groups: map[string]int{}, groupsOK: map[string]int{}, observedFields: map[string]int{}}
	r := &runner{j: j, res: res, stop: stop, thorough: thorough}
	var err error
	if r.base, err = baseTx(j.p, j.veto); err != nil {
		// serialisation is C04's subject; nothing can be said about spending this program
		res.capReason = fmt.Sprintf("%s: could not be set up: base transaction does not serialise: %v", j, err)
		return res
	}
	r.baseTx = types.NewTx(*r.base)
	h := sigHash(r.baseTx, 0)
	// the repository's own helper must agree with the hash we sign (otherwise nothing below means anything)
	if got := r.baseTx.SigHash(0).Bytes(); string(got) != string(h) {
		res.viols = append(res.viols, viol{"sighash-helper-differs", fmt.Sprintf("bc.Tx.SigHash(0)=%x, SHA3(inputID||txID)=%x", got, h), nil})
	}
	for _, k := range j.p.keys {
		r.sigs = append(r.sigs, k.sign(h))
	}
	r.witnessMutations()
	if !r.halted {
		r.sequences()
	}
	if !r.halted {
		r.fieldMutations()
	}
	if !r.halted {
		r.feeSweep()
	}
	return res
}

// ---------------------------------------------------------------------------

func main() {
	run := ev.Start("C02", "exploration")
	maxN := run.Pick(3, 6)
	run.Set("max_n", maxN)
	run.Set("rule", "programs: P2WPKH (one std-lib key, one chainkd wallet-style key), P2WSH(m-of-n) and bare multisig for every 1<=m<=n<=max_n, each as spend input and as veto input of a 2-input 3-output transaction. Cases: every sequence with repetition of m-1 and of m signers out of n, every ordered selection of m distinct signers with one extra signature of any signer below it (valid iff there are at least m and the last m are strictly increasing); on the reference valid spend every single-bit flip of every signature (512 each), S+L, wrong lengths, outsider key, sighash of the other input / another tx / the bare tx id, signatures replayed between two inputs of the same program, every single-bit flip and length change of the pubkey / redeem script in the witness, wrong layouts, foreign self-consistent witness, lower-threshold script; every consensus-class single-field mutation of the signed transaction from the C03 list (quick: hash fields every 16th bit, thorough: every bit; must fail with the old signature; re-signed to show the signature decided). distinct_nontrivial = cases expected valid that validated + committed-field mutations that failed with the stale signature and validated once re-signed.")
	run.Assume("ed25519 and SHA3/RIPEMD160 are trusted; signatures made with crypto/ed25519 (std) and chainkd.XPrv.Sign over SHA3-256(input entry id || tx id) computed here")
	run.Assume("Tx.ID / input entry ids are taken from types.MapTx (their completeness is C03's subject); unspendable-output program/vote fields that C03 reports as missing from the id are recorded under coverage.signature_does_not_cover (not re-reported here)")
	run.Assume("an extra witness item below a valid witness is ignored by the programs and counted valid: it contains valid signatures of the committed keys over this transaction")

	var jobs []job
	for _, veto := range []bool{false, true} {
		jobs = append(jobs, job{mkP2WPKH(stdSigner("p2wpkh")), veto}, job{mkP2WPKH(kdSigner("p2wpkh")), veto})
		for n := 1; n <= maxN; n++ {
			for m := 1; m <= n; m++ {
				jobs = append(jobs, job{mkMulti("p2wsh", m, n), veto}, job{mkMulti("bare", m, n), veto})
			}
		}
	}
	run.Set("programs_x_input_types", len(jobs))
	if builderErr != nil {
		run.Capped(fmt.Sprintf("programs: could not be set up: a standard program builder failed: %v", builderErr))
		run.Finish()
	}

	results := make([]*result, len(jobs))
	ch := make(chan int)
	var wg sync.WaitGroup
	var stopMu sync.Mutex
	stopped := false
	stop := func() bool {
		stopMu.Lock()
		defer stopMu.Unlock()
		if !stopped && run.OutOfTime() {
			stopped = true
		}
		return stopped
	}
	nw := runtime.NumCPU()
	if nw > 8 {
		nw = 8
	}
	for w := 0; w < nw; w++ {
		wg.Add(1)
		go func() {
			defer wg.Done()
			for i := range ch {
				results[i] = runJob(jobs[i], run.Thorough(), stop)
			}
		}()
	}
	// largest n first: shortest tail
	order := make([]int, len(jobs))
	for i := range order {
		order[i] = i
	}
	sort.SliceStable(order, func(a, b int) bool {
		ja, jb := jobs[order[a]].p, jobs[order[b]].p
		return ja.n*10+ja.m > jb.n*10+jb.m
	})
	for _, i := range order {
		if stop() {
			break
		}
		ch <- i
	}
	close(ch)
	wg.Wait()

	outcomes, groups, groupsOK, observed := map[string]int{}, map[string]int{}, map[string]int{}, map[string]int{}
	var evals, valid, decisive, notResignable int
	for i, r := range results {
		if r == nil {
			continue
		}
		evals += r.evals
		valid += r.expectedValid
		decisive += r.decisive
		notResignable += r.notResignable
		for k, v := range r.outcomes {
			outcomes[k] += v
		}
		for k, v := range r.groups {
			groups[k] += v
		}
		for k, v := range r.groupsOK {
			groupsOK[k] += v
		}
		for k, v := range r.observedFields {
			observed[k] += v
		}
		for _, v := range r.viols {
			run.Violation(v.key, v.what, v.replay)
		}
		if r.capReason != "" {
			run.Capped(r.capReason)
		}
		if i%(len(jobs)/10+1) == 0 {
			for _, s := range r.sample {
				run.Sample(s)
			}
		}
	}
	// expected-valid cases that did not validate were reported as violations; count the ones that did
	validated := outcomes["ok"] - sumObserved(observed)
	var oc []string
	for k := range outcomes {
		oc = append(oc, k)
	}
	sort.Strings(oc)
	for _, k := range oc {
		for n := 0; n < outcomes[k]; n++ {
			run.Outcome(k)
		}
	}
	run.Set("evaluations", evals)
	run.Set("expected_valid_cases", valid)
	run.Set("validated_cases", validated)
	run.Set("committed_field_mutations_decided_by_signature", decisive)
	run.Set("committed_field_mutations_not_resignable", notResignable)
	run.Set("distinct_nontrivial", valid+decisive)
	run.Set("case_groups", groups)
	run.Set("case_groups_validated", groupsOK)
	if len(observed) > 0 {
		run.Set("signature_does_not_cover", observed)
	}
	run.Sample(map[string]interface{}{"job": jobs[0].String(), "group": "base-valid-spend", "verdict": "ok"})
	run.Finish()
}

func sumObserved(m map[string]int) int {
	n := 0
	for _, v := range m {
		n += v
	}
	return n
}
