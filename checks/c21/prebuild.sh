#!/bin/bash
# the interleaving part needs the store and its caches rewritten for lib/vsched; the cache's single-flight group is
# replaced by lib/vsf (the same code on scheduler-visible primitives)
set -e
ROOT="$(cd "$(dirname "$0")/../.." && pwd)"
"$ROOT/tools/vrw_prebuild.sh" "$1" c21 /repo/common/concurrent_lru.go /repo/database/cache.go /repo/database/store.go /repo/database/store_checkpoint.go
python3 - "$1" <<'PY'
import json, sys
ov = json.load(open(sys.argv[1]))
f = ov["Replace"]["/repo/database/cache.go"]
s = open(f).read()
old = '"github.com/golang/groupcache/singleflight"'
if old not in s:
    sys.exit("c21 prebuild: database/cache.go does not import groupcache/singleflight any more")
open(f, "w").write(s.replace(old, 'singleflight "verif/lib/vsf"'))
PY
