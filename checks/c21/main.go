// C21: the Store's caches are transparent.
//
// Explicit-state search over every sequence of Store operations (saves of blocks, headers,
// checkpoints and chain status, cache-filling reads, the node's header read-modify-write)
// up to a depth. A state is (database content, content of the five LRU caches); it is
// reached by replaying its history on a brand-new Store over a brand-new crashkv database.
// In every distinct state every public getter is evaluated on its own replica of the state:
//
//	first read on the long-lived store == the same getter on a fresh database.NewStore over
//	the same database (the reference: no cache), and a second read == the first.
package main

import (
	"crypto/sha256"
	"encoding/hex"
	"encoding/json"
	"fmt"
	"runtime"
	"sort"
	"strings"
	"sync"

	"github.com/bytom/bytom/database"
	"github.com/bytom/bytom/protocol/bc"
	"github.com/bytom/bytom/protocol/bc/types"
	"github.com/bytom/bytom/protocol/state"

	"verif/lib/crashkv"
	"verif/lib/ev"
	"verif/lib/labnet"
)

// ---------------------------------------------------------------- objects

var (
	net        *labnet.Net
	blkX, blkY *types.Block // siblings at height 2 (checkpoint height, E=2)
	blkX2      *types.Block // X re-issued: same hash, header carries a sup link
	hdrY2      *types.BlockHeader
	hashX      bc.Hash
	hashY      bc.Hash
	hashG      bc.Hash
	cpX        [2]*state.Checkpoint // two versions (Unjustified, Justified)
	cpY        [2]*state.Checkpoint
	// the main-chain family: X-X2-X3, Y-Y2-Y3 and the partial fork X-W2-W3 (heights 2, 3, 4)
	blkX2h, blkX3h, blkY2h, blkY3h, blkW2h, blkW3h *types.Block
	names                                          = map[bc.Hash]string{}
	probeHash                                      []bc.Hash
	probeHt                                        = []uint64{2, 3, 4}
)

func cloneBlock(b *types.Block) *types.Block {
	raw, err := b.MarshalText()
	if err != nil {
		panic(err)
	}
	c := &types.Block{}
	if err := c.UnmarshalText(raw); err != nil {
		panic(err)
	}
	return c
}

func setup() {
	net = labnet.Setup(2, 2, 4)
	b1 := net.NewBlock(net.Gen, labnet.BlockOpt{})
	x := net.NewBlock(b1, labnet.BlockOpt{Tag: 0})
	y := net.NewBlock(b1, labnet.BlockOpt{Tag: 1})
	blkX, blkY = x.Block, y.Block
	hashX, hashY, hashG = blkX.Hash(), blkY.Hash(), net.Gen.Hash()
	blkX2 = cloneBlock(blkX)
	blkX2.SupLinks.AddSupLink(0, hashG, labnet.VoteSig(net.Keys[0], hashG, hashX), 0)
	if blkX2.Hash() != hashX {
		// whether verification links are part of the block hash is C03's subject; the store is not reached
		run := ev.Start("C21", "model_checking")
		run.Capped("event alphabet: could not be set up: a header sup link changes the block hash, the re-issued block of the plan cannot be built")
		run.Finish()
	}
	yl := cloneBlock(blkY)
	yl.SupLinks.AddSupLink(0, hashG, labnet.VoteSig(net.Keys[2], hashG, hashY), 2)
	hdrY2 = &yl.BlockHeader
	mk := func(b *labnet.B, st state.CheckpointStatus) *state.Checkpoint {
		c := *b.CP
		c.Status = st
		c.SupLinks = nil
		c.Parent = nil
		return &c
	}
	cpX = [2]*state.Checkpoint{mk(x, state.Unjustified), mk(x, state.Justified)}
	cpY = [2]*state.Checkpoint{mk(y, state.Unjustified), mk(y, state.Justified)}
	x2 := net.NewBlock(x, labnet.BlockOpt{Tag: 0})
	x3 := net.NewBlock(x2, labnet.BlockOpt{Tag: 0})
	y2 := net.NewBlock(y, labnet.BlockOpt{Tag: 0})
	y3 := net.NewBlock(y2, labnet.BlockOpt{Tag: 0})
	w2 := net.NewBlock(x, labnet.BlockOpt{Tag: 1})
	w3 := net.NewBlock(w2, labnet.BlockOpt{Tag: 0})
	blkX2h, blkX3h, blkY2h, blkY3h, blkW2h, blkW3h = x2.Block, x3.Block, y2.Block, y3.Block, w2.Block, w3.Block
	probeHash = []bc.Hash{hashX, hashY}
	names[hashX], names[hashY] = "X", "Y"
	for n, b := range map[string]*types.Block{"X2": blkX2h, "X3": blkX3h, "Y2": blkY2h, "Y3": blkY3h, "W2": blkW2h, "W3": blkW3h} {
		names[b.Hash()] = n
	}
	for _, b := range []*types.Block{blkX2h, blkX3h, blkY2h, blkY3h, blkW2h, blkW3h} {
		probeHash = append(probeHash, b.Hash())
	}
}

// ---------------------------------------------------------------- alphabet

type event struct {
	Kind string // structural name used in violation keys
	Name string
	Do   func(s *database.Store) error
}

func name(h bc.Hash) string {
	if n, ok := names[h]; ok {
		return n
	}
	return h.String()[:8]
}

// chainStatus saves best = the last block and attaches all the given blocks' headers to the main chain in ONE call.
func chainStatus(bs ...*types.Block) func(s *database.Store) error {
	return func(s *database.Store) error {
		var hs []*types.BlockHeader
		for _, b := range bs {
			hs = append(hs, &b.BlockHeader)
		}
		return s.SaveChainStatus(hs[len(hs)-1], hs, state.NewUtxoViewpoint(), state.NewContractViewpoint(), 0, &hashG)
	}
}

// rmw is what Casper.saveVerificationToHeader does: read the header through the store,
// add a sup link to the returned object, save it back.
func rmw(h bc.Hash, validator int) func(s *database.Store) error {
	return func(s *database.Store) error {
		hd, err := s.GetBlockHeader(&h)
		if err != nil {
			return err
		}
		hd.SupLinks.AddSupLink(0, hashG, labnet.VoteSig(net.Keys[validator], hashG, h), validator)
		return s.SaveBlockHeader(hd)
	}
}

func buildEvents() []event {
	get := func(f func(s *database.Store) error) func(s *database.Store) error { return f }
	return []event{
		{"SaveBlock", "SaveBlock(X)", func(s *database.Store) error { return s.SaveBlock(blkX) }},
		{"SaveBlock", "SaveBlock(X with header sup link)", func(s *database.Store) error { return s.SaveBlock(blkX2) }},
		{"SaveBlock", "SaveBlock(Y)", func(s *database.Store) error { return s.SaveBlock(blkY) }},
		{"SaveBlockHeader", "SaveBlockHeader(X)", func(s *database.Store) error { return s.SaveBlockHeader(&blkX.BlockHeader) }},
		{"SaveBlockHeader", "SaveBlockHeader(X with sup link)", func(s *database.Store) error { return s.SaveBlockHeader(&blkX2.BlockHeader) }},
		{"SaveBlockHeader", "SaveBlockHeader(Y with sup link)", func(s *database.Store) error { return s.SaveBlockHeader(hdrY2) }},
		{"SaveCheckpoints", "SaveCheckpoints([X unjustified])", func(s *database.Store) error { return s.SaveCheckpoints([]*state.Checkpoint{cpX[0]}) }},
		{"SaveCheckpoints", "SaveCheckpoints([X justified])", func(s *database.Store) error { return s.SaveCheckpoints([]*state.Checkpoint{cpX[1]}) }},
		{"SaveCheckpoints", "SaveCheckpoints([Y unjustified])", func(s *database.Store) error { return s.SaveCheckpoints([]*state.Checkpoint{cpY[0]}) }},
		{"SaveCheckpoints", "SaveCheckpoints([X unjustified, Y justified])", func(s *database.Store) error { return s.SaveCheckpoints([]*state.Checkpoint{cpX[0], cpY[1]}) }},
		{"SaveChainStatus", "SaveChainStatus(best X, main chain [X])", chainStatus(blkX)},
		{"SaveChainStatus", "SaveChainStatus(best Y, main chain [Y])", chainStatus(blkY)},
		{"GetBlockHeader", "GetBlockHeader(X)", get(func(s *database.Store) error { _, err := s.GetBlockHeader(&hashX); return err })},
		{"GetBlockHeader", "GetBlockHeader(Y)", get(func(s *database.Store) error { _, err := s.GetBlockHeader(&hashY); return err })},
		{"GetBlock", "GetBlock(X)", get(func(s *database.Store) error { _, err := s.GetBlock(&hashX); return err })},
		{"GetBlock", "GetBlock(Y)", get(func(s *database.Store) error { _, err := s.GetBlock(&hashY); return err })},
		{"GetBlockHashesByHeight", "GetBlockHashesByHeight(2)", get(func(s *database.Store) error { _, err := s.GetBlockHashesByHeight(2); return err })},
		{"GetMainChainHash", "GetMainChainHash(2)", get(func(s *database.Store) error { _, err := s.GetMainChainHash(2); return err })},
		{"GetCheckpoint", "GetCheckpoint(X)", get(func(s *database.Store) error { _, err := s.GetCheckpoint(&hashX); return err })},
		{"GetCheckpoint", "GetCheckpoint(Y)", get(func(s *database.Store) error { _, err := s.GetCheckpoint(&hashY); return err })},
		{"GetCheckpointsByHeight", "GetCheckpointsByHeight(2)", get(func(s *database.Store) error { _, err := s.GetCheckpointsByHeight(2); return err })},
		{"HeaderReadModifyWrite", "GetBlockHeader(X) -> AddSupLink(validator 1) -> SaveBlockHeader", rmw(hashX, 1)},
		{"HeaderReadModifyWrite", "GetBlockHeader(Y) -> AddSupLink(validator 3) -> SaveBlockHeader", rmw(hashY, 3)},
		// 23.. : the main-chain family (several headers attached by one SaveChainStatus)
		{"SaveChainStatus", "SaveChainStatus(best X3, main chain [X,X2,X3])", chainStatus(blkX, blkX2h, blkX3h)},
		{"SaveChainStatus", "SaveChainStatus(best Y3, main chain [Y,Y2,Y3])", chainStatus(blkY, blkY2h, blkY3h)},
		{"SaveChainStatus", "SaveChainStatus(best W3, main chain [W2,W3]) (fork above X)", chainStatus(blkW2h, blkW3h)},
		{"SaveChainStatus", "SaveChainStatus(best Y2, main chain [Y,Y2]) (shorter)", chainStatus(blkY, blkY2h)},
		{"GetMainChainHash", "GetMainChainHash(3)", get(func(s *database.Store) error { _, err := s.GetMainChainHash(3); return err })},
		{"GetMainChainHash", "GetMainChainHash(4)", get(func(s *database.Store) error { _, err := s.GetMainChainHash(4); return err })},
		{"GetBlockHashesByHeight", "GetBlockHashesByHeight(3)", get(func(s *database.Store) error { _, err := s.GetBlockHashesByHeight(3); return err })},
		{"GetBlockHashesByHeight", "GetBlockHashesByHeight(4)", get(func(s *database.Store) error { _, err := s.GetBlockHashesByHeight(4); return err })},
		{"SaveBlock", "SaveBlock(X2)", func(s *database.Store) error { return s.SaveBlock(blkX2h) }},
		{"SaveBlock", "SaveBlock(Y2)", func(s *database.Store) error { return s.SaveBlock(blkY2h) }},
		{"SaveBlock", "SaveBlock(X3)", func(s *database.Store) error { return s.SaveBlock(blkX3h) }},
	}
}

// A profile is one search: a sub-alphabet, the getters judged in its states and its depth.
type profile struct {
	Name    string
	Events  []uint8
	Getters []int
	Depth   int
}

func seq(a, b int) []uint8 {
	var out []uint8
	for i := a; i < b; i++ {
		out = append(out, uint8(i))
	}
	return out
}

func buildProfiles(thorough bool) []profile {
	pick := func(q, t int) int {
		if thorough {
			return t
		}
		return q
	}
	all := make([]int, len(getters))
	for i := range all {
		all[i] = i
	}
	var mainGetters []int
	for i, g := range getters {
		switch getterKind(g.Name) {
		case "GetMainChainHash", "GetBlockHashesByHeight", "GetStoreStatus":
			mainGetters = append(mainGetters, i)
		}
		if strings.HasSuffix(g.Name, "(X2)") || strings.HasSuffix(g.Name, "(Y2)") {
			mainGetters = append(mainGetters, i)
		}
	}
	// main-chain family: single-header X / Y (10, 11), reads at height 2 (16, 17), and events 23..33
	mainEvents := append([]uint8{10, 11, 16, 17}, seq(23, len(events))...)
	return []profile{
		{"blocks-headers-checkpoints", seq(0, 23), all[:16], pick(5, 7)},
		{"main-chain", mainEvents, mainGetters, pick(6, 8)},
		{"all-events", seq(0, len(events)), all, pick(3, 4)},
	}
}

var events []event

// ---------------------------------------------------------------- getters (the oracle's observations)

func renderLinks(ls []*types.SupLink) string {
	var out []string
	for _, l := range ls {
		if l == nil {
			out = append(out, "nil")
			continue
		}
		var sigs []string
		for i, s := range l.Signatures {
			if len(s) > 0 {
				sigs = append(sigs, fmt.Sprintf("%d:%s", i, hex.EncodeToString(s[:4])))
			}
		}
		out = append(out, fmt.Sprintf("%d/%s[%s]", l.SourceHeight, name(l.SourceHash), strings.Join(sigs, ",")))
	}
	return "links{" + strings.Join(out, " ") + "}"
}

func renderCP(c *state.Checkpoint) string {
	b, _ := json.Marshal(c)
	sum := sha256.Sum256(b)
	return fmt.Sprintf("cp(%d,%s,status=%d,json=%s) %s", c.Height, name(c.Hash), c.Status, hex.EncodeToString(sum[:4]), renderLinks(c.SupLinks))
}

func renderCPs(cs []*state.Checkpoint) string {
	var out []string
	for _, c := range cs {
		out = append(out, renderCP(c))
	}
	return "[" + strings.Join(out, "; ") + "]"
}

func renderHeader(h *types.BlockHeader) string {
	b, _ := h.MarshalText()
	sum := sha256.Sum256(b)
	hash := h.Hash()
	return fmt.Sprintf("header(%s,ser=%s) %s", name(hash), hex.EncodeToString(sum[:4]), renderLinks(h.SupLinks))
}

func errStr(err error) string { return "error: " + err.Error() }

type getter struct {
	Name string
	Call func(s *database.Store) string
}

func buildGetters() []getter {
	var gs []getter
	for _, h := range []bc.Hash{hashX, hashY} {
		h := h
		n := name(h)
		gs = append(gs,
			getter{"GetBlockHeader(" + n + ")", func(s *database.Store) string {
				hd, err := s.GetBlockHeader(&h)
				if err != nil {
					return errStr(err)
				}
				return renderHeader(hd)
			}},
			getter{"BlockExist(" + n + ")", func(s *database.Store) string { return fmt.Sprint(s.BlockExist(&h)) }},
			getter{"GetBlockTransactions(" + n + ")", func(s *database.Store) string {
				txs, err := s.GetBlockTransactions(&h)
				if err != nil {
					return errStr(err)
				}
				var ids []string
				for _, t := range txs {
					ids = append(ids, t.ID.String()[:8])
				}
				return strings.Join(ids, ",")
			}},
			getter{"GetBlock(" + n + ")", func(s *database.Store) string {
				b, err := s.GetBlock(&h)
				if err != nil {
					return errStr(err)
				}
				raw, _ := b.MarshalText()
				sum := sha256.Sum256(raw)
				return fmt.Sprintf("block(ser=%s,txs=%d) %s", hex.EncodeToString(sum[:4]), len(b.Transactions), renderHeader(&b.BlockHeader))
			}},
			getter{"GetCheckpoint(" + n + ")", func(s *database.Store) string {
				c, err := s.GetCheckpoint(&h)
				if err != nil {
					return errStr(err)
				}
				return renderCP(c)
			}},
			getter{"CheckpointsFromNode(2," + n + ")", func(s *database.Store) string {
				cs, err := s.CheckpointsFromNode(2, &h)
				if err != nil {
					return errStr(err)
				}
				return renderCPs(cs)
			}},
		)
	}
	hashesAt := func(height uint64) getter {
		return getter{fmt.Sprintf("GetBlockHashesByHeight(%d)", height), func(s *database.Store) string {
			hs, err := s.GetBlockHashesByHeight(height)
			if err != nil {
				return errStr(err)
			}
			var out []string
			for _, h := range hs {
				out = append(out, name(*h))
			}
			return "[" + strings.Join(out, ",") + "]"
		}}
	}
	mainAt := func(height uint64) getter {
		return getter{fmt.Sprintf("GetMainChainHash(%d)", height), func(s *database.Store) string {
			h, err := s.GetMainChainHash(height)
			if err != nil {
				return errStr(err)
			}
			return name(*h)
		}}
	}
	gs = append(gs, hashesAt(2), mainAt(2),
		getter{"GetCheckpointsByHeight(2)", func(s *database.Store) string {
			cs, err := s.GetCheckpointsByHeight(2)
			if err != nil {
				return errStr(err)
			}
			return renderCPs(cs)
		}},
		getter{"GetStoreStatus()", func(s *database.Store) string {
			st := s.GetStoreStatus()
			if st == nil {
				return "nil"
			}
			return fmt.Sprintf("status(%d,%s)", st.Height, name(*st.Hash))
		}},
	)
	// 16.. : observations of the main-chain family
	gs = append(gs, hashesAt(3), hashesAt(4), mainAt(3), mainAt(4))
	for _, b := range []*types.Block{blkX2h, blkY2h} {
		h := b.Hash()
		gs = append(gs,
			getter{"GetBlockHeader(" + name(h) + ")", func(s *database.Store) string {
				hd, err := s.GetBlockHeader(&h)
				if err != nil {
					return errStr(err)
				}
				return renderHeader(hd)
			}},
			getter{"GetBlock(" + name(h) + ")", func(s *database.Store) string {
				b, err := s.GetBlock(&h)
				if err != nil {
					return errStr(err)
				}
				raw, _ := b.MarshalText()
				sum := sha256.Sum256(raw)
				return fmt.Sprintf("block(ser=%s,txs=%d) %s", hex.EncodeToString(sum[:4]), len(b.Transactions), renderHeader(&b.BlockHeader))
			}},
		)
	}
	return gs
}

var getters []getter

func getterKind(n string) string { return n[:strings.Index(n, "(")] }

// ---------------------------------------------------------------- replay, digest

type inst struct {
	db    *crashkv.DB
	store *database.Store
}

// replay executes a history on a brand-new store; a panic inside the store is reported.
func replay(h []uint8) (in *inst, panicked string) {
	in = &inst{db: crashkv.New()}
	in.store = database.NewStore(in.db)
	defer func() {
		if r := recover(); r != nil {
			panicked = fmt.Sprint(r)
		}
	}()
	for _, e := range h {
		events[e].Do(in.store) // an error (unknown block etc.) is a legal outcome; it is part of the history
	}
	return
}

func staleness(e database.VerifCacheEntry) string {
	if e.Cached != e.DB {
		return "stale"
	}
	if e.Extra != "" {
		return "polluted"
	}
	return ""
}

func (in *inst) digest() (string, []database.VerifCacheEntry) {
	hs := sha256.New()
	for _, l := range in.db.Dump() {
		hs.Write([]byte(l))
		hs.Write([]byte{'\n'})
	}
	snap := in.store.VerifCacheSnapshot(probeHash, probeHt)
	for _, e := range snap {
		fmt.Fprintf(hs, "%s|%s|%s|%s\n", e.Cache, e.ID, e.Cached, e.Extra)
	}
	fmt.Fprint(hs, in.store.VerifCacheLens())
	return string(hs.Sum(nil)[:16]), snap
}

func describe(h []uint8) []string {
	var out []string
	for _, e := range h {
		out = append(out, events[e].Name)
	}
	return out
}

// culprit replays h step by step and names the operation after which the cache entry that is
// inconsistent at the end (cache name / id) last became inconsistent.
func culprit(h []uint8) (key string, detail string) {
	in := &inst{db: crashkv.New()}
	in.store = database.NewStore(in.db)
	type mark struct {
		kind string
		step int
	}
	bad := map[string]mark{} // cache/id -> how and since which step
	for i, e := range h {
		func() {
			defer func() { recover() }()
			events[e].Do(in.store)
		}()
		now := map[string]string{}
		for _, ce := range in.store.VerifCacheSnapshot(probeHash, probeHt) {
			if k := staleness(ce); k != "" {
				now[ce.Cache+"/"+ce.ID] = k
			}
		}
		for id, k := range now {
			if old, ok := bad[id]; !ok || old.kind != k {
				bad[id] = mark{k, i}
			}
		}
		for id := range bad {
			if _, ok := now[id]; !ok {
				delete(bad, id)
			}
		}
	}
	if len(bad) == 0 {
		return "", ""
	}
	var ids []string
	for id := range bad {
		ids = append(ids, id)
	}
	sort.Strings(ids)
	// the oldest inconsistency explains the others (a stale header feeds GetBlock, GetCheckpoint...)
	best := ids[0]
	for _, id := range ids {
		if bad[id].step < bad[best].step {
			best = id
		}
	}
	m := bad[best]
	cache := best[:strings.Index(best, "/")]
	return fmt.Sprintf("%s-cache-%s-after-%s", cache, m.kind, events[h[m.step]].Kind), fmt.Sprintf("cache entry %s is %s since step %d (%s)", best, m.kind, m.step+1, events[h[m.step]].Name)
}

// ---------------------------------------------------------------- oracle

type viol struct {
	Key, What string
	H         []uint8
}

// judge evaluates every getter in the state reached by h, each on its own replica.
func judge(h []uint8, gsel []int) (vs []viol, comparisons int, outcomes map[string]int) {
	outcomes = map[string]int{}
	if len(h) > 0 {
		if in, p := replay(h[:len(h)-1]); p == "" {
			func() {
				defer func() { recover() }()
				if err := events[h[len(h)-1]].Do(in.store); err != nil {
					outcomes["op-"+events[h[len(h)-1]].Kind+"-error"]++
				} else {
					outcomes["op-"+events[h[len(h)-1]].Kind+"-ok"]++
				}
			}()
		}
	}
	for _, gi := range gsel {
		g := getters[gi]
		in, p := replay(h)
		if p != "" {
			vs = append(vs, viol{"store-panics-" + events[h[len(h)-1]].Kind, "panic while replaying: " + p, h})
			return
		}
		var r1, r2, ref string
		func() {
			defer func() {
				if r := recover(); r != nil {
					vs = append(vs, viol{"getter-panics-" + getterKind(g.Name), fmt.Sprintf("%s panics: %v", g.Name, r), h})
				}
			}()
			r1 = g.Call(in.store)
			r2 = g.Call(in.store)
			ref = g.Call(database.NewStore(in.db))
		}()
		comparisons += 2
		switch {
		case strings.HasPrefix(ref, "error:"):
			outcomes[getterKind(g.Name)+"-error"]++
		default:
			outcomes[getterKind(g.Name)+"-value"]++
		}
		if r1 != ref {
			outcomes["first-read-differs-from-fresh-store"]++
			key, detail := culprit(h)
			if key == "" {
				key = getterKind(g.Name) + "-differs-from-fresh-store"
			}
			vs = append(vs, viol{key, fmt.Sprintf("%s on the long-lived store returns %s; a fresh NewStore over the same database returns %s. %s", g.Name, r1, ref, detail), h})
			continue
		}
		if r2 != r1 {
			outcomes["second-read-differs-from-first"]++
			// the first read itself is the operation that disturbed the cache
			key := getterKind(g.Name) + "-repeated-read-differs"
			detail := ""
			for _, ce := range in.store.VerifCacheSnapshot(probeHash, probeHt) {
				if k := staleness(ce); k != "" {
					key = fmt.Sprintf("%s-cache-%s-after-%s", ce.Cache, k, getterKind(g.Name))
					detail = fmt.Sprintf("cache entry %s/%s is %s after the reads (cached %s %s)", ce.Cache, ce.ID, k, ce.Extra, "")
					break
				}
			}
			vs = append(vs, viol{key, fmt.Sprintf("%s read twice in a row: first %s (equal to a fresh store), second %s. %s", g.Name, r1, r2, detail), h})
		}
	}
	return
}

// ---------------------------------------------------------------- search

func main() {
	setup()
	events = buildEvents()
	getters = buildGetters()
	run := ev.Start("C21", "model_checking")
	maxDepth := run.Pick(5, 7)

	nw := runtime.NumCPU()
	if nw > 8 {
		nw = 8
	}
	parallel := func(n int, f func(i int)) {
		var wg sync.WaitGroup
		ch := make(chan int, 1024)
		for w := 0; w < nw; w++ {
			wg.Add(1)
			go func() {
				defer wg.Done()
				for i := range ch {
					f(i)
				}
			}()
		}
		for i := 0; i < n; i++ {
			ch <- i
		}
		close(ch)
		wg.Wait()
	}

	classes := map[string]int{}
	states, transitions, comparisons := 0, 0, 0
	maxCacheEntries, staleStates := 0, 0
	perProfile := map[string]interface{}{}

	for _, pf := range buildProfiles(run.Thorough()) {
		pf := pf
		seen := map[string]bool{}
		frontier := [][]uint8{{}}
		perDepth := []int{}
		pStates, pTransitions := 0, 0

		// judgeAll evaluates the oracle in the new states (in a fixed order) and reports.
		judgeAll := func(hs [][]uint8) {
			type res struct {
				vs  []viol
				n   int
				out map[string]int
			}
			rs := make([]res, len(hs))
			parallel(len(hs), func(i int) {
				v, n, o := judge(hs[i], pf.Getters)
				rs[i] = res{v, n, o}
			})
			for _, r := range rs {
				comparisons += r.n
				for k, n := range r.out {
					classes[k] += n
				}
				if len(r.vs) > 0 {
					staleStates++
				}
				for _, v := range r.vs {
					run.Violation(v.Key, fmt.Sprintf("history %v: %s", describe(v.H), v.What), map[string]interface{}{"profile": pf.Name, "history": describe(v.H), "event_indices": v.H, "what": v.What})
				}
			}
		}

		// depth 0
		{
			in, _ := replay(nil)
			d, _ := in.digest()
			seen[d] = true
			pStates = 1
			perDepth = append(perDepth, 1)
			judgeAll([][]uint8{{}})
		}
		ne := len(pf.Events)
		for depth := 1; depth <= pf.Depth; depth++ {
			if len(frontier) == 0 {
				break
			}
			if run.OutOfTime() {
				run.Capped(fmt.Sprintf("%s: time budget reached before depth %d (all shallower depths complete)", pf.Name, depth))
				break
			}
			n := len(frontier) * ne
			hist := func(i int) []uint8 {
				return append(append(make([]uint8, 0, depth), frontier[i/ne]...), pf.Events[i%ne])
			}
			digests := make([]string, n)
			entries := make([]uint8, n)
			parallel(n, func(i int) {
				in, p := replay(hist(i))
				if p != "" {
					digests[i] = "panic:" + p
					return
				}
				d, snap := in.digest()
				digests[i] = d
				entries[i] = uint8(len(snap))
			})
			pTransitions += n
			var fresh [][]uint8
			for i, d := range digests {
				h := hist(i)
				if strings.HasPrefix(d, "panic:") {
					run.Violation("store-panics-"+events[h[len(h)-1]].Kind, fmt.Sprintf("history %v: %s", describe(h), d), map[string]interface{}{"history": describe(h)})
					continue
				}
				if seen[d] {
					continue
				}
				seen[d] = true
				fresh = append(fresh, h)
				if int(entries[i]) > maxCacheEntries {
					maxCacheEntries = int(entries[i])
				}
				pStates++
				if pStates%4001 == 2 || pStates == 50 {
					run.Sample(map[string]interface{}{"profile": pf.Name, "history": describe(h)})
				}
			}
			perDepth = append(perDepth, len(fresh))
			judgeAll(fresh)
			frontier = fresh
		}
		if pf.Depth > maxDepth {
			maxDepth = pf.Depth
		}
		states += pStates
		transitions += pTransitions
		perProfile[pf.Name] = map[string]interface{}{"events": ne, "getters_judged_per_state": len(pf.Getters), "max_depth": pf.Depth, "states": pStates, "histories_executed": pTransitions, "new_states_per_depth": perDepth}
	}

	run.Set("result_classes", classes)
	for k := range classes {
		run.Outcome(k)
	}
	run.Set("states", states)
	run.Set("transitions", transitions)
	run.Set("traces_validated_against_impl", comparisons)
	run.Set("max_depth", maxDepth)
	run.Set("events_in_alphabet", len(events))
	run.Set("getters", len(getters))
	run.Set("profiles", perProfile)
	run.Set("max_cache_entries_in_a_state", maxCacheEntries)
	run.Set("states_with_a_violation", staleStates)
	run.Set("rule", "events: SaveBlock of X / X re-issued with a header sup link (same hash) / sibling Y, SaveBlockHeader of X, X+link, Y+link, SaveCheckpoints (two versions of each of the two checkpoints, one two-element batch), SaveChainStatus with the main chain at height 2 switching between X and Y and (main-chain profile) SaveChainStatus attaching two or three headers in one call (chains X-X2-X3, Y-Y2-Y3, fork X-W2-W3 over heights 2..4, wholesale, partial and shorter switches) with GetMainChainHash / GetBlockHashesByHeight of every one of those heights and SaveBlock of X2, Y2, X3, the cache-filling reads GetBlockHeader, GetBlock, GetBlockHashesByHeight, GetMainChainHash, GetCheckpoint, GetCheckpointsByHeight, and GetBlockHeader->AddSupLink->SaveBlockHeader. Three searches (profiles, see coverage.profiles): the 23 block/header/checkpoint events, the 15 main-chain events, and all 34 events together to a smaller depth. A state = (database content, content of the five LRU caches as seen through the export hook); every history is replayed on a brand-new Store; transitions = histories executed; in every distinct state each of the getters is called twice on its own replica and once on a fresh NewStore over the same database (2 comparisons per getter and state).")
	run.Assume("the fresh database.NewStore over the same database is the reference (reads with empty caches); single-threaded use of the Store (singleflight and LRU eviction are not exercised: at most a handful of entries per cache)")
	run.Assume("callers do not modify returned objects except through the node's own header read-modify-write pattern")
	concurrent(run)
	run.Finish()
}
