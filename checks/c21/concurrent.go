package main

// Interleaving part of C21: ONE writer of a cached kind of value runs while readers of the same value run in other
// goroutines (the store has no caller-side locking; block processing, vote handling, peers and the API all go
// through it). The store, its caches and the single-flight group are rewritten for lib/vsched (cache locks and the
// duplicate-suppression wait become scheduling points), every database access yields (crashkv.Yield); every
// schedule with a bounded number of preemptions runs on the real store. Afterwards every getter of the long-lived
// store must return what a fresh store over the same database returns.

import (
	"fmt"
	"strings"
	"time"

	"github.com/bytom/bytom/database"

	"verif/lib/crashkv"
	"verif/lib/ev"
	"verif/lib/vsched"
)

type cscen struct {
	name    string
	setup   []string   // event names, sequential
	threads [][]string // event names per thread
}

func concScenarios(thorough bool) []cscen {
	sc := []cscen{
		{"header rewritten || header read twice (entry dropped before)", []string{"SaveBlock(X)"},
			[][]string{{"SaveBlockHeader(X with sup link)"}, {"GetBlockHeader(X)"}, {"GetBlockHeader(X)"}}},
		{"header rewritten || header read (entry cached)", []string{"SaveBlock(X)", "GetBlockHeader(X)"},
			[][]string{{"SaveBlockHeader(X with sup link)"}, {"GetBlockHeader(X)"}}},
		{"checkpoint rewritten || checkpoint read twice", []string{"SaveBlock(X)", "SaveCheckpoints([X unjustified])"},
			[][]string{{"SaveCheckpoints([X justified])"}, {"GetCheckpoint(X)"}, {"GetCheckpoint(X)"}}},
		{"two checkpoints rewritten || checkpoint read (cached)", []string{"SaveBlock(X)", "SaveBlock(Y)", "SaveCheckpoints([X unjustified])", "GetCheckpoint(X)"},
			[][]string{{"SaveCheckpoints([X unjustified, Y justified])", "SaveCheckpoints([X justified])"}, {"GetCheckpoint(X)"}}},
		{"main chain switched || main-chain hash read twice", []string{"SaveBlock(X)", "SaveBlock(Y)", "SaveChainStatus(best X, main chain [X])"},
			[][]string{{"SaveChainStatus(best Y, main chain [Y])"}, {"GetMainChainHash(2)"}, {"GetMainChainHash(2)"}}},
		{"block saved at a height || hashes of that height read twice", []string{"SaveBlock(X)"},
			[][]string{{"SaveBlock(Y)"}, {"GetBlockHashesByHeight(2)"}, {"GetBlockHashesByHeight(2)"}}},
	}
	if !thorough {
		// quick: the header, checkpoint and main-chain-hash caches (one scenario each kind that has its own fill
		// path); the remaining scenarios run in the thorough tier
		sc = []cscen{sc[0], sc[1], sc[2], sc[4]}
	}
	if thorough {
		sc = append(sc,
			cscen{"block saved again with header link || block read twice", []string{"SaveBlock(X)"},
				[][]string{{"SaveBlock(X with header sup link)"}, {"GetBlock(X)"}, {"GetBlock(X)"}}},
			cscen{"header read-modify-write || header read || checkpoint read", []string{"SaveBlock(X)", "SaveCheckpoints([X unjustified])"},
				[][]string{{"GetBlockHeader(X) -> AddSupLink(validator 1) -> SaveBlockHeader"}, {"GetBlockHeader(X)"}, {"GetCheckpoint(X)"}}},
		)
	}
	return sc
}

func eventByName(n string) event {
	for _, e := range events {
		if e.Name == n {
			return e
		}
	}
	ev.Fatal("unknown event %q", n)
	return event{}
}

func concBody(sc cscen) func(x *vsched.Exec) {
	return func(x *vsched.Exec) {
		var db *crashkv.DB
		var store *database.Store
		x.Deterministic(func() {
			db = crashkv.New()
			store = database.NewStore(db)
			for _, n := range sc.setup {
				eventByName(n).Do(store)
			}
		})
		crashkv.Yield = func(op string) { vsched.Point(&vsched.Op{Kind: vsched.KYield, Label: op}) }
		for t := range sc.threads {
			t := t
			x.Spawn(fmt.Sprintf("T%d", t), func() {
				for _, n := range sc.threads[t] {
					eventByName(n).Do(store)
				}
			})
		}
		x.Join()
		crashkv.Yield = nil
		fresh := database.NewStore(db)
		var obs []string
		for _, g := range getters {
			a, b := g.Call(store), g.Call(fresh)
			if a != b {
				x.Fail(getterKind(g.Name)+"-differs-from-fresh-store:after-concurrent-write-and-reads", fmt.Sprintf("%s on the long-lived store returns %s; a fresh NewStore over the same database returns %s", g.Name, a, b))
			}
		}
		for _, g := range getters[:2] {
			obs = append(obs, g.Call(fresh))
		}
		x.Observe(strings.Join(obs, " "))
	}
}

func concurrent(run *ev.Run) {
	bound := run.Pick(2, 3)
	totalExec, totalDec := 0, 0
	for _, sc := range concScenarios(run.Thorough()) {
		var names []string
		for _, th := range sc.threads {
			names = append(names, strings.Join(th, "; "))
		}
		desc := "concurrent: " + sc.name + ": setup " + strings.Join(sc.setup, "; ") + " then " + strings.Join(names, " || ")
		// every scenario has its own wall-clock share; a bound that does not finish inside it is
		// reported as capped together with the last bound that was completed
		deadline := run.DeadlineIn(time.Duration(run.Pick(60, 240)) * time.Second)
		for b := 0; b <= bound; b++ {
			st := vsched.Explore(vsched.Config{Name: sc.name, Bound: b, Stall: 120 * time.Second, MaxExec: run.Pick(20000, 300000), Deadline: deadline}, concBody(sc))
			if st.Infra != "" {
				if st.StallReproduced {
					run.Violation("call-never-returns-under-schedule", fmt.Sprintf("%s: the same schedule stalled three times: %s", sc.name, st.Infra), map[string]interface{}{"scenario": sc.name, "schedule": st.StallSchedule})
				} else {
					run.Set("stall_not_reproduced", fmt.Sprintf("%s: %s", sc.name, st.Infra))
					run.Capped("an execution stalled once and did not stall again when its schedule was replayed twice (load or nondeterminism outside the scheduler)")
				}
				break
			}
			if b == bound || len(st.Failures) > 0 || !st.Complete {
				totalExec += st.Executions
				totalDec += st.Decisions
				run.Sample(map[string]interface{}{"scenario": desc, "preemption_bound": b, "schedules": st.Executions, "distinct_outcomes": len(st.Outcomes), "complete": st.Complete})
				if !st.Complete {
					run.Capped(fmt.Sprintf("concurrent scenario capped at preemption bound %d (bounds below it complete): %s", b, sc.name))
				}
			}
			for _, f := range st.Failures {
				run.Violation(f.Key, fmt.Sprintf("%s, preemption bound %d: %s", desc, b, f.What), map[string]interface{}{"scenario": desc, "bound": b, "schedule": f.Schedule, "what": f.What})
			}
			if len(st.Failures) > 0 || !st.Complete {
				break
			}
		}
	}
	run.Set("concurrent_schedules", totalExec)
	run.Set("concurrent_decisions", totalDec)
	run.Set("concurrent_preemption_bound", bound)
	run.Assume("interleaving part: database/store.go, store_checkpoint.go, cache.go and common/concurrent_lru.go rewritten mechanically for lib/vsched, the cache's single-flight group replaced by lib/vsf; scheduling points are lock operations, the duplicate-suppression wait and every database access")
}
