package main

import (
	"fmt"
	"runtime"

	"verif/lib/crashkv"
	"verif/lib/labnet"
)

func main() {
	n := labnet.Setup(2, 2, 4)
	blocks := n.Chain(n.Gen, 6, 0)
	var m0, m1, m2 runtime.MemStats
	runtime.ReadMemStats(&m0)
	var nodes []*labnet.Node
	for i := 0; i < 100; i++ {
		nd, _ := labnet.NewNode(crashkv.New())
		nodes = append(nodes, nd)
	}
	runtime.ReadMemStats(&m1)
	for _, nd := range nodes {
		for _, b := range blocks {
			nd.Chain.ProcessBlock(b.Block)
		}
	}
	runtime.ReadMemStats(&m2)
	fmt.Println("newnode alloc/each", (m1.TotalAlloc-m0.TotalAlloc)/100, "blocks alloc/each node", (m2.TotalAlloc-m1.TotalAlloc)/100)
	runtime.GC()
	var m3 runtime.MemStats
	runtime.ReadMemStats(&m3)
	fmt.Println("live per node", (m3.HeapAlloc-m0.HeapAlloc)/100, "sys", m3.Sys>>20)
}
