// C23, layout part: the block LAYOUTS of a reorganisation are enumerated instead of being fixed by one hand-made tree.
// k independent transactions; branch A is one block a carrying an ORDERED sub-list LA of them, branch B is two blocks
// b, b' carrying an ordered sub-list LB cut at every position (b' makes B the longer branch: the node reorganises from a
// to b-b'); every transaction is, independently, never submitted / submitted before a / between a and b / between b and
// b'. Every (LA, LB, cut, submission times) combination is one case executed on a fresh real node under the same
// monitor as the BFS part: after every event pool ∩ main chain = ∅ and the TxMsgEvent stream pairs up and agrees with
// the pool. This covers every position a transaction can take in a detached / attached block relative to transactions
// that are on both branches, only on one, pooled or unknown to the pool.
package main

import (
	"encoding/json"
	"fmt"
	"sort"
	"strings"

	"github.com/bytom/bytom/protocol"
	"github.com/bytom/bytom/protocol/bc"
	"github.com/bytom/bytom/protocol/bc/types"

	"verif/lib/chainlab"
	"verif/lib/ev"
	"verif/lib/labnet"
	"verif/lib/xplore"
)

// ---- the monitor shared by the BFS part and the layout part ----

type monitor struct {
	in     *chainlab.Inst
	w      *chainlab.World
	names  map[bc.Hash]string
	out    *xplore.Out
	desc   func(step int) []string
	inPool map[bc.Hash]bool
	stream []string
	recv   func() (protocol.TxMsgEvent, bool, bool)
}

func newMonitor(in *chainlab.Inst, w *chainlab.World, names map[bc.Hash]string, out *xplore.Out, desc func(step int) []string) (*monitor, error) {
	sub, err := in.Node.Disp.Subscribe(protocol.TxMsgEvent{})
	if err != nil {
		return nil, err
	}
	m := &monitor{in: in, w: w, names: names, out: out, desc: desc, inPool: map[bc.Hash]bool{}}
	// recv: (message, is a TxMsgEvent, something was received)
	m.recv = func() (protocol.TxMsgEvent, bool, bool) {
		select {
		case o := <-sub.Chan():
			e, ok := o.Data.(protocol.TxMsgEvent)
			return e, ok, true
		default:
			return protocol.TxMsgEvent{}, false, false
		}
	}
	return m, nil
}

func (m *monitor) viol(key, what string) {
	m.out.Viols = append(m.out.Viols, xplore.Viol{Key: key, What: what})
}

// after is called when the node is quiescent after event number step of the history (kind names the event class).
func (m *monitor) after(step int, kind string) {
	for {
		e, ok, got := m.recv()
		if !got {
			break
		}
		if !ok {
			continue
		}
		id := e.TxMsg.Tx.ID
		switch e.TxMsg.MsgType {
		case protocol.MsgNewTx:
			m.stream = append(m.stream, "+"+m.names[id])
			if m.inPool[id] {
				m.viol("tx-added-twice-without-removal", fmt.Sprintf("second MsgNewTx(%s) without MsgRemoveTx in between; stream %v, history %v", m.names[id], m.stream, m.desc(step)))
			}
			m.inPool[id] = true
		case protocol.MsgRemoveTx:
			m.stream = append(m.stream, "-"+m.names[id])
			if !m.inPool[id] {
				m.viol("tx-removed-without-addition", fmt.Sprintf("MsgRemoveTx(%s) without a preceding unpaired MsgNewTx; stream %v, history %v", m.names[id], m.stream, m.desc(step)))
			}
			m.inPool[id] = false
		}
	}
	nd := m.in.Node
	// pool ∩ main chain = ∅
	m.out.Checks++
	best := nd.Chain.BestBlockHeader()
	bi := m.w.Index(best.Hash())
	confirmed := map[bc.Hash]string{}
	for x := bi; x > 0; x = m.w.Parent[x] {
		for _, t := range m.w.Blocks[x].Block.Transactions[1:] {
			confirmed[t.ID] = m.w.Names[x]
		}
	}
	for _, d := range nd.Pool.GetTransactions() {
		if blk, ok := confirmed[d.Tx.ID]; ok {
			m.viol("confirmed-tx-still-in-pool:after-"+kind, fmt.Sprintf("%s is in the pool and confirmed in main-chain block %s after %v", m.names[d.Tx.ID], blk, m.desc(step)))
		}
	}
	// the event stream agrees with the pool content
	ps := nd.Pool.VerifState()
	for _, id := range ps.Pool {
		if !m.inPool[id] {
			m.viol("pooled-tx-without-new-tx-event", fmt.Sprintf("%s pooled but the event stream says removed/never added: %v", m.names[id], m.stream))
		}
	}
	n := 0
	for _, v := range m.inPool {
		if v {
			n++
		}
	}
	if n != len(ps.Pool) {
		m.viol("event-stream-disagrees-with-pool", fmt.Sprintf("events say %d txs pooled, pool holds %d; stream %v after %v", n, len(ps.Pool), m.stream, m.desc(step)))
	}
}

// ---- the layout world ----

const (
	never = iota
	beforeA
	afterA
	afterB
	nTimes
)

type bLayout struct {
	l1, l2 []int // transactions of b and b'
	b1, b2 int   // block indices in LW
}

var (
	LW     *chainlab.World
	lk     int // number of transactions
	lTxs   []*types.Tx
	lName  = map[bc.Hash]string{}
	lLists [][]int // every ordered sub-list of 0..lk-1
	lA     []int   // block index of a, per element of lLists
	lB     []bLayout
)

// orderedSublists enumerates every sequence of distinct elements of 0..n-1 (all lengths, all orders).
func orderedSublists(n int) [][]int {
	out := [][]int{{}}
	var rec func(cur []int, used int)
	rec = func(cur []int, used int) {
		for i := 0; i < n; i++ {
			if used&(1<<uint(i)) != 0 {
				continue
			}
			nx := append(append([]int{}, cur...), i)
			out = append(out, nx)
			rec(nx, used|1<<uint(i))
		}
	}
	rec(nil, 0)
	return out
}

func listName(l []int) string {
	var s []string
	for _, i := range l {
		s = append(s, fmt.Sprintf("u%d", i+1))
	}
	return "[" + strings.Join(s, ",") + "]"
}

func pick(l []int) []*types.Tx {
	var out []*types.Tx
	for _, i := range l {
		out = append(out, lTxs[i])
	}
	return out
}

// layoutWorld must be called after world(): it uses the prelude. The prelude outputs U[2..] are not touched by the BFS part.
func layoutWorld(thorough bool) {
	lk = 2
	if thorough {
		lk = 3
	}
	if len(P.U) < 2+lk {
		ev.Fatal("layout world: the prelude has only %d outputs", len(P.U))
	}
	LW = chainlab.NewWorld(W.Net, P.Tip, P.Base)
	for i := 0; i < lk; i++ {
		t := labnet.Pay([]labnet.Out{P.U[2+i]}, labnet.Prog(byte(0x81+i)))
		lTxs = append(lTxs, t)
		lName[t.ID] = fmt.Sprintf("u%d", i+1)
	}
	lLists = orderedSublists(lk)
	for _, l := range lLists {
		lA = append(lA, LW.AddBlock(0, "a"+listName(l), labnet.BlockOpt{Txs: pick(l)}))
	}
	b1Of := map[string]int{}
	for _, l := range lLists {
		for cut := 0; cut <= len(l); cut++ {
			l1, l2 := l[:cut], l[cut:]
			k1 := listName(l1)
			if _, ok := b1Of[k1]; !ok {
				b1Of[k1] = LW.AddBlock(0, "b"+k1, labnet.BlockOpt{Tag: 1, Txs: pick(l1)})
			}
			b1 := b1Of[k1]
			b2 := LW.AddBlock(b1, "b"+k1+"'"+listName(l2), labnet.BlockOpt{Tag: 1, Txs: pick(l2)})
			lB = append(lB, bLayout{l1: l1, l2: l2, b1: b1, b2: b2})
		}
	}
}

// a case is [index into lLists for a, index into lB, submission times in base nTimes (u1 = lowest digit)]
func layoutCases() [][]int {
	nt := 1
	for i := 0; i < lk; i++ {
		nt *= nTimes
	}
	var out [][]int
	for a := range lLists {
		for b := range lB {
			for t := 0; t < nt; t++ {
				out = append(out, []int{a, b, t})
			}
		}
	}
	return out
}

type lStep struct {
	kind  string // "submit" / "block"
	tx    int
	block int
}

func layoutSteps(c []int) []lStep {
	times := make([]int, lk)
	for i, t := 0, c[2]; i < lk; i, t = i+1, t/nTimes {
		times[i] = t % nTimes
	}
	var out []lStep
	subs := func(when int) {
		for i := 0; i < lk; i++ {
			if times[i] == when {
				out = append(out, lStep{kind: "submit", tx: i})
			}
		}
	}
	subs(beforeA)
	out = append(out, lStep{kind: "block", block: lA[c[0]]})
	subs(afterA)
	out = append(out, lStep{kind: "block", block: lB[c[1]].b1})
	subs(afterB)
	out = append(out, lStep{kind: "block", block: lB[c[1]].b2})
	return out
}

func describeSteps(st []lStep) []string {
	var out []string
	for _, s := range st {
		if s.kind == "submit" {
			out = append(out, fmt.Sprintf("submit:u%d", s.tx+1))
		} else {
			out = append(out, "B:"+LW.Names[s.block])
		}
	}
	return out
}

func describeLayout(c []int) []string {
	if len(c) != 3 || c[0] >= len(lLists) || c[1] >= len(lB) {
		return []string{fmt.Sprintf("bad case %v", c)}
	}
	return describeSteps(layoutSteps(c))
}

func runLayout(c []int, _ json.RawMessage) (out xplore.Out) {
	in, err := LW.NewInst()
	if err != nil {
		return xplore.Out{Viols: []xplore.Viol{{Key: "infra-newnode", What: err.Error()}}}
	}
	nd := in.Node
	steps := layoutSteps(c)
	mon, err := newMonitor(in, LW, lName, &out, func(step int) []string { return describeSteps(steps[:step+1]) })
	if err != nil {
		return xplore.Out{Viols: []xplore.Viol{{Key: "infra-subscribe", What: err.Error()}}}
	}
	for i, s := range steps {
		switch s.kind {
		case "submit":
			nd.Chain.ValidateTx(lTxs[s.tx])
		case "block":
			cp := *LW.Blocks[s.block].Block
			cp.SupLinks = nil
			if _, err := nd.Chain.ProcessBlock(&cp); err != nil {
				mon.viol("valid-block-refused", fmt.Sprintf("%s: %v in %v", LW.Names[s.block], err, describeSteps(steps[:i+1])))
			}
		}
		in.Quiesce()
		kind := s.kind
		if i == len(steps)-1 {
			kind = "reorganisation" // b' makes branch B the longer one
		}
		mon.after(i, kind)
	}
	out.Steps = len(steps)
	// the case only means what it says if the node really reorganised to branch B
	best := nd.Chain.BestBlockHeader().Hash()
	if best != LW.Blocks[lB[c[1]].b2].Hash() {
		mon.viol("layout-world-no-reorganisation", fmt.Sprintf("best block is %s, not the tip of the longer branch, after %v", LW.Name(best), describeSteps(steps)))
	}
	ps := nd.Pool.VerifState()
	var pn []string
	for _, id := range ps.Pool {
		pn = append(pn, lName[id])
	}
	for _, id := range ps.Orphans {
		pn = append(pn, "orphan:"+lName[id])
	}
	sort.Strings(pn)
	out.Digest = in.Digest() + "|" + strings.Join(pn, ",")
	// outcome class: how many transactions are on both branches / only attached / only detached, and the final pool
	inA := map[int]bool{}
	for _, i := range lLists[c[0]] {
		inA[i] = true
	}
	both, onlyB := 0, 0
	for _, i := range append(append([]int{}, lB[c[1]].l1...), lB[c[1]].l2...) {
		if inA[i] {
			both++
		} else {
			onlyB++
		}
	}
	out.Outcome = fmt.Sprintf("layout both=%d attached-only=%d detached-only=%d pool=[%s]", both, onlyB, len(inA)-both, strings.Join(pn, ","))
	in.DB.Wipe()
	return
}

func layoutPart(run *ev.Run, spec *xplore.Spec) xplore.Stats {
	return xplore.Flat(run, spec, layoutCases())
}
