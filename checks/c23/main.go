// C23: confirmed transactions leave the mempool; pool notifications pair each addition with at most one removal.
// BFS over interleavings of transaction submissions, in-order block deliveries of two branches that
// confirm overlapping subsets of those transactions, and votes that force a reorganisation back to the
// shorter branch, on the real Chain + TxPool started from the prelude; a subscriber records the pool's
// event stream.
package main

import (
	"encoding/json"
	"fmt"
	"os"
	"sort"
	"strings"
	"time"

	"github.com/bytom/bytom/protocol/bc"
	"github.com/bytom/bytom/protocol/bc/types"

	"verif/lib/chainlab"
	"verif/lib/ev"
	"verif/lib/labnet"
	"verif/lib/par"
	"verif/lib/xplore"
)

type event struct {
	kind  string // "submit", "block", "vote"
	tx    int
	block int
	val   int
	again bool
}

var (
	W      *chainlab.World
	P      *chainlab.Prelude
	txs    []*types.Tx
	txName = map[bc.Hash]string{}
	events []event
	a2     int
)

func (e event) String() string {
	switch e.kind {
	case "submit":
		if e.again {
			return fmt.Sprintf("submit-again:t%d", e.tx+1)
		}
		return fmt.Sprintf("submit:t%d", e.tx+1)
	case "block":
		return "B:" + W.Names[e.block]
	}
	return fmt.Sprintf("V%d:genesis>a2", e.val)
}

func world(thorough bool) {
	net := labnet.Setup(2, 2, 4)
	net.SetLocalKey(labnet.OutsiderKey())
	var err error
	P, err = chainlab.NewPrelude(net, 16)
	if err != nil {
		if par.IsWorker() {
			ev.Fatal("prelude: %v", err)
		}
		// the pool is never reached; block acceptance is C13's subject
		run := ev.Start("C23", "model_checking")
		run.Capped(fmt.Sprintf("world: could not be set up: %v", err))
		run.Finish()
	}
	w := chainlab.NewWorld(net, P.Tip, P.Base)
	t1 := labnet.Pay([]labnet.Out{P.U[0]}, labnet.Prog(0x71))
	t2 := labnet.Pay([]labnet.Out{{Tx: t1, Idx: 0}}, labnet.Prog(0x72)) // child of t1
	t3 := labnet.Pay([]labnet.Out{P.U[1]}, labnet.Prog(0x73))
	t4 := labnet.Pay([]labnet.Out{P.U[0]}, labnet.Prog(0x74))      // conflicts with t1, confirmed on branch B
	t5 := labnet.Pay([]labnet.Out{P.Reward[7]}, labnet.Prog(0x75)) // spends a coinbase output: its spent entry stays in the store
	txs = []*types.Tx{t1, t2, t3, t4, t5}
	for i, t := range txs {
		txName[t.ID] = fmt.Sprintf("t%d", i+1)
	}
	a1 := w.AddBlock(0, "a1", labnet.BlockOpt{Txs: []*types.Tx{t1, t5}})
	a2 = w.AddBlock(a1, "a2", labnet.BlockOpt{Txs: []*types.Tx{t2}})
	b1 := w.AddBlock(0, "b1", labnet.BlockOpt{Tag: 1, Txs: []*types.Tx{t3}})
	b2 := w.AddBlock(b1, "b2", labnet.BlockOpt{Tag: 1, Txs: []*types.Tx{t4}})
	b3 := w.AddBlock(b2, "b3", labnet.BlockOpt{Tag: 1})
	W = w
	nsub := 3
	if thorough {
		nsub = 4
		w.AddBlock(a2, "a3", labnet.BlockOpt{Txs: []*types.Tx{t3}})
		w.AddBlock(b3, "b4", labnet.BlockOpt{Tag: 1})
	}
	for i := 0; i < nsub; i++ {
		events = append(events, event{kind: "submit", tx: i})
	}
	// the coinbase spend, and second submissions (a lagging peer relays a transaction again, possibly after it
	// was confirmed): of one ordinary transaction and of the coinbase spend (thorough: of every transaction)
	events = append(events, event{kind: "submit", tx: 4})
	// (t2 is the child of the pooled-then-confirmed t1: its second submission meets whatever the pool's own output
	// index kept of t1)
	events = append(events, event{kind: "submit", tx: 0, again: true}, event{kind: "submit", tx: 4, again: true}, event{kind: "submit", tx: 1, again: true})
	if thorough {
		events = append(events, event{kind: "submit", tx: 2, again: true})
	}
	for i := 1; i < len(w.Blocks); i++ {
		events = append(events, event{kind: "block", block: i})
	}
	for v := 0; v < 3; v++ {
		events = append(events, event{kind: "vote", val: v})
	}
}

func describe(h []int) []string {
	var out []string
	for _, e := range h {
		out = append(out, events[e].String())
	}
	return out
}

func runHist(h []int, _ json.RawMessage) (out xplore.Out) {
	viol := func(key, what string) {
		out.Viols = append(out.Viols, xplore.Viol{Key: key, What: what})
	}
	in, err := W.NewInst()
	if err != nil {
		return xplore.Out{Viols: []xplore.Viol{{Key: "infra-newnode", What: err.Error()}}}
	}
	nd := in.Node
	mon, err := newMonitor(in, W, txName, &out, func(step int) []string { return describe(h[:step+1]) })
	if err != nil {
		return xplore.Out{Viols: []xplore.Viol{{Key: "infra-subscribe", What: err.Error()}}}
	}
	delivered := map[int]bool{0: true}
	for step, ei := range h {
		e := events[ei]
		switch e.kind {
		case "submit":
			nd.Chain.ValidateTx(txs[e.tx])
		case "block":
			cp := *W.Blocks[e.block].Block
			cp.SupLinks = nil
			if _, err := nd.Chain.ProcessBlock(&cp); err != nil {
				viol("valid-block-refused", fmt.Sprintf("%s: %v in %v", e, err, describe(h[:step+1])))
			}
			delivered[e.block] = true
		case "vote":
			nd.Chain.ProcessBlockVerification(labnet.VoteMsg(W.Net.Keys[e.val], W.Net.Gen.Hash(), W.Blocks[a2].Hash()))
		}
		in.Quiesce()
		mon.after(step, e.kind)
	}
	ps := nd.Pool.VerifState()
	var pn []string
	for _, id := range ps.Pool {
		pn = append(pn, txName[id])
	}
	for _, id := range ps.Orphans {
		pn = append(pn, "orphan:"+txName[id])
	}
	sort.Strings(pn)
	// error-cache content is part of the state (ValidateTx short-circuits on it)
	var ec []string
	for i, t := range txs {
		if nd.Pool.IsTransactionInErrCache(&t.ID) {
			ec = append(ec, fmt.Sprintf("err:t%d", i+1))
		}
	}
	// the pool's private indexes decide what later submissions meet: they are part of the state (a state that differs
	// only in a stale index entry must not be merged with the clean one)
	var idx []string
	for o, t := range ps.Utxo {
		idx = append(idx, o.String()[:8]+">"+t.String()[:8])
	}
	for o, hs := range ps.OrphansByPrev {
		for _, h := range hs {
			idx = append(idx, "w:"+o.String()[:8]+">"+h.String()[:8])
		}
	}
	sort.Strings(idx)
	out.Digest = in.Digest() + "|" + strings.Join(pn, ",") + "|" + strings.Join(ec, ",") + "|" + strings.Join(idx, ",")
	out.Outcome = "pool=[" + strings.Join(pn, ",") + "]"
	used := map[int]bool{}
	for _, e := range h {
		used[e] = true
	}
	for ei, e := range events {
		if used[ei] {
			continue
		}
		switch e.kind {
		case "submit":
			if e.again {
				first := false
				for _, u := range h {
					if events[u].kind == "submit" && events[u].tx == e.tx && !events[u].again {
						first = true
					}
				}
				if !first {
					continue
				}
			}
			out.Enabled = append(out.Enabled, ei)
		case "block":
			if delivered[W.Parent[e.block]] {
				out.Enabled = append(out.Enabled, ei)
			}
		case "vote":
			if delivered[a2] && (e.val == 0 || used[ei-1]) {
				out.Enabled = append(out.Enabled, ei)
			}
		}
	}
	in.DB.Wipe()
	return
}

func main() {
	thorough := os.Getenv("VERIF_TIER") == "thorough"
	for _, a := range os.Args[1:] {
		if a == "thorough" {
			thorough = true
		}
	}
	world(thorough)
	layoutWorld(thorough)
	spec := &xplore.Spec{Name: "c23", Run: runHist, Recycle: 200, Describe: func(h []int) interface{} { return describe(h) }}
	lspec := &xplore.Spec{Name: "c23-layout", Run: runLayout, Recycle: 200, Describe: func(h []int) interface{} { return describeLayout(h) }}
	if par.IsWorker() {
		xplore.Worker(spec, lspec)
	}
	run := ev.Start("C23", "model_checking")
	spec.MaxDepth = len(events) + 1
	t0 := time.Now()
	// VERIF_C23_ONLY=layout (development aid): only the layout part; the run is then recorded as not exhaustive
	only := os.Getenv("VERIF_C23_ONLY")
	var st xplore.Stats
	if only == "" {
		st = xplore.BFS(run, spec)
	} else {
		run.Capped("VERIF_C23_ONLY=" + only + ": BFS and interleaving parts skipped")
	}
	t1 := time.Now()
	ls := layoutPart(run, lspec)
	run.Set("wall_s_bfs_part", t1.Sub(t0).Seconds())
	run.Set("wall_s_layout_part", time.Since(t1).Seconds())
	run.Set("layout_cases", ls.Transitions)
	run.Set("layout_states", ls.States)
	st.Checks += ls.Checks
	if only == "" {
		concurrent(run)
	}
	run.Set("states", st.States)
	run.Set("transitions", st.Transitions)
	run.Set("traces_validated_against_impl", st.Checks)
	run.Set("max_depth", st.MaxDepth)
	var all []int
	for i := range events {
		all = append(all, i)
	}
	run.Set("events", describe(all))
	run.Set("rule", "BFS over interleavings of transaction submissions (t2 child of t1, t4 conflicting with t1, t5 spending a coinbase output; second submissions of t1, t2 and t5, thorough: of every transaction), in-order block deliveries of two branches confirming overlapping subsets, and three votes that justify the shorter branch (reorganisation back); states merged on node digest + pool/orphan/error-cache content; after every event: no pooled transaction is confirmed on the main chain, the TxMsgEvent stream pairs each MsgNewTx with at most one later MsgRemoveTx and agrees with the pool content. Layout part (flat, every case on a fresh node, same monitor): k independent transactions (quick 2, thorough 3); branch A = one block a with every ORDERED sub-list of them, branch B = two blocks b, b' with every ordered sub-list cut at every position (b' triggers the reorganisation a -> b-b'); each transaction independently never submitted / submitted before a / after a / after b; the node must end on b'")
	run.Assume("layout part: the transactions are independent of each other (no parent/child inside the layouts; dependency and conflict are the BFS part's), one reorganisation per case, detached branch one block deep")
	run.Assume("prelude of 16 blocks processed by the real node; OP_TRUE-style programs")
	run.Finish()
}
