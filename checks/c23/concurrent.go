package main

// Interleaving part of C23: a transaction is submitted while the block that confirms it (or a reorganisation
// that confirms / un-confirms it) is being processed. The protocol packages are rewritten for lib/vsched and
// every schedule with a bounded number of preemptions is executed on the real Chain + TxPool; after each
// execution no pooled transaction may be confirmed on the main chain.

import (
	"fmt"
	"strings"
	"time"

	"github.com/bytom/bytom/protocol/bc"

	"verif/lib/ev"
	"verif/lib/labnet"
	"verif/lib/vsched"
)

type cscen struct {
	name    string
	setup   []int   // event indices executed sequentially
	threads [][]int // event indices per thread
}

func concScenarios() []cscen {
	idx := map[string]int{}
	for i, e := range events {
		idx[e.String()] = i
	}
	E := func(names ...string) []int {
		var out []int
		for _, n := range names {
			i, ok := idx[n]
			if !ok {
				ev.Fatal("unknown event %s", n)
			}
			out = append(out, i)
		}
		return out
	}
	return []cscen{
		{"submit t1 || block a1 confirms t1", nil, [][]int{E("submit:t1"), E("B:a1")}},
		{"submit t3 || reorganisation to branch b confirms t3", E("B:a1", "B:b1", "B:b2"), [][]int{E("submit:t3"), E("B:b3")}},
		{"submit t2 (child of confirmed t1) || block a2 confirms t2", E("B:a1"), [][]int{E("submit:t2"), E("B:a2")}},
	}
}

func applyConc(nd *labnet.Node, ei int) {
	e := events[ei]
	switch e.kind {
	case "submit":
		nd.Chain.ValidateTx(txs[e.tx])
	case "block":
		cp := *W.Blocks[e.block].Block
		cp.SupLinks = nil
		nd.Chain.ProcessBlock(&cp)
	}
}

func concBody(sc cscen) func(x *vsched.Exec) {
	return func(x *vsched.Exec) {
		var nd *labnet.Node
		x.Deterministic(func() {
			var err error
			nd, err = labnet.NewNode(P.Base.Clone())
			if err != nil {
				x.Fail("infra-newnode", err.Error())
				return
			}
			for _, ei := range sc.setup {
				applyConc(nd, ei)
			}
		})
		if nd == nil {
			return
		}
		for t := range sc.threads {
			t := t
			x.Spawn(fmt.Sprintf("T%d", t), func() {
				for _, ei := range sc.threads[t] {
					applyConc(nd, ei)
				}
			})
		}
		x.Join()
		x.Settle()
		best := nd.Chain.BestBlockHeader()
		bi := W.Index(best.Hash())
		confirmed := map[bc.Hash]string{}
		for b := bi; b > 0; b = W.Parent[b] {
			for _, t := range W.Blocks[b].Block.Transactions[1:] {
				confirmed[t.ID] = W.Names[b]
			}
		}
		var pooled []string
		for _, d := range nd.Pool.GetTransactions() {
			pooled = append(pooled, txName[d.Tx.ID])
			if blk, ok := confirmed[d.Tx.ID]; ok {
				x.Fail("confirmed-tx-still-in-pool:concurrent-submit", fmt.Sprintf("%s is in the pool and confirmed in main-chain block %s", txName[d.Tx.ID], blk))
			}
		}
		x.Observe(fmt.Sprintf("best=%s pool=%v", W.Name(best.Hash()), pooled))
	}
}

func concurrent(run *ev.Run) {
	bound := run.Pick(1, 2)
	totalExec, totalDec := 0, 0
	for _, sc := range concScenarios() {
		var names []string
		for _, th := range sc.threads {
			names = append(names, strings.Join(describe(th), ";"))
		}
		desc := "concurrent: " + sc.name + ": " + strings.Join(names, " || ")
		// wall-clock share of this scenario (all bounds): what does not finish inside it is reported as capped
		deadline := run.DeadlineIn(time.Duration(run.Pick(60, 240)) * time.Second)
		for b := 0; b <= bound; b++ {
			st := vsched.Explore(vsched.Config{Name: sc.name, Bound: b, Stall: 120 * time.Second, MaxExec: run.Pick(3000, 60000), Deadline: deadline}, concBody(sc))
			if st.Infra != "" {
				if st.StallReproduced {
					run.Violation("call-never-returns-under-schedule", fmt.Sprintf("%s: the same schedule stalled three times: %s", sc.name, st.Infra), map[string]interface{}{"scenario": sc.name, "schedule": st.StallSchedule})
				} else {
					run.Set("stall_not_reproduced", fmt.Sprintf("%s: %s", sc.name, st.Infra))
					run.Capped("an execution stalled once and did not stall again when its schedule was replayed twice (load or nondeterminism outside the scheduler)")
				}
				break
			}
			if b == bound || len(st.Failures) > 0 {
				totalExec += st.Executions
				totalDec += st.Decisions
				run.Sample(map[string]interface{}{"scenario": desc, "preemption_bound": b, "schedules": st.Executions, "distinct_outcomes": len(st.Outcomes), "complete": st.Complete})
				for o := range st.Outcomes {
					run.Outcome("concurrent " + sc.name + " -> " + o)
				}
				if !st.Complete {
					run.Capped("concurrent scenario capped: " + sc.name)
				}
			}
			for _, f := range st.Failures {
				run.Violation(f.Key, fmt.Sprintf("%s, preemption bound %d: %s", desc, b, f.What), map[string]interface{}{"scenario": desc, "bound": b, "schedule": f.Schedule, "what": f.What})
			}
			if len(st.Failures) > 0 {
				break
			}
		}
	}
	run.Set("concurrent_schedules", totalExec)
	run.Set("concurrent_decisions", totalDec)
	run.Set("concurrent_preemption_bound", bound)
	run.Assume("interleaving part: protocol and casper packages rewritten mechanically for lib/vsched; scheduling points are lock / channel / select / go operations")
}
