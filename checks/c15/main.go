// C15: the validator set and the block-proposer schedule are deterministic.
//
// (a) every vote table over <= 4 keys with tallies from {0, min-1, min, min+1, big};
// (b) every table over 11..16 keys whose tallies take two or three levels (ties straddling the cut at 10);
// (c) every vote/veto history of <= 4 operations over 3 keys applied through REAL blocks on a real node;
// (d) the tally itself: every block of one or two transactions with SEVERAL veto inputs (every order, plain
// inputs between them, the same key twice, vetoes that use a key up in first / middle / last position) and
// SEVERAL vote outputs, applied to every start table by Checkpoint.Increase, and (through real blocks) one
// transaction with several vote outputs followed by one transaction spending every ordered selection of them.
// For every resulting checkpoint: EffectiveValidators / AllValidators and GetValidator at every
// timestamp in {slot start, +1, end-1} for three rotation rounds; in (c) additionally which proposer
// signature Chain.ProcessBlock accepts.
//
// Oracle (this file): keep the keys whose tally is >= the minimum, order by (tally descending, key
// descending), cut at 10, federation keys in configured order if nobody qualifies;
// slot = floor((t - start) / interval) mod n.
package main

import (
	"encoding/hex"
	"encoding/json"
	"fmt"
	"sort"
	"strings"
	"sync"

	"github.com/bytom/bytom/consensus"
	"github.com/bytom/bytom/crypto/ed25519/chainkd"
	"github.com/bytom/bytom/protocol/bc"
	"github.com/bytom/bytom/protocol/bc/types"
	"github.com/bytom/bytom/protocol/state"

	"verif/lib/chainlab"
	"verif/lib/ev"
	"verif/lib/labnet"
	"verif/lib/par"
	"verif/lib/xplore"
)

// ---------------------------------------------------------------------------------------------
// the oracle
// ---------------------------------------------------------------------------------------------

const maxValidators = 10

type kv struct {
	Key   string
	Votes uint64
}

// refRank: keys with tally >= min ordered by (tally desc, key desc); not cut.
func refRank(table []kv, min uint64) []kv {
	var q []kv
	for _, e := range table {
		if e.Votes >= min {
			q = append(q, e)
		}
	}
	// insertion sort with the documented total order
	for i := 1; i < len(q); i++ {
		for j := i; j > 0; j-- {
			a, b := q[j-1], q[j]
			before := a.Votes > b.Votes || (a.Votes == b.Votes && a.Key > b.Key)
			if before {
				break
			}
			q[j-1], q[j] = b, a
		}
	}
	return q
}

// refValidators: the effective validators in schedule order.
func refValidators(table []kv, min uint64, fed []string) (keys []string, fallback bool) {
	q := refRank(table, min)
	if len(q) == 0 {
		return append([]string(nil), fed...), true
	}
	if len(q) > maxValidators {
		q = q[:maxValidators]
	}
	for _, e := range q {
		keys = append(keys, e.Key)
	}
	return keys, false
}

func refSlot(start, t, interval uint64, n int) int {
	return int(((t - start) / interval) % uint64(n))
}

// ---------------------------------------------------------------------------------------------
// evaluation of one checkpoint against the oracle
// ---------------------------------------------------------------------------------------------

type counters struct {
	evals      int
	nontrivial int
	viols      []xplore.Viol
	outcomes   map[string]int
}

func (c *counters) viol(key, what string) {
	for _, v := range c.viols {
		if v.Key == key {
			return
		}
	}
	c.viols = append(c.viols, xplore.Viol{Key: key, What: what})
}

func tableMap(table []kv) map[string]uint64 {
	m := map[string]uint64{}
	for _, e := range table {
		m[e.Key] = e.Votes
	}
	return m
}

func short(k string) string {
	if len(k) > 6 {
		return k[:6]
	}
	return k
}

func fmtTable(table []kv) string {
	var s []string
	for _, e := range table {
		s = append(s, fmt.Sprintf("%s=%d", short(e.Key), e.Votes))
	}
	return "{" + strings.Join(s, " ") + "}"
}

func fmtKeys(ks []string) string {
	var s []string
	for _, k := range ks {
		s = append(s, short(k))
	}
	return "[" + strings.Join(s, " ") + "]"
}

// classify how got (in schedule order) differs from ref.
func classify(got, ref []string, fallback bool, votes map[string]uint64, min uint64) string {
	if fallback {
		return "federation-fallback"
	}
	if fed := fedKeys(); strings.Join(got, ",") == strings.Join(fed, ",") {
		return "federation-although-keys-qualify"
	}
	gs, rs := map[string]bool{}, map[string]bool{}
	for _, k := range got {
		gs[k] = true
	}
	for _, k := range ref {
		rs[k] = true
	}
	same := len(gs) == len(rs)
	for k := range gs {
		if !rs[k] {
			same = false
		}
	}
	if !same {
		for k := range gs {
			if votes[k] < min {
				return "key-below-minimum-included"
			}
		}
		if len(got) > maxValidators {
			return "more-than-ten"
		}
		if len(got) < len(ref) {
			return "qualifying-key-missing"
		}
		if len(ref) == maxValidators {
			return "wrong-keys-survive-the-cut-at-ten"
		}
		return "members-differ"
	}
	for i := range ref {
		if i < len(got) && got[i] != ref[i] {
			if votes[got[i]] != votes[ref[i]] {
				return "rank-by-votes"
			}
			return "tie-rank-by-key"
		}
	}
	return "order-differs"
}

// effective returns the implementation's effective validators in Order order, "" if the Order
// fields are not a permutation of 0..n-1 or a map key differs from its validator's PubKey.
func effective(cp *state.Checkpoint) ([]string, string) {
	evs := cp.EffectiveValidators()
	got := make([]string, len(evs))
	for k, v := range evs {
		if v == nil || v.PubKey != k {
			return nil, "map key differs from the validator's key"
		}
		if v.Order < 0 || v.Order >= len(evs) || got[v.Order] != "" {
			return nil, fmt.Sprintf("order %d of %s is out of range or taken twice (n=%d)", v.Order, short(k), len(evs))
		}
		got[v.Order] = k
	}
	return got, ""
}

var offsets = func(interval uint64) []uint64 { return []uint64{0, 1, interval - 1} }
var offNames = []string{"slot-start", "slot-start-plus-1", "slot-end-minus-1"}

// evalSets compares EffectiveValidators and AllValidators with the oracle, reps times.
func evalSets(c *counters, tag string, cp *state.Checkpoint, table []kv, min uint64, fed []string, reps int) (ref []string, ok bool) {
	ref, fallback := refValidators(table, min, fed)
	rank := refRank(table, min)
	votes := tableMap(table)
	ok = true
	for r := 0; r < reps; r++ {
		c.evals++
		got, bad := effective(cp)
		if bad != "" {
			c.viol("orders-not-a-permutation", fmt.Sprintf("%s table %s: %s", tag, fmtTable(table), bad))
			ok = false
			continue
		}
		if strings.Join(got, ",") != strings.Join(ref, ",") {
			cl := classify(got, ref, fallback, votes, min)
			c.viol("validator-set-differs:"+cl, fmt.Sprintf("%s table %s min=%d: EffectiveValidators in schedule order %s, reference %s (evaluation %d of %d)", tag, fmtTable(table), min, fmtKeys(got), fmtKeys(ref), r+1, reps))
			ok = false
		}
		c.evals++
		all := cp.AllValidators()
		var ga, ra []string
		for _, v := range all {
			ga = append(ga, fmt.Sprintf("%s=%d", v.PubKey, v.VoteNum))
		}
		for _, e := range rank {
			ra = append(ra, fmt.Sprintf("%s=%d", e.Key, e.Votes))
		}
		if strings.Join(ga, ",") != strings.Join(ra, ",") {
			var gk, rk []string
			for _, v := range all {
				gk = append(gk, v.PubKey)
			}
			for _, e := range rank {
				rk = append(rk, e.Key)
			}
			cl := "vote-number-differs"
			if strings.Join(gk, ",") != strings.Join(rk, ",") {
				cl = classify(gk, rk, false, votes, min)
				if cl == "more-than-ten" || cl == "wrong-keys-survive-the-cut-at-ten" {
					cl = "members-differ"
				}
			}
			c.viol("all-validators-differ:"+cl, fmt.Sprintf("%s table %s min=%d: AllValidators %s, reference ranking %s (evaluation %d of %d)", tag, fmtTable(table), min, fmtKeys(gk), fmtKeys(rk), r+1, reps))
			ok = false
		}
	}
	return ref, ok
}

// evalSchedule compares a GetValidator-like function with the oracle on every timestamp of the plan.
func evalSchedule(c *counters, keyPrefix, tag string, get func(t uint64) *state.Validator, ref []string, cpTimestamp uint64, reps int) {
	interval := consensus.ActiveNetParams.BlockTimeInterval
	start := cpTimestamp + interval
	n := len(ref)
	for round := 0; round < 3; round++ {
		for slot := 0; slot < n; slot++ {
			for oi, off := range offsets(interval) {
				t := start + uint64(round*n+slot)*interval + off
				want := ref[refSlot(start, t, interval, n)]
				for r := 0; r < reps; r++ {
					c.evals++
					v := get(t)
					where := offNames[oi]
					if round > 0 {
						where += ":later-round"
					}
					if v == nil {
						c.viol(keyPrefix+"nobody-scheduled:"+where, fmt.Sprintf("%s: validators %s, t = start + %d: nobody is scheduled", tag, fmtKeys(ref), t-start))
						continue
					}
					if v.PubKey != want {
						c.viol(keyPrefix+"schedule-differs:"+where, fmt.Sprintf("%s: validators %s, t = start + %d (round %d slot %d): scheduled %s, reference %s", tag, fmtKeys(ref), t-start, round, slot, short(v.PubKey), short(want)))
					}
				}
			}
		}
	}
}

// ---------------------------------------------------------------------------------------------
// (a), (b): constructed checkpoints
// ---------------------------------------------------------------------------------------------

func labKeys(n int) []string {
	var ks []string
	for i := 0; i < n; i++ {
		x := chainkd.RootXPrv([]byte{byte(i + 1), 0x15}).XPub()
		ks = append(ks, hex.EncodeToString(x[:]))
	}
	return ks
}

func fedKeys() []string {
	var ks []string
	for _, x := range consensus.ActiveNetParams.FederationXpubs {
		ks = append(ks, x.String())
	}
	return ks
}

func mkCheckpoint(table []kv, status state.CheckpointStatus, ts uint64) *state.Checkpoint {
	return &state.Checkpoint{Height: 100, Timestamp: ts, Status: status, Votes: tableMap(table), Rewards: map[string]uint64{}}
}

type job func(c *counters)

// runJobs executes jobs on a few goroutines; results are merged in job order (deterministic).
func runJobs(run *ev.Run, jobs []job) {
	res := make([]*counters, len(jobs))
	var wg sync.WaitGroup
	sem := make(chan struct{}, 6)
	for i := range jobs {
		wg.Add(1)
		sem <- struct{}{}
		go func(i int) {
			defer wg.Done()
			defer func() { <-sem }()
			c := &counters{outcomes: map[string]int{}}
			jobs[i](c)
			res[i] = c
		}(i)
	}
	wg.Wait()
	for _, c := range res {
		run.Add("evaluations", c.evals)
		run.Add("distinct_nontrivial", c.nontrivial)
		for k, n := range c.outcomes {
			for i := 0; i < n; i++ {
				run.Outcome(k)
			}
		}
		for _, v := range c.viols {
			run.Violation(v.Key, v.What, map[string]interface{}{"what": v.What})
		}
	}
}

func outcomeOf(table []kv, min uint64) (string, bool) {
	rank := refRank(table, min)
	if len(rank) == 0 {
		return "nobody-qualifies->federation", len(table) > 0
	}
	tie := false
	for i := 1; i < len(rank); i++ {
		if rank[i].Votes == rank[i-1].Votes {
			tie = true
		}
	}
	s := "elected"
	if len(rank) > maxValidators {
		s = "elected-cut-at-ten"
		if rank[maxValidators-1].Votes == rank[maxValidators].Votes {
			s += "-through-a-tie"
		}
	}
	if tie {
		s += "+ties"
	}
	if len(rank) < len(table) {
		s += "+some-below-min"
	}
	// non-trivial: at least two qualifying keys, or a key filtered out
	return s, len(rank) >= 2 || len(rank) < len(table)
}

func partA(run *ev.Run, maxKeys int, statuses []state.CheckpointStatus, stamps []uint64, nFeds []int) {
	tables := 0
	for _, nFed := range nFeds {
		labnet.Setup(2, 1, nFed)
		min := consensus.ActiveNetParams.MinValidatorVoteNum
		fed := fedKeys()
		keys := labKeys(4)
		values := []uint64{0, min - 1, min, min + 1, 1<<63 | 12345}
		var jobs []job
		for k := 0; k <= maxKeys; k++ {
			total := 1
			for i := 0; i < k; i++ {
				total *= len(values)
			}
			k := k
			jobs = append(jobs, func(c *counters) {
				for idx := 0; idx < total; idx++ {
					table := make([]kv, k)
					x := idx
					for i := 0; i < k; i++ {
						table[i] = kv{keys[i], values[x%len(values)]}
						x /= len(values)
					}
					oc, nt := outcomeOf(table, min)
					c.outcomes["a:"+oc]++
					if nt {
						c.nontrivial++
					}
					for _, st := range statuses {
						for _, ts := range stamps {
							cp := mkCheckpoint(table, st, ts)
							tag := fmt.Sprintf("(a) status=%d fed=%d", st, nFed)
							ref, ok := evalSets(c, tag, cp, table, min, fed, 4)
							if ok { // a wrong set is reported under its own key, not again as a wrong schedule
								evalSchedule(c, "", tag+" table "+fmtTable(table), cp.GetValidator, ref, ts, 4)
							}
						}
					}
				}
			})
			tables += total
		}
		runJobs(run, jobs)
	}
	run.Set("a_tables", tables)
}

func partB(run *ev.Run, twoN, threeN []int, pairs [][]uint64, triples [][]uint64) {
	labnet.Setup(2, 1, 4)
	min := consensus.ActiveNetParams.MinValidatorVoteNum
	fed := fedKeys()
	keys := labKeys(16)
	const ts = 1524549600000 + 777
	var jobs []job
	tables := 0
	mk := func(N int, levels []uint64, lo, hi int, sched bool) job {
		return func(c *counters) {
			L := len(levels)
			for idx := lo; idx < hi; idx++ {
				table := make([]kv, N)
				x := idx
				used := map[uint64]bool{}
				for i := 0; i < N; i++ {
					table[i] = kv{keys[i], levels[x%L]}
					used[levels[x%L]] = true
					x /= L
				}
				if len(used) < 2 {
					continue // one level only: covered by the neighbouring enumerations, skipped to keep "two or three levels" literal
				}
				oc, nt := outcomeOf(table, min)
				c.outcomes["b:"+oc]++
				if nt {
					c.nontrivial++
				}
				cp := mkCheckpoint(table, state.Unjustified, ts)
				tag := fmt.Sprintf("(b) N=%d levels=%v", N, levels)
				ref, ok := evalSets(c, tag, cp, table, min, fed, 4)
				if sched && ok {
					evalSchedule(c, "", tag+" table "+fmtTable(table), cp.GetValidator, ref, ts, 1)
				}
			}
		}
	}
	pow := func(b, e int) int {
		r := 1
		for i := 0; i < e; i++ {
			r *= b
		}
		return r
	}
	const chunk = 40000
	for _, N := range twoN {
		for _, lv := range pairs {
			total := pow(2, N)
			tables += total - 2
			for lo := 0; lo < total; lo += chunk {
				hi := lo + chunk
				if hi > total {
					hi = total
				}
				jobs = append(jobs, mk(N, lv, lo, hi, true))
			}
		}
	}
	for _, N := range threeN {
		for _, lv := range triples {
			total := pow(3, N)
			tables += total - 3
			for lo := 0; lo < total; lo += chunk {
				hi := lo + chunk
				if hi > total {
					hi = total
				}
				jobs = append(jobs, mk(N, lv, lo, hi, false))
			}
		}
	}
	runJobs(run, jobs)
	run.Set("b_tables", tables)
}

// ---------------------------------------------------------------------------------------------
// (d): the tally of one block, Checkpoint.Increase on constructed blocks
// ---------------------------------------------------------------------------------------------

// dItem is one input or output of a (d) transaction: key < 0 = a plain spend input / plain output,
// otherwise a veto input / vote output for key number `key` of `amt`.
type dItem struct {
	key int
	amt uint64
}

type dTx struct{ ins, outs []dItem }

// dBlock is a block of (d) with the reference's own view of it: per transaction and key the sum of the
// vetoed and of the voted amounts (no order of inputs in it: the tally must not depend on one).
type dBlock struct {
	txs     []dTx
	desc    string
	block   *types.Block
	vetoSum [][]uint64
	voteSum [][]uint64
	maxVeto int // largest number of veto inputs in one transaction
}

func seqs(kinds []dItem, minLen, maxLen int) [][]dItem {
	var out [][]dItem
	var rec func(cur []dItem)
	rec = func(cur []dItem) {
		if len(cur) >= minLen {
			out = append(out, append([]dItem(nil), cur...))
		}
		if len(cur) == maxLen {
			return
		}
		for _, k := range kinds {
			rec(append(cur, k))
		}
	}
	rec(nil)
	return out
}

func dKinds(nKeys int, amts []uint64) []dItem {
	kinds := []dItem{{-1, 150000000}}
	for k := 0; k < nKeys; k++ {
		for _, a := range amts {
			kinds = append(kinds, dItem{k, a})
		}
	}
	return kinds
}

func dTxs(kinds []dItem, maxIn, maxOut int) []dTx {
	var txs []dTx
	for _, ins := range seqs(kinds, 1, maxIn) {
		for _, outs := range seqs(kinds, 1, maxOut) {
			txs = append(txs, dTx{ins, outs})
		}
	}
	return txs
}

func (t dTx) String() string {
	f := func(items []dItem, plain, typed string) string {
		var s []string
		for _, it := range items {
			if it.key < 0 {
				s = append(s, plain)
			} else {
				s = append(s, fmt.Sprintf("%s(k%d,%d)", typed, it.key, it.amt))
			}
		}
		return strings.Join(s, " ")
	}
	return "tx{in: " + f(t.ins, "spend", "veto") + " | out: " + f(t.outs, "plain", "vote") + "}"
}

func (b *dBlock) String() string { return b.desc }

func (b *dBlock) describe() string {
	var s []string
	for _, t := range b.txs {
		s = append(s, t.String())
	}
	return strings.Join(s, " ; ")
}

const dHeight = 100 // an epoch boundary for E=2: Increase turns the checkpoint Unjustified

var dPrev = bc.NewHash([32]byte{0xd1})

// dBuilt is a (d) transaction with the real transaction built from it (shared by the blocks that use it).
type dBuilt struct {
	dTx
	tx         *types.Tx
	veto, vote []uint64
	nVeto      int
}

func buildDTx(t dTx, keys []string, nKeys int, tag byte) *dBuilt {
	r := &dBuilt{dTx: t, veto: make([]uint64, nKeys), vote: make([]uint64, nKeys)}
	d := types.TxData{Version: 1}
	for i, it := range t.ins {
		id := bc.NewHash([32]byte{0xd2, tag, byte(i)})
		if it.key < 0 {
			d.Inputs = append(d.Inputs, types.NewSpendInput(nil, id, *consensus.BTMAssetID, it.amt, 0, labnet.Prog(byte(i)), nil))
			continue
		}
		raw, _ := hex.DecodeString(keys[it.key])
		d.Inputs = append(d.Inputs, types.NewVetoInput(nil, id, *consensus.BTMAssetID, it.amt, 0, labnet.Prog(byte(i)), raw, nil))
		r.veto[it.key] += it.amt
		r.nVeto++
	}
	for i, it := range t.outs {
		if it.key < 0 {
			d.Outputs = append(d.Outputs, types.NewOriginalTxOutput(*consensus.BTMAssetID, it.amt, labnet.Prog(byte(0x80+i)), nil))
			continue
		}
		raw, _ := hex.DecodeString(keys[it.key])
		d.Outputs = append(d.Outputs, types.NewVoteOutput(*consensus.BTMAssetID, it.amt, labnet.Prog(byte(0x80+i)), raw, nil))
		r.vote[it.key] += it.amt
	}
	// Checkpoint.Increase reads the inputs and outputs of the transaction data only: the entry form is not built
	r.tx = &types.Tx{TxData: d}
	return r
}

var dCoinbase *types.Tx

func mkDBlock(txs ...*dBuilt) *dBlock {
	if dCoinbase == nil {
		dCoinbase = labnet.SizedTx(types.TxData{Version: 1,
			Inputs:  []*types.TxInput{types.NewCoinbaseInput([]byte{0, '1', '0', '0'})},
			Outputs: []*types.TxOutput{types.NewOriginalTxOutput(*consensus.BTMAssetID, 0, labnet.OpTrue, nil)}})
	}
	b := &dBlock{}
	list := []*types.Tx{dCoinbase}
	for _, t := range txs {
		b.txs = append(b.txs, t.dTx)
		list = append(list, t.tx)
		b.vetoSum = append(b.vetoSum, t.veto)
		b.voteSum = append(b.voteSum, t.vote)
		if t.nVeto > b.maxVeto {
			b.maxVeto = t.nVeto
		}
	}
	b.desc = b.describe()
	b.block = &types.Block{
		BlockHeader:  types.BlockHeader{Version: 1, Height: dHeight, PreviousBlockHash: dPrev, Timestamp: 1524549600000 + 777},
		Transactions: list,
	}
	return b
}

// refTally: transaction by transaction, per key: what the vetoes of the transaction leave (never below
// zero), plus what its vote outputs add.
func (b *dBlock) refTally(start []uint64) []uint64 {
	t := append([]uint64(nil), start...)
	for i := range b.txs {
		for k := range t {
			if b.vetoSum[i][k] >= t[k] {
				t[k] = 0
			} else {
				t[k] -= b.vetoSum[i][k]
			}
			t[k] += b.voteSum[i][k]
		}
	}
	return t
}

// shape names, for the outcome histogram, where in its transaction the first veto stands that uses its
// key up (amount >= what the key has at that point), for the transaction with the most veto inputs.
func (b *dBlock) shape(start []uint64) string {
	switch b.maxVeto {
	case 0:
		return "votes-only"
	case 1:
		return "one-veto-per-transaction"
	}
	t := append([]uint64(nil), start...)
	for i, tx := range b.txs {
		n, pos, nv := 0, -1, 0
		for _, it := range tx.ins {
			if it.key >= 0 {
				nv++
			}
		}
		for _, it := range tx.ins {
			if it.key < 0 {
				continue
			}
			if pos < 0 && it.amt >= t[it.key] {
				pos = n
			}
			if it.amt >= t[it.key] {
				t[it.key] = 0
			} else {
				t[it.key] -= it.amt
			}
			n++
		}
		for k := range t {
			t[k] += b.voteSum[i][k]
		}
		if nv == b.maxVeto {
			switch {
			case pos < 0:
				return "several-vetoes-in-one-transaction:none-uses-its-key-up"
			case pos == 0:
				return "several-vetoes-in-one-transaction:first-uses-its-key-up"
			case pos == nv-1:
				return "several-vetoes-in-one-transaction:last-uses-its-key-up"
			}
			return "several-vetoes-in-one-transaction:middle-uses-its-key-up"
		}
	}
	return "several-vetoes-in-one-transaction"
}

func vetoClass(maxVeto int) string {
	switch maxVeto {
	case 0:
		return "votes-only"
	case 1:
		return "one-veto-per-transaction"
	}
	return "several-vetoes-in-one-transaction"
}

// diffTally compares a Votes map (zero entries ignored) with a reference table.
func diffTally(got map[string]uint64, ref []kv) (dir string, ok bool) {
	want := map[string]uint64{}
	for _, e := range ref {
		if e.Votes != 0 {
			want[e.Key] = e.Votes
		}
	}
	var keys []string
	for k := range want {
		keys = append(keys, k)
	}
	for k, v := range got {
		if _, in := want[k]; !in && v != 0 {
			keys = append(keys, k)
		}
	}
	sort.Strings(keys)
	for _, k := range keys {
		switch {
		case got[k] > want[k]:
			return "tally-too-high", false
		case got[k] < want[k]:
			return "tally-too-low", false
		}
	}
	return "", true
}

func fmtVotes(m map[string]uint64) string {
	var t []kv
	for k, v := range m {
		t = append(t, kv{k, v})
	}
	sort.Slice(t, func(i, j int) bool { return t[i].Key < t[j].Key })
	return fmtTable(t)
}

// partD: every start table over nKeys keys with tallies from `levels`, every block of one transaction from
// `single` and every block of two transactions from `pair`.
func partD(run *ev.Run, nKeys int, levels, amts []uint64, maxIn, maxOut, pairIn, pairOut int) {
	labnet.Setup(2, 1, 4)
	min := consensus.ActiveNetParams.MinValidatorVoteNum
	fed := fedKeys()
	keys := labKeys(nKeys)
	kinds := dKinds(nKeys, amts)
	var blocks []*dBlock
	for _, t := range dTxs(kinds, maxIn, maxOut) {
		blocks = append(blocks, mkDBlock(buildDTx(t, keys, nKeys, 0)))
	}
	var first, second []*dBuilt
	for _, t := range dTxs(kinds, pairIn, pairOut) {
		first = append(first, buildDTx(t, keys, nKeys, 1))
		second = append(second, buildDTx(t, keys, nKeys, 2))
	}
	for _, t1 := range first {
		for _, t2 := range second {
			blocks = append(blocks, mkDBlock(t1, t2))
		}
	}
	interval := consensus.ActiveNetParams.BlockTimeInterval
	nTables := 1
	for i := 0; i < nKeys; i++ {
		nTables *= len(levels)
	}
	var jobs []job
	for idx := nTables - 1; idx >= 0; idx-- { // tables with votes for every key first: the first counterexample reported is a plausible one
		start := make([]uint64, nKeys)
		x := idx
		for i := range start {
			start[i] = levels[x%len(levels)]
			x /= len(levels)
		}
		jobs = append(jobs, func(c *counters) {
			var startTable []kv
			for i, v := range start {
				startTable = append(startTable, kv{keys[i], v})
			}
			startDesc := "(d) start table " + fmtTable(startTable) + ", block "
			for _, b := range blocks {
				votes := map[string]uint64{}
				for i, v := range start {
					if v != 0 {
						votes[keys[i]] = v
					}
				}
				cp := &state.Checkpoint{Height: dHeight - 1, Hash: dPrev, Timestamp: b.block.Timestamp - interval, Status: state.Growing, Votes: votes, Rewards: map[string]uint64{}}
				c.evals++
				if err := cp.Increase(b.block); err != nil {
					c.viol("infra-increase", err.Error())
					return
				}
				after := b.refTally(start)
				table := make([]kv, 0, nKeys)
				for i, v := range after {
					if v != 0 {
						table = append(table, kv{keys[i], v})
					}
				}
				c.outcomes["d:"+b.shape(start)]++
				c.nontrivial++
				if dir, ok := diffTally(cp.Votes, table); !ok {
					c.viol("vote-tally-differs:"+vetoClass(b.maxVeto)+":"+dir, fmt.Sprintf("(d) start table %s, block %s: Votes after Checkpoint.Increase %s, reference (per transaction and key: tally minus the vetoed sum, not below zero, plus the voted sum) %s", fmtTable(startTable), b, fmtVotes(cp.Votes), fmtTable(table)))
					continue // the sets follow from the table; a wrong table is reported under its own key
				}
				evalSets(c, startDesc+b.desc, cp, table, min, fed, 1)
			}
		})
	}
	runJobs(run, jobs)
	run.Add("d_tables", nTables)
	run.Add("d_blocks_per_table", len(blocks))
}

// ---------------------------------------------------------------------------------------------
// (c): histories through real blocks
// ---------------------------------------------------------------------------------------------

const (
	nVoteKey = 3
	opNoop   = 2 * nVoteKey
	// opMV+v: ONE transaction spending U[0..2] into several vote outputs, the keys of mvVariants[v]
	opMV = 16
	// opMX + 2*code + revote: ONE transaction whose inputs are an ordered selection of the vote outputs of the
	// opMV transaction (code = sum of (index+1)*5^position); revote = 1: its outputs are vote outputs again
	opMX = 100
)

// keys of the vote outputs of a several-outputs transaction (amounts cVoteAmts): the same key twice, every
// key once, two keys twice
var mvVariants = [][]int{{0, 0, 1, 2}, {0, 1, 2}, {1, 1, 2, 2}}

func mxDecode(op int) (sel []int, revote bool) {
	code := (op - opMX) / 2
	for ; code > 0; code /= 5 {
		sel = append(sel, code%5-1)
	}
	return sel, (op-opMX)%2 == 1
}

func mxEncode(sel []int, revote bool) int {
	code, f := 0, 1
	for _, i := range sel {
		code += (i + 1) * f
		f *= 5
	}
	op := opMX + 2*code
	if revote {
		op++
	}
	return op
}

// enumerateMulti: [several-outputs transaction v, (empty block,) transaction spending every ordered selection
// of >= 2 of its vote outputs (, with vote outputs again)].
func enumerateMulti(variants []int, gap, revote []bool) [][]int {
	var out [][]int
	for _, v := range variants {
		n := len(mvVariants[v])
		var rec func(sel []int, used int)
		rec = func(sel []int, used int) {
			if len(sel) >= 2 {
				for _, g := range gap {
					for _, r := range revote {
						h := []int{opMV + v}
						if g {
							h = append(h, opNoop)
						}
						out = append(out, append(h, mxEncode(sel, r)))
					}
				}
			}
			for i := 0; i < n; i++ {
				if used&(1<<i) == 0 {
					rec(append(append([]int(nil), sel...), i), used|1<<i)
				}
			}
		}
		rec(nil, 0)
	}
	return out
}

// vote amounts per key: k0 and k1 tie vote for vote, k2 outranks them
var cVoteAmts = [nVoteKey]uint64{100000000, 100000000, 120000000}

// minimum tally variants: every single vote qualifies / two votes are needed
var cMins = []uint64{100000000, 200000000}

type cWorld struct {
	net      *labnet.Net
	P        *chainlab.Prelude
	voteKeys []chainkd.XPrv // keys that can be voted for
	allKeys  []chainkd.XPrv // every key a block may be signed with
	fed      []string
}

var cw *cWorld

func buildC() *cWorld {
	if cw != nil {
		return cw
	}
	net := labnet.Setup(2, 1, 3)
	net.SetLocalKey(labnet.OutsiderKey())
	w := &cWorld{net: net}
	x1 := chainkd.RootXPrv([]byte{0x51, 0x15})
	x2 := chainkd.RootXPrv([]byte{0x52, 0x15})
	net.AddKey(x1)
	net.AddKey(x2)
	w.voteKeys = []chainkd.XPrv{net.Keys[1], x1, x2}
	w.allKeys = append([]chainkd.XPrv(nil), net.Keys...)
	w.fed = fedKeys()
	P, err := chainlab.NewPrelude(net, 16)
	if err != nil {
		// a rejected prelude block cannot be attributed to the validator schedule: the coordinator caps
		// the parts that run on real blocks; a worker is never started in that case
		if par.IsWorker() {
			ev.Fatal("prelude: %v", err)
		}
		cwErr = err
		return nil
	}
	w.P = P
	cw = w
	return w
}

var cwErr error

func opName(op int) string {
	switch {
	case op >= opMX:
		sel, revote := mxDecode(op)
		s := fmt.Sprintf("one-tx-vetoing-outputs%v-of-the-vote-tx", sel)
		if revote {
			s += "-and-voting-again"
		}
		return s
	case op >= opMV:
		return fmt.Sprintf("one-tx-voting-for-keys%v", mvVariants[op-opMV])
	case op < nVoteKey:
		return fmt.Sprintf("vote(k%d)", op)
	case op < 2*nVoteKey:
		return fmt.Sprintf("veto(k%d)", op-nVoteKey)
	}
	return "empty-block"
}

func describeC(h []int) interface{} {
	var s []string
	for _, op := range h {
		s = append(s, opName(op))
	}
	return s
}

// cModel is the reference tally along the branch.
type cModel struct {
	tally map[string]uint64
	outs  [nVoteKey][]cOut // outstanding vote outputs per key, oldest first
	mv    []mvOut          // vote outputs of the several-outputs transaction
	// largest number of veto inputs in one transaction so far
	maxVeto int
}

type mvOut struct {
	key    int
	out    labnet.Out
	height uint64
}

type cOut struct {
	out    labnet.Out
	height uint64
}

func (m *cModel) table() []kv {
	var t []kv
	for k, v := range m.tally {
		t = append(t, kv{k, v})
	}
	sort.Slice(t, func(i, j int) bool { return t[i].Key < t[j].Key })
	return t
}

func (m *cModel) enabled(op int, height uint64) bool {
	if op >= opMX {
		sel, _ := mxDecode(op)
		for _, i := range sel {
			if i >= len(m.mv) || m.mv[i].height+1 > height {
				return false
			}
		}
		return true
	}
	if op >= nVoteKey && op < 2*nVoteKey {
		o := m.outs[op-nVoteKey]
		return len(o) > 0 && o[0].height+1 <= height
	}
	return true
}

// enumerate all op sequences up to maxLen whose vetoes are enabled (pure model, no node).
func enumerate(maxLen int) [][]int {
	var out [][]int
	type st struct {
		created [nVoteKey][]uint64
	}
	var rec func(h []int, s st)
	rec = func(h []int, s st) {
		out = append(out, append([]int(nil), h...))
		if len(h) == maxLen {
			return
		}
		height := uint64(16 + len(h) + 1)
		for op := 0; op <= opNoop; op++ {
			n := s
			for k := range n.created {
				n.created[k] = append([]uint64(nil), s.created[k]...)
			}
			switch {
			case op < nVoteKey:
				n.created[op] = append(n.created[op], height)
			case op < 2*nVoteKey:
				k := op - nVoteKey
				if len(n.created[k]) == 0 || n.created[k][0]+1 > height {
					continue
				}
				n.created[k] = n.created[k][1:]
			}
			rec(append(h, op), n)
		}
	}
	rec(nil, st{})
	return out
}

// applyOp builds the transaction of operation op (source index i) for a block at the given height and
// updates the reference tally.
func (w *cWorld) applyOp(m *cModel, op, i int, height uint64) []*types.Tx {
	var txs []*types.Tx
	keyOf := func(k int) (raw []byte, hexKey string) {
		pub := w.voteKeys[k].XPub()
		return pub[:], hex.EncodeToString(pub[:])
	}
	switch {
	case op >= opMX:
		sel, revote := mxDecode(op)
		var ins []labnet.Out
		var sum uint64
		vetoed := map[string]uint64{}
		for _, j := range sel {
			o := m.mv[j]
			ins = append(ins, o.out)
			sum += o.out.Amount()
			_, hk := keyOf(o.key)
			vetoed[hk] += o.out.Amount()
		}
		rest := sum - labnet.Fee
		var outs []*types.TxOutput
		voted := map[string]uint64{}
		if revote {
			for n, k := range []int{1, 0} {
				if rest >= cVoteAmts[k] {
					raw, hk := keyOf(k)
					outs = append(outs, types.NewVoteOutput(*consensus.BTMAssetID, cVoteAmts[k], labnet.Prog(byte(0x60+n)), raw, nil))
					voted[hk] += cVoteAmts[k]
					rest -= cVoteAmts[k]
				}
			}
		}
		if rest > 0 || len(outs) == 0 {
			outs = append(outs, types.NewOriginalTxOutput(*consensus.BTMAssetID, rest, labnet.Prog(byte(0x50+i)), nil))
		}
		txs = append(txs, labnet.Tx(ins, outs))
		// per key: what the vetoes of the transaction leave, plus what it votes
		for hk, a := range vetoed {
			if a >= m.tally[hk] {
				delete(m.tally, hk)
			} else {
				m.tally[hk] -= a
			}
		}
		for hk, a := range voted {
			m.tally[hk] += a
		}
		m.mv = nil // (d) histories end here; the outputs are not tracked further
		if len(sel) > m.maxVeto {
			m.maxVeto = len(sel)
		}
	case op >= opMV:
		ks := mvVariants[op-opMV]
		srcs := []labnet.Out{w.P.U[0], w.P.U[1], w.P.U[2]}
		rest := 3*uint64(chainlab.UAmount) - labnet.Fee
		var outs []*types.TxOutput
		for n, k := range ks {
			raw, hk := keyOf(k)
			outs = append(outs, types.NewVoteOutput(*consensus.BTMAssetID, cVoteAmts[k], labnet.Prog(byte(0x30+n)), raw, nil))
			m.tally[hk] += cVoteAmts[k]
			rest -= cVoteAmts[k]
		}
		outs = append(outs, types.NewOriginalTxOutput(*consensus.BTMAssetID, rest, labnet.Prog(0x40), nil))
		tx := labnet.Tx(srcs, outs)
		txs = append(txs, tx)
		for n, k := range ks {
			m.mv = append(m.mv, mvOut{k, labnet.Out{Tx: tx, Idx: n}, height})
		}
	case op < nVoteKey:
		pub := w.voteKeys[op].XPub()
		src := w.P.U[i]
		tx := labnet.Tx([]labnet.Out{src}, []*types.TxOutput{
			types.NewVoteOutput(*consensus.BTMAssetID, cVoteAmts[op], labnet.Prog(byte(0x30+i)), pub[:], nil),
			types.NewOriginalTxOutput(*consensus.BTMAssetID, src.Amount()-cVoteAmts[op]-labnet.Fee, labnet.Prog(byte(0x40+i)), nil)})
		txs = append(txs, tx)
		m.outs[op] = append(m.outs[op], cOut{labnet.Out{Tx: tx, Idx: 0}, height})
		m.tally[hex.EncodeToString(pub[:])] += cVoteAmts[op]
	case op < 2*nVoteKey:
		k := op - nVoteKey
		pub := w.voteKeys[k].XPub()
		vo := m.outs[k][0]
		m.outs[k] = m.outs[k][1:]
		txs = append(txs, labnet.Pay([]labnet.Out{vo.out}, labnet.Prog(byte(0x50+i))))
		if m.maxVeto < 1 {
			m.maxVeto = 1
		}
		key := hex.EncodeToString(pub[:])
		m.tally[key] -= cVoteAmts[k]
		if m.tally[key] == 0 {
			delete(m.tally, key)
		}
	}
	return txs
}

func (m *cModel) clone() *cModel {
	n := &cModel{tally: map[string]uint64{}, mv: append([]mvOut(nil), m.mv...), maxVeto: m.maxVeto}
	for k, v := range m.tally {
		n.tally[k] = v
	}
	for k := range m.outs {
		n.outs[k] = append([]cOut(nil), m.outs[k]...)
	}
	return n
}

// tallyAfter is the reference tally after one more operation.
func (w *cWorld) tallyAfter(m *cModel, op int) []kv {
	n := m.clone()
	switch {
	case op < nVoteKey:
		pub := w.voteKeys[op].XPub()
		n.tally[hex.EncodeToString(pub[:])] += cVoteAmts[op]
	case op < 2*nVoteKey:
		k := op - nVoteKey
		pub := w.voteKeys[k].XPub()
		key := hex.EncodeToString(pub[:])
		n.tally[key] -= cVoteAmts[k]
		if n.tally[key] == 0 {
			delete(n.tally, key)
		}
	}
	return n.table()
}

// nextEpochOps picks the operations of the two sibling blocks that open the next epoch: in a fixed order
// of preference, enabled operations that change the reference validator list, then the other enabled ones
// (the three votes are always enabled).
func (w *cWorld) nextEpochOps(m *cModel, height, min uint64) (a, b int) {
	before, _ := refValidators(m.table(), min, w.fed)
	var changing, others []int
	for _, op := range []int{2, 1, 0, nVoteKey, nVoteKey + 1, nVoteKey + 2} {
		if !m.enabled(op, height) {
			continue
		}
		after, _ := refValidators(w.tallyAfter(m, op), min, w.fed)
		if strings.Join(after, ",") != strings.Join(before, ",") {
			changing = append(changing, op)
		} else {
			others = append(others, op)
		}
	}
	all := append(changing, others...)
	return all[0], all[1]
}

func runC(h []int, extra json.RawMessage) (out xplore.Out) {
	w := buildC()
	var variant int
	json.Unmarshal(extra, &variant)
	cMin := cMins[variant]
	consensus.ActiveNetParams.MinValidatorVoteNum = cMin
	c := &counters{outcomes: map[string]int{}}
	defer func() {
		out.Viols = append(out.Viols, c.viols...)
		out.Checks = c.evals
	}()
	db := w.P.Base.Clone()
	defer db.Wipe()
	nd, err := labnet.NewNode(db)
	if err != nil {
		return xplore.Out{Viols: []xplore.Viol{{Key: "infra-newnode", What: err.Error()}}}
	}
	defer nd.Stop()
	interval := consensus.ActiveNetParams.BlockTimeInterval
	m := &cModel{tally: map[string]uint64{}}
	// boundary[h] = (table, timestamp) of the last epoch boundary at or below height h
	type boundary struct {
		table []kv
		ts    uint64
	}
	E := w.net.E
	bnd := map[uint64]boundary{}
	tip := w.P.Tip
	bnd[tip.Height] = boundary{nil, tip.Block.Timestamp}
	bnd[tip.Height-1] = boundary{nil, w.P.Blocks[len(w.P.Blocks)-3].Block.Timestamp}
	proposerKey := func(parentHeight uint64, ts uint64) (chainkd.XPrv, string) {
		b := bnd[parentHeight]
		ref, _ := refValidators(b.table, cMin, w.fed)
		want := ref[refSlot(b.ts+interval, ts, interval, len(ref))]
		k, ok := w.net.KeyFor(want)
		if !ok {
			panic("c15: no private key for " + want)
		}
		return k, want
	}
	// an operation becomes visible at the next epoch boundary: a history that ends inside an epoch
	// is completed with one empty block
	ops := append([]int(nil), h...)
	if (tip.Height+uint64(len(ops)))%E != 0 {
		ops = append(ops, opNoop)
	}
	for i, op := range ops {
		height := tip.Height + 1
		if !m.enabled(op, height) {
			return xplore.Out{Viols: []xplore.Viol{{Key: "infra-disabled-op", What: fmt.Sprint(describeC(h))}}}
		}
		txs := w.applyOp(m, op, i, height)
		ts := tip.Block.Timestamp + interval
		signer, want := proposerKey(tip.Height, ts)
		b := w.net.NewBlock(tip, labnet.BlockOpt{Txs: txs, Signer: &signer})
		cp := *b.Block
		cp.SupLinks = nil
		orphan, err := nd.Chain.ProcessBlock(&cp)
		c.evals++
		if err != nil || orphan {
			c.viol("scheduled-proposer-signature-rejected:history-block", fmt.Sprintf("block %d (%s) signed by the reference proposer %s rejected: orphan=%v err=%v", height, opName(op), short(want), orphan, err))
			out.Digest = "rejected/" + fmt.Sprint(h)
			out.Outcome = "history-block-rejected"
			return
		}
		tip = b
		if height%E == 0 {
			bnd[height] = boundary{m.table(), b.Block.Timestamp}
		} else {
			bnd[height] = bnd[height-1]
		}
		out.Steps++
	}

	// ---- the reached state
	tipHash := tip.Hash()
	cur := bnd[tip.Height]
	ref, fallback := refValidators(cur.table, cMin, w.fed)
	tag := fmt.Sprintf("(c) tip %d, tally at the last epoch boundary %s", tip.Height, fmtTable(cur.table))
	evalSchedule(c, "through-blocks:", tag, func(t uint64) *state.Validator {
		v, err := nd.Chain.GetValidator(&tipHash, t)
		if err != nil {
			return nil
		}
		return v
	}, ref, cur.ts, 4)
	// the whole tally (keys below the minimum included) of the node's checkpoint that ends with the tip
	c.evals++
	if _, votes, found := nd.Chain.VerifCasper().VerifTables(tipHash); !found {
		c.viol("through-blocks:no-checkpoint-for-the-boundary-block", tag)
	} else if dir, same := diffTally(votes, m.table()); !same {
		c.viol("through-blocks:vote-tally-differs:"+vetoClass(m.maxVeto)+":"+dir, fmt.Sprintf("%s: Votes of the node's checkpoint %s, vote outputs minus vetoes along the branch %s", tag, fmtVotes(votes), fmtTable(m.table())))
	}
	// AllValidators(block) ranks the table of the checkpoint before the block's own epoch
	prev := bnd[tip.Height-1]
	rank := refRank(prev.table, cMin)
	for r := 0; r < 4; r++ {
		c.evals++
		all, err := nd.Chain.AllValidators(&tipHash)
		var ga, ra []string
		for _, v := range all {
			ga = append(ga, fmt.Sprintf("%s=%d", v.PubKey, v.VoteNum))
		}
		for _, e := range rank {
			ra = append(ra, fmt.Sprintf("%s=%d", e.Key, e.Votes))
		}
		if err != nil || strings.Join(ga, ",") != strings.Join(ra, ",") {
			c.viol("all-validators-differ:through-blocks", fmt.Sprintf("%s: Chain.AllValidators(tip) = %v (err %v), reference ranking of the previous boundary %v", tag, ga, err, ra))
		}
	}
	// which signature is accepted for a child in each slot of one round (+1)
	accepted, rejected := 0, 0
	for s := 1; s <= len(ref)+1; s++ {
		ts := tip.Block.Timestamp + uint64(s)*interval
		_, want := proposerKey(tip.Height, ts)
		for ci, cand := range w.allKeys {
			cand := cand
			b := w.net.NewBlock(tip, labnet.BlockOpt{Slot: s, Tag: byte(s*8 + ci + 1), Signer: &cand, SkipCP: true})
			_, err := nd.Chain.ProcessBlock(b.Block)
			c.evals++
			isWant := cand.XPub().String() == want
			switch {
			case isWant && err != nil:
				c.viol("scheduled-proposer-signature-rejected", fmt.Sprintf("%s: child in slot %d signed by the reference proposer %s rejected: %v", tag, s, short(want), err))
			case !isWant && err == nil:
				c.viol("unscheduled-proposer-signature-accepted", fmt.Sprintf("%s: child in slot %d signed by %s accepted, the reference proposer is %s", tag, s, short(cand.XPub().String()), short(want)))
			case isWant:
				accepted++
			default:
				rejected++
			}
		}
	}
	// ---- the next epoch opens with two sibling blocks that carry different operations; the set that is
	// read for this epoch (tally at boundary T) and the one before it must not move. Observed (i) through
	// who may cast a verification for checkpoint T (decided from the in-memory parent checkpoint) and
	// (ii) after the accepted verifications made the node save checkpoint T again, through the schedule
	// and the accepted proposer signatures of the epoch that reads checkpoint T.
	opA, opB := w.nextEpochOps(m, tip.Height+1, cMin)
	var sibs []*labnet.B
	for si, op := range []int{opA, opB} {
		ts := tip.Block.Timestamp + interval
		signer, want := proposerKey(tip.Height, ts)
		b := w.net.NewBlock(tip, labnet.BlockOpt{Txs: w.applyOp(m.clone(), op, 4+si, tip.Height+1), Signer: &signer, Tag: byte(si)})
		cp := *b.Block
		cp.SupLinks = nil
		orphan, err := nd.Chain.ProcessBlock(&cp)
		c.evals++
		if err != nil || orphan {
			c.viol("scheduled-proposer-signature-rejected:next-epoch-block", fmt.Sprintf("%s: block %d (%s) signed by the reference proposer %s rejected: orphan=%v err=%v", tag, b.Height, opName(op), short(want), orphan, err))
			out.Digest = "rejected-next/" + fmt.Sprint(h)
			out.Outcome = "next-epoch-block-rejected"
			return
		}
		sibs = append(sibs, b)
	}
	tag2 := fmt.Sprintf("%s, then siblings %d:%s and %d':%s", tag, tip.Height+1, opName(opA), tip.Height+1, opName(opB))
	// (i) verifications genesis -> checkpoint T by every known key
	voters, _ := refValidators(prev.table, cMin, w.fed)
	isVoter := map[string]bool{}
	for _, k := range voters {
		isVoter[k] = true
	}
	genesis := w.net.Gen.Hash()
	votesAccepted := 0
	for _, key := range w.allKeys {
		pub := key.XPub().String()
		err := nd.Chain.ProcessBlockVerification(labnet.VoteMsg(key, genesis, tipHash))
		c.evals++
		switch {
		case isVoter[pub] && err != nil:
			c.viol("verification-by-validator-refused", fmt.Sprintf("%s: verification genesis->block %d by %s refused (%v); the reference validators of that epoch are %s", tag2, tip.Height, short(pub), err, fmtKeys(voters)))
		case !isVoter[pub] && err == nil:
			c.viol("verification-by-non-validator-accepted", fmt.Sprintf("%s: verification genesis->block %d by %s accepted; the reference validators of that epoch are %s", tag2, tip.Height, short(pub), fmtKeys(voters)))
		}
		if err == nil {
			votesAccepted++
		}
	}
	recorded := -1
	for _, n := range nd.Chain.VerifCasper().VerifTree() {
		if n.Hash == tipHash {
			recorded = len(n.Links[genesis])
		}
	}
	c.evals++
	if recorded != votesAccepted {
		c.viol("accepted-verification-not-recorded", fmt.Sprintf("%s: %d verifications accepted, %d signatures on the link genesis->block %d in the checkpoint tree", tag2, votesAccepted, recorded, tip.Height))
	}
	// (ii) the epoch that reads checkpoint T, after the checkpoint was saved again
	for si, sb := range sibs {
		sh := sb.Hash()
		stag := fmt.Sprintf("%s; child of sibling %d", tag2, si)
		evalSchedule(c, "after-checkpoint-resave:", stag, func(t uint64) *state.Validator {
			v, err := nd.Chain.GetValidator(&sh, t)
			if err != nil {
				return nil
			}
			return v
		}, ref, cur.ts, 1)
		c.evals++
		all, err := nd.Chain.AllValidators(&sh)
		var ga, ra []string
		for _, v := range all {
			ga = append(ga, fmt.Sprintf("%s=%d", v.PubKey, v.VoteNum))
		}
		for _, e := range refRank(cur.table, cMin) {
			ra = append(ra, fmt.Sprintf("%s=%d", e.Key, e.Votes))
		}
		if err != nil || strings.Join(ga, ",") != strings.Join(ra, ",") {
			c.viol("all-validators-differ:after-checkpoint-resave", fmt.Sprintf("%s: Chain.AllValidators = %v (err %v), reference ranking at boundary %d %v", stag, ga, err, tip.Height, ra))
		}
		for s := 1; s <= len(ref); s++ {
			ts := sb.Block.Timestamp + uint64(s)*interval
			want := ref[refSlot(cur.ts+interval, ts, interval, len(ref))]
			for ci, cand := range w.allKeys {
				cand := cand
				b := w.net.NewBlock(sb, labnet.BlockOpt{Slot: s, Tag: byte(s*8 + ci + 1), Signer: &cand, SkipCP: true})
				_, err := nd.Chain.ProcessBlock(b.Block)
				c.evals++
				isWant := cand.XPub().String() == want
				switch {
				case isWant && err != nil:
					c.viol("after-checkpoint-resave:scheduled-proposer-signature-rejected", fmt.Sprintf("%s: block %d in slot %d signed by the reference proposer %s rejected: %v", stag, b.Height, s, short(want), err))
				case !isWant && err == nil:
					c.viol("after-checkpoint-resave:unscheduled-proposer-signature-accepted", fmt.Sprintf("%s: block %d in slot %d signed by %s accepted, the reference proposer is %s", stag, b.Height, s, short(cand.XPub().String()), short(want)))
				case isWant:
					accepted++
				default:
					rejected++
				}
			}
		}
	}
	oc, _ := outcomeOf(cur.table, cMin)
	if fallback {
		oc = "nobody-qualifies->federation"
	}
	chg := "next-epoch-ops-change-the-list"
	if la, _ := refValidators(w.tallyAfter(m, opA), cMin, w.fed); strings.Join(la, ",") == strings.Join(ref, ",") {
		chg = "next-epoch-ops-keep-the-list"
	}
	out.Outcome = fmt.Sprintf("c:min=%d:%s n=%d voters=%d %s accepted=%d rejected=%d", cMin/100000000, oc, len(ref), votesAccepted, chg, accepted, rejected)
	out.Digest = fmt.Sprintf("min%d h%d cur%s prev%s", cMin, tip.Height, fmtTable(cur.table), fmtTable(prev.table))
	return
}

func main() {
	spec := &xplore.Spec{Name: "c15", Run: runC, Recycle: 1000, Describe: describeC}
	if par.IsWorker() {
		xplore.Worker(spec)
	}
	run := ev.Start("C15", "exploration")
	const t0 = 1524549600000
	if run.Thorough() {
		partA(run, 4, []state.CheckpointStatus{state.Unjustified, state.Justified, state.Finalized}, []uint64{t0, t0 + 12345}, []int{4, 1, 10})
		min := uint64(100000000)
		partB(run, []int{11, 12, 13, 14, 15, 16}, []int{11, 12, 13},
			[][]uint64{{min, min + 1}, {min - 1, min}},
			[][]uint64{{min, min + 1, min + 2}, {min - 1, min, 1<<63 | 12345}})
	} else {
		partA(run, 3, []state.CheckpointStatus{state.Unjustified, state.Justified}, []uint64{t0 + 12345}, []int{4})
		min := uint64(100000000)
		partB(run, []int{11, 12}, []int{11},
			[][]uint64{{min, min + 1}, {min - 1, min}},
			[][]uint64{{min, min + 1, min + 2}})
	}
	// (d) on constructed blocks
	{
		min := uint64(100000000)
		if run.Thorough() {
			partD(run, 3, []uint64{0, min, min + min/2, 2 * min}, []uint64{min / 2, min}, 4, 2, 2, 1)
		} else {
			partD(run, 3, []uint64{0, min, 2 * min}, []uint64{min}, 4, 2, 2, 1)
		}
	}
	// (c), and (d) through real blocks
	if buildC() == nil {
		run.Capped(fmt.Sprintf("parts (c) and (d) through real blocks: could not be set up: %v", cwErr))
	}
	items := enumerate(run.Pick(3, 4))
	multi := enumerateMulti([]int{0}, []bool{false}, []bool{false})
	multiMins := 1
	if run.Thorough() {
		multi = append(enumerateMulti([]int{0, 1, 2}, []bool{false}, []bool{false, true}), enumerateMulti([]int{0, 1, 2}, []bool{true}, []bool{false})...)
		multiMins = len(cMins)
	}
	cStates, cBlocks, nHist := 0, 0, 0
	for variant := range cMins {
		if cwErr != nil {
			break
		}
		spec.Extra = variant
		its := items
		if variant < multiMins {
			its = append(append([][]int(nil), items...), multi...)
		}
		nHist += len(its)
		st := xplore.Flat(run, spec, its)
		run.Add("evaluations", st.Checks)
		cStates += st.States
		cBlocks += st.Transitions
	}
	run.Add("distinct_nontrivial", cStates)
	run.Set("c_histories", nHist)
	run.Set("d_histories_through_blocks", len(multi)*multiMins)
	run.Set("c_history_blocks_processed", cBlocks)
	run.Set("c_distinct_boundary_tallies", cStates)
	run.Set("rule", "(a) every function from the first k<=K of four keys to {0, min-1, min, min+1, 2^63+12345}, per checkpoint status and timestamp; (b) every assignment of two (three) tally levels to N keys that uses at least two levels; (c) every sequence of <= L operations from {vote(k) of 1.0/1.0/1.2 * 10^8 for k0/k1/k2, veto(k) of the oldest vote output of k, empty block} (a sequence ending inside an epoch is completed with one empty block), once with minimum 10^8 and once with 2*10^8, one operation per block on a real node (E=2); (d) every start table of 3 keys over {0, min, 2*min} (thorough {0, min, 1.5*min, 2*min}) x every block of one transaction with 1..4 inputs from {plain spend, veto(k, min)} (thorough: veto amounts min/2 and min) in every order and 1..2 outputs from {plain, vote(k, same amounts)}, and every block of two transactions with 1..2 inputs and 1 output each, applied by Checkpoint.Increase: the whole Votes table is compared with (per transaction and key) max(0, tally - sum vetoed) + sum voted, then the sets 1x; and through real blocks one transaction with vote outputs for [k0 k0 k1 k2] (thorough also [k0 k1 k2], [k1 k1 k2 k2]) followed (thorough: also after an empty block) by one transaction spending every ordered selection of >= 2 of those outputs (thorough: also with vote outputs again), observed like (c); in (c) and (d) the whole Votes table of the node's checkpoint at the boundary block is compared with the reference tally. Per checkpoint: EffectiveValidators and AllValidators 4x, GetValidator at {slot start, +1, end-1} of every slot of 3 rotation rounds (4x in (a),(c); 1x in two-level (b); sets only in three-level (b)); in (c) additionally one child block per (slot of one round + 1) x (every known key) is offered to Chain.ProcessBlock. evaluations = calls compared with the reference; distinct_nontrivial = tables with >= 2 qualifying keys or a filtered key ((a),(b)) + distinct (height, boundary tallies) reached in (c) + (start table, block) pairs of (d)")
	run.Assume("repeating an evaluation 4x cannot force a particular map iteration order; the reference order is total, so any dependence on iteration order shows up as a difference with high probability per tied table, not with certainty")
	run.Assume("(d) constructed blocks are not valid blocks (unbalanced amounts, vetoes of a key that has no votes): Checkpoint.Increase does not validate, and the tally rule 'a veto takes at most what is there' is taken from the statement's 'vetoes exceeding votes'; within one transaction vetoes are applied before its vote outputs. Through real blocks a veto never exceeds the tally")
	run.Assume("timestamps before the epoch start are outside the statement (unsigned subtraction)")
	run.Assume("(c): vote outputs cannot be smaller than 10^8 (consensus), so tallies below the minimum arise only with the minimum 2*10^8; blocks are signed with the reference proposer's key, so a disagreement about the validator set surfaces as a rejected block")
	run.Finish()
}
