#!/bin/bash
exec "$(dirname "$0")/../../tools/vrw_prebuild.sh" "$1" c39 /repo/event/event.go
