#!/bin/bash
# event.go rewritten for lib/vsched; in the rewritten copy the per-subscriber buffer is shrunk from 65536 to 4 events so
# that "the subscriber's buffer is full" is a reachable state (checks/c39/main.go: bufCap)
set -e
ROOT="$(cd "$(dirname "$0")/../.." && pwd)"
"$ROOT/tools/vrw_prebuild.sh" "$1" c39 /repo/event/event.go
python3 - "$1" <<'PY'
import json, re, sys
ov = json.load(open(sys.argv[1]))
f = ov["Replace"]["/repo/event/event.go"]
s = open(f).read()
new, n = re.subn(r"maxEventChSize\s*=\s*65536", "maxEventChSize = 4", s)
if n != 1:
    sys.exit("c39 prebuild: maxEventChSize = 65536 not found in event.go")
open(f, "w").write(new)
PY
