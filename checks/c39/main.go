// C39: event subscribers see posted events in order, once each; posting after Stop fails;
// unsubscribing never blocks. Every interleaving (bounded preemptions) of small multi-threaded
// scenarios over the REAL dispatcher, whose locks, channel operations and select are routed
// through the cooperative scheduler by tools/vrewrite.
package main

import (
	"io"

	"fmt"
	"github.com/sirupsen/logrus"
	"os"
	"sort"
	"strings"
	"time"

	"github.com/bytom/bytom/event"

	"verif/lib/ev"
	"verif/lib/vsched"
	"verif/lib/vtime"
)

type evA struct{ ID int }
type evB struct{ ID int }

type opKind int

const (
	opSub opKind = iota
	opUnsub
	opPostA
	opPostB
	opStop
)

type op struct {
	kind  opKind
	sub   int    // subscription slot
	types string // argument list of Subscribe, one letter per argument: "A", "AB", "AA" (rejected), "ABA", "" ...
	id    int    // event id
	start int64
	end   int64
	err   error
	done  bool
}

type scenario struct {
	name    string
	threads [][]op
	nsubs   int
	setup   []op // executed sequentially before the threads start (pre-registered subscribers)
}

// inflight: index of the operation thread 0 is executing (sequential histories: names the call that never returned)
var inflight int

func (o op) String() string {
	switch o.kind {
	case opSub:
		return fmt.Sprintf("sub%d(%s)", o.sub, strings.Join(strings.Split(o.types, ""), ","))
	case opUnsub:
		return fmt.Sprintf("unsub%d", o.sub)
	case opPostA:
		return fmt.Sprintf("postA%d", o.id)
	case opPostB:
		return fmt.Sprintf("postB%d", o.id)
	}
	return "stop"
}

func scenarios(thorough bool) []scenario {
	S := func(i int) op { return op{kind: opSub, sub: i, types: "A"} }
	SB := func(i int) op { return op{kind: opSub, sub: i, types: "AB"} }
	ST := func(i int, types string) op { return op{kind: opSub, sub: i, types: types} } // any argument list
	U := func(i int) op { return op{kind: opUnsub, sub: i} }
	A := func(id int) op { return op{kind: opPostA, id: id} }
	B := func(id int) op { return op{kind: opPostB, id: id} }
	X := op{kind: opStop}
	sc := []scenario{
		{"two-posters", [][]op{{S(0), A(1), A(2)}, {A(3), B(4)}}, 1, nil},
		{"subscribe-vs-post", [][]op{{S(0)}, {A(1), A(2)}}, 1, nil},
		{"unsubscribe-vs-post", [][]op{{S(0), U(0)}, {A(1), A(2)}}, 1, nil},
		{"stop-vs-post", [][]op{{S(0), X}, {A(1), A(2)}}, 1, nil},
		{"stop-vs-subscribe-post", [][]op{{X}, {S(0), A(1)}}, 1, nil},
		{"two-subscribers", [][]op{{S(0), A(1)}, {SB(1), B(2), A(3)}}, 2, nil},
		// three subscribers of one type: an unsubscribe of the first / middle one races a Post that is walking the list
		{"unsubscribe-first-of-three-vs-post", [][]op{{U(0)}, {A(1), A(2)}}, 3, []op{S(0), S(1), S(2)}},
		{"unsubscribe-middle-of-three-vs-post", [][]op{{U(1)}, {A(1)}, {A(2)}}, 3, []op{S(0), S(1), S(2)}},
		// Stop walks all subscriptions under the dispatcher lock while an Unsubscribe (second of two) and a Post run
		{"unsubscribe-vs-stop-vs-post", [][]op{{U(1)}, {X}, {A(1)}}, 2, []op{S(0), S(1)}},
		{"unsubscribe-twice-vs-stop", [][]op{{U(0), U(0)}, {X}}, 1, []op{S(0)}},
		// subscriber 0 (A and B) never reads and its buffer (4 events) fills up with B events; subscriber 1 (A only,
		// registered later) must still get every A event: only the subscriber whose OWN buffer is full may miss one
		{"full-buffer-of-an-earlier-subscriber", [][]op{{B(1), B(2), B(3), B(4), A(5), A(6)}}, 2, []op{SB(0), S(1)}},
		{"full-buffer-of-an-earlier-subscriber-vs-poster", [][]op{{B(1), B(2), B(3), B(4), A(5)}, {A(6)}}, 2, []op{SB(0), S(1)}},
		// Subscribe argument lists the dispatcher refuses (one type twice; refused after part of the list was registered)
		// and the empty list, racing the operations of an established subscriber
		{"rejected-subscribe-vs-post-unsubscribe", [][]op{{ST(1, "AA")}, {A(1), U(0)}}, 2, []op{S(0)}},
		{"partly-registered-rejected-subscribe-vs-post-vs-stop", [][]op{{ST(1, "ABA"), B(1)}, {A(2)}, {X}}, 2, []op{SB(0)}},
		{"empty-subscribe-vs-post-unsubscribe", [][]op{{ST(1, ""), U(1)}, {A(1), U(0)}}, 2, []op{S(0)}},
	}
	if thorough {
		sc = append(sc,
			scenario{"three-threads-unsub", [][]op{{S(0), A(1)}, {A(2), A(3)}, {SB(1), U(1)}}, 2, nil},
			scenario{"three-threads-stop", [][]op{{S(0), A(1)}, {A(2), B(3)}, {X}}, 1, nil},
			scenario{"unsub-vs-stop", [][]op{{S(0), U(0)}, {X}, {A(1)}}, 1, nil},
			scenario{"double-unsub", [][]op{{S(0), U(0)}, {U(0)}, {A(1), A(2)}}, 1, nil},
			scenario{"resubscribe", [][]op{{S(0), U(0), S(1)}, {A(1), A(2), A(3)}}, 2, nil},
			scenario{"rejected-subscribes-vs-subscribe-vs-post", [][]op{{ST(1, "BB"), ST(2, "AB")}, {ST(3, "BAB"), U(0)}, {A(1), B(2)}}, 4, []op{SB(0)}},
			scenario{"unsubscribe-two-of-four-vs-posts", [][]op{{U(0), U(2)}, {A(1)}, {B(2), A(3)}}, 4, []op{S(0), SB(1), S(2), SB(3)}},
		)
	}
	return sc
}

// subArgs turns "ABA" into the argument list (evA{}, evB{}, evA{}).
func subArgs(types string) []interface{} {
	var args []interface{}
	for _, c := range types {
		if c == 'A' {
			args = append(args, evA{})
		} else {
			args = append(args, evB{})
		}
	}
	return args
}

type world struct {
	d    *event.Dispatcher
	subs []*event.Subscription
	ops  [][]op
}

// body: seq = one thread, checked against the exact sequential reference (checkSeq)
func body(sc scenario, seq bool) func(x *vsched.Exec) {
	return func(x *vsched.Exec) {
		vtime.Reset()
		w := &world{d: event.NewDispatcher(), subs: make([]*event.Subscription, sc.nsubs)}
		w.ops = make([][]op, len(sc.threads))
		for t := range sc.threads {
			w.ops[t] = append([]op(nil), sc.threads[t]...)
		}
		// pre-registered subscribers: their subscribe op is recorded as thread -1 history
		setupOps := append([]op(nil), sc.setup...)
		x.Deterministic(func() {
			for i := range setupOps {
				o := &setupOps[i]
				o.start = int64(vtime.Now().UnixNano())
				var sub *event.Subscription
				sub, o.err = w.d.Subscribe(subArgs(o.types)...)
				w.subs[o.sub] = sub
				o.end = int64(vtime.Now().UnixNano())
				o.done = true
			}
		})
		w.ops = append(w.ops, setupOps)
		for t := range sc.threads {
			t := t
			x.Spawn(fmt.Sprintf("T%d", t), func() {
				for i := range w.ops[t] {
					o := &w.ops[t][i]
					if seq {
						inflight = i
					}
					o.start = int64(vtime.Now().UnixNano())
					switch o.kind {
					case opSub:
						var s *event.Subscription
						var err error
						s, err = w.d.Subscribe(subArgs(o.types)...)
						o.err = err
						w.subs[o.sub] = s
					case opUnsub:
						if s := w.subs[o.sub]; s != nil {
							s.Unsubscribe()
						}
					case opPostA:
						o.err = w.d.Post(evA{o.id})
					case opPostB:
						o.err = w.d.Post(evB{o.id})
					case opStop:
						w.d.Stop()
					}
					o.end = int64(vtime.Now().UnixNano())
					o.done = true
				}
			})
		}
		x.Join()
		if seq {
			checkSeq(x, sc, w)
			return
		}
		check(x, sc, w)
	}
}

// bufCap: per-subscriber buffer size in the rewritten event.go (the repository's 65536 is replaced by prebuild.sh).
const bufCap = 4

func check(x *vsched.Exec, sc scenario, w *world) {
	const inf = int64(1) << 62
	stopStart, stopEnd := inf, inf
	for _, th := range w.ops {
		for _, o := range th {
			if o.kind == opStop {
				stopStart, stopEnd = o.start, o.end
			}
		}
	}
	// posts
	for _, th := range w.ops {
		for _, o := range th {
			if o.kind != opPostA && o.kind != opPostB {
				continue
			}
			if o.start > stopEnd && o.err != event.ErrMuxClosed {
				x.Fail("post-after-stop-did-not-fail", fmt.Sprintf("%s began after Stop returned, err=%v", o, o.err))
			}
			if o.end < stopStart && o.err != nil {
				x.Fail("post-before-stop-failed", fmt.Sprintf("%s returned %v before Stop began", o, o.err))
			}
		}
	}
	// subscribes: an argument list naming one type twice is refused (while the dispatcher runs), any other is accepted
	for _, th := range w.ops {
		for _, o := range th {
			if o.kind != opSub {
				continue
			}
			if !dupTypes(o.types) && o.err != nil {
				x.Fail("subscribe-result-wrong", fmt.Sprintf("%s returned %v", o, o.err))
			}
			if dupTypes(o.types) && o.end < stopStart && (o.err != event.ErrDuplicateSubscribe || w.subs[o.sub] != nil) {
				x.Fail("subscribe-result-wrong", fmt.Sprintf("%s (one type twice) returned err=%v, subscription nil=%v", o, o.err, w.subs[o.sub] == nil))
			}
		}
	}
	var summary []string
	for si := 0; si < sc.nsubs; si++ {
		s := w.subs[si]
		var subOp *op
		unsubStart, unsubEnd := inf, inf
		for ti := range w.ops {
			for oi := range w.ops[ti] {
				if o := &w.ops[ti][oi]; o.kind == opSub && o.sub == si {
					subOp = o
				}
			}
		}
		for ti := range w.ops {
			for oi := range w.ops[ti] {
				o := &w.ops[ti][oi]
				if o.kind == opUnsub && o.sub == si && o.start < unsubStart && subOp != nil && o.start > subOp.end {
					unsubStart, unsubEnd = o.start, o.end
				}
			}
		}
		if s == nil || subOp == nil {
			continue
		}
		// drain
		var got []interface{}
	drain:
		for {
			select {
			case e, ok := <-s.Chan():
				if !ok {
					break drain
				}
				got = append(got, e.Data)
			default:
				break drain
			}
		}
		seen := map[string]bool{}
		var ids []string
		for _, g := range got {
			k := fmt.Sprintf("%T%v", g, g)
			if seen[k] {
				x.Fail("event-delivered-twice", fmt.Sprintf("subscriber %d got %s twice", si, k))
			}
			seen[k] = true
			ids = append(ids, k)
			if _, isB := g.(evB); isB && !strings.Contains(subOp.types, "B") {
				x.Fail("event-of-unsubscribed-type-delivered", fmt.Sprintf("subscriber %d (%s only) got %s", si, subOp.types, k))
			}
			if _, isA := g.(evA); isA && !strings.Contains(subOp.types, "A") {
				x.Fail("event-of-unsubscribed-type-delivered", fmt.Sprintf("subscriber %d (%s only) got %s", si, subOp.types, k))
			}
		}
		// per-poster order
		pos := map[string]int{}
		for i, k := range ids {
			pos[k] = i
		}
		endOfLife := unsubStart
		if stopStart < endOfLife {
			endOfLife = stopStart
		}
		afterLife := unsubEnd
		if stopEnd < afterLife {
			afterLife = stopEnd
		}
		for _, th := range w.ops {
			last := -1
			for _, o := range th {
				if o.kind != opPostA && o.kind != opPostB {
					continue
				}
				var k string
				var wanted bool
				if o.kind == opPostA {
					k = fmt.Sprintf("%T%v", evA{o.id}, evA{o.id})
					wanted = strings.Contains(subOp.types, "A")
				} else {
					k = fmt.Sprintf("%T%v", evB{o.id}, evB{o.id})
					wanted = strings.Contains(subOp.types, "B")
				}
				p, received := pos[k]
				if received {
					if p < last {
						x.Fail("events-of-one-poster-out-of-order", fmt.Sprintf("subscriber %d received %v", si, ids))
					}
					last = p
				}
				// a subscriber whose own buffer (bufCap events, see prebuild.sh) was full may miss events
				if wanted && o.err == nil && o.start > subOp.end && o.end < endOfLife && !received && len(got) < bufCap {
					x.Fail("event-lost", fmt.Sprintf("subscriber %d did not get %s posted strictly inside its subscription (got %v)", si, o, ids))
				}
				if received && o.end < subOp.start {
					x.Fail("event-from-before-subscription-delivered", fmt.Sprintf("subscriber %d got %s posted before it subscribed", si, o))
				}
				if received && o.start > afterLife {
					x.Fail("event-after-unsubscribe-delivered", fmt.Sprintf("subscriber %d got %s posted after it was unsubscribed/stopped", si, o))
				}
			}
		}
		summary = append(summary, fmt.Sprintf("s%d:%v", si, ids))
	}
	var errs []string
	for _, th := range w.ops {
		for _, o := range th {
			if o.err != nil {
				errs = append(errs, o.String()+"="+o.err.Error())
			}
		}
	}
	sort.Strings(errs)
	x.Observe(strings.Join(summary, " ") + " " + strings.Join(errs, ","))
}

func dupTypes(types string) bool {
	for i := range types {
		if strings.IndexByte(types, types[i]) != i {
			return true
		}
	}
	return false
}

// ---------------------------------------------------------------------------
// sequential histories: EVERY operation sequence of a given length over the alphabet
//   sub_i(list) for two subscriber slots and every argument list in seqShapes, unsub_i, postA, postB, stop
// executed by one thread (so the sequence is the history) and compared with an exact reference: nobody reads before the
// end, so a subscriber must hold exactly the first bufCap events of its types posted while it was subscribed, in order.

// refSub / refRun: the reference model.
type refSub struct {
	have   bool // Subscribe returned a subscription
	types  string
	closed bool
	// closedAny: a subscription to NO type after Stop. The dispatcher registers it nowhere, so Stop does not close its
	// channel (the comment of Subscribe promises it would); the property says nothing about it: either state is accepted
	// and the open one is recorded in the outcome ("open-after-stop").
	closedAny bool
	q         []string
}

type refResult struct {
	errs    []error
	subs    [2]refSub
	stopped bool
}

func refRun(seq []op) refResult {
	var r refResult
	for _, o := range seq {
		var err error
		switch o.kind {
		case opSub:
			switch {
			case r.stopped: // documented: a subscription that is already closed
				r.subs[o.sub] = refSub{have: true, closed: true}
			case dupTypes(o.types):
				err = event.ErrDuplicateSubscribe
			default:
				r.subs[o.sub] = refSub{have: true, types: o.types}
			}
		case opUnsub:
			r.subs[o.sub].closed, r.subs[o.sub].closedAny = true, false
		case opPostA, opPostB:
			if r.stopped {
				err = event.ErrMuxClosed
				break
			}
			typ, k := "A", fmt.Sprintf("%T%v", evA{o.id}, evA{o.id})
			if o.kind == opPostB {
				typ, k = "B", fmt.Sprintf("%T%v", evB{o.id}, evB{o.id})
			}
			for i := range r.subs {
				if s := &r.subs[i]; s.have && !s.closed && strings.Contains(s.types, typ) && len(s.q) < bufCap {
					s.q = append(s.q, k)
				}
			}
		case opStop:
			r.stopped = true
			for i := range r.subs {
				if s := &r.subs[i]; s.have && !s.closed && s.types == "" {
					s.closedAny = true
				} else {
					s.closed = true
				}
			}
		}
		r.errs = append(r.errs, err)
	}
	return r
}

func seqShapes(thorough bool) []string {
	if thorough {
		return []string{"A", "B", "AB", "AA", "ABA", "ABB", ""}
	}
	return []string{"A", "AB", "AA", "ABB", ""}
}

// seqHistories: all sequences of exactly n operations (every shorter one is a prefix of one of them: a post is always
// possible). Each slot is subscribed at most once, slot 1 after slot 0, unsubscribed at most twice and only when Subscribe
// returned a subscription.
func seqHistories(n int, shapes []string) [][]op {
	var out [][]op
	var gen func(prefix []op, used [2]bool, unsubs [2]int)
	gen = func(prefix []op, used [2]bool, unsubs [2]int) {
		if len(prefix) == n {
			out = append(out, append([]op(nil), prefix...))
			return
		}
		id := len(prefix) + 1
		r := refRun(prefix)
		var next []op
		for i := 0; i < 2; i++ {
			if !used[i] && (i == 0 || used[0]) {
				for _, sh := range shapes {
					next = append(next, op{kind: opSub, sub: i, types: sh})
				}
			}
			if r.subs[i].have && unsubs[i] < 2 {
				next = append(next, op{kind: opUnsub, sub: i})
			}
		}
		next = append(next, op{kind: opPostA, id: id}, op{kind: opPostB, id: id}, op{kind: opStop})
		for _, o := range next {
			u, k := used, unsubs
			if o.kind == opSub {
				u[o.sub] = true
			}
			if o.kind == opUnsub {
				k[o.sub]++
			}
			gen(append(prefix, o), u, k)
		}
	}
	gen(nil, [2]bool{}, [2]int{})
	return out
}

func checkSeq(x *vsched.Exec, sc scenario, w *world) {
	seq := w.ops[0]
	r := refRun(sc.threads[0])
	for i, o := range seq {
		if o.err != r.errs[i] {
			x.Fail("sequential-history-result-differs-from-reference:"+opClass(sc.threads[0], i), fmt.Sprintf("operation %d (%s) returned %v, reference %v", i, o, o.err, r.errs[i]))
		}
	}
	var summary []string
	for si := 0; si < 2; si++ {
		s := w.subs[si]
		if (s != nil) != r.subs[si].have {
			x.Fail("sequential-history-subscription-differs-from-reference", fmt.Sprintf("slot %d: Subscribe returned nil=%v, reference nil=%v", si, s == nil, !r.subs[si].have))
		}
		if s == nil || !r.subs[si].have {
			continue
		}
		var ids []string
		closed := false
	drain:
		for {
			select {
			case e, ok := <-s.Chan():
				if !ok {
					closed = true
					break drain
				}
				ids = append(ids, fmt.Sprintf("%T%v", e.Data, e.Data))
			default:
				break drain
			}
		}
		if fmt.Sprint(ids) != fmt.Sprint(r.subs[si].q) {
			x.Fail("sequential-history-deliveries-differ-from-reference", fmt.Sprintf("subscriber %d (%q) holds %v, reference %v", si, r.subs[si].types, ids, r.subs[si].q))
		}
		if r.subs[si].closedAny {
			if !closed {
				summary = append(summary, fmt.Sprintf("s%d:open-after-stop", si))
			}
		} else if closed != r.subs[si].closed || s.Closed() != r.subs[si].closed {
			x.Fail("sequential-history-closed-state-differs-from-reference", fmt.Sprintf("subscriber %d: channel closed=%v Closed()=%v, reference %v", si, closed, s.Closed(), r.subs[si].closed))
		}
		summary = append(summary, fmt.Sprintf("s%d:%d", si, len(ids)))
	}
	nerr := 0
	for _, e := range r.errs {
		if e != nil {
			nerr++
		}
	}
	x.Observe(fmt.Sprintf("%s errors:%d", strings.Join(summary, " "), nerr))
}

// opClass names operation i of a sequential history by what the reference says about it.
func opClass(seq []op, i int) string {
	o := seq[i]
	r := refRun(seq[:i])
	switch o.kind {
	case opSub:
		switch {
		case r.stopped:
			return "subscribe-after-stop"
		case dupTypes(o.types):
			return "rejected-subscribe"
		case o.types == "":
			return "empty-subscribe"
		}
		return "subscribe"
	case opUnsub:
		if r.subs[o.sub].closed {
			return "unsubscribe-of-closed"
		}
		return "unsubscribe"
	case opPostA, opPostB:
		if r.stopped {
			return "post-after-stop"
		}
		return "post"
	}
	return "stop"
}

func seqString(seq []op) string {
	var s []string
	for _, o := range seq {
		s = append(s, o.String())
	}
	return strings.Join(s, ";")
}

// sequentialPart runs every history; returns (histories, executions, decisions, complete).
func sequentialPart(run *ev.Run, n int, shapes []string) (int, int, int, bool) {
	hs := seqHistories(n, shapes)
	execs, decs, failing := 0, 0, 0
	classes := map[string]int{}
	for hi, h := range hs {
		if run.OutOfTime() {
			run.Capped(fmt.Sprintf("sequential histories: out of time after %d of %d", hi, len(hs)))
			return hi, execs, decs, false
		}
		sc := scenario{name: "sequential", threads: [][]op{h}, nsubs: 2}
		inflight = -1
		st := vsched.Explore(vsched.Config{Name: "sequential", Bound: 0, Stall: 120 * time.Second, StopOnFirst: true}, body(sc, true))
		execs += st.Executions
		decs += st.Decisions
		if st.Infra != "" {
			if st.StallReproduced {
				run.Violation("call-never-returns-under-schedule", fmt.Sprintf("sequential history %s: the same schedule stalled three times: %s", seqString(h), st.Infra), map[string]interface{}{"history": seqString(h), "schedule": st.StallSchedule})
			} else {
				run.Set("stall_not_reproduced", fmt.Sprintf("sequential history %s: %s", seqString(h), st.Infra))
				run.Capped("an execution stalled once and did not stall again when its schedule was replayed twice (load or nondeterminism outside the scheduler)")
			}
			return hi, execs, decs, false
		}
		for o, c := range st.Outcomes {
			classes[o] += c
		}
		for _, f := range st.Failures {
			key, what := f.Key, f.What
			if key == "deadlock" && inflight >= 0 {
				// one thread: the operation in flight can never return. Named by the blocked call and the one before it.
				key = "call-never-returns-in-sequential-history:" + opClass(h, inflight)
				if inflight > 0 {
					key += "-after-" + opClass(h, inflight-1)
				}
				what = fmt.Sprintf("operation %d (%s) never returns: %s", inflight, h[inflight], f.What)
			}
			run.Violation(key, fmt.Sprintf("sequential history %s: %s", seqString(h), what), map[string]interface{}{"history": seqString(h), "schedule": f.Schedule, "what": what})
		}
		if len(st.Failures) > 0 {
			failing++
			if failing >= 200 { // every key is reported once; a broken dispatcher fails thousands of histories
				run.Set("sequential_histories_stopped_after_failures", failing)
				return hi + 1, execs, decs, false
			}
		}
	}
	for o := range classes {
		run.Outcome(fmt.Sprintf("sequential(%d ops) %s", n, o))
	}
	return len(hs), execs, decs, true
}

func main() {
	logrus.SetOutput(io.Discard) // the dispatcher logs every event a full buffer drops
	run := ev.Start("C39", "model_checking")
	thorough := run.Thorough()
	bound := run.Pick(2, 3)
	totalExec, totalDec, states := 0, 0, 0
	exhaustive := true
	for _, sc := range scenarios(thorough) {
		var names []string
		for _, th := range sc.threads {
			var os_ []string
			for _, o := range th {
				os_ = append(os_, o.String())
			}
			names = append(names, strings.Join(os_, ";"))
		}
		desc := sc.name + ": " + strings.Join(names, " || ")
		for b := 0; b <= bound; b++ {
			cfg := vsched.Config{Name: sc.name, Bound: b, Stall: 120 * time.Second, Deadline: run.DeadlineIn(time.Duration(run.Pick(120, 600)) * time.Second)}
			if run.OutOfTime() {
				exhaustive = false
				break
			}
			st := vsched.Explore(cfg, body(sc, false))
			if st.Infra != "" {
				if st.StallReproduced {
					run.Violation("call-never-returns-under-schedule", fmt.Sprintf("%s: the same schedule stalled three times: %s", sc.name, st.Infra), map[string]interface{}{"scenario": sc.name, "schedule": st.StallSchedule})
				} else {
					run.Set("stall_not_reproduced", fmt.Sprintf("%s: %s", sc.name, st.Infra))
					run.Capped("an execution stalled once and did not stall again when its schedule was replayed twice (load or nondeterminism outside the scheduler)")
				}
				break
			}
			if b == bound || len(st.Failures) > 0 {
				totalExec += st.Executions
				totalDec += st.Decisions
				states += len(st.Outcomes)
				run.Sample(map[string]interface{}{"scenario": desc, "preemption_bound": b, "schedules": st.Executions, "distinct_outcomes": len(st.Outcomes), "diverged": st.Diverged})
				for o := range st.Outcomes {
					run.Outcome(sc.name + " " + o)
				}
			}
			if !st.Complete {
				exhaustive = false
			}
			for _, f := range st.Failures {
				run.Violation(f.Key, fmt.Sprintf("scenario %s, preemption bound %d: %s", desc, b, f.What), map[string]interface{}{"scenario": desc, "bound": b, "schedule": f.Schedule, "what": f.What})
			}
			if len(st.Failures) > 0 {
				break
			}
		}
	}
	// sequential histories against the exact reference
	seqLen := run.Pick(4, 5)
	nh, se, sd, complete := sequentialPart(run, seqLen, seqShapes(thorough))
	totalExec += se
	totalDec += sd
	if !complete {
		exhaustive = false
	}
	run.Set("sequential_histories", nh)
	run.Set("sequential_history_length", seqLen)
	run.Set("sequential_subscribe_argument_lists", fmt.Sprintf("%q", seqShapes(thorough)))
	run.Sample(map[string]interface{}{"part": "sequential histories", "length": seqLen, "histories": nh, "schedules": se})
	// determinism: one schedule replayed twice must give identical observations
	sc := scenarios(false)[0]
	o1, _, _, _ := vsched.Replay(vsched.Config{}, []int{1, 0, 1}, body(sc, false))
	o2, _, _, _ := vsched.Replay(vsched.Config{}, []int{1, 0, 1}, body(sc, false))
	if fmt.Sprint(o1) != fmt.Sprint(o2) {
		// the dispatcher under the same schedule behaved differently (for instance an iteration order of its own):
		// the schedules explored above do not determine its behaviour, so the bound is not covered; not a verdict
		run.Capped(fmt.Sprintf("determinism probe: could not be set up: replay of one schedule gave different observations: %v vs %v", o1, o2))
	}
	run.Set("states", states)
	run.Set("transitions", totalDec)
	run.Set("schedules", totalExec)
	run.Set("traces_validated_against_impl", totalExec)
	run.Set("preemption_bound", bound)
	run.Set("exhaustive", exhaustive)
	if b, err := os.ReadFile(ev.Root() + "/.build/c39/sites.json"); err == nil {
		run.Set("rewritten_sites", string(b))
	}
	run.Set("rule", "for each scenario (2-3 threads, 1-3 dispatcher operations each) every schedule with at most preemption_bound preemptions at lock / channel / select granularity is executed on the real dispatcher; states = distinct observed outcomes, transitions = scheduling decisions; every execution is checked: no deadlock, no panic, only subscribed types, no duplicates, per-poster order, no loss of events posted strictly inside the subscription, Post after Stop fails, Subscribe refuses exactly the argument lists naming one type twice (argument lists A / A,B / A,A / A,B,A / B,A,B / B,B / empty occur in the scenarios). Sequential part: every sequence of sequential_history_length operations over {subscribe slot 0/1 with each list of sequential_subscribe_argument_lists, unsubscribe slot 0/1 (at most twice), post A, post B, stop} run by one thread on the real dispatcher; every call must return, and results, held events (first 4 of the subscribed types posted while subscribed, in order) and closed state must equal an exact sequential reference")
	run.Assume("event/event.go is rewritten mechanically (sync -> vsync, time -> vtime, select/close -> scheduler points); the 65536-slot buffer cannot fill within these bounds; data races are outside this engine; in the sequential part nobody reads before the end of the history and each slot subscribes once")
	run.Finish()
}
