// C39: event subscribers see posted events in order, once each; posting after Stop fails;
// unsubscribing never blocks. Every interleaving (bounded preemptions) of small multi-threaded
// scenarios over the REAL dispatcher, whose locks, channel operations and select are routed
// through the cooperative scheduler by tools/vrewrite.
package main

import (
	"io"

	"fmt"
	"github.com/sirupsen/logrus"
	"os"
	"sort"
	"strings"
	"time"

	"github.com/bytom/bytom/event"

	"verif/lib/ev"
	"verif/lib/vsched"
	"verif/lib/vtime"
)

type evA struct{ ID int }
type evB struct{ ID int }

type opKind int

const (
	opSub opKind = iota
	opUnsub
	opPostA
	opPostB
	opStop
)

type op struct {
	kind  opKind
	sub   int  // subscription slot
	both  bool // subscribe to A and B
	id    int  // event id
	start int64
	end   int64
	err   error
	done  bool
}

type scenario struct {
	name    string
	threads [][]op
	nsubs   int
	setup   []op // executed sequentially before the threads start (pre-registered subscribers)
}

func (o op) String() string {
	switch o.kind {
	case opSub:
		if o.both {
			return fmt.Sprintf("sub%d(A,B)", o.sub)
		}
		return fmt.Sprintf("sub%d(A)", o.sub)
	case opUnsub:
		return fmt.Sprintf("unsub%d", o.sub)
	case opPostA:
		return fmt.Sprintf("postA%d", o.id)
	case opPostB:
		return fmt.Sprintf("postB%d", o.id)
	}
	return "stop"
}

func scenarios(thorough bool) []scenario {
	S := func(i int) op { return op{kind: opSub, sub: i} }
	SB := func(i int) op { return op{kind: opSub, sub: i, both: true} }
	U := func(i int) op { return op{kind: opUnsub, sub: i} }
	A := func(id int) op { return op{kind: opPostA, id: id} }
	B := func(id int) op { return op{kind: opPostB, id: id} }
	X := op{kind: opStop}
	sc := []scenario{
		{"two-posters", [][]op{{S(0), A(1), A(2)}, {A(3), B(4)}}, 1, nil},
		{"subscribe-vs-post", [][]op{{S(0)}, {A(1), A(2)}}, 1, nil},
		{"unsubscribe-vs-post", [][]op{{S(0), U(0)}, {A(1), A(2)}}, 1, nil},
		{"stop-vs-post", [][]op{{S(0), X}, {A(1), A(2)}}, 1, nil},
		{"stop-vs-subscribe-post", [][]op{{X}, {S(0), A(1)}}, 1, nil},
		{"two-subscribers", [][]op{{S(0), A(1)}, {SB(1), B(2), A(3)}}, 2, nil},
		// three subscribers of one type: an unsubscribe of the first / middle one races a Post that is walking the list
		{"unsubscribe-first-of-three-vs-post", [][]op{{U(0)}, {A(1), A(2)}}, 3, []op{S(0), S(1), S(2)}},
		{"unsubscribe-middle-of-three-vs-post", [][]op{{U(1)}, {A(1)}, {A(2)}}, 3, []op{S(0), S(1), S(2)}},
		// Stop walks all subscriptions under the dispatcher lock while an Unsubscribe (second of two) and a Post run
		{"unsubscribe-vs-stop-vs-post", [][]op{{U(1)}, {X}, {A(1)}}, 2, []op{S(0), S(1)}},
		{"unsubscribe-twice-vs-stop", [][]op{{U(0), U(0)}, {X}}, 1, []op{S(0)}},
		// subscriber 0 (A and B) never reads and its buffer (4 events) fills up with B events; subscriber 1 (A only,
		// registered later) must still get every A event: only the subscriber whose OWN buffer is full may miss one
		{"full-buffer-of-an-earlier-subscriber", [][]op{{B(1), B(2), B(3), B(4), A(5), A(6)}}, 2, []op{SB(0), S(1)}},
		{"full-buffer-of-an-earlier-subscriber-vs-poster", [][]op{{B(1), B(2), B(3), B(4), A(5)}, {A(6)}}, 2, []op{SB(0), S(1)}},
	}
	if thorough {
		sc = append(sc,
			scenario{"three-threads-unsub", [][]op{{S(0), A(1)}, {A(2), A(3)}, {SB(1), U(1)}}, 2, nil},
			scenario{"three-threads-stop", [][]op{{S(0), A(1)}, {A(2), B(3)}, {X}}, 1, nil},
			scenario{"unsub-vs-stop", [][]op{{S(0), U(0)}, {X}, {A(1)}}, 1, nil},
			scenario{"double-unsub", [][]op{{S(0), U(0)}, {U(0)}, {A(1), A(2)}}, 1, nil},
			scenario{"resubscribe", [][]op{{S(0), U(0), S(1)}, {A(1), A(2), A(3)}}, 2, nil},
			scenario{"unsubscribe-two-of-four-vs-posts", [][]op{{U(0), U(2)}, {A(1)}, {B(2), A(3)}}, 4, []op{S(0), SB(1), S(2), SB(3)}},
		)
	}
	return sc
}

type world struct {
	d    *event.Dispatcher
	subs []*event.Subscription
	ops  [][]op
}

func body(sc scenario) func(x *vsched.Exec) {
	return func(x *vsched.Exec) {
		vtime.Reset()
		w := &world{d: event.NewDispatcher(), subs: make([]*event.Subscription, sc.nsubs)}
		w.ops = make([][]op, len(sc.threads))
		for t := range sc.threads {
			w.ops[t] = append([]op(nil), sc.threads[t]...)
		}
		// pre-registered subscribers: their subscribe op is recorded as thread -1 history
		setupOps := append([]op(nil), sc.setup...)
		x.Deterministic(func() {
			for i := range setupOps {
				o := &setupOps[i]
				o.start = int64(vtime.Now().UnixNano())
				var sub *event.Subscription
				if o.both {
					sub, o.err = w.d.Subscribe(evA{}, evB{})
				} else {
					sub, o.err = w.d.Subscribe(evA{})
				}
				w.subs[o.sub] = sub
				o.end = int64(vtime.Now().UnixNano())
				o.done = true
			}
		})
		w.ops = append(w.ops, setupOps)
		for t := range sc.threads {
			t := t
			x.Spawn(fmt.Sprintf("T%d", t), func() {
				for i := range w.ops[t] {
					o := &w.ops[t][i]
					o.start = int64(vtime.Now().UnixNano())
					switch o.kind {
					case opSub:
						var s *event.Subscription
						var err error
						if o.both {
							s, err = w.d.Subscribe(evA{}, evB{})
						} else {
							s, err = w.d.Subscribe(evA{})
						}
						o.err = err
						w.subs[o.sub] = s
					case opUnsub:
						if s := w.subs[o.sub]; s != nil {
							s.Unsubscribe()
						}
					case opPostA:
						o.err = w.d.Post(evA{o.id})
					case opPostB:
						o.err = w.d.Post(evB{o.id})
					case opStop:
						w.d.Stop()
					}
					o.end = int64(vtime.Now().UnixNano())
					o.done = true
				}
			})
		}
		x.Join()
		check(x, sc, w)
	}
}

// bufCap: per-subscriber buffer size in the rewritten event.go (the repository's 65536 is replaced by prebuild.sh).
const bufCap = 4

func check(x *vsched.Exec, sc scenario, w *world) {
	const inf = int64(1) << 62
	stopStart, stopEnd := inf, inf
	for _, th := range w.ops {
		for _, o := range th {
			if o.kind == opStop {
				stopStart, stopEnd = o.start, o.end
			}
		}
	}
	// posts
	for _, th := range w.ops {
		for _, o := range th {
			if o.kind != opPostA && o.kind != opPostB {
				continue
			}
			if o.start > stopEnd && o.err != event.ErrMuxClosed {
				x.Fail("post-after-stop-did-not-fail", fmt.Sprintf("%s began after Stop returned, err=%v", o, o.err))
			}
			if o.end < stopStart && o.err != nil {
				x.Fail("post-before-stop-failed", fmt.Sprintf("%s returned %v before Stop began", o, o.err))
			}
		}
	}
	var summary []string
	for si := 0; si < sc.nsubs; si++ {
		s := w.subs[si]
		var subOp *op
		unsubStart, unsubEnd := inf, inf
		for ti := range w.ops {
			for oi := range w.ops[ti] {
				if o := &w.ops[ti][oi]; o.kind == opSub && o.sub == si {
					subOp = o
				}
			}
		}
		for ti := range w.ops {
			for oi := range w.ops[ti] {
				o := &w.ops[ti][oi]
				if o.kind == opUnsub && o.sub == si && o.start < unsubStart && subOp != nil && o.start > subOp.end {
					unsubStart, unsubEnd = o.start, o.end
				}
			}
		}
		if s == nil || subOp == nil {
			continue
		}
		// drain
		var got []interface{}
	drain:
		for {
			select {
			case e, ok := <-s.Chan():
				if !ok {
					break drain
				}
				got = append(got, e.Data)
			default:
				break drain
			}
		}
		seen := map[string]bool{}
		var ids []string
		for _, g := range got {
			k := fmt.Sprintf("%T%v", g, g)
			if seen[k] {
				x.Fail("event-delivered-twice", fmt.Sprintf("subscriber %d got %s twice", si, k))
			}
			seen[k] = true
			ids = append(ids, k)
			if _, isB := g.(evB); isB && !subOp.both {
				x.Fail("event-of-unsubscribed-type-delivered", fmt.Sprintf("subscriber %d (A only) got %s", si, k))
			}
		}
		// per-poster order
		pos := map[string]int{}
		for i, k := range ids {
			pos[k] = i
		}
		endOfLife := unsubStart
		if stopStart < endOfLife {
			endOfLife = stopStart
		}
		afterLife := unsubEnd
		if stopEnd < afterLife {
			afterLife = stopEnd
		}
		for _, th := range w.ops {
			last := -1
			for _, o := range th {
				if o.kind != opPostA && o.kind != opPostB {
					continue
				}
				var k string
				wanted := true
				if o.kind == opPostA {
					k = fmt.Sprintf("%T%v", evA{o.id}, evA{o.id})
				} else {
					k = fmt.Sprintf("%T%v", evB{o.id}, evB{o.id})
					wanted = subOp.both
				}
				p, received := pos[k]
				if received {
					if p < last {
						x.Fail("events-of-one-poster-out-of-order", fmt.Sprintf("subscriber %d received %v", si, ids))
					}
					last = p
				}
				// a subscriber whose own buffer (bufCap events, see prebuild.sh) was full may miss events
				if wanted && o.err == nil && o.start > subOp.end && o.end < endOfLife && !received && len(got) < bufCap {
					x.Fail("event-lost", fmt.Sprintf("subscriber %d did not get %s posted strictly inside its subscription (got %v)", si, o, ids))
				}
				if received && o.end < subOp.start {
					x.Fail("event-from-before-subscription-delivered", fmt.Sprintf("subscriber %d got %s posted before it subscribed", si, o))
				}
				if received && o.start > afterLife {
					x.Fail("event-after-unsubscribe-delivered", fmt.Sprintf("subscriber %d got %s posted after it was unsubscribed/stopped", si, o))
				}
			}
		}
		summary = append(summary, fmt.Sprintf("s%d:%v", si, ids))
	}
	var errs []string
	for _, th := range w.ops {
		for _, o := range th {
			if o.err != nil {
				errs = append(errs, o.String()+"="+o.err.Error())
			}
		}
	}
	sort.Strings(errs)
	x.Observe(strings.Join(summary, " ") + " " + strings.Join(errs, ","))
}

func main() {
	logrus.SetOutput(io.Discard) // the dispatcher logs every event a full buffer drops
	run := ev.Start("C39", "model_checking")
	thorough := run.Thorough()
	bound := run.Pick(2, 3)
	totalExec, totalDec, states := 0, 0, 0
	exhaustive := true
	for _, sc := range scenarios(thorough) {
		var names []string
		for _, th := range sc.threads {
			var os_ []string
			for _, o := range th {
				os_ = append(os_, o.String())
			}
			names = append(names, strings.Join(os_, ";"))
		}
		desc := sc.name + ": " + strings.Join(names, " || ")
		for b := 0; b <= bound; b++ {
			cfg := vsched.Config{Name: sc.name, Bound: b, Stall: 120 * time.Second, Deadline: run.DeadlineIn(time.Duration(run.Pick(120, 600)) * time.Second)}
			if run.OutOfTime() {
				exhaustive = false
				break
			}
			st := vsched.Explore(cfg, body(sc))
			if st.Infra != "" {
				if st.StallReproduced {
					run.Violation("call-never-returns-under-schedule", fmt.Sprintf("%s: the same schedule stalled three times: %s", sc.name, st.Infra), map[string]interface{}{"scenario": sc.name, "schedule": st.StallSchedule})
				} else {
					run.Set("stall_not_reproduced", fmt.Sprintf("%s: %s", sc.name, st.Infra))
					run.Capped("an execution stalled once and did not stall again when its schedule was replayed twice (load or nondeterminism outside the scheduler)")
				}
				break
			}
			if b == bound || len(st.Failures) > 0 {
				totalExec += st.Executions
				totalDec += st.Decisions
				states += len(st.Outcomes)
				run.Sample(map[string]interface{}{"scenario": desc, "preemption_bound": b, "schedules": st.Executions, "distinct_outcomes": len(st.Outcomes), "diverged": st.Diverged})
				for o := range st.Outcomes {
					run.Outcome(sc.name + " " + o)
				}
			}
			if !st.Complete {
				exhaustive = false
			}
			for _, f := range st.Failures {
				run.Violation(f.Key, fmt.Sprintf("scenario %s, preemption bound %d: %s", desc, b, f.What), map[string]interface{}{"scenario": desc, "bound": b, "schedule": f.Schedule, "what": f.What})
			}
			if len(st.Failures) > 0 {
				break
			}
		}
	}
	// determinism: one schedule replayed twice must give identical observations
	sc := scenarios(false)[0]
	o1, _, _, _ := vsched.Replay(vsched.Config{}, []int{1, 0, 1}, body(sc))
	o2, _, _, _ := vsched.Replay(vsched.Config{}, []int{1, 0, 1}, body(sc))
	if fmt.Sprint(o1) != fmt.Sprint(o2) {
		// the dispatcher under the same schedule behaved differently (for instance an iteration order of its own):
		// the schedules explored above do not determine its behaviour, so the bound is not covered; not a verdict
		run.Capped(fmt.Sprintf("determinism probe: could not be set up: replay of one schedule gave different observations: %v vs %v", o1, o2))
	}
	run.Set("states", states)
	run.Set("transitions", totalDec)
	run.Set("schedules", totalExec)
	run.Set("traces_validated_against_impl", totalExec)
	run.Set("preemption_bound", bound)
	run.Set("exhaustive", exhaustive)
	if b, err := os.ReadFile(ev.Root() + "/.build/c39/sites.json"); err == nil {
		run.Set("rewritten_sites", string(b))
	}
	run.Set("rule", "for each scenario (2-3 threads, 1-3 dispatcher operations each) every schedule with at most preemption_bound preemptions at lock / channel / select granularity is executed on the real dispatcher; states = distinct observed outcomes, transitions = scheduling decisions; every execution is checked: no deadlock, no panic, only subscribed types, no duplicates, per-poster order, no loss of events posted strictly inside the subscription, Post after Stop fails")
	run.Assume("event/event.go is rewritten mechanically (sync -> vsync, time -> vtime, select/close -> scheduler points); the 65536-slot buffer cannot fill within these bounds; data races are outside this engine")
	run.Finish()
}
