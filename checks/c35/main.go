// C35: peer ban scores follow the documented decay rule.
//
// Explicit-state search over the real DynamicBanScore of BOTH copies of the code (p2p/security
// and p2p/trust after its Init()), driven through the private increase/int with an explicit
// clock (export files hooks/p2p/{security,trust}/zz_verif_c35.go). An event is
// (dt, persistent, transient): advance the clock by dt seconds, then increase.
// dt in {0,1,59,60,61,63,64,1799,1800,1801}, amounts in {0,1,50,100}  (160 events).
//
//   quick     every sequence of <= 4 events over the full alphabet;
//   thorough  the same, plus every sequence of 5 events whose first four events use the amounts
//             {0,1,100} (90 events) and whose fifth event is any of the 160.
//
// The search is breadth-first over distinct states; a state is (clock, private score state,
// state of the reference), so two histories are merged only when the implementation AND the
// reference are in identical states at the same clock value. Every state below the depth bound is
// expanded with every event; the results of the last level are checked but not stored.
//
// Reference (the statement, closed form): score(t) = sum of persistent amounts
// + floor( sum_i a_i * 2^(-(t-t_i)/60) ) over the transient amounts a_i added at t_i, the
// transient part being forgotten once more than 1800 s passed since the last transient addition.
// Tolerance: the implementation may differ by 1 (float truncation at integer boundaries and the
// code's "a transient score <= 1 is not decayed" shortcut, which leaves an excess < 1).
// Reads are pure (differential): every transition is run again with extra int() reads issued first, with the
// clock stepped back behind the previous event (wall time can be set back) or ahead of the coming event;
// the scores before and after the increase must be the same as without those reads.
// Also checked: score >= persistent sum (never negative / no wrap), and an increase raises the
// score at that instant by at least the persistent amount added.
package main

import (
	"crypto/sha256"
	"encoding/binary"
	"fmt"
	"math"
	"os"
	"runtime"
	"runtime/pprof"
	"sync"
	"time"

	"github.com/bytom/bytom/p2p/security"
	"github.com/bytom/bytom/p2p/trust"

	"verif/lib/ev"
)

const (
	halfLife = 60.0 // seconds, from the statement
	lifetime = 1800 // seconds ("forgotten after 30 minutes")
	t0       = int64(1700000000)
	maxDepth = 5
)

type score interface {
	VerifIncrease(persistent, transient uint32, unix int64) uint32
	VerifInt(unix int64) uint32
	VerifState() (int64, float64, uint32)
	VerifLoad(int64, float64, uint32)
}

type impl struct {
	name  string
	fresh func() score
}

var impls = []impl{
	{"security", func() score { return &security.DynamicBanScore{} }},
	{"trust", func() score { return &trust.DynamicBanScore{} }},
}

// ---------------------------------------------------------------- reference

// ref is the state of the reference: the persistent sum and the remembered transient additions.
type ref struct {
	P    uint32
	N    int32
	Last int32 // clock offset of the last transient addition
	T    [maxDepth]int32
	A    [maxDepth]uint32
}

func (r ref) apply(t int32, p, tr uint32) ref {
	r.P += p
	if tr > 0 {
		if r.N > 0 && t-r.Last > lifetime {
			r.N = 0
			r.T, r.A = [maxDepth]int32{}, [maxDepth]uint32{}
		}
		r.T[r.N], r.A[r.N] = t, tr
		r.N++
		r.Last = t
	}
	return r
}

var pow [4 * lifetime]float64 // 2^(-k/60), evaluated once with math.Exp2

func decay(k int32) float64 {
	if int(k) < len(pow) {
		return pow[k]
	}
	return math.Exp2(-float64(k) / halfLife)
}

// bounds returns the admissible score interval at clock offset t and the exact transient value.
func (r *ref) bounds(t int32) (lo, hi uint64, x float64) {
	if r.N == 0 || t-r.Last > lifetime {
		return uint64(r.P), uint64(r.P), 0
	}
	for i := int32(0); i < r.N; i++ {
		x += float64(r.A[i]) * decay(t-r.T[i])
	}
	l := math.Floor(x-1e-9) - 1
	if l < 0 {
		l = 0
	}
	h := math.Floor(x+1e-9) + 1
	return uint64(r.P) + uint64(l), uint64(r.P) + uint64(h), x
}

// ---------------------------------------------------------------- search

type event struct {
	Dt int32  `json:"dt"`
	P  uint32 `json:"persistent"`
	Tr uint32 `json:"transient"`
}

var events []event

// node is one distinct state: the clock, the implementation's private state, the reference's state.
type node struct {
	now    int32 // clock offset from t0
	last   int64
	tr     float64
	p      uint32
	r      ref
	parent int32
	ev     uint8
}

// digest identifies a state: the first 16 bytes of SHA-256 over (clock, lastUnix, transient bits,
// persistent, reference state).
type digest [16]byte

func (n *node) digest() (d digest) {
	var b [80]byte
	binary.LittleEndian.PutUint32(b[0:], uint32(n.now))
	binary.LittleEndian.PutUint64(b[4:], uint64(n.last))
	binary.LittleEndian.PutUint64(b[12:], math.Float64bits(n.tr))
	binary.LittleEndian.PutUint32(b[20:], n.p)
	binary.LittleEndian.PutUint32(b[24:], n.r.P)
	binary.LittleEndian.PutUint32(b[28:], uint32(n.r.N))
	binary.LittleEndian.PutUint32(b[32:], uint32(n.r.Last))
	for i := 0; i < maxDepth; i++ {
		binary.LittleEndian.PutUint32(b[36+8*i:], uint32(n.r.T[i]))
		binary.LittleEndian.PutUint32(b[40+8*i:], n.r.A[i])
	}
	h := sha256.Sum256(b[:76])
	copy(d[:], h[:16])
	return
}

type finding struct {
	key, what string
	parent    int32
	ev        int
}

type counters struct {
	transitions, comparisons, observations int
	outcomes                               [32]int
	findings                               []finding
}

var outcomeNames [32]string

func outcomeClass(e event, n *node, now int32) int {
	c := 0 // kind of increase
	if e.Tr == 0 {
		c = 1
		if e.P == 0 {
			c = 2
		}
	}
	z := 0
	if n.r.N > 0 {
		switch d := now - n.r.Last; {
		case d > lifetime:
			z = 1
		case d >= 64:
			z = 2
		case d > 0:
			z = 3
		default:
			z = 4
		}
	}
	return c*5 + z
}

func init() {
	kinds := []string{"transient-increase", "persistent-only", "clock-only"}
	zones := []string{"no-transient-history", "after-lifetime", "decay-computed(>=64s)", "decay-from-table(<64s)", "same-second"}
	for c, k := range kinds {
		for z, zn := range zones {
			outcomeNames[c*5+z] = k + ":" + zn
		}
	}
	for k := range pow {
		pow[k] = math.Exp2(-float64(k) / halfLife)
	}
}

func zone(dt int32) string {
	switch {
	case dt > lifetime:
		return "beyond-lifetime"
	case dt >= 64:
		return "computed-factor"
	case dt > 0:
		return "table-factor"
	}
	return "same-second"
}

// transition executes one event from state n on the scratch object s (loaded with n's private
// state, which was produced by real calls) and compares with the reference.
func transition(s score, n *node, pi int32, ei int, c *counters) node {
	e := events[ei]
	now := n.now + e.Dt
	unix := t0 + int64(now)
	s.VerifLoad(n.last, n.tr, n.p)
	add := func(k, what string) {
		for _, f := range c.findings {
			if f.key == k {
				return
			}
		}
		c.findings = append(c.findings, finding{k, what, pi, ei})
	}
	c.transitions++
	c.outcomes[outcomeClass(e, n, now)]++
	// the score just before the increase (pure passage of time since the parent state)
	before := uint64(s.VerifInt(unix))
	lo, hi, x := n.r.bounds(now)
	c.comparisons++
	if before < lo || before > hi {
		add("int-deviates-from-decay-rule."+zone(e.Dt), fmt.Sprintf("before the last increase, %d s after the previous event: int()=%d but persistent %d + transient %.6f admits [%d,%d]", e.Dt, before, n.r.P, x, lo, hi))
	}
	ret := uint64(s.VerifIncrease(e.P, e.Tr, unix))
	after := uint64(s.VerifInt(unix))
	r := n.r.apply(now, e.P, e.Tr)
	lo, hi, x = r.bounds(now)
	c.comparisons++
	if after < lo || after > hi {
		add("score-deviates-from-decay-rule."+zone(e.Dt), fmt.Sprintf("after the last increase: int()=%d but persistent %d + transient %.6f admits [%d,%d]", after, r.P, x, lo, hi))
	}
	if after < uint64(r.P) {
		add("score-below-persistent-sum", fmt.Sprintf("int()=%d < persistent sum %d", after, r.P))
	}
	if after < before+uint64(e.P) {
		add("increase-smaller-than-persistent-amount", fmt.Sprintf("the score at the same instant went from %d to %d although %d persistent was added", before, after, e.P))
	}
	if ret != after {
		if e.Tr == 0 {
			c.observations++
		} else {
			add("increase-return-differs-from-score", fmt.Sprintf("increase returned %d but int() at the same instant is %d", ret, after))
		}
	}
	out := node{now: now, r: r, parent: pi, ev: uint8(ei)}
	out.last, out.tr, out.p = s.VerifState()
	// Reads are pure: the score is a function of the increments alone, so extra int() calls, issued with
	// the clock stepped back behind the previous event (time.Now().Unix() is wall time and can be set
	// back) or ahead of the coming one, must not change what the same event then yields. Differential:
	// the same event on the same loaded state with and without the extra reads (tolerance 1 as above).
	prev := t0 + int64(n.now)
	for d, offs := range probeOffsets {
		s.VerifLoad(n.last, n.tr, n.p)
		for _, o := range offs {
			s.VerifInt(prev + o)
		}
		b2 := uint64(s.VerifInt(unix))
		s.VerifIncrease(e.P, e.Tr, unix)
		a2 := uint64(s.VerifInt(unix))
		c.comparisons++
		if differs(b2, before) || differs(a2, after) {
			add("read-changes-later-score."+probeNames[d], fmt.Sprintf("int() read at clock offsets %v from the previous event, then the event: score before/after the increase %d/%d; without those reads %d/%d", offs, b2, a2, before, after))
		}
	}
	return out
}

var (
	probeNames   = []string{"clock-stepped-back", "clock-ahead-then-back"}
	probeOffsets = [][]int64{{-1, -2, -61, -1801}, {1, 61, 1801, 3700}}
)

func differs(a, b uint64) bool { return a > b+1 || b > a+1 }

func main() {
	run := ev.Start("C35", "model_checking")
	if pf := os.Getenv("VERIF_CPUPROFILE"); pf != "" {
		f, _ := os.Create(pf)
		pprof.StartCPUProfile(f)
		defer pprof.StopCPUProfile()
	}
	trust.Init() // p2p/trust precomputes its decay table in the exported Init(), as documented
	dts := []int32{0, 1, 59, 60, 61, 63, 64, 1799, 1800, 1801}
	amounts := []uint32{0, 1, 50, 100}
	var reduced []int // events whose amounts are in {0,1,100}
	for _, dt := range dts {
		for _, p := range amounts {
			for _, tr := range amounts {
				if p != 50 && tr != 50 {
					reduced = append(reduced, len(events))
				}
				events = append(events, event{dt, p, tr})
			}
		}
	}
	var all []int
	for i := range events {
		all = append(all, i)
	}
	fullDepth := 4
	if v := os.Getenv("VERIF_C35_DEPTH"); v != "" {
		fmt.Sscan(v, &fullDepth)
	}
	run.Set("events", len(events))
	run.Set("dt_alphabet_s", dts)
	run.Set("amount_alphabet", amounts)
	run.Set("full_alphabet_depth", fullDepth)
	if run.Thorough() {
		run.Set("depth5_rule", "first four events over the 90 events with amounts in {0,1,100}, fifth event any of the 160")
	}

	workers := runtime.NumCPU()
	if workers > 8 {
		workers = 8
	}
	totalStates, totalTrans, totalCmp, totalObs, reached := 0, 0, 0, 0, 0
	var classCounts [32]int

	// search runs one breadth-first search: alphabet[d] is the event set used at depth d+1.
	// chunk buffers are reused for every window of every level (fresh pages are expensive)
	type out struct {
		nodes []node
		c     counters
	}
	const window = 512 // frontier states expanded between two merges
	search := func(im impl, label string, alphabets [][]int) {
		levels := [][]node{{{parent: -1}}}
		seen := map[digest]struct{}{levels[0][0].digest(): {}}
		history := func(lv int, pi int32, last int) []event {
			h := []event{events[last]}
			for l := lv; l > 0; l-- {
				n := levels[l][pi]
				h = append(h, events[n.ev])
				pi = n.parent
			}
			for i, j := 0, len(h)-1; i < j; i, j = i+1, j-1 {
				h[i], h[j] = h[j], h[i]
			}
			return h
		}
		states := 1
		outs := make([]out, workers*4)
		for d := 1; d <= len(alphabets); d++ {
			cur := levels[d-1]
			alpha := alphabets[d-1]
			final := d == len(alphabets)
			tLevel := time.Now()
			var next []node
			if !final {
				// sized once: growing slices and maps touches fresh pages repeatedly
				est := len(cur) * len(alpha) / 3
				next = make([]node, 0, est)
				bigger := make(map[digest]struct{}, len(seen)+est)
				for k := range seen {
					bigger[k] = struct{}{}
				}
				seen = bigger
			}
			win := window
			if final {
				win = window * 64 // nothing is stored at the last level
			}
			for wlo := 0; wlo < len(cur); wlo += win {
				if run.OutOfTime() {
					run.Capped(fmt.Sprintf("%s %s: time budget reached at depth %d", im.name, label, d))
					break
				}
				whi := wlo + win
				if whi > len(cur) {
					whi = len(cur)
				}
				part := cur[wlo:whi]
				nchunks := len(outs)
				if nchunks > len(part) {
					nchunks = len(part)
				}
				var wg sync.WaitGroup
				jobs := make(chan int, nchunks)
				for c := 0; c < nchunks; c++ {
					jobs <- c
				}
				close(jobs)
				for w := 0; w < workers; w++ {
					wg.Add(1)
					go func() {
						defer wg.Done()
						s := im.fresh()
						for c := range jobs {
							lo, hi := c*len(part)/nchunks, (c+1)*len(part)/nchunks
							o := &outs[c]
							o.nodes = o.nodes[:0]
							o.c = counters{}
							for i := lo; i < hi; i++ {
								for _, ei := range alpha {
									child := transition(s, &part[i], int32(wlo+i), ei, &o.c)
									if !final {
										o.nodes = append(o.nodes, child)
									}
								}
							}
						}
					}()
				}
				wg.Wait()
				for c := 0; c < nchunks; c++ {
					o := &outs[c]
					totalTrans += o.c.transitions
					totalCmp += o.c.comparisons
					totalObs += o.c.observations
					for k, v := range o.c.outcomes {
						classCounts[k] += v
					}
					for _, f := range o.c.findings {
						h := history(d-1, f.parent, f.ev)
						run.Violation(f.key, fmt.Sprintf("p2p/%s: history %s: %s", im.name, render(h), f.what), map[string]interface{}{"package": im.name, "history": h})
					}
					for i := range o.nodes {
						n := &o.nodes[i]
						k := n.digest()
						if _, dup := seen[k]; dup {
							continue
						}
						seen[k] = struct{}{}
						next = append(next, *n)
						states++
						if states%300007 == 1 {
							run.Sample(map[string]interface{}{"package": im.name, "history": history(d-1, n.parent, int(n.ev)), "lastUnix": n.last, "transient": n.tr, "persistent": n.p, "clock": t0 + int64(n.now)})
						}
					}
				}
			}
			if !final {
				levels = append(levels, next)
				run.Set(fmt.Sprintf("%s_%s_new_states_at_depth_%d", im.name, label, d), len(next))
			}
			if d > reached {
				reached = d
			}
			if os.Getenv("VERIF_TRACE") != "" {
				fmt.Fprintf(os.Stderr, "%s %s depth %d: %d states expanded in %.1fs, %d new\n", im.name, label, d, len(cur), time.Since(tLevel).Seconds(), len(next))
			}
		}
		totalStates += states
		run.Set(im.name+"_"+label+"_states", states)
	}

	for _, im := range impls {
		var a [][]int
		for d := 0; d < fullDepth; d++ {
			a = append(a, all)
		}
		search(im, "full", a)
		if run.Thorough() {
			search(im, "depth5", [][]int{reduced, reduced, reduced, reduced, all})
		}
	}
	cc := map[string]int{}
	for k, v := range classCounts {
		if v > 0 {
			cc[outcomeNames[k]] = v
			run.Outcome(outcomeNames[k]) // the histogram lists each class once; exact counts are in transition_class_counts
		}
	}
	run.Set("transition_class_counts", cc)
	run.Set("states", totalStates)
	run.Set("transitions", totalTrans)
	run.Set("traces_validated_against_impl", totalCmp)
	run.Set("max_depth", reached)
	run.Set("states_rule", "distinct (clock, lastUnix, transient bits, persistent, reference state) tuples (identified by a 128-bit SHA-256 prefix) reached below the last level of a search; the results of the last level are compared with the reference (transitions, traces_validated) but not stored or counted as states")
	run.Set("observation_increase_returns_undecayed_sum_when_transient_is_zero", totalObs)
	run.Set("note", "the value returned by increase(persistent, 0, t) is persistent + the UNDECAYED stored transient score (inherited from btcd); it is counted above as an observation, not a violation: int(t) at the same instant follows the rule")
	run.Assume("amounts stay far below 2^31, so uint32 wrap-around of the score is out of scope")
	run.Assume("increments are applied in clock order (dt >= 0 between increases); reads are additionally issued with the clock stepped back behind the previous event and ahead of the coming one, and must not change any later score")
	run.Assume("float64 evaluation of the closed form is exact to 1e-9, absorbed in the admissible interval")
	run.Assume("continuing several histories from one state loads the private fields (lastUnix, transient, persistent) read from a score that reached them through real calls")
	pprof.StopCPUProfile()
	run.Finish()
}

func render(h []event) string {
	s := ""
	for _, e := range h {
		s += fmt.Sprintf("(dt=%d,p=%d,t=%d)", e.Dt, e.P, e.Tr)
	}
	return s
}
