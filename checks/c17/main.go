// C17: justification needs a supermajority of distinct valid validator votes from a justified source;
// finalization needs a justified direct child; both across restarts.
// For every validator-set size n = 1..10 a family of vote histories (every subset of signers for
// n <= 5, every subset size beyond; P2P-delivered and header-carried; forged / foreign / unused-slot
// signatures; unjustified sources; restarts) is executed on the real node and compared, after every
// event, with the reference closure.
package main

import (
	"encoding/json"
	"fmt"
	"os"

	"github.com/bytom/bytom/consensus"
	"github.com/bytom/bytom/crypto/ed25519/chainkd"
	"github.com/bytom/bytom/protocol/bc/types"

	"verif/lib/chainlab"
	"verif/lib/ev"
	"verif/lib/labnet"
	"verif/lib/par"
	"verif/lib/xplore"
)

type fam struct {
	W     *chainlab.World
	n     int
	hists [][]int // event indices
	names []string
	// complete[i]: history i has no order effects, node must justify exactly what the reference does
	complete []bool
}

func build(n int, thorough bool) *fam {
	net := labnet.Setup(2, 2, n)
	net.SetLocalKey(labnet.OutsiderKey())
	net.AddKey(labnet.OutsiderKey()) // key index n: a valid key outside the validator set
	w := chainlab.NewWorld(net, net.Gen, nil)
	w.NVal = n
	c1 := w.AddBlock(0, "c1", labnet.BlockOpt{})
	c2 := w.AddBlock(c1, "c2", labnet.BlockOpt{})
	c3 := w.AddBlock(c2, "c3", labnet.BlockOpt{})
	c4 := w.AddBlock(c3, "c4", labnet.BlockOpt{})
	c5 := w.AddBlock(c4, "c5", labnet.BlockOpt{})
	c6 := w.AddBlock(c5, "c6", labnet.BlockOpt{})
	c7 := w.AddBlock(c6, "c7", labnet.BlockOpt{})
	f := &fam{W: w, n: n}
	evIdx := map[string]int{}
	add := func(e chainlab.Event) int {
		e.Name = ""
		name := e.String()
		if e.Kind == chainlab.EvBlock {
			name = "B:" + w.Names[e.Block]
		}
		if i, ok := evIdx[name]; ok {
			return i
		}
		e.Name = name
		w.Events = append(w.Events, e)
		evIdx[name] = len(w.Events) - 1
		return len(w.Events) - 1
	}
	B := func(b int) int { return add(chainlab.Event{Kind: chainlab.EvBlock, Block: b}) }
	V := func(v, s, t int) int { return add(chainlab.Event{Kind: chainlab.EvVote, Val: v, Src: s, Tgt: t}) }
	VBad := func(v, s, t int) int {
		return add(chainlab.Event{Kind: chainlab.EvVote, Val: v, Src: s, Tgt: t, BadSig: true})
	}
	BSL := func(b, s int, signers []int, bad bool) int {
		return add(chainlab.Event{Kind: chainlab.EvBlockSL, Block: b, Src: s, Signers: append([]int(nil), signers...), BadSig: bad})
	}
	R := add(chainlab.Event{Kind: chainlab.EvRestart})
	thr := 2*n/3 + 1 // smallest supermajority
	hist := func(name string, complete bool, evs ...int) {
		f.hists = append(f.hists, evs)
		f.names = append(f.names, name)
		f.complete = append(f.complete, complete)
	}
	// subsets of signers
	var subsets [][]int
	if n <= 5 || thorough {
		for m := 0; m < 1<<uint(n); m++ {
			var s []int
			for i := 0; i < n; i++ {
				if m>>uint(i)&1 == 1 {
					s = append(s, i)
				}
			}
			subsets = append(subsets, s)
		}
	} else {
		for k := 0; k <= n; k++ {
			var s, s2 []int
			for i := 0; i < k; i++ {
				s = append(s, i)
				s2 = append(s2, n-1-i) // the same size taken from the top slots
			}
			subsets = append(subsets, s)
			if k > 0 && k < n {
				subsets = append(subsets, s2)
			}
		}
	}
	votes := func(vs []int, s, t int) []int {
		var h []int
		for _, v := range vs {
			h = append(h, V(v, s, t))
		}
		return h
	}
	for _, s := range subsets {
		// A: P2P votes
		h := []int{B(c1), B(c2)}
		for _, v := range s {
			h = append(h, V(v, 0, c2))
		}
		hist(fmt.Sprintf("p2p%v", s), true, append(append([]int{}, h...), R, B(c3))...)
		// B: header-carried
		if len(s) > 0 {
			hist(fmt.Sprintf("hdr%v", s), true, B(c1), BSL(c2, 0, s, false), R, B(c3))
		}
		// thorough: the subset split between the header (first half) and P2P votes (second half),
		// the P2P part delivered before and after a restart
		if thorough && len(s) >= 2 {
			k := len(s) / 2
			hist(fmt.Sprintf("mixed%v", s), true, append(append([]int{B(c1), BSL(c2, 0, s[:k], false)}, votes(s[k:], 0, c2)...), R, B(c3))...)
			hist(fmt.Sprintf("mixed-restart%v", s), true, append(append([]int{B(c1), BSL(c2, 0, s[:k], false), R}, votes(s[k:], 0, c2)...), B(c3))...)
		}
	}
	// C: thr-1 valid votes plus one invalid of each kind must not justify
	var base []int
	for i := 0; i < thr-1; i++ {
		base = append(base, i)
	}
	pre := []int{B(c1), B(c2)}
	if thr-1 < n {
		hist("forged-p2p", true, append(append(append([]int{}, pre...), votes(base, 0, c2)...), VBad(thr-1, 0, c2), R, VBad(thr-1, 0, c2))...)
	}
	hist("nonvalidator-p2p", true, append(append(append([]int{}, pre...), votes(base, 0, c2)...), V(n, 0, c2), R, V(n, 0, c2))...)
	// header-carried: forged signatures for every remaining slot next to thr-1 valid P2P votes,
	// before and after a restart, followed by nothing / one more honest vote
	var allSlots []int
	for i := 0; i < n; i++ {
		allSlots = append(allSlots, i)
	}
	hist("forged-hdr-all-slots", true, B(c1), BSL(c2, 0, allSlots, true), R, B(c3))
	if n >= 2 {
		// n-1 forged header signatures + later ONE valid vote: still only one valid signer
		hist("forged-hdr-then-one-valid", true, B(c1), BSL(c2, 0, allSlots[1:], true), V(0, 0, c2), R, V(0, 0, c2), B(c3))
		hist("forged-hdr-restart-then-one-valid", true, B(c1), BSL(c2, 0, allSlots[1:], true), R, V(0, 0, c2), B(c3))
	}
	// signature by a non-validator placed in a slot (header path)
	hist("nonvalidator-hdr", true, B(c1), add(chainlab.Event{Kind: chainlab.EvBlockSL, Block: c2, Src: 0, Signers: []int{n}, Slot: 1}), R, V(0, 0, c2), B(c3))
	if n < 10 {
		// a validator's valid signature placed in an unused slot (>= n)
		hist("unused-slot-hdr", true, B(c1), add(chainlab.Event{Kind: chainlab.EvBlockSL, Block: c2, Src: 0, Signers: []int{0}, Slot: n + 1}), R, B(c3))
		if n >= 2 {
			hist("unused-slot-hdr-then-votes", true, append(append([]int{B(c1), add(chainlab.Event{Kind: chainlab.EvBlockSL, Block: c2, Src: 0, Signers: []int{0}, Slot: n + 1})}, votes(base[:len(base)], 0, c2)...), R, B(c3))...)
		}
	}
	// a block first delivered with a header link from an unknown source (the node may refuse it after having touched
	// its checkpoint tree), then delivered again carrying forged signatures for every slot: nothing may be justified,
	// neither at once nor after a restart merges the stored header back
	unk := add(chainlab.Event{Kind: chainlab.EvBlockSL, Block: c2, Src: chainlab.Foreign, Signers: []int{0}})
	hist("refused-with-unknown-source-then-forged-hdr", false, B(c1), unk, BSL(c2, 0, allSlots, true), R, B(c3), B(c4))
	hist("refused-with-unknown-source-then-plain", false, B(c1), unk, B(c2), B(c3), R, B(c4))
	hist("refused-with-unknown-source-then-valid-hdr", false, B(c1), unk, BSL(c2, 0, full2(n), false), R, B(c3), B(c4))
	// D: supermajority link from an UNJUSTIFIED source, then the source gets justified
	full := allSlots[:thr]
	hist("unjustified-source", false, append(append(append([]int{B(c1), B(c2), B(c3), B(c4)}, votes(full, c2, c4)...), R), votes(full, 0, c2)...)...)
	hist("unjustified-source-hdr", false, B(c1), B(c2), B(c3), BSL(c4, c2, full, false), R, B(c5))
	// E: finalization needs the direct child justified from the checkpoint itself
	hist("finalize-direct", true, append(append(append([]int{B(c1), B(c2), B(c3), B(c4)}, votes(full, 0, c2)...), votes(full, c2, c4)...), R, B(c5))...)
	// votes arrive in a burst after the blocks: two checkpoints are finalized one after the other without any block
	// connected in between (the stored chain status still names the old root), then the node restarts
	hist("finalize-two-levels-without-block-then-restart", true, append(append(append(append([]int{B(c1), B(c2), B(c3), B(c4), B(c5), B(c6)}, votes(full, 0, c2)...), votes(full, c2, c4)...), votes(full, c4, c6)...), R, B(c7))...)
	hist("finalize-two-levels-without-block-then-restart-twice", true, append(append(append(append([]int{B(c1), B(c2), B(c3), B(c4), B(c5), B(c6)}, votes(full, 0, c2)...), votes(full, c2, c4)...), votes(full, c4, c6)...), R, R, B(c7))...)
	// a late vote for the checkpoint that has meanwhile been finalized (it is the tree root now)
	hist("late-vote-for-finalized-root", true, append(append(append([]int{B(c1), B(c2), B(c3), B(c4)}, votes(full, 0, c2)...), votes(full, c2, c4)...), V(n-1, 0, c2), V(0, 0, c2), R, V(n-1, 0, c2), B(c5))...)
	hist("vote-for-genesis", true, B(c1), B(c2), V(0, 0, 0), V(0, c2, 0), R, V(0, 0, 0), B(c3))
	// the parent IS justified and its direct child gets justified by a link that skips the parent: a justified
	// checkpoint with a justified direct child is NOT finalized unless the link starts from it
	hist("skip-link-over-justified-parent", false, append(append(append([]int{B(c1), B(c2), B(c3), B(c4)}, votes(full, 0, c2)...), votes(full, 0, c4)...), R, B(c5))...)
	hist("skip-link-first-then-parent-justified", true, append(append(append([]int{B(c1), B(c2), B(c3), B(c4)}, votes(full, 0, c4)...), votes(full, 0, c2)...), R, B(c5))...)
	hist("skip-link-hdr-over-justified-parent", false, append(append([]int{B(c1), B(c2), B(c3)}, votes(full, 0, c2)...), BSL(c4, 0, full, false), R, B(c5))...)
	// root -> c4 and root -> c6, both skip links: c4 is justified and so is its direct child c6, c4 is still not final
	hist("two-skip-links-justified-parent-and-child", true, append(append(append([]int{B(c1), B(c2), B(c3), B(c4), B(c5), B(c6)}, votes(full, 0, c4)...), votes(full, 0, c6)...), R, B(c7))...)
	hist("two-skip-links-child-first", true, append(append(append([]int{B(c1), B(c2), B(c3), B(c4), B(c5), B(c6)}, votes(full, 0, c6)...), votes(full, 0, c4)...), R, B(c7))...)
	hist("skip-link-does-not-finalize", true, append(append([]int{B(c1), B(c2), B(c3), B(c4)}, votes(full, 0, c4)...), R, B(c5))...)
	hist("cached-votes-before-target", true, append(append([]int{}, votes(full, 0, c2)...), B(c1), B(c2), B(c3), R, B(c4))...)
	// votes that arrive BEFORE their target block are parked and replayed when the first block of the next epoch
	// connects: the replay path must apply the same checks. Every kind of bad vote parked next to thr-1 valid ones,
	// and a full set of forged ones.
	bvotes := func(vs []int, s, t int) []int {
		var h []int
		for _, v := range vs {
			h = append(h, VBad(v, s, t))
		}
		return h
	}
	after := []int{B(c1), B(c2), B(c3), R, B(c4)}
	hist("cached-all-forged", true, append(bvotes(allSlots, 0, c2), after...)...)
	if thr-1 < n {
		hist("cached-forged-completes-majority", true, append(append(votes(base, 0, c2), VBad(thr-1, 0, c2)), after...)...)
		hist("cached-forged-first-then-valid", true, append(append([]int{VBad(thr-1, 0, c2)}, votes(base, 0, c2)...), after...)...)
	}
	hist("cached-nonvalidator-completes-majority", true, append(append(votes(base, 0, c2), V(n, 0, c2)), after...)...)
	// parked votes from a source that is not justified when they are replayed
	hist("cached-unjustified-source", false, append(append(votes(full, c2, c4), B(c1), B(c2), B(c3), B(c4)), B(c5), R)...)
	for _, s := range subsets {
		if len(s) > 0 && (n <= 5 || thorough) {
			hist(fmt.Sprintf("cached%v", s), true, append(votes(s, 0, c2), after...)...)
		}
	}
	return f
}

var thorough bool
var lastFam *fam
var electedErr error

// buildElected: a validator-set change inside the epoch the target closes. On a prelude, block p1 carries a vote
// transaction electing key X (not a federation member); checkpoint p2 closes that epoch: the votes for p2 still
// belong to the parent epoch's set (the 4 federation keys), X's signature must not count for p2, while for p4
// (next epoch) X is the only validator and federation signatures must not count.
func buildElected() *fam {
	net := labnet.Setup(2, 2, 4)
	net.SetLocalKey(labnet.OutsiderKey())
	net.AddKey(chainkd.RootXPrv([]byte{0xab, 0xcd})) // index 4 = X (not the node's own key)
	P, err := chainlab.NewPrelude(net, 16)
	if err != nil {
		// a rejected prelude block is not a statement about justification: the coordinator caps this family
		// (no history of it is handed out, so a worker never gets here)
		if par.IsWorker() {
			ev.Fatal("prelude: %v", err)
		}
		electedErr = err
		return nil
	}
	w := chainlab.NewWorld(net, P.Tip, P.Base)
	tv := labnet.Tx([]labnet.Out{P.U[0]}, []*types.TxOutput{types.NewVoteOutput(*consensus.BTMAssetID, 100000000, labnet.Prog(0x30), net.Pubs[4][:], nil), types.NewOriginalTxOutput(*consensus.BTMAssetID, chainlab.UAmount-100000000-labnet.Fee, labnet.Prog(0x31), nil)})
	p1 := w.AddBlock(0, "p1", labnet.BlockOpt{Txs: []*types.Tx{tv}})
	p2 := w.AddBlock(p1, "p2", labnet.BlockOpt{})
	p3 := w.AddBlock(p2, "p3", labnet.BlockOpt{})
	p4 := w.AddBlock(p3, "p4", labnet.BlockOpt{})
	p5 := w.AddBlock(p4, "p5", labnet.BlockOpt{})
	f := &fam{W: w, n: 0}
	add := func(e chainlab.Event) int {
		e.Name = ""
		e.Name = e.String()
		if e.Kind == chainlab.EvBlock {
			e.Name = "B:" + w.Names[e.Block]
		}
		w.Events = append(w.Events, e)
		return len(w.Events) - 1
	}
	B := func(b int) int { return add(chainlab.Event{Kind: chainlab.EvBlock, Block: b}) }
	V := func(v, s, t int) int { return add(chainlab.Event{Kind: chainlab.EvVote, Val: v, Src: s, Tgt: t}) }
	R := func() int { return add(chainlab.Event{Kind: chainlab.EvRestart}) }
	G := chainlab.Genesis
	hist := func(name string, evs ...int) {
		f.hists = append(f.hists, evs)
		f.names = append(f.names, name)
		f.complete = append(f.complete, true)
	}
	slX := func(slot int) int {
		return add(chainlab.Event{Kind: chainlab.EvBlockSL, Block: p2, Src: G, Signers: []int{4}, Slot: slot + 1})
	}
	// X's signature carried in p2's header (in slot 0 = its rank in the NEW set, and in the other slots) + two genuine votes
	for slot := 0; slot < 4; slot++ {
		// two genuine votes from federation members whose slots differ from the one the foreign signature sits in
		g1, g2 := (slot+1)%4, (slot+2)%4
		hist(fmt.Sprintf("elected-foreign-signature-in-header-slot%d", slot), B(p1), slX(slot), V(g1, G, p2), V(g2, G, p2), R(), V(g2, G, p2), B(p3))
	}
	hist("elected-foreign-signature-by-p2p", B(p1), B(p2), V(4, G, p2), V(1, G, p2), V(2, G, p2), R(), B(p3))
	hist("elected-three-genuine-votes-justify", B(p1), B(p2), V(0, G, p2), V(1, G, p2), V(2, G, p2), R(), B(p3))
	// next epoch: X is the only validator of p4
	hist("elected-old-set-votes-do-not-count-next-epoch", B(p1), B(p2), B(p3), B(p4), V(0, G, p4), V(1, G, p4), V(2, G, p4), R(), B(p5))
	hist("elected-new-validator-justifies-next-epoch", B(p1), B(p2), B(p3), B(p4), V(0, G, p4), V(4, G, p4), R(), B(p5))
	hist("elected-new-validator-header-next-epoch", B(p1), B(p2), B(p3), add(chainlab.Event{Kind: chainlab.EvBlockSL, Block: p4, Src: G, Signers: []int{4}}), R(), B(p5))
	hist("elected-old-set-header-next-epoch", B(p1), B(p2), B(p3), add(chainlab.Event{Kind: chainlab.EvBlockSL, Block: p4, Src: G, Signers: []int{0}, Slot: 1}), R(), B(p5))
	return f
}

// buildMulti: ONE target with supermajority links from TWO sources. Chain c1..c7 (E=2): A=c2, B=c4, C=c6. Every
// validator (n=4) takes one of: no vote for C, A->C, B->C, A->C then later B->C, B->C then later A->C; the votes that
// justify A (root->A) and B (A->B) come before the votes for C, between the first and the second votes, or after
// all of them. C may only be justified by a link that has a supermajority itself AND a justified source; B may only be
// finalized when the link B->C (its direct child) has the supermajority - signatures on the other link do not count.
func buildMulti(thorough bool) *fam {
	net := labnet.Setup(2, 2, 4)
	net.SetLocalKey(labnet.OutsiderKey())
	w := chainlab.NewWorld(net, net.Gen, nil)
	w.NVal = 4
	var c [8]int
	for i := 1; i <= 7; i++ {
		c[i] = w.AddBlock(c[i-1], fmt.Sprintf("c%d", i), labnet.BlockOpt{})
	}
	f := &fam{W: w, n: -1}
	evIdx := map[string]int{}
	add := func(e chainlab.Event) int {
		e.Name = ""
		name := e.String()
		if e.Kind == chainlab.EvBlock {
			name = "B:" + w.Names[e.Block]
		}
		if i, ok := evIdx[name]; ok {
			return i
		}
		e.Name = name
		w.Events = append(w.Events, e)
		evIdx[name] = len(w.Events) - 1
		return len(w.Events) - 1
	}
	B := func(b int) int { return add(chainlab.Event{Kind: chainlab.EvBlock, Block: b}) }
	V := func(v, s, t int) int { return add(chainlab.Event{Kind: chainlab.EvVote, Val: v, Src: s, Tgt: t}) }
	R := add(chainlab.Event{Kind: chainlab.EvRestart})
	A, Bc, C := c[2], c[4], c[6]
	var blocks []int
	for i := 1; i <= 6; i++ {
		blocks = append(blocks, B(c[i]))
	}
	var justify []int
	for v := 0; v < 3; v++ {
		justify = append(justify, V(v, 0, A))
	}
	for v := 0; v < 3; v++ {
		justify = append(justify, V(v, A, Bc))
	}
	choiceNames := []string{"-", "A", "B", "AB", "BA"}
	for m := 0; m < 625; m++ {
		var first, second []int
		name := ""
		for v, x := 0, m; v < 4; v, x = v+1, x/5 {
			ch := x % 5
			name += choiceNames[ch] + ","
			switch ch {
			case 1:
				first = append(first, V(v, A, C))
			case 2:
				first = append(first, V(v, Bc, C))
			case 3:
				first = append(first, V(v, A, C))
				second = append(second, V(v, Bc, C))
			case 4:
				first = append(first, V(v, Bc, C))
				second = append(second, V(v, A, C))
			}
		}
		for phase, pn := range []string{"sources-first", "sources-between", "sources-last"} {
			if len(second) == 0 && phase == 1 && !thorough {
				continue // without second votes "between" equals "last"
			}
			h := append([]int{}, blocks...)
			switch phase {
			case 0:
				h = append(append(append(h, justify...), first...), second...)
			case 1:
				h = append(append(append(h, first...), justify...), second...)
			case 2:
				h = append(append(append(h, first...), second...), justify...)
			}
			h = append(h, R, B(c[7]))
			f.hists = append(f.hists, h)
			f.names = append(f.names, "two-links-one-target/"+pn+"["+name+"]")
			f.complete = append(f.complete, false)
		}
	}
	return f
}

func full2(n int) []int {
	var s []int
	for i := 0; i < 2*n/3+1; i++ {
		s = append(s, i)
	}
	return s
}

// buildRedelivery: a stored block ABOVE the best height is delivered again. Branch a (a1..a6) is longer, branch b
// (b1..b4) gets justified by a skip link root>b4 and becomes best (height 4): a5, a6 stay stored above it. a6 then
// arrives again carrying forged / foreign header signatures: they must not count, neither at once nor when a
// restart merges the stored header back and one genuine vote follows.
func buildRedelivery() *fam {
	net := labnet.Setup(2, 2, 4)
	net.SetLocalKey(labnet.OutsiderKey())
	net.AddKey(labnet.OutsiderKey())
	w := chainlab.NewWorld(net, net.Gen, nil)
	w.NVal = 4
	var a, b [7]int
	for i := 1; i <= 6; i++ {
		a[i] = w.AddBlock(a[i-1], fmt.Sprintf("a%d", i), labnet.BlockOpt{})
	}
	for i := 1; i <= 4; i++ {
		b[i] = w.AddBlock(b[i-1], fmt.Sprintf("b%d", i), labnet.BlockOpt{Tag: 1})
	}
	f := &fam{W: w, n: -2}
	add := func(e chainlab.Event) int {
		e.Name = ""
		e.Name = e.String()
		if e.Kind == chainlab.EvBlock {
			e.Name = "B:" + w.Names[e.Block]
		}
		w.Events = append(w.Events, e)
		return len(w.Events) - 1
	}
	B := func(x int) int { return add(chainlab.Event{Kind: chainlab.EvBlock, Block: x}) }
	V := func(v, s, t int) int { return add(chainlab.Event{Kind: chainlab.EvVote, Val: v, Src: s, Tgt: t}) }
	R := func() int { return add(chainlab.Event{Kind: chainlab.EvRestart}) }
	all := []int{0, 1, 2, 3}
	pre := func() []int {
		h := []int{}
		for i := 1; i <= 6; i++ {
			h = append(h, B(a[i]))
		}
		for i := 1; i <= 4; i++ {
			h = append(h, B(b[i]))
		}
		return append(h, V(0, 0, b[4]), V(1, 0, b[4]), V(2, 0, b[4]))
	}
	hist := func(name string, evs ...int) {
		f.hists = append(f.hists, evs)
		f.names = append(f.names, name)
		f.complete = append(f.complete, false)
	}
	forged := func() int {
		return add(chainlab.Event{Kind: chainlab.EvBlockSL, Block: a[6], Src: 0, Signers: all, BadSig: true})
	}
	hist("redelivered-above-best-with-forged-hdr", append(pre(), forged(), R(), V(0, 0, a[6]), B(a[6]))...)
	hist("redelivered-above-best-with-forged-hdr-no-restart", append(pre(), forged(), V(0, 0, a[6]), R(), V(1, 0, a[6]))...)
	hist("redelivered-above-best-with-nonvalidator-hdr", append(pre(), add(chainlab.Event{Kind: chainlab.EvBlockSL, Block: a[6], Src: 0, Signers: []int{4}, Slot: 2}), R(), V(0, 0, a[6]), V(2, 0, a[6]))...)
	hist("redelivered-above-best-plain", append(pre(), B(a[6]), R(), V(0, 0, a[6]))...)
	return f
}

func getFam(n int) *fam {
	if n == 0 {
		return buildElected()
	}
	if n == -2 {
		if lastFam == nil || lastFam.n != -2 {
			lastFam = buildRedelivery()
		}
		return lastFam
	}
	if n == -1 {
		if lastFam == nil || lastFam.n != -1 {
			lastFam = buildMulti(thorough)
		}
		return lastFam
	}
	// worlds of different n need different process-wide parameters: rebuild on every switch
	if lastFam == nil || lastFam.n != n {
		lastFam = build(n, thorough)
	}
	return lastFam
}

func runCase(h []int, _ json.RawMessage) (out xplore.Out) {
	n, hi := h[0], h[1]
	f := getFam(n)
	W := f.W
	hist := f.hists[hi]
	in, err := W.NewInst()
	if err != nil {
		return xplore.Out{Viols: []xplore.Viol{{Key: "infra-newnode", What: err.Error()}}}
	}
	ref := chainlab.NewRef(W)
	for step, ei := range hist {
		res := in.Apply(ei)
		ref.Apply(ei)
		if in.Hung {
			out.Viols = append(out.Viols, xplore.Viol{Key: "call-did-not-return", What: fmt.Sprintf("n=%d %s: event %s (step %d)", n, f.names[hi], W.Events[ei], step)})
			out.Fatal = true
			return
		}
		if W.Events[ei].Kind == chainlab.EvRestart && res != "ok" {
			out.Viols = append(out.Viols, xplore.Viol{Key: "restart-failed", What: fmt.Sprintf("n=%d %s: %s", n, f.names[hi], res)})
			return
		}
		for _, fd := range in.CheckFinality(ref, f.complete[hi]) {
			out.Viols = append(out.Viols, xplore.Viol{Key: fd.Key + "@" + famClass(f.names[hi]), What: fmt.Sprintf("n=%d family=%s after %v: %s", n, f.names[hi], W.Describe(hist[:step+1]), fd.What)})
		}
		out.Checks++
		out.Steps++
	}
	fin := in.ReadFinality()
	out.Digest = fmt.Sprintf("n%d/%s", n, in.Digest())
	out.Outcome = fmt.Sprintf("justified=%d root=%d", len(fin.Justified), fin.Root)
	in.DB.Wipe()
	return
}

func main() {
	spec := &xplore.Spec{Name: "c17", Run: runCase, Recycle: 200}
	thorough = os.Getenv("VERIF_TIER") == "thorough"
	if par.IsWorker() {
		// the worker describes a case from the family it builds itself; xplore compares the fingerprint with the
		// coordinator's description and refuses to run a history that means something else here
		spec.Describe = func(h []int) interface{} {
			f := getFam(h[0])
			if h[1] >= len(f.hists) {
				return "no such history"
			}
			return map[string]interface{}{"n": h[0], "family": f.names[h[1]], "events": f.W.Describe(f.hists[h[1]])}
		}
		xplore.Worker(spec)
	}
	run := ev.Start("C17", "model_checking")
	var items [][]int
	desc := map[[2]int]interface{}{}
	sizes := []int{1, 2, 3, 4, 5, 6, 7, 8, 9, 10}
	if !run.Thorough() {
		sizes = []int{1, 2, 3, 4, 5, 6, 7, 8, 9, 10} // every size: the rounding of 2n/3 differs per residue
	}
	for _, n := range append([]int{0, -1, -2}, sizes...) {
		var f *fam
		if n == 0 {
			f = buildElected()
		} else if n == -2 {
			f = buildRedelivery()
		} else if n == -1 {
			f = buildMulti(run.Thorough())
		} else {
			f = build(n, run.Thorough())
		}
		if f == nil {
			run.Capped(fmt.Sprintf("family elected-validator: could not be set up: %v", electedErr))
			continue
		}
		for i := range f.hists {
			items = append(items, []int{n, i})
			desc[[2]int{n, i}] = map[string]interface{}{"n": n, "family": f.names[i], "events": f.W.Describe(f.hists[i])}
		}
	}
	spec.Describe = func(h []int) interface{} { return desc[[2]int{h[0], h[1]}] }
	st := xplore.Flat(run, spec, items)
	run.Set("states", st.States)
	run.Set("transitions", st.Transitions)
	run.Set("traces_validated_against_impl", st.Checks)
	run.Set("histories", len(items))
	run.Set("validator_set_sizes", sizes)
	run.Set("rule", "per validator-set size n: every subset of signers (n<=5; thorough: every n, plus each subset split between header and P2P votes around a restart) or every subset size from both ends of the slot range (n>5, quick), delivered as P2P votes and as header-carried links, plus forged / non-validator / all-slot-forged signatures, unjustified sources, direct and skip links, cached votes, each with a restart and a follow-up event; after EVERY event the node's justified set and finalized root are compared with the reference closure")
	run.Assume("n=-1 in the samples: one target with links from two sources (4 validators, each: no vote / A->C / B->C / both in either order; the votes justifying the sources before, between or after); federation validator sets of size n, plus one world (n=0 in the samples) in which a vote transaction elects a new single-key validator set that takes over in the next epoch; E=2")
	run.Finish()
}

// famClass strips the signer list from a family name so that keys stay structural.
func famClass(n string) string {
	for i, c := range n {
		if c == '[' {
			return n[:i]
		}
	}
	return n
}
