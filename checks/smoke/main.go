package main

import (
	"fmt"

	"github.com/bytom/bytom/protocol/bc/types"
	"github.com/bytom/bytom/consensus"
	"verif/lib/crashkv"
	"verif/lib/labnet"
)

func main() {
	n := labnet.Setup(2, 2, 4)
	db := crashkv.New()
	nd, err := labnet.NewNode(db)
	if err != nil {
		panic(err)
	}
	blocks := n.Chain(n.Gen, 14, 0)
	for _, b := range blocks {
		orphan, err := nd.Chain.ProcessBlock(b.Block)
		if err != nil || orphan {
			panic(fmt.Sprint(b.Height, orphan, err))
		}
	}
	cb := blocks[2].Block.Transactions[0]
	o := labnet.Out{Tx: cb, Idx: 0}
	tx := labnet.Tx([]labnet.Out{o}, []*types.TxOutput{
		types.NewOriginalTxOutput(*consensus.BTMAssetID, 100000000, labnet.Prog(7), nil),
		types.NewVoteOutput(*consensus.BTMAssetID, 200000000, labnet.Prog(8), n.Pubs[1][:], nil),
		types.NewOriginalTxOutput(*consensus.BTMAssetID, o.Amount()-300000000-labnet.Fee, labnet.Prog(9), nil),
	})
	b15 := n.NewBlock(blocks[13], labnet.BlockOpt{Txs: []*types.Tx{tx}})
	or, err := nd.Chain.ProcessBlock(b15.Block)
	fmt.Println(or, err, nd.Chain.BestBlockHeight())
	b16 := n.NewBlock(b15, labnet.BlockOpt{})
	or, err = nd.Chain.ProcessBlock(b16.Block)
	fmt.Println(or, err, nd.Chain.BestBlockHeight(), b16.CP.Votes)
	// veto at 18 (15+2=17 <= 18)
	b17 := n.NewBlock(b16, labnet.BlockOpt{})
	veto := labnet.Tx([]labnet.Out{{Tx: tx, Idx: 1}}, []*types.TxOutput{types.NewOriginalTxOutput(*consensus.BTMAssetID, 200000000-labnet.Fee, labnet.Prog(1), nil)})
	b18 := n.NewBlock(b17, labnet.BlockOpt{Txs: []*types.Tx{veto}})
	for _, b := range []*labnet.B{b17, b18} {
		or, err = nd.Chain.ProcessBlock(b.Block)
		fmt.Println(or, err, nd.Chain.BestBlockHeight(), b.CP.Votes)
	}
}
