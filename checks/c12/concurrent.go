package main

// Interleaving part of C12: the blocks of a small tree are delivered by CONCURRENT callers (peers deliver blocks on
// their own goroutines), one block per thread. The protocol packages are rewritten for lib/vsched and every
// schedule with a bounded number of preemptions runs on the real Chain; after the calls returned every block must
// be stored (all ancestors were delivered), the orphan pool and its index must be empty, and best block and main
// chain must be those of the in-order run.

import (
	"fmt"
	"strings"
	"time"

	"verif/lib/crashkv"
	"verif/lib/ev"
	"verif/lib/labnet"
	"verif/lib/vsched"
)

type cscen struct {
	name    string
	parents []int   // tree: parent of block i+1 (0 = genesis)
	setup   []int   // blocks delivered sequentially first
	threads [][]int // blocks per thread
}

func concScenarios(thorough bool) []cscen {
	sc := []cscen{
		{"parent || child", []int{0, 1}, nil, [][]int{{1}, {2}}},
		{"parent || child || grandchild", []int{0, 1, 2}, nil, [][]int{{1}, {2}, {3}}},
		{"child || its sibling's child, parents known", []int{0, 1, 1, 3}, []int{1}, [][]int{{3}, {4}, {2}}},
	}
	if thorough {
		sc = append(sc,
			cscen{"parent || two children", []int{0, 1, 1}, nil, [][]int{{1}, {2}, {3}}},
			cscen{"chain of four, two per thread", []int{0, 1, 2, 3}, nil, [][]int{{1, 3}, {2, 4}}},
		)
	}
	return sc
}

func concBody(sc cscen, bs []*labnet.B, refBest, refMain string) func(x *vsched.Exec) {
	return func(x *vsched.Exec) {
		var nd *labnet.Node
		x.Deterministic(func() {
			var err error
			nd, err = labnet.NewNode(crashkv.New())
			if err != nil {
				x.Fail("infra-newnode", err.Error())
				return
			}
			for _, i := range sc.setup {
				nd.Chain.ProcessBlock(bs[i].Block)
			}
		})
		if nd == nil {
			return
		}
		for t := range sc.threads {
			t := t
			x.Spawn(fmt.Sprintf("T%d", t), func() {
				for _, i := range sc.threads[t] {
					if _, err := nd.Chain.ProcessBlock(bs[i].Block); err != nil {
						x.Fail("valid-block-error:concurrent-delivery", fmt.Sprintf("block %d: %v", i, err))
					}
				}
			})
		}
		x.Join()
		x.Settle()
		orphans := map[string]bool{}
		for _, oh := range nd.Chain.VerifOrphanBlocks() {
			orphans[oh.String()] = true
		}
		for i := 1; i < len(bs); i++ {
			hash := bs[i].Hash()
			if _, err := nd.Chain.GetHeaderByHash(&hash); err != nil {
				x.Fail("connectable-block-not-connected:concurrent-delivery", fmt.Sprintf("block %d has all ancestors delivered but is not stored (in the orphan pool: %v)", i, orphans[hash.String()]))
			}
		}
		if len(orphans) != 0 {
			x.Fail("orphans-left-at-end:concurrent-delivery", fmt.Sprintf("%d blocks left in the orphan pool", len(orphans)))
		}
		if idx := nd.Chain.VerifOrphanIndex(); len(idx) != 0 {
			x.Fail("dangling-orphan-index:concurrent-delivery", fmt.Sprintf("orphan parent index not empty: %d entries", len(idx)))
		}
		best := nd.Chain.BestBlockHash().String()
		if best != refBest {
			x.Fail("best-differs-from-in-order:concurrent-delivery", fmt.Sprintf("best %s, in-order run %s", best[:8], refBest[:8]))
		} else if mc := mainChain(nd); mc != refMain {
			x.Fail("main-chain-index-differs-from-in-order:concurrent-delivery", fmt.Sprintf("main chain %q, in-order %q", mc, refMain))
		}
		x.Observe("best=" + best[:8])
	}
}

func concurrent(run *ev.Run) {
	bound := run.Pick(1, 2)
	totalExec, totalDec := 0, 0
	for _, sc := range concScenarios(run.Thorough()) {
		bs := build(shape{len(sc.parents), sc.parents})
		ref, err := labnet.NewNode(crashkv.New())
		if err != nil {
			// a node that does not start on an empty store is outside the statement (arrival orders)
			run.Capped(fmt.Sprintf("concurrent scenario %s: could not be set up: the in-order reference node does not start on an empty store: %v", sc.name, err))
			continue
		}
		for i := 1; i < len(bs); i++ {
			ref.Chain.ProcessBlock(bs[i].Block)
		}
		refBest, refMain := ref.Chain.BestBlockHash().String(), mainChain(ref)
		var names []string
		for _, th := range sc.threads {
			names = append(names, strings.Trim(fmt.Sprint(th), "[]"))
		}
		desc := fmt.Sprintf("concurrent: %s: tree %v, setup %v, then %s", sc.name, sc.parents, sc.setup, strings.Join(names, " || "))
		// wall-clock share of this scenario (all bounds): what does not finish inside it is reported as capped
		deadline := run.DeadlineIn(time.Duration(run.Pick(60, 240)) * time.Second)
		for b := 0; b <= bound; b++ {
			st := vsched.Explore(vsched.Config{Name: sc.name, Bound: b, Stall: 120 * time.Second, MaxExec: run.Pick(3000, 60000), Deadline: deadline}, concBody(sc, bs, refBest, refMain))
			if st.Infra != "" {
				if st.StallReproduced {
					run.Violation("call-never-returns-under-schedule", fmt.Sprintf("%s: the same schedule stalled three times: %s", sc.name, st.Infra), map[string]interface{}{"scenario": sc.name, "schedule": st.StallSchedule})
				} else {
					run.Set("stall_not_reproduced", fmt.Sprintf("%s: %s", sc.name, st.Infra))
					run.Capped("an execution stalled once and did not stall again when its schedule was replayed twice (load or nondeterminism outside the scheduler)")
				}
				break
			}
			if b == bound || len(st.Failures) > 0 {
				totalExec += st.Executions
				totalDec += st.Decisions
				run.Sample(map[string]interface{}{"scenario": desc, "preemption_bound": b, "schedules": st.Executions, "distinct_outcomes": len(st.Outcomes), "complete": st.Complete})
				for o := range st.Outcomes {
					run.Outcome("concurrent " + sc.name + " -> " + o)
				}
				if !st.Complete {
					run.Capped("concurrent scenario capped: " + sc.name)
				}
			}
			for _, f := range st.Failures {
				run.Violation(f.Key, fmt.Sprintf("%s, preemption bound %d: %s", desc, b, f.What), map[string]interface{}{"scenario": desc, "bound": b, "schedule": f.Schedule, "what": f.What})
			}
			if len(st.Failures) > 0 {
				break
			}
		}
	}
	run.Set("concurrent_schedules", totalExec)
	run.Set("concurrent_decisions", totalDec)
	run.Set("concurrent_preemption_bound", bound)
	run.Assume("interleaving part: protocol and casper packages rewritten mechanically for lib/vsched; scheduling points are lock / channel / select / go operations")
}
