#!/bin/bash
# the interleaving sub-check needs the protocol / casper packages rewritten for lib/vsched (same list as C37)
exec "$(dirname "$0")/../../tools/vrw_prebuild.sh" "$1" c12 /repo/protocol/protocol.go /repo/protocol/block.go /repo/protocol/txpool.go /repo/protocol/orphan_manage.go /repo/protocol/tx.go /repo/protocol/casper/casper.go /repo/protocol/casper/apply_block.go /repo/protocol/casper/auth_verification.go /repo/protocol/casper/tree_node.go /repo/protocol/casper/verfication.go
