// C12: blocks delivered in any order are all connected without crashing.
// Enumerates every non-isomorphic block tree with <= N blocks (branching <= 4) and,
// for each, EVERY permutation of delivery to a fresh real node.
package main

import (
	"github.com/bytom/bytom/protocol"

	"encoding/json"
	"fmt"
	"sort"

	"verif/lib/crashkv"
	"verif/lib/ev"
	"verif/lib/labnet"
	"verif/lib/par"
	"verif/lib/shapes"
	"verif/lib/xplore"
)

type shape struct {
	n int
	p []int
}

// allShapes: every shape with <= maxN blocks; a negative maxN means: every shape with <= -maxN-1 blocks plus
// the shapes with -maxN blocks in which some block has at least three children (sibling orphans).
func allShapes(maxN int) []shape {
	var out []shape
	full := maxN
	if maxN < 0 {
		full = -maxN - 1
	}
	for n := 1; n <= full; n++ {
		for _, p := range shapes.Trees(n, 4) {
			out = append(out, shape{n, p})
		}
	}
	if maxN < 0 {
		for _, p := range shapes.Trees(-maxN, 4) {
			cnt := map[int]int{}
			wide := false
			for _, q := range p {
				cnt[q]++
				if cnt[q] >= 3 {
					wide = true
				}
			}
			if wide {
				out = append(out, shape{-maxN, p})
			}
		}
	}
	return out
}

var net *labnet.Net

func build(s shape) []*labnet.B {
	bs := make([]*labnet.B, s.n+1)
	bs[0] = net.Gen
	tagOf := map[int]byte{}
	for i := 1; i <= s.n; i++ {
		par := s.p[i-1]
		tagOf[par]++
		bs[i] = net.NewBlock(bs[par], labnet.BlockOpt{Tag: tagOf[par] - 1, Name: fmt.Sprint(i)})
	}
	return bs
}

func mainChain(nd *labnet.Node) string {
	best := nd.Chain.BestBlockHeader()
	s := ""
	for h := uint64(0); h <= best.Height; h++ {
		hd, err := nd.Chain.GetHeaderByHeight(h)
		if err != nil {
			s += fmt.Sprintf("%d:ERR ", h)
			continue
		}
		hash := hd.Hash()
		s += fmt.Sprintf("%d:%s ", h, hash.String()[:8])
	}
	return s
}

// runEvict: the same enumeration with the orphan pool capacity reduced to 2, so that the eviction path
// (deleteLRU) runs on small trees. Evicted blocks are legitimately forgotten; whatever is still waiting must
// stay consistently indexed, connect when its ancestors arrive, and a final in-order re-delivery must end in
// the in-order state with an empty pool.
func runEvict(h []int, maxN int) (out xplore.Out) {
	ss := allShapes(maxN)
	s := ss[h[0]]
	perm := shapes.Perm(s.n, h[1])
	bs := build(s)
	old := protocol.VerifSetOrphanLimit(2)
	defer protocol.VerifSetOrphanLimit(old)
	viol := func(key, what string) { out.Viols = append(out.Viols, xplore.Viol{Key: key, What: what}) }
	nd, err := labnet.NewNode(crashkv.New())
	if err != nil {
		return xplore.Out{Viols: []xplore.Viol{{Key: "infra-newnode", What: err.Error()}}}
	}
	checkIndex := func(when string) {
		out.Checks++
		orphans := map[string]bool{}
		for _, oh := range nd.Chain.VerifOrphanBlocks() {
			orphans[oh.String()] = true
		}
		if len(orphans) > 2 {
			viol("orphan-pool-over-capacity", fmt.Sprintf("%s: %d orphans with capacity 2", when, len(orphans)))
		}
		indexed := map[string]bool{}
		for p, kids := range nd.Chain.VerifOrphanIndex() {
			for _, k := range kids {
				if !orphans[k.String()] {
					viol("dangling-orphan-index-after-eviction", fmt.Sprintf("%s: index of parent %s lists %s which is not in the pool", when, p.String()[:8], k.String()[:8]))
				}
				indexed[k.String()] = true
			}
		}
		for o := range orphans {
			if !indexed[o] {
				viol("orphan-not-indexed-after-eviction", fmt.Sprintf("%s: orphan %s is in the pool but under no parent", when, o[:8]))
			}
		}
		// an orphan whose parent is stored must not wait
		for j := 1; j <= s.n; j++ {
			hash := bs[j].Hash()
			if !orphans[hash.String()] {
				continue
			}
			ph := bs[j].Block.PreviousBlockHash
			if _, err := nd.Chain.GetHeaderByHash(&ph); err == nil {
				viol("orphan-with-known-parent-left-after-eviction", fmt.Sprintf("%s: block %d waits although its parent is stored", when, j))
			}
		}
	}
	for step, k := range perm {
		if _, err := nd.Chain.ProcessBlock(bs[k+1].Block); err != nil {
			viol("valid-block-error", fmt.Sprintf("step %d block %d: %v", step, k+1, err))
		}
		checkIndex(fmt.Sprintf("after step %d (block %d)", step, k+1))
	}
	// re-deliver everything parents first: nothing may be lost for good
	for i := 1; i <= s.n; i++ {
		nd.Chain.ProcessBlock(bs[i].Block)
	}
	checkIndex("after in-order re-delivery")
	for i := 1; i <= s.n; i++ {
		hash := bs[i].Hash()
		if _, err := nd.Chain.GetHeaderByHash(&hash); err != nil {
			viol("block-missing-after-redelivery", fmt.Sprintf("block %d", i))
		}
	}
	if left := nd.Chain.VerifOrphanBlocks(); len(left) != 0 {
		viol("orphans-left-after-redelivery", fmt.Sprintf("%d orphans", len(left)))
	}
	out.Steps = 2 * s.n
	out.Digest = fmt.Sprintf("evict/%d/%s", h[0], nd.Chain.BestBlockHash().String())
	out.Outcome = "capacity-2"
	return
}

func runCase(h []int, extra json.RawMessage) (out xplore.Out) {
	if len(h) == 3 {
		var maxN int
		json.Unmarshal(extra, &maxN)
		return runEvict(h, maxN)
	}
	var maxN int
	json.Unmarshal(extra, &maxN)
	ss := allShapes(maxN)
	s := ss[h[0]]
	perm := shapes.Perm(s.n, h[1])
	bs := build(s)

	// reference: in-order delivery
	ref, err := labnet.NewNode(crashkv.New())
	if err != nil {
		return xplore.Out{Viols: []xplore.Viol{{Key: "infra-newnode", What: err.Error()}}}
	}
	for i := 1; i <= s.n; i++ {
		if orphan, err := ref.Chain.ProcessBlock(bs[i].Block); err != nil || orphan {
			out.Viols = append(out.Viols, xplore.Viol{Key: "valid-block-rejected-in-order", What: fmt.Sprintf("block %d: orphan=%v err=%v", i, orphan, err)})
			return
		}
	}
	refBest := ref.Chain.BestBlockHash().String()
	refMain := mainChain(ref)

	nd, err := labnet.NewNode(crashkv.New())
	if err != nil {
		return xplore.Out{Viols: []xplore.Viol{{Key: "infra-newnode", What: err.Error()}}}
	}
	arrived := map[int]bool{0: true}
	orphanSeen := false
	for step, k := range perm {
		i := k + 1
		orphan, err := nd.Chain.ProcessBlock(bs[i].Block)
		if err != nil {
			out.Viols = append(out.Viols, xplore.Viol{Key: "valid-block-error", What: fmt.Sprintf("step %d block %d: %v", step, i, err)})
		}
		arrived[i] = true
		if orphan {
			orphanSeen = true
		}
		// invariant after every delivery: a block is stored iff all its ancestors arrived
		orphans := map[string]bool{}
		for _, oh := range nd.Chain.VerifOrphanBlocks() {
			orphans[oh.String()] = true
		}
		for j := 1; j <= s.n; j++ {
			if !arrived[j] {
				continue
			}
			connected := true
			for a := j; a != 0; a = s.p[a-1] {
				if !arrived[a] {
					connected = false
				}
			}
			hash := bs[j].Hash()
			_, gerr := nd.Chain.GetHeaderByHash(&hash)
			stored := gerr == nil
			out.Checks++
			if connected && !stored {
				out.Viols = append(out.Viols, xplore.Viol{Key: "connectable-block-not-connected", What: fmt.Sprintf("after step %d (block %d) block %d has all ancestors but is not stored (orphan=%v)", step, i, j, orphans[hash.String()])})
			}
			if connected && orphans[hash.String()] {
				out.Viols = append(out.Viols, xplore.Viol{Key: "orphan-with-known-parent-left", What: fmt.Sprintf("after step %d block %d is still in the orphan pool", step, j)})
			}
			if !connected && !orphans[hash.String()] {
				out.Viols = append(out.Viols, xplore.Viol{Key: "waiting-block-lost", What: fmt.Sprintf("after step %d block %d (ancestor missing) is neither stored nor orphan", step, j)})
			}
			if !connected && stored {
				out.Viols = append(out.Viols, xplore.Viol{Key: "stored-without-ancestors", What: fmt.Sprintf("after step %d block %d stored although an ancestor is missing", step, j)})
			}
		}
	}
	// final state
	if left := nd.Chain.VerifOrphanBlocks(); len(left) != 0 {
		out.Viols = append(out.Viols, xplore.Viol{Key: "orphans-left-at-end", What: fmt.Sprintf("%d orphans left", len(left))})
	}
	idx := nd.Chain.VerifOrphanIndex()
	if len(idx) != 0 {
		out.Viols = append(out.Viols, xplore.Viol{Key: "dangling-orphan-index", What: fmt.Sprintf("orphan parent index not empty: %d entries", len(idx))})
	}
	best := nd.Chain.BestBlockHash().String()
	mc := mainChain(nd)
	out.Checks += 2
	if best != refBest {
		out.Viols = append(out.Viols, xplore.Viol{Key: "best-differs-from-in-order", What: fmt.Sprintf("best %s, in-order run %s", best[:8], refBest[:8])})
	} else if mc != refMain {
		out.Viols = append(out.Viols, xplore.Viol{Key: "main-chain-index-differs-from-in-order", What: fmt.Sprintf("main chain %q, in-order %q", mc, refMain)})
	}
	out.Steps = s.n
	out.Digest = fmt.Sprintf("%d/%s", h[0], best)
	if orphanSeen {
		out.Outcome = "with-orphans"
	} else {
		out.Outcome = "in-order"
	}
	return
}

func main() {
	net = labnet.Setup(2, 2, 4)
	spec := &xplore.Spec{Name: "c12", Run: runCase, Recycle: 400}
	if par.IsWorker() {
		xplore.Worker(spec)
	}
	run := ev.Start("C12", "model_checking")
	maxN := run.Pick(5, 7)
	spec.Extra = maxN
	ss := allShapes(maxN)
	var items [][]int
	for si, s := range ss {
		for k := 0; k < shapes.Factorial(s.n); k++ {
			items = append(items, []int{si, k})
		}
	}
	evictN := run.Pick(4, 5)
	for si, s := range ss {
		if s.n > evictN {
			continue
		}
		for k := 0; k < shapes.Factorial(s.n); k++ {
			items = append(items, []int{si, k, 1})
		}
	}
	spec.Describe = func(h []int) interface{} {
		s := ss[h[0]]
		perm := shapes.Perm(s.n, h[1])
		order := make([]int, len(perm))
		for i, k := range perm {
			order[i] = k + 1
		}
		m := map[string]interface{}{"parents(block i -> parent, 0=genesis)": s.p, "delivery_order": order}
		if len(h) == 3 {
			m["orphan_pool_capacity"] = 2
		}
		return m
	}
	st := xplore.Flat(run, spec, items)
	shapesByN := map[int]int{}
	for _, s := range ss {
		shapesByN[s.n]++
	}
	var ks []int
	for k := range shapesByN {
		ks = append(ks, k)
	}
	sort.Ints(ks)
	run.Set("states", st.States)
	run.Set("transitions", st.Transitions)
	run.Set("traces_validated_against_impl", st.Checks)
	run.Set("tree_shapes", len(ss))
	run.Set("delivery_orders", len(items))
	if maxN < 0 {
		run.Set("max_blocks", -maxN)
		run.Set("shape_restriction", "all shapes up to 5 blocks; 6-block shapes only where a block has >= 3 children")
	} else {
		run.Set("max_blocks", maxN)
	}
	run.Set("rule", "every non-isomorphic rooted block tree with <= max_blocks blocks and branching <= 4, every permutation of delivery; transitions = block deliveries; states = distinct (shape, final best block); each delivery is followed by the stored/orphan invariant over all delivered blocks and each run by comparison with the in-order run")
	run.Assume("blocks are valid empty blocks on the lab network (E=2, 4 federation validators); ordering effects of transactions are covered by C10/C13")
	concurrent(run)
	run.Finish()
}
