// C19: the node restarts cleanly from a crash at any point.
// For every history of a family (linear growth over an epoch boundary, reorganisation by height,
// reorganisation by justification, header-carried votes that justify and finalize, cached votes)
// the real node runs on a store that logs every atomic write; for EVERY prefix of that log the
// real node is restarted on the surviving store.
package main

import (
	"github.com/bytom/bytom/consensus"
	"github.com/bytom/bytom/protocol/bc/types"
	"github.com/bytom/bytom/protocol/vm/vmutil"

	"encoding/json"
	"fmt"
	"os"
	"strings"

	"verif/lib/chainlab"
	"verif/lib/crashkv"
	"verif/lib/ev"
	"verif/lib/labnet"
	"verif/lib/par"
	"verif/lib/xplore"
)

var (
	W      *chainlab.World // world of the history being executed
	hists  [][]int
	names  []string
	worlds []*chainlab.World // world per history
	kinds  []int             // process-wide parameters per history (see activate)
	curKind = -1
	// storesEpochBlock[k]: event k of the history being executed stored an epoch block in the crash-free run
	storesEpochBlock []bool
)

// activate switches the process-wide parameters: 0 = 4 federation validators, the node's key is outside the validator
// set; 1 = the same with the node signing as validator 3; 2 = ONE validator, the node itself (its own vote justifies).
func activate(k int) *labnet.Net {
	var net *labnet.Net
	switch k {
	case 0:
		net = labnet.Setup(2, 2, 4)
		net.SetLocalKey(labnet.OutsiderKey())
	case 1:
		net = labnet.Setup(2, 2, 4)
		net.SetLocalKey(net.Keys[3])
	case 2:
		net = labnet.Setup(2, 2, 1)
		net.SetLocalKey(net.Keys[0])
	}
	curKind = k
	return net
}

func world(thorough bool) {
	net := activate(0)
	w := chainlab.NewWorld(net, net.Gen, nil)
	a1 := w.AddBlock(0, "a1", labnet.BlockOpt{})
	a2 := w.AddBlock(a1, "a2", labnet.BlockOpt{})
	a3 := w.AddBlock(a2, "a3", labnet.BlockOpt{})
	a4 := w.AddBlock(a3, "a4", labnet.BlockOpt{})
	a5 := w.AddBlock(a4, "a5", labnet.BlockOpt{})
	b1 := w.AddBlock(0, "b1", labnet.BlockOpt{Tag: 1})
	b2 := w.AddBlock(b1, "b2", labnet.BlockOpt{Tag: 1})
	b3 := w.AddBlock(b2, "b3", labnet.BlockOpt{Tag: 1})
	b4 := w.AddBlock(b3, "b4", labnet.BlockOpt{Tag: 1})
	w.AddBlockEvents()
	B := map[int]int{}
	for i, e := range w.Events {
		B[e.Block] = i
	}
	V := func(v, s, t int) int { w.AddVote(v, s, t); return len(w.Events) - 1 }
	SL := func(b, s int, signers ...int) int {
		w.Events = append(w.Events, chainlab.Event{Kind: chainlab.EvBlockSL, Block: b, Src: s, Signers: signers, Name: fmt.Sprintf("B:%s+sig%v(%s)", w.Names[b], signers, w.Names[s])})
		return len(w.Events) - 1
	}
	add := func(n string, h ...int) {
		hists = append(hists, h)
		names = append(names, n)
		worlds = append(worlds, w)
	}
	add("linear-two-epochs", B[a1], B[a2], B[a3], B[a4], B[a5])
	add("reorg-by-height", B[a1], B[a2], B[b1], B[b2], B[b3])
	add("reorg-by-justification", B[a1], B[a2], B[a3], B[b1], B[b2], V(0, 0, b2), V(1, 0, b2), V(2, 0, b2))
	add("votes-justify-and-finalize", B[a1], B[a2], V(0, 0, a2), V(1, 0, a2), V(2, 0, a2), B[a3], B[a4], V(0, a2, a4), V(1, a2, a4), V(2, a2, a4), B[a5])
	add("header-carried-finality", B[a1], SL(a2, 0, 0, 1, 2), B[a3], SL(a4, a2, 0, 1, 2), B[a5])
	add("header-carried-reorg-to-shorter", B[a1], B[a2], B[a3], B[b1], SL(b2, 0, 0, 1, 3), B[b3])
	add("cached-votes", V(0, 0, a2), V(1, 0, a2), V(2, 0, a2), B[a1], B[a2], B[a3])
	add("orphans", B[a2], B[a3], B[a1], B[b2], B[b1])
	if thorough {
		add("long-two-forks", B[a1], B[b1], B[a2], B[b2], B[a3], B[b3], B[b4], V(0, 0, a2), V(1, 0, a2), V(3, 0, a2), B[a4])
		add("finalize-then-fork-arrives", B[a1], SL(a2, 0, 0, 1, 2), B[a3], SL(a4, a2, 0, 1, 2), B[b1], B[b2], B[b3], B[b4], B[a5])
		add("justify-both-forks", B[a1], B[a2], B[b1], B[b2], V(0, 0, a2), V(1, 0, a2), V(2, 0, a2), V(3, 0, b2), B[a3], B[b3], B[b4])
	}
	{
		genLen := 5
		if thorough {
			genLen = 8
		}
		// every interleaving of length genLen (quick 5, thorough 8) of: next block of branch a, next block of branch b, next vote for b2,
		// next vote for a2 (votes in validator order, after their target)
		aChain := []int{B[a1], B[a2], B[a3], B[a4], B[a5]}
		bChain := []int{B[b1], B[b2], B[b3], B[b4]}
		vb := []int{V(0, 0, b2), V(1, 0, b2), V(2, 0, b2)}
		va := []int{V(1, 0, a2), V(2, 0, a2), V(3, 0, a2)}
		var rec func(h []int, ia, ib, ivb, iva int)
		rec = func(h []int, ia, ib, ivb, iva int) {
			if len(h) == genLen {
				add(fmt.Sprintf("gen-%d", len(hists)), h...)
				return
			}
			ext := func(e int) []int { return append(append([]int{}, h...), e) }
			if ia < len(aChain) {
				rec(ext(aChain[ia]), ia+1, ib, ivb, iva)
			}
			if ib < len(bChain) {
				rec(ext(bChain[ib]), ia, ib+1, ivb, iva)
			}
			if ivb < len(vb) && ib >= 2 {
				rec(ext(vb[ivb]), ia, ib, ivb+1, iva)
			}
			if iva < len(va) && ia >= 2 {
				rec(ext(va[iva]), ia, ib, ivb, iva+1)
			}
		}
		rec(nil, 0, 0, 0, 0)
	}
	W = w
	txWorld(net, thorough)
	for len(kinds) < len(hists) {
		kinds = append(kinds, 0)
	}
	validatorWorlds(thorough)
	activate(0)
}

// validatorWorlds: the node under test is a validator and signs its own votes while it processes epoch blocks.
func validatorWorlds(thorough bool) {
	for _, kind := range []int{1, 2} {
		net := activate(kind)
		w := chainlab.NewWorld(net, net.Gen, nil)
		a1 := w.AddBlock(0, "a1", labnet.BlockOpt{})
		a2 := w.AddBlock(a1, "a2", labnet.BlockOpt{})
		a3 := w.AddBlock(a2, "a3", labnet.BlockOpt{})
		a4 := w.AddBlock(a3, "a4", labnet.BlockOpt{})
		a5 := w.AddBlock(a4, "a5", labnet.BlockOpt{})
		b1 := w.AddBlock(0, "b1", labnet.BlockOpt{Tag: 1})
		b2 := w.AddBlock(b1, "b2", labnet.BlockOpt{Tag: 1})
		b3 := w.AddBlock(b2, "b3", labnet.BlockOpt{Tag: 1})
		w.AddBlockEvents()
		B := map[int]int{}
		for i, e := range w.Events {
			B[e.Block] = i
		}
		V := func(v, s, t int) int { w.AddVote(v, s, t); return len(w.Events) - 1 }
		add := func(n string, h ...int) {
			hists = append(hists, h)
			names = append(names, n)
			worlds = append(worlds, w)
			kinds = append(kinds, kind)
		}
		if kind == 1 {
			add("validator-node-own-vote-completes-majority", B[a1], B[a2], V(0, 0, a2), V(1, 0, a2), B[a3], B[a4], V(0, a2, a4), V(1, a2, a4), B[a5])
			add("validator-node-others-first", V(0, 0, a2), V(1, 0, a2), B[a1], B[a2], B[a3], B[a4], B[a5])
			add("validator-node-reorg-by-height", B[a1], B[a2], B[b1], B[b2], B[b3])
		} else {
			add("sole-validator-linear", B[a1], B[a2], B[a3], B[a4], B[a5])
			add("sole-validator-reorg-by-height", B[a1], B[a2], B[b1], B[b2], B[b3])
			if thorough {
				add("sole-validator-orphans", B[a2], B[a3], B[a1], B[a4], B[a5])
			}
		}
	}
}

// txWorld: histories with transactions on top of the prelude (utxo and contract writes in the chain-status batch,
// detach/attach of spends, votes, coinbase spends and contract registrations during reorganisations).
var txWorldErr error

func txWorld(net *labnet.Net, thorough bool) {
	P, err := chainlab.NewPrelude(net, 16)
	if err != nil {
		// a crash-free node refusing the prelude is not a statement about crashes: the histories with
		// transactions are left out (coordinator and workers alike) and the run is reported capped
		txWorldErr = err
		return
	}
	w := chainlab.NewWorld(net, P.Tip, P.Base)
	btm := func(amount uint64, prog []byte) *types.TxOutput {
		return types.NewOriginalTxOutput(*consensus.BTMAssetID, amount, prog, nil)
	}
	reg, _ := vmutil.RegisterProgram([]byte{0x51})
	tv := labnet.Tx([]labnet.Out{P.U[0]}, []*types.TxOutput{types.NewVoteOutput(*consensus.BTMAssetID, 100000000, labnet.Prog(0x30), net.Pubs[1][:], nil), btm(chainlab.UAmount-100000000-labnet.Fee, labnet.Prog(0x31))})
	tk := labnet.Tx([]labnet.Out{P.U[1]}, []*types.TxOutput{btm(10000000, reg), btm(chainlab.UAmount-10000000-labnet.Fee, labnet.Prog(0x32))})
	a1 := w.AddBlock(0, "ta1", labnet.BlockOpt{Txs: []*types.Tx{tv, tk}})
	a2 := w.AddBlock(a1, "ta2", labnet.BlockOpt{Txs: []*types.Tx{labnet.Pay([]labnet.Out{P.Reward[7]}, labnet.Prog(0x33))}})
	a3 := w.AddBlock(a2, "ta3", labnet.BlockOpt{Txs: []*types.Tx{labnet.Pay([]labnet.Out{{Tx: tv, Idx: 0}}, labnet.Prog(0x34))}})
	tu := labnet.Pay([]labnet.Out{P.U[0]}, labnet.Prog(0x36))
	b1 := w.AddBlock(0, "tb1", labnet.BlockOpt{Tag: 1, Txs: []*types.Tx{tu}})
	b2 := w.AddBlock(b1, "tb2", labnet.BlockOpt{Tag: 1, Txs: []*types.Tx{labnet.Pay([]labnet.Out{{Tx: tu, Idx: 0}}, labnet.Prog(0x38))}})
	b3 := w.AddBlock(b2, "tb3", labnet.BlockOpt{Tag: 1})
	b4 := w.AddBlock(b3, "tb4", labnet.BlockOpt{Tag: 1})
	w.AddBlockEvents()
	B := map[int]int{}
	for i, e := range w.Events {
		B[e.Block] = i
	}
	add := func(n string, h ...int) {
		hists = append(hists, h)
		names = append(names, n)
		worlds = append(worlds, w)
	}
	add("tx-linear", B[a1], B[a2], B[a3])
	add("tx-reorg-detaches-vote-veto-coinbase-spend", B[a1], B[a2], B[a3], B[b1], B[b2], B[b3], B[b4])
	if thorough {
		add("tx-reorg-interleaved", B[a1], B[b1], B[a2], B[b2], B[b3], B[a3], B[b4])
		add("tx-orphans", B[b2], B[a2], B[a1], B[b1], B[b3], B[a3], B[b4])
	}
}

type obs struct {
	Best, Main, Ledger, Final, Just string
}

func observe(nd *labnet.Node, db *crashkv.DB) obs {
	var o obs
	best := nd.Chain.BestBlockHeader()
	o.Best = W.Name(best.Hash())
	for h := uint64(0); h <= best.Height; h++ {
		hd, err := nd.Chain.GetHeaderByHeight(h)
		if err != nil {
			o.Main += "ERR "
			continue
		}
		o.Main += W.Name(hd.Hash()) + " "
	}
	in := &chainlab.Inst{W: W, DB: db, Node: nd}
	o.Ledger = strings.Join(in.LedgerDump(), ";")
	if f, err := nd.Chain.LastFinalizedHeader(); err == nil {
		o.Final = W.Name(f.Hash())
	} else {
		o.Final = "ERR:" + err.Error()
	}
	if j, err := nd.Chain.LastJustifiedHeader(); err == nil {
		o.Just = W.Name(j.Hash())
	} else {
		o.Just = "ERR:" + err.Error()
	}
	return o
}

func (o obs) chain() string { return o.Best + "|" + o.Main + "|" + o.Ledger }

// runCase: h = [history index]; the worker enumerates all crash points of that history.
func runCase(h []int, _ json.RawMessage) (out xplore.Out) {
	hi := h[0]
	hist := hists[hi]
	W = worlds[hi]
	if kinds[hi] != curKind {
		activate(kinds[hi])
	}
	viol := func(key, what string) {
		out.Viols = append(out.Viols, xplore.Viol{Key: key, What: fmt.Sprintf("history %s %v: %s", names[hi], W.Describe(hist), what)})
	}
	// crash-free run with write log
	in, err := W.NewInst()
	if err != nil {
		return xplore.Out{Viols: []xplore.Viol{{Key: "infra-newnode", What: err.Error()}}}
	}
	in.DB.ResetLog() // the log starts after genesis initialisation (crash during first start: see crash point 0 of a second log below)
	states := []obs{observe(in.Node, in.DB)}
	bounds := []int{0}
	storedBefore := map[int]bool{0: true}
	storesEpochBlock = []bool{false}
	for _, ei := range hist {
		in.Apply(ei)
		if in.Hung {
			viol("call-did-not-return", W.Events[ei].String())
			out.Fatal = true
			return
		}
		states = append(states, observe(in.Node, in.DB))
		bounds = append(bounds, in.DB.LogLen())
		// epoch blocks this event stored (its own block or orphans it connected)
		epoch := false
		for i := range W.Blocks {
			if in.Stored(i) && !storedBefore[i] {
				storedBefore[i] = true
				if i > 0 && W.Blocks[i].Height%W.Net.E == 0 {
					epoch = true
				}
			}
		}
		storesEpochBlock = append(storesEpochBlock, epoch)
	}
	final := states[len(states)-1]
	total := in.DB.LogLen()
	okChains := map[string]int{}
	for k, s := range states {
		okChains[s.chain()] = k
	}
	finalRank := map[string]int{}
	for k, s := range states {
		if _, ok := finalRank[s.Final]; !ok {
			finalRank[s.Final] = k
		}
	}
	mid := 0
	for i := 0; i <= total; i++ {
		// which event was in progress
		evK := 0
		for k := 1; k < len(bounds); k++ {
			if i > bounds[k-1] {
				evK = k
			}
		}
		atBoundary := false
		for _, b := range bounds {
			if i == b {
				atBoundary = true
			}
		}
		if !atBoundary {
			mid++
		}
		where := fmt.Sprintf("crash after write %d/%d (during event %d %s)", i, total, evK, evName(hist, evK))
		kind := kindOf(hist, evK)
		if evK > 0 && !atBoundary {
			kind += fmt.Sprintf(":after-its-write-%d", i-bounds[evK-1])
		}
		db := in.DB.Prefix(i)
		var nd *labnet.Node
		var rerr error
		panicked := func() (p interface{}) {
			defer func() { p = recover() }()
			nd, rerr = labnet.NewNode(db)
			return nil
		}()
		out.Checks++
		out.Steps++
		if panicked != nil {
			viol("restart-panics:"+kind, fmt.Sprintf("%s: %v", where, panicked))
			continue
		}
		if rerr != nil {
			viol("restart-fails:"+kind, fmt.Sprintf("%s: %v", where, rerr))
			continue
		}
		o := observe(nd, db)
		if _, ok := okChains[o.chain()]; !ok && !matchesStoredBlocks(db, hist, o) {
			viol("restarted-state-never-passed-through:"+kind, fmt.Sprintf("%s: best=%s main=%s is not the chain state after any event prefix", where, o.Best, o.Main))
		}
		if _, ok := finalRank[o.Final]; !ok {
			viol("restarted-finalized-unknown:"+kind, fmt.Sprintf("%s: last finalized %s", where, o.Final))
		} else if evK > 0 && finalRank[o.Final] < finalRank[states[evK-1].Final] {
			viol("restart-loses-finality:"+kind, fmt.Sprintf("%s: last finalized %s, before the event it was %s", where, o.Final, states[evK-1].Final))
		}
		// re-deliver everything
		in2 := &chainlab.Inst{W: W, DB: db, Node: nd, Delivered: map[int]bool{0: true}}
		for _, ei := range hist {
			in2.Apply(ei)
			if in2.Hung {
				viol("call-did-not-return-after-restart", where)
				out.Fatal = true
				return
			}
		}
		// blocks first then votes once more (votes delivered before their blocks were cached and lost)
		for _, ei := range hist {
			if W.Events[ei].Kind == chainlab.EvVote {
				in2.Apply(ei)
			}
		}
		o2 := observe(in2.Node, db)
		if o2.chain() != final.chain() {
			viol("redelivery-does-not-converge-chain:"+kind, fmt.Sprintf("%s: after re-delivery best=%s main=%s, crash-free best=%s main=%s", where, o2.Best, o2.Main, final.Best, final.Main))
		} else if o2.Final != final.Final || o2.Just != final.Just {
			viol("redelivery-does-not-converge-finality:"+kind, fmt.Sprintf("%s: after re-delivery justified=%s finalized=%s, crash-free justified=%s finalized=%s", where, o2.Just, o2.Final, final.Just, final.Final))
		}
		db.Wipe()
	}
	out.Digest = fmt.Sprintf("h%d", hi)
	out.Outcome = fmt.Sprintf("best=%s final=%s", final.Best, final.Final)
	out.Enabled = []int{total + 1, mid} // reuse: [crash points, mid-event crash points]
	return
}

// matchesStoredBlocks: the restarted chain state equals that of a crash-free node that was fed the world
// blocks present in the surviving store up to some height (in height order), without or with the history's votes.
func matchesStoredBlocks(db *crashkv.DB, hist []int, o obs) bool {
	probe := &chainlab.Inst{W: W, DB: db}
	nd, err := labnet.NewNode(db.Clone())
	if err != nil {
		return false
	}
	probe.Node = nd
	var stored []int
	for i := 1; i < len(W.Blocks); i++ {
		if probe.Stored(i) {
			stored = append(stored, i)
		}
	}
	for _, withVotes := range []bool{false, true} {
		for maxH := W.Blocks[0].Height + 1; maxH < W.Blocks[0].Height+16; maxH++ {
			in, err := W.NewInst()
			if err != nil {
				return false
			}
			for ht := W.Blocks[0].Height + 1; ht <= maxH; ht++ {
				for _, bi := range stored {
					if W.Blocks[bi].Height != ht {
						continue
					}
					// deliver through the history's own event for that block (it may carry links)
					for _, ei := range hist {
						e := W.Events[ei]
						if (e.Kind == chainlab.EvBlock || e.Kind == chainlab.EvBlockSL) && e.Block == bi {
							if e.Kind == chainlab.EvBlockSL && !withVotes {
								for pj, pe := range W.Events {
									if pe.Kind == chainlab.EvBlock && pe.Block == bi {
										ei = pj
									}
								}
							}
							in.Apply(ei)
							break
						}
					}
				}
			}
			if withVotes {
				for _, ei := range hist {
					if W.Events[ei].Kind == chainlab.EvVote {
						in.Apply(ei)
					}
				}
			}
			if !in.Hung && observe(in.Node, in.DB).chain() == o.chain() {
				return true
			}
		}
	}
	return false
}

func evName(hist []int, k int) string {
	if k == 0 {
		return "-"
	}
	return W.Events[hist[k-1]].String()
}

func kindOf(hist []int, k int) string {
	if k == 0 {
		return "start"
	}
	switch W.Events[hist[k-1]].Kind {
	case chainlab.EvVote:
		return "vote"
	case chainlab.EvBlockSL:
		return "block-with-links"
	}
	if curKind == 2 && k < len(storesEpochBlock) && storesEpochBlock[k] {
		// the node is the only validator: while it processes this block its own vote justifies the block's checkpoint
		return "block-justified-by-own-vote"
	}
	return "block"
}

func main() {
	thorough := os.Getenv("VERIF_TIER") == "thorough"
	for _, a := range os.Args[1:] {
		if a == "thorough" {
			thorough = true
		}
	}
	world(thorough)
	spec := &xplore.Spec{Name: "c19", Run: runCase, Recycle: 8, Describe: func(h []int) interface{} {
		return map[string]interface{}{"history": names[h[0]], "events": worlds[h[0]].Describe(hists[h[0]])}
	}}
	if par.IsWorker() {
		xplore.Worker(spec)
	}
	run := ev.Start("C19", "fault_enumeration")
	if txWorldErr != nil {
		run.Capped(fmt.Sprintf("histories with transactions: could not be set up: %v", txWorldErr))
	}
	var items [][]int
	for i := range hists {
		items = append(items, []int{i})
	}
	// crash points are counted by the workers: collect through a second pass over outcomes
	pool := par.NewPool(0, 1)
	reqs := make([]interface{}, len(items))
	_ = pool
	_ = reqs
	st := xplore.Flat(run, spec, items)
	run.Set("evaluations", st.Checks)
	run.Set("distinct_nontrivial", st.Checks-len(items)*0-boundaryCount())
	run.Set("crash_points", st.Checks)
	run.Set("histories", len(items))
	run.Set("rule", "for each history every prefix of the ordered log of atomic store writes (Set/Delete/batch) is a crash point; the real node is restarted on the surviving store, its chain state must equal the crash-free state after some event prefix, finality must not regress, and re-delivering all events must converge to the crash-free final state; non-trivial = crash points strictly inside an event's writes")
	run.Assume("a crash preserves a prefix of the write log (LevelDB batches are atomic and the WAL is ordered); torn single writes are not modelled")
	run.Finish()
}

// boundaryCount: crash points that coincide with event boundaries (trivial ones).
func boundaryCount() int {
	n := 0
	for _, h := range hists {
		n += len(h) + 1
	}
	return n
}
