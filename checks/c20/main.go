// C20: storage backends are interchangeable.
//
// Part 1 (histories): explicit-state search over every operation sequence up to a depth
// over a small key/value alphabet, executed side by side on the repository's MemDB and
// GoLevelDB and on verif/lib/crashkv (plain ordered map, third voter). States are
// de-duplicated on the sorted content read back from the three stores; from every state
// EVERY operation of the alphabet is executed and its result compared.
//
// Part 2 (configurations): a real node (Chain + Store) is started on a store obtained
// exactly as node/node.go obtains it (dbm.NewDB(name, "memdb"|"leveldb", dir)), fed the
// same 14-block chain, restarted on the same store, and the two transcripts are compared.
package main

import (
	"bytes"
	"encoding/json"
	"fmt"
	"os"
	"os/signal"
	"runtime"
	"sort"
	"strings"
	"sync"
	"syscall"

	dbm "github.com/bytom/bytom/database/leveldb"

	"verif/lib/crashkv"
	"verif/lib/ev"
	"verif/lib/labnet"
	"verif/lib/par"
)

// ---------------------------------------------------------------- alphabet

// DESIGN.md's key set; the sequence search uses 5 (quick) / 6 (thorough) of them, the
// content sweep 6 / all 7 (see NOTES.md for the cost that forces this).
var allKeys = [][]byte{[]byte(""), []byte("a"), []byte("ab"), []byte("abc"), []byte("b"), []byte("b\x00"), []byte("\xff")}
var sixKeys = [][]byte{[]byte(""), []byte("a"), []byte("ab"), []byte("b"), []byte("b\x00"), []byte("\xff")}
var quickKeys = [][]byte{[]byte(""), []byte("a"), []byte("ab"), []byte("b\x00"), []byte("\xff")}
var keys [][]byte
var allVals = [][]byte{nil, {}, []byte("x"), []byte("y")}
var quickVals = [][]byte{nil, {}, []byte("x")}
var vals [][]byte

// Alphabet of the RETAINED-RESULT sweep (part 1c): what matters here is the SHAPE of neighbouring
// values (equal length with different bytes, shrinking, growing, empty in between), because a buffer
// that is refilled in place only shows when the next value fits into it and differs from the kept
// one. keys[0] must stay "" and vals[0] nil (the oracle's classification relies on it).
var holdKeysQuick = [][]byte{[]byte(""), []byte("a"), []byte("ab"), []byte("b")}
var holdKeysThorough = quickKeys
var holdValsQuick = [][]byte{nil, {}, []byte("x"), []byte("y"), []byte("yx")}
var holdValsThorough = [][]byte{nil, {}, []byte("x"), []byte("y"), []byte("yx"), []byte("xyz")}

const (
	opGet = iota
	opSet
	opDelete
	opBatch
	opIterPrefix
	opIterStart
	// opBatchReuse: a batch object written TWICE: Batch{W[0]}.Write(); W[1] applied directly; the same batch written
	// again (goleveldb and memdb both keep a written batch's operations: the second Write replays them)
	opBatchReuse
)

type wr struct {
	Del bool
	K   int
	V   int
}

type op struct {
	Kind int
	K, V int  // get/set/delete
	W    []wr // batch
	P, S int  // iterators: prefix index, start index (-1 = nil start)
}

func qb(b []byte) string {
	if b == nil {
		return "nil"
	}
	return fmt.Sprintf("%q", string(b))
}

func (w wr) String() string {
	if w.Del {
		return fmt.Sprintf("Delete(%s)", qb(keys[w.K]))
	}
	return fmt.Sprintf("Set(%s,%s)", qb(keys[w.K]), qb(vals[w.V]))
}

func (o op) String() string {
	switch o.Kind {
	case opGet:
		return fmt.Sprintf("Get(%s)", qb(keys[o.K]))
	case opSet:
		return fmt.Sprintf("Set(%s,%s)", qb(keys[o.K]), qb(vals[o.V]))
	case opDelete:
		return fmt.Sprintf("Delete(%s)", qb(keys[o.K]))
	case opBatch:
		var s []string
		for _, w := range o.W {
			s = append(s, w.String())
		}
		return "Batch{" + strings.Join(s, "; ") + "}.Write()"
	case opIterPrefix:
		return fmt.Sprintf("IteratorPrefix(%s)", qb(keys[o.P]))
	case opBatchReuse:
		return "b:=Batch{" + o.W[0].String() + "}; b.Write(); " + o.W[1].String() + " (direct); b.Write()"
	default:
		var st []byte
		if o.S >= 0 {
			st = keys[o.S]
		}
		return fmt.Sprintf("IteratorPrefixWithStart(%s,%s,false)", qb(keys[o.P]), qb(st))
	}
}

func (o op) mutating() bool {
	return o.Kind == opSet || o.Kind == opDelete || o.Kind == opBatch || o.Kind == opBatchReuse
}

func (o op) kindName() string {
	return [...]string{"get", "set", "delete", "batch", "iterprefix", "iterstart", "batch-written-twice"}[o.Kind]
}

func buildOps() []op {
	var ops []op
	for k := range keys {
		ops = append(ops, op{Kind: opGet, K: k})
	}
	var singles []wr
	for k := range keys {
		for v := range vals {
			ops = append(ops, op{Kind: opSet, K: k, V: v})
			singles = append(singles, wr{K: k, V: v})
		}
	}
	for k := range keys {
		ops = append(ops, op{Kind: opDelete, K: k})
		singles = append(singles, wr{Del: true, K: k})
	}
	ops = append(ops, op{Kind: opBatch}) // empty batch
	for _, a := range singles {
		ops = append(ops, op{Kind: opBatch, W: []wr{a}})
	}
	for _, a := range singles {
		for _, b := range singles {
			ops = append(ops, op{Kind: opBatch, W: []wr{a, b}})
		}
	}
	for _, a := range singles {
		for _, x := range singles {
			if x.K == a.K && x != a {
				ops = append(ops, op{Kind: opBatchReuse, W: []wr{a, x}})
			}
		}
	}
	for p := range keys {
		ops = append(ops, op{Kind: opIterPrefix, P: p})
	}
	for p := range keys {
		for s := -1; s < len(keys); s++ {
			ops = append(ops, op{Kind: opIterStart, P: p, S: s})
		}
	}
	return ops
}

// ---------------------------------------------------------------- the three stores

// A triple is MemDB, GoLevelDB and the crashkv reference receiving the same operations.
type triple struct {
	tag   string
	dir   string
	mem   dbm.DB
	ldb   dbm.DB
	model *crashkv.DB
	// intended content (what the harness wrote): value index per key, -1 absent
	cur    []int8
	writes int
	age    int
	buf    []byte
}

func newTriple(tag string) *triple {
	t := &triple{tag: tag}
	t.open()
	return t
}

func (t *triple) open() {
	dir, err := os.MkdirTemp(baseDir, t.tag+"-")
	if err != nil {
		ev.Fatal("temp dir: %v", err)
	}
	t.dir = dir
	// the same constructor and backend names node/node.go uses
	t.mem = dbm.NewDB("c20", dbm.MemDBBackendStr, dir)
	t.ldb = dbm.NewDB("c20", dbm.LevelDBBackendStr, dir)
	t.model = crashkv.New()
	t.cur = make([]int8, len(keys))
	for i := range t.cur {
		t.cur[i] = -1
	}
	t.writes, t.age = 0, 0
}

func (t *triple) close() {
	t.ldb.Close()
	os.RemoveAll(t.dir)
}

// recycle replaces all three stores by brand-new empty ones.
func (t *triple) recycle() {
	t.close()
	t.open()
}

type result struct {
	Val     []byte
	Nil     bool
	PreKey  []byte
	PreVal  []byte
	Pairs   [][2][]byte
	Overrun bool
	// Unstable: slices handed out by Key()/Value() whose bytes changed afterwards (class, description);
	// Pairs / PreKey / PreVal hold what the iterator said AT THE TIME (copied on the spot)
	Unstable [][2]string
}

const maxPairs = 40

func clone(b []byte) []byte {
	if b == nil {
		return nil
	}
	return append([]byte{}, b...)
}

// drain walks an iterator the way a caller that collects the pairs into a list does: every slice
// handed out by Key() / Value() (before the first Next and at every position) is KEPT, next to a
// copy taken on the spot. The kept slices are looked at again when the Next loop has ended and once
// more after Release: a backend whose iterator hands out a buffer it refills on the next step shows
// a different pair list to such a caller than one that hands out a slice of its own.
func drain(it dbm.Iterator) (r result) {
	type held struct {
		what       string
		said, kept []byte
	}
	var hs []held
	hold := func(what string, b []byte) []byte {
		c := clone(b)
		hs = append(hs, held{what, c, b})
		return c
	}
	r.PreVal = hold("value", it.Value())
	r.PreKey = hold("key", it.Key())
	for it.Next() {
		if len(r.Pairs) >= maxPairs {
			r.Overrun = true
			break
		}
		k := hold("key", it.Key())
		v := hold("value", it.Value())
		r.Pairs = append(r.Pairs, [2][]byte{k, v})
	}
	check := func(when string) {
		for i, h := range hs {
			if !bytes.Equal(h.said, h.kept) {
				pos := "before the first Next"
				if i >= 2 {
					pos = fmt.Sprintf("at position %d", (i-2)/2+1)
				}
				r.Unstable = append(r.Unstable, [2]string{h.what + "-changes-after-" + when, fmt.Sprintf("the slice returned by %s %s read %s when it was returned and reads %s after %s", map[string]string{"key": "Key()", "value": "Value()"}[h.what], pos, qb(h.said), qb(h.kept), map[string]string{"next": "the iteration has moved on (Next)", "release": "Release"}[when])})
				hs[i].said = clone(h.kept) // report a later change separately
			}
		}
	}
	check("next")
	it.Release()
	check("release")
	return
}

func exec(db dbm.DB, o *op) (r result) {
	switch o.Kind {
	case opGet:
		v := db.Get(keys[o.K])
		r.Val, r.Nil = v, v == nil
	case opSet:
		db.Set(keys[o.K], vals[o.V])
	case opDelete:
		db.Delete(keys[o.K])
	case opBatch:
		b := db.NewBatch()
		for _, w := range o.W {
			if w.Del {
				b.Delete(keys[w.K])
			} else {
				b.Set(keys[w.K], vals[w.V])
			}
		}
		b.Write()
	case opBatchReuse:
		b := db.NewBatch()
		direct := func(w wr) {
			if w.Del {
				db.Delete(keys[w.K])
			} else {
				db.Set(keys[w.K], vals[w.V])
			}
		}
		if o.W[0].Del {
			b.Delete(keys[o.W[0].K])
		} else {
			b.Set(keys[o.W[0].K], vals[o.W[0].V])
		}
		b.Write()
		direct(o.W[1])
		b.Write()
	case opIterPrefix:
		r = drain(db.IteratorPrefix(keys[o.P]))
	case opIterStart:
		var st []byte
		if o.S >= 0 {
			st = keys[o.S]
		}
		r = drain(db.IteratorPrefixWithStart(keys[o.P], st, false))
	}
	return
}

func (t *triple) execAll(o *op) (rm, rl, rc result) {
	rm, rl, rc = exec(t.mem, o), exec(t.ldb, o), exec(t.model, o)
	if o.mutating() {
		applyModel(t.cur, o)
		t.writes += 1 + len(o.W)
		if t.writes > 4096 {
			t.model.ResetLog()
			t.writes = 0
		}
	}
	return
}

func applyModel(cur []int8, o *op) {
	switch o.Kind {
	case opSet:
		cur[o.K] = int8(o.V)
	case opDelete:
		cur[o.K] = -1
	case opBatch:
		for _, w := range o.W {
			if w.Del {
				cur[w.K] = -1
			} else {
				cur[w.K] = int8(w.V)
			}
		}
	case opBatchReuse:
		// W[0], W[1], W[0] again: both touch the same key, the replayed batch operation wins
		if w := o.W[0]; w.Del {
			cur[w.K] = -1
		} else {
			cur[w.K] = int8(w.V)
		}
	}
}

const hexd = "0123456789abcdef"

func appendEntry(buf, k, v []byte, isNil bool) []byte {
	for _, c := range k {
		buf = append(buf, hexd[c>>4], hexd[c&15])
	}
	buf = append(buf, '=')
	if isNil {
		buf = append(buf, "nil"...)
	}
	for _, c := range v {
		buf = append(buf, hexd[c>>4], hexd[c&15])
	}
	return append(buf, ';')
}

// content reads every store back through a path that is as direct as the API allows:
// MemDB through its full iterator (presence) + Get (nil-ness); GoLevelDB through the RAW
// goleveldb handle (not the wrapper under test): a full raw iteration when full is set,
// otherwise raw point reads of every alphabet key; crashkv through Keys + Get.
// All three are rendered "hexkey=hexvalue;" in key order.
func (t *triple) content(full bool) (mem, ldb, model string) {
	buf := t.buf[:0]
	it := t.mem.Iterator()
	n := 0
	for it.Next() && n < maxPairs {
		k := it.Key()
		v := t.mem.Get(k)
		buf = appendEntry(buf, k, v, v == nil)
		n++
	}
	it.Release()
	mem = string(buf)
	buf = buf[:0]
	raw := t.ldb.(*dbm.GoLevelDB).DB()
	if full {
		ri := raw.NewIterator(nil, nil)
		for ri.Next() {
			buf = appendEntry(buf, ri.Key(), ri.Value(), false)
		}
		ri.Release()
	} else {
		for _, k := range keys {
			if v, err := raw.Get(k, nil); err == nil {
				buf = appendEntry(buf, k, v, false)
			}
		}
	}
	ldb = string(buf)
	buf = buf[:0]
	for _, k := range t.model.Keys(nil) {
		buf = appendEntry(buf, k, t.model.Get(k), false)
	}
	model = string(buf)
	t.buf = buf
	return
}

func stripNil(s string) string {
	if !strings.Contains(s, "=nil;") {
		return s
	}
	return strings.ReplaceAll(s, "=nil;", "=;")
}

// moveTo brings all three stores to the intended content want using plain Set/Delete.
func (t *triple) moveTo(want []int8) {
	var b dbm.Batch
	for k := range keys {
		if t.cur[k] == want[k] {
			continue
		}
		if b == nil {
			b = t.ldb.NewBatch()
		}
		if want[k] < 0 {
			t.mem.Delete(keys[k])
			t.model.Delete(keys[k])
			b.Delete(keys[k])
		} else {
			t.mem.Set(keys[k], vals[want[k]])
			t.model.Set(keys[k], vals[want[k]])
			b.Set(keys[k], vals[want[k]])
		}
		t.cur[k] = want[k]
		t.writes++
	}
	if b != nil {
		b.Write()
	}
}

// rewrite forces every key to be written again (after the stores were seen to diverge).
func (t *triple) rewrite(want []int8) {
	for k := range t.cur {
		t.cur[k] = -2
	}
	t.moveTo(want)
}

// ---------------------------------------------------------------- oracle

type finding struct {
	Key  string
	What string
}

func eqPairs(a, b [][2][]byte) bool {
	if len(a) != len(b) {
		return false
	}
	for i := range a {
		if !bytes.Equal(a[i][0], b[i][0]) || !bytes.Equal(a[i][1], b[i][1]) {
			return false
		}
	}
	return true
}

func showPairs(p [][2][]byte) string {
	var s []string
	for _, e := range p {
		s = append(s, fmt.Sprintf("%q=%q", e[0], e[1]))
	}
	return "[" + strings.Join(s, " ") + "]"
}

// who names the odd one out among memdb / goleveldb given the third voter.
func who(memEqModel, ldbEqModel bool) string {
	switch {
	case ldbEqModel && !memEqModel:
		return "memdb"
	case memEqModel && !ldbEqModel:
		return "goleveldb"
	default:
		return "backends"
	}
}

// visit is the reference description of a start-bounded forward iteration over the intended
// content: pos = index of the key the iterator sits on before the first Next (-1: none),
// rest = indices of the keys the Next loop yields. With usePrefix=false it describes an
// implementation that does not look at the prefix argument at all.
func visit(cur []int8, prefix, start []byte, usePrefix bool) (pos int, rest []int) {
	var ks []int
	for k := range keys { // keys are listed in byte order
		if cur[k] < 0 || (usePrefix && !bytes.HasPrefix(keys[k], prefix)) {
			continue
		}
		if start == nil || bytes.Compare(keys[k], start) >= 0 {
			ks = append(ks, k)
		}
	}
	if start != nil && len(ks) > 0 {
		return ks[0], ks[1:]
	}
	return -1, ks
}

func sameVisit(p1 int, r1 []int, p2 int, r2 []int) bool {
	if p1 != p2 || len(r1) != len(r2) {
		return false
	}
	for i := range r1 {
		if r1[i] != r2[i] {
			return false
		}
	}
	return true
}

// matchesVisit: does the drained result r show exactly this visit (keys, and the value under the position)?
func matchesVisit(r result, cur []int8, pos int, rest []int) bool {
	if pos >= 0 && (!bytes.Equal(r.PreKey, keys[pos]) || !bytes.Equal(r.PreVal, vals[cur[pos]])) {
		return false
	}
	if pos < 0 && len(r.PreKey) != 0 {
		return false
	}
	if len(r.Pairs) != len(rest) {
		return false
	}
	for i, k := range rest {
		if !bytes.Equal(r.Pairs[i][0], keys[k]) {
			return false
		}
	}
	return true
}

const (
	keyPrefixBlind  = "memdb-iterstart-ignores-prefix"
	keyUnpositioned = "memdb-unpositioned-iterator-value-reads-empty-key"
	keyAmbiguous    = "memdb-iterstart-on-empty-key-or-unpositioned"
)

// resolveAmbiguous attributes observations that both mechanisms explain: to the prefix-blind
// iteration if that is evidenced on its own (then they add nothing), otherwise to the
// unpositioned Value().
func resolveAmbiguous(found map[string]*witness, count map[string]int, prefixBlindSeen bool) {
	w, ok := found[keyAmbiguous]
	if !ok {
		return
	}
	n := count[keyAmbiguous]
	delete(found, keyAmbiguous)
	delete(count, keyAmbiguous)
	if _, now := found[keyPrefixBlind]; now || prefixBlindSeen {
		count[keyPrefixBlind] += n
		return
	}
	if old, ok := found[keyUnpositioned]; !ok || less(w, old) {
		found[keyUnpositioned] = w
	}
	count[keyUnpositioned] += n
}

func confirms(f finding, k string) bool {
	return f.Key == k || (f.Key == keyAmbiguous && (k == keyUnpositioned || k == keyPrefixBlind))
}

// compare applies the oracle to one read operation; cur is the intended content before it.
func compare(o *op, cur []int8, rm, rl, rc result) (fs []finding) {
	add := func(key, format string, a ...interface{}) {
		fs = append(fs, finding{key, fmt.Sprintf(format, a...)})
	}
	switch o.Kind {
	case opGet:
		if !bytes.Equal(rm.Val, rl.Val) {
			add(who(bytes.Equal(rm.Val, rc.Val), bytes.Equal(rl.Val, rc.Val))+"-get-value-differs", "%v: MemDB %s, GoLevelDB %s, model %s", o, qb(rm.Val), qb(rl.Val), qb(rc.Val))
		} else if rm.Nil != rl.Nil {
			w := who(rm.Nil == rc.Nil, rl.Nil == rc.Nil)
			if w == "memdb" && rm.Nil && cur[o.K] == 0 {
				add("memdb-get-nil-for-key-set-to-nil-value", "%v after Set(key, nil): MemDB returns nil (callers read == nil as 'absent'), GoLevelDB returns %s", o, qb(rl.Val))
			} else {
				add(w+"-get-nilness-differs", "%v: MemDB nil=%v, GoLevelDB nil=%v, model nil=%v", o, rm.Nil, rl.Nil, rc.Nil)
			}
		} else if !bytes.Equal(rm.Val, rc.Val) || rm.Nil != rc.Nil {
			add("third-voter-get-differs", "%v: both backends %s, crashkv %s", o, qb(rm.Val), qb(rc.Val))
		}
	case opIterPrefix, opIterStart:
		name := o.kindName()
		// a retained Key()/Value() slice must keep reading what it read when it was handed out
		for _, x := range []struct {
			who string
			r   *result
		}{{"memdb", &rm}, {"goleveldb", &rl}, {"third-voter", &rc}} {
			seen := map[string]bool{}
			for _, u := range x.r.Unstable {
				if !seen[u[0]] {
					seen[u[0]] = true
					add(x.who+"-iterator-"+u[0], "%v on %s: %s (iterated pairs as said at the time: %s)", o, x.who, u[1], showPairs(x.r.Pairs))
				}
			}
		}
		if rm.Overrun || rl.Overrun {
			add(name+"-does-not-terminate", "%v: more than %d pairs (MemDB overrun=%v, GoLevelDB overrun=%v)", o, maxPairs, rm.Overrun, rl.Overrun)
			return
		}
		if o.Kind == opIterStart {
			var st []byte
			if o.S >= 0 {
				st = keys[o.S]
			}
			bp, br := visit(cur, keys[o.P], st, false)
			gp, gr := visit(cur, keys[o.P], st, true)
			differ := !bytes.Equal(rm.PreKey, rl.PreKey) || !bytes.Equal(rm.PreVal, rl.PreVal) || !eqPairs(rm.Pairs, rl.Pairs)
			explained := differ && !sameVisit(bp, br, gp, gr) && matchesVisit(rm, cur, bp, br) && matchesVisit(rl, cur, gp, gr)
			if explained && gp < 0 && bp >= 0 && len(keys[bp]) == 0 && sameVisit(-1, br, -1, gr) {
				// "sits on the empty key" (prefix not applied) and "sits nowhere and Value() reads the empty key"
				// look the same from outside; resolved when the level is reported (see resolveAmbiguous)
				add(keyAmbiguous, "%v: Key() %s / Value() %s before the first Next on MemDB, %s / %s on GoLevelDB", o, qb(rm.PreKey), qb(rm.PreVal), qb(rl.PreKey), qb(rl.PreVal))
				return
			}
			if explained {
				add(keyPrefixBlind, "%v: MemDB visits every key >= start whatever the prefix: positioned on %s then %s; GoLevelDB positioned on %s then %s", o, qb(rm.PreKey), showPairs(rm.Pairs), qb(rl.PreKey), showPairs(rl.Pairs))
				return
			}
		}
		if !eqPairs(rm.Pairs, rl.Pairs) {
			add(who(eqPairs(rm.Pairs, rc.Pairs), eqPairs(rl.Pairs, rc.Pairs))+"-"+name+"-pairs-differ", "%v: MemDB %s, GoLevelDB %s, model %s", o, showPairs(rm.Pairs), showPairs(rl.Pairs), showPairs(rc.Pairs))
		} else if !eqPairs(rm.Pairs, rc.Pairs) {
			add("third-voter-"+name+"-pairs-differ", "%v: both backends %s, crashkv %s", o, showPairs(rm.Pairs), showPairs(rc.Pairs))
		}
		if !bytes.Equal(rm.PreKey, rl.PreKey) {
			add(who(bytes.Equal(rm.PreKey, rc.PreKey), bytes.Equal(rl.PreKey, rc.PreKey))+"-"+name+"-key-before-next-differs", "%v: Key() before the first Next: MemDB %s, GoLevelDB %s, model %s", o, qb(rm.PreKey), qb(rl.PreKey), qb(rc.PreKey))
		} else if !bytes.Equal(rm.PreKey, rc.PreKey) {
			add("third-voter-"+name+"-key-before-next-differs", "%v: both backends %s, crashkv %s", o, qb(rm.PreKey), qb(rc.PreKey))
		}
		if !bytes.Equal(rm.PreVal, rl.PreVal) {
			w := who(bytes.Equal(rm.PreVal, rc.PreVal), bytes.Equal(rl.PreVal, rc.PreVal))
			if w == "memdb" && len(rm.PreKey) == 0 && len(rl.PreKey) == 0 && len(rl.PreVal) == 0 && cur[0] >= 0 && bytes.Equal(rm.PreVal, vals[cur[0]]) {
				add(keyUnpositioned, "%v: Value() of an iterator that is not positioned on any entry: MemDB returns the value stored under the empty key, %s; GoLevelDB returns %s", o, qb(rm.PreVal), qb(rl.PreVal))
			} else {
				add(w+"-"+name+"-value-before-next-differs", "%v: Value() before the first Next: MemDB %s, GoLevelDB %s, model %s", o, qb(rm.PreVal), qb(rl.PreVal), qb(rc.PreVal))
			}
		} else if !bytes.Equal(rm.PreVal, rc.PreVal) {
			add("third-voter-"+name+"-value-before-next-differs", "%v: both backends %s, crashkv %s", o, qb(rm.PreVal), qb(rc.PreVal))
		}
	}
	return
}

// outcomeOf names the class of a read operation's reference result (vacuity histogram).
func outcomeOf(o *op, rc result) string {
	switch o.Kind {
	case opGet:
		switch {
		case rc.Nil:
			return "get-absent"
		case len(rc.Val) == 0:
			return "get-empty-value"
		}
		return "get-value"
	case opIterPrefix:
		if len(rc.Pairs) == 0 {
			return "iterprefix-nothing"
		}
		return "iterprefix-yields-pairs"
	default:
		switch {
		case len(rc.PreKey) > 0 || (o.S == 0 && len(rc.PreVal) > 0):
			if len(rc.Pairs) == 0 {
				return "iterstart-positioned-last"
			}
			return "iterstart-positioned-yields-pairs"
		case len(rc.Pairs) > 0:
			return "iterstart-unpositioned-yields-pairs"
		}
		return "iterstart-nothing"
	}
}

// compareContent applies the oracle to the content after a mutating operation.
func compareContent(o *op, mem, ldb, model string) (fs []finding) {
	m := stripNil(mem)
	if m != ldb {
		fs = append(fs, finding{who(m == model, ldb == model) + "-content-differs-after-" + o.kindName(), fmt.Sprintf("%v: content MemDB {%s} GoLevelDB {%s} model {%s}", o, mem, ldb, model)})
	} else if ldb != model {
		fs = append(fs, finding{"third-voter-content-differs-after-" + o.kindName(), fmt.Sprintf("%v: content of both backends {%s}, crashkv {%s}", o, ldb, model)})
	}
	return
}

// ---------------------------------------------------------------- search

type state struct {
	digest string
	model  []int8 // intended content of the representative history
	parent *state
	via    int // op index from parent
	depth  int
}

func (s *state) history() []int {
	var h []int
	for p := s; p.parent != nil; p = p.parent {
		h = append([]int{p.via}, h...)
	}
	return h
}

type witness struct {
	st   *state
	op   int
	what string
}

func less(a, b *witness) bool {
	if a.st.depth != b.st.depth {
		return a.st.depth < b.st.depth
	}
	if len(a.st.digest) != len(b.st.digest) {
		return len(a.st.digest) < len(b.st.digest)
	}
	if a.st.digest != b.st.digest {
		return a.st.digest < b.st.digest
	}
	return a.op < b.op
}

type succ struct {
	digest string
	model  []int8
	from   *state
	via    int
}

func (x *succ) before(y *succ) bool {
	return x.from.digest < y.from.digest || (x.from.digest == y.from.digest && x.via < y.via)
}

type searchStats struct {
	outcomes                                                                                map[string]int
	states, transitions, comparisons, readOps, writeOps, nonEmptyIter, maxContent, incoming int
	perDepth                                                                                []int
	fixpoint                                                                                bool
}

var ops []op

// replayFresh executes a history on brand-new stores and returns the findings of its last operation.
func replayFresh(h []int) []finding {
	t := newTriple("replay")
	defer t.close()
	var fs []finding
	for i, oi := range h {
		o := &ops[oi]
		before := append([]int8(nil), t.cur...)
		rm, rl, rc := t.execAll(o)
		if i == len(h)-1 {
			if o.mutating() {
				m, l, c := t.content(true)
				fs = compareContent(o, m, l, c)
			} else {
				fs = compare(o, before, rm, rl, rc)
			}
		}
	}
	return fs
}

func describe(h []int) []string {
	var s []string
	for _, oi := range h {
		s = append(s, ops[oi].String())
	}
	return s
}

const recycleEvery = 100 // states per GoLevelDB instance of the read side

// expand executes every operation of the alphabet from state s.
//
// GoLevelDB keeps every overwritten version of a key in its memtable, and iterating skips
// them one by one, so one store cannot take the ~2*|ops| writes of an expansion AND stay
// cheap to iterate. Each worker therefore has two triples:
//   - rd: brought to the PARENT's content by plain writes, then the state's own incoming
//     operation is executed for real, the content is read back by a full raw iteration, and
//     all read operations (Get, both iterators) are executed and compared. Replaced by
//     brand-new stores every recycleEvery states.
//   - wr: brought to the state's content, then every mutating operation is executed, the
//     content read back (raw point reads on GoLevelDB) and compared, and undone by plain writes.
func expand(s *state, rd, wr *triple, note func(s *state, oi int, fs []finding), ls *searchStats, ln map[string]*succ) {
	if rd.age >= recycleEvery {
		rd.recycle()
	}
	rd.age++
	if s.parent != nil {
		rd.moveTo(s.parent.model)
		rd.execAll(&ops[s.via])
		ls.incoming++
	}
	m, l, c := rd.content(true)
	if d := m + "|" + l + "|" + c; d != s.digest {
		note(s, -1, []finding{{"state-differs-when-reached-again", fmt.Sprintf("content when first reached {%s}, when the same last operation is executed again on another store instance {%s}", s.digest, d)}})
		rd.recycle()
		return
	}
	if n := strings.Count(c, ";"); n > ls.maxContent {
		ls.maxContent = n
	}
	for oi := range ops {
		o := &ops[oi]
		if o.mutating() {
			continue
		}
		rm, rl, rc := rd.execAll(o)
		ls.transitions++
		ls.comparisons++
		ls.readOps++
		if len(rc.Pairs) > 0 {
			ls.nonEmptyIter++
		}
		ls.outcomes[outcomeOf(o, rc)]++
		note(s, oi, compare(o, s.model, rm, rl, rc))
	}

	wr.moveTo(s.model)
	m, l, c = wr.content(false)
	if d := m + "|" + l + "|" + c; d != s.digest {
		wr.rewrite(s.model)
		m, l, c = wr.content(false)
		if d = m + "|" + l + "|" + c; d != s.digest {
			note(s, -1, []finding{{"state-not-reproducible-by-plain-writes", fmt.Sprintf("content reached by the history {%s}, by direct Set/Delete of the same content {%s}", s.digest, d)}})
			return
		}
	}
	for oi := range ops {
		o := &ops[oi]
		if !o.mutating() {
			continue
		}
		wr.execAll(o)
		ls.transitions++
		ls.comparisons++
		ls.writeOps++
		m2, l2, c2 := wr.content(false)
		fs := compareContent(o, m2, l2, c2)
		if c2 != c {
			ls.outcomes["write-changes-content"]++
		} else {
			ls.outcomes["write-leaves-content"]++
		}
		if len(fs) > 0 {
			note(s, oi, fs)
		} else if d2 := m2 + "|" + l2 + "|" + c2; d2 != s.digest { // diverged stores are reported, not expanded
			x := &succ{d2, nil, s, oi}
			if old, ok := ln[d2]; !ok || x.before(old) {
				x.model = append([]int8(nil), wr.cur...)
				ln[d2] = x
			}
		}
		wr.moveTo(s.model)
		if len(fs) > 0 {
			// the stores diverged: rewrite every key, and give up on this state if that does not restore it
			wr.rewrite(s.model)
			if m3, l3, c3 := wr.content(false); m3+"|"+l3+"|"+c3 != s.digest {
				return
			}
		}
	}
}

func search(run *ev.Run, maxDepth int) searchStats {
	nw := workers()
	rds := make([]*triple, nw)
	wrs := make([]*triple, nw)
	for i := range rds {
		rds[i] = newTriple(fmt.Sprint("r", i))
		wrs[i] = newTriple(fmt.Sprint("w", i))
	}
	defer func() {
		for i := range rds {
			rds[i].close()
			wrs[i].close()
		}
	}()

	st := searchStats{outcomes: map[string]int{}}
	m0, l0, c0 := rds[0].content(true)
	root := &state{digest: m0 + "|" + l0 + "|" + c0, model: append([]int8(nil), rds[0].cur...)}
	seen := map[string]*state{root.digest: root}
	frontier := []*state{root}
	st.states = 1
	st.perDepth = []int{1}
	reported := map[string]bool{}

	for depth := 0; depth < maxDepth; depth++ {
		if len(frontier) == 0 {
			st.fixpoint = true
			break
		}
		if run.OutOfTime() {
			run.Capped(fmt.Sprintf("time budget reached before expanding depth %d (all shallower depths complete)", depth))
			break
		}
		var mu sync.Mutex
		found := map[string]*witness{}
		foundCount := map[string]int{}
		next := map[string]*succ{}
		var wg sync.WaitGroup
		jobs := make(chan *state, len(frontier))
		for _, s := range frontier {
			jobs <- s
		}
		close(jobs)
		for w := 0; w < nw; w++ {
			wg.Add(1)
			go func(rd, wr *triple) {
				defer wg.Done()
				lf := map[string]*witness{}
				lc := map[string]int{}
				ln := map[string]*succ{}
				ls := searchStats{outcomes: map[string]int{}}
				note := func(s *state, oi int, fs []finding) {
					for _, f := range fs {
						lc[f.Key]++
						w := &witness{s, oi, f.What}
						if old, ok := lf[f.Key]; !ok || less(w, old) {
							lf[f.Key] = w
						}
					}
				}
				for s := range jobs {
					expand(s, rd, wr, note, &ls, ln)
				}
				mu.Lock()
				for k, w := range lf {
					if old, ok := found[k]; !ok || less(w, old) {
						found[k] = w
					}
				}
				for k, n := range lc {
					foundCount[k] += n
				}
				for d, x := range ln {
					if old, ok := next[d]; !ok || x.before(old) {
						next[d] = x
					}
				}
				st.transitions += ls.transitions
				st.comparisons += ls.comparisons
				st.readOps += ls.readOps
				st.writeOps += ls.writeOps
				st.nonEmptyIter += ls.nonEmptyIter
				st.incoming += ls.incoming
				for k, n := range ls.outcomes {
					st.outcomes[k] += n
				}
				if ls.maxContent > st.maxContent {
					st.maxContent = ls.maxContent
				}
				mu.Unlock()
			}(rds[w], wrs[w])
		}
		wg.Wait()

		// report new violation classes of this level in a fixed order, each confirmed on fresh stores
		resolveAmbiguous(found, foundCount, reported[keyPrefixBlind])
		var fk []string
		for k := range found {
			fk = append(fk, k)
		}
		sort.Strings(fk)
		for _, k := range fk {
			run.Add("violating_transitions", foundCount[k])
			if reported[k] {
				continue
			}
			reported[k] = true
			w := found[k]
			h := w.st.history()
			if w.op >= 0 {
				h = append(h, w.op)
			}
			confirmed := false
			for _, f := range replayFresh(h) {
				if confirms(f, k) {
					confirmed = true
				}
			}
			key := k
			if !confirmed && w.op >= 0 {
				key = k + "-only-on-reused-store"
			}
			run.Violation(key, fmt.Sprintf("history %v: %s (reproduced on freshly created stores: %v; %d transitions of this class from states at depth %d)", describe(h), w.what, confirmed, foundCount[k], depth),
				map[string]interface{}{"history": describe(h), "op_indices": h, "what": w.what, "confirmed_on_fresh_stores": confirmed})
		}

		var nd []string
		for d := range next {
			if _, ok := seen[d]; !ok {
				nd = append(nd, d)
			}
		}
		sort.Strings(nd)
		frontier = frontier[:0]
		for _, d := range nd {
			x := next[d]
			s := &state{digest: d, model: x.model, parent: x.from, via: x.via, depth: depth + 1}
			seen[d] = s
			frontier = append(frontier, s)
			st.states++
			if st.states%6007 == 2 || st.states == 40 {
				run.Sample(map[string]interface{}{"history": describe(s.history()), "content": d})
			}
		}
		st.perDepth = append(st.perDepth, len(frontier))
	}
	if len(frontier) == 0 {
		st.fixpoint = true
	}
	return st
}

// ---------------------------------------------------------------- content sweep (read operations only)

// shortHistory builds a shortest history (batches of two Sets) that creates the content model.
func shortHistory(model []int8) []int {
	var ws []wr
	for k, v := range model {
		if v >= 0 {
			ws = append(ws, wr{K: k, V: int(v)})
		}
	}
	var h []int
	for i := 0; i < len(ws); i += 2 {
		want := ws[i : i+1]
		if i+1 < len(ws) {
			want = ws[i : i+2]
		}
		for oi := range ops {
			o := &ops[oi]
			if o.Kind != opBatch || len(o.W) != len(want) {
				continue
			}
			same := true
			for j := range want {
				same = same && o.W[j] == want[j]
			}
			if same {
				h = append(h, oi)
				break
			}
		}
	}
	return h
}

type sweepStats struct {
	outcomes                            map[string]int
	contents, transitions, nonEmptyIter int
	multiIter, held                     int // iterations yielding >= 2 pairs; Key()/Value() slices kept and re-read
}

// sweep creates EVERY content over the current key/value alphabet (plain writes, each content
// differing from the previous one in about one key) and executes every read operation on it.
// It extends the read-side comparison to a larger key set than the sequence search can afford.
func sweep(run *ev.Run, part string) sweepStats {
	nw := workers()
	base := len(vals) + 1
	total := 1
	for range keys {
		total *= base
	}
	decode := func(idx int, m []int8) {
		for k := len(keys) - 1; k >= 0; k-- {
			m[k] = int8(idx%base) - 1
			idx /= base
		}
	}
	var mu sync.Mutex
	found := map[string]*witness{}
	found2 := map[string]*witness{} // smallest witness per class among iterations yielding >= 2 pairs
	foundCount := map[string]int{}
	st := sweepStats{outcomes: map[string]int{}}
	var wg sync.WaitGroup
	for w := 0; w < nw; w++ {
		wg.Add(1)
		go func(w int) {
			defer wg.Done()
			t := newTriple(fmt.Sprint("s", w))
			defer t.close()
			lf := map[string]*witness{}
			lf2 := map[string]*witness{}
			lc := map[string]int{}
			ls := sweepStats{outcomes: map[string]int{}}
			lo, hi := total*w/nw, total*(w+1)/nw
			for idx := lo; idx < hi; idx++ {
				if idx%64 == 0 && run.OutOfTime() {
					run.Capped("time budget reached during the " + part)
					break
				}
				if t.age >= 4*recycleEvery {
					t.recycle()
				}
				t.age++
				model := make([]int8, len(keys))
				decode(idx, model)
				t.moveTo(model)
				m, l, c := t.content(true)
				s := &state{digest: m + "|" + l + "|" + c, model: model, depth: idx}
				multi := false
				note := func(oi int, fs []finding) {
					for _, f := range fs {
						lc[f.Key]++
						x := &witness{s, oi, f.What}
						if old, ok := lf[f.Key]; !ok || less(x, old) {
							lf[f.Key] = x
						}
						if old, ok := lf2[f.Key]; multi && (!ok || less(x, old)) {
							lf2[f.Key] = x
						}
					}
				}
				want := string(t.buf[:0])
				{
					buf := t.buf[:0]
					for k, v := range model {
						if v >= 0 {
							buf = appendEntry(buf, keys[k], vals[v], false)
						}
					}
					want = string(buf)
				}
				if stripNil(m) != l || l != c || l != want {
					note(-1, []finding{{"content-differs-after-plain-writes", fmt.Sprintf("written {%s}; MemDB {%s} GoLevelDB {%s} model {%s}", want, m, l, c)}})
					t.recycle()
					continue
				}
				ls.contents++
				for oi := range ops {
					o := &ops[oi]
					if o.mutating() {
						continue
					}
					rm, rl, rc := t.execAll(o)
					ls.transitions++
					if len(rc.Pairs) > 0 {
						ls.nonEmptyIter++
					}
					if len(rc.Pairs) > 1 {
						ls.multiIter++
					}
					if o.Kind != opGet {
						ls.held += 2 * (2 + 2*len(rl.Pairs)) // both backends: Value/Key before Next + every pair
					}
					ls.outcomes[outcomeOf(o, rc)]++
					multi = len(rc.Pairs) > 1
					note(oi, compare(o, model, rm, rl, rc))
				}
			}
			mu.Lock()
			for k, x := range lf {
				if old, ok := found[k]; !ok || less(x, old) {
					found[k] = x
				}
			}
			for k, x := range lf2 {
				if old, ok := found2[k]; !ok || less(x, old) {
					found2[k] = x
				}
			}
			for k, n := range lc {
				foundCount[k] += n
			}
			st.contents += ls.contents
			st.transitions += ls.transitions
			st.nonEmptyIter += ls.nonEmptyIter
			st.multiIter += ls.multiIter
			st.held += ls.held
			for k, n := range ls.outcomes {
				st.outcomes[k] += n
			}
			mu.Unlock()
		}(w)
	}
	wg.Wait()
	resolveAmbiguous(found, foundCount, false)
	var fk []string
	for k := range found {
		fk = append(fk, k)
	}
	sort.Strings(fk)
	for _, k := range fk {
		run.Add("violating_transitions_in_"+strings.ReplaceAll(part, " ", "_"), foundCount[k])
		// the smallest witness of a class may depend on what earlier contents left behind in a re-used
		// store (deleted entries); if it does not reproduce on fresh stores, the smallest witness whose
		// iteration yields >= 2 live pairs is tried as well
		var x *witness
		var h []int
		confirmed := false
		for _, c := range []*witness{found[k], found2[k]} {
			if c == nil || confirmed {
				continue
			}
			hc := shortHistory(c.st.model)
			if c.op >= 0 {
				hc = append(hc, c.op)
			}
			for _, f := range replayFresh(hc) {
				if confirms(f, k) {
					confirmed = true
				}
			}
			if x == nil || confirmed {
				x, h = c, hc
			}
		}
		key := k
		if !confirmed && x.op >= 0 {
			key = k + "-only-on-reused-store"
		}
		run.Violation(key, fmt.Sprintf("history %v: %s (%s; reproduced on freshly created stores: %v; %d read operations of this class)", describe(h), x.what, part, confirmed, foundCount[k]),
			map[string]interface{}{"history": describe(h), "op_indices": h, "what": x.what, "confirmed_on_fresh_stores": confirmed})
	}
	return st
}

func workers() int {
	nw := runtime.NumCPU()
	if nw > 8 {
		nw = 8
	}
	return nw
}

// ---------------------------------------------------------------- part 2: a node on either backend

type nodeReq struct {
	Backend string `json:"backend"`
	Blocks  int    `json:"blocks"`
	Dir     string `json:"dir"`
}

type nodeOut struct {
	StartErr   string   `json:"start_err,omitempty"`
	Steps      []string `json:"steps,omitempty"` // per block: orphan/err/best
	Main       string   `json:"main,omitempty"`
	RestartErr string   `json:"restart_err,omitempty"`
	Best2      string   `json:"best2,omitempty"`
	Main2      string   `json:"main2,omitempty"`
	Content    []string `json:"content,omitempty"`
}

func mainChain(nd *labnet.Node) string {
	best := nd.Chain.BestBlockHeader()
	s := ""
	for h := uint64(0); h <= best.Height; h++ {
		hd, err := nd.Chain.GetHeaderByHeight(h)
		if err != nil {
			s += fmt.Sprintf("%d:ERR ", h)
			continue
		}
		hash := hd.Hash()
		s += fmt.Sprintf("%d:%s ", h, hash.String()[:8])
	}
	return s
}

var net *labnet.Net

// baseDir holds every on-disk store of this run; removed at the end (and on SIGINT/SIGTERM).
var baseDir string

func nodeRun(raw json.RawMessage) interface{} {
	var r nodeReq
	json.Unmarshal(raw, &r)
	dir, err := os.MkdirTemp(r.Dir, "node-")
	if err != nil {
		return nodeOut{StartErr: "infra: " + err.Error()}
	}
	defer os.RemoveAll(dir)
	db := dbm.NewDB("core", r.Backend, dir) // node/node.go: dbm.NewDB("core", config.DBBackend, config.DBDir())
	defer db.Close()
	var out nodeOut
	nd, err := labnet.NewNode(db)
	if err != nil {
		out.StartErr = err.Error()
		return out
	}
	blocks := net.Chain(net.Gen, r.Blocks, 0)
	for _, b := range blocks {
		orphan, err := nd.Chain.ProcessBlock(b.Block)
		out.Steps = append(out.Steps, fmt.Sprintf("orphan=%v err=%v best=%s", orphan, err, nd.Chain.BestBlockHash().String()[:12]))
	}
	out.Main = mainChain(nd)
	nd.Stop()
	nd2, err := labnet.NewNode(db)
	if err != nil {
		out.RestartErr = err.Error()
	} else {
		out.Best2 = nd2.Chain.BestBlockHash().String()[:12]
		out.Main2 = mainChain(nd2)
		nd2.Stop()
	}
	it := db.Iterator()
	for it.Next() {
		out.Content = append(out.Content, fmt.Sprintf("%x=%x", it.Key(), it.Value()))
	}
	it.Release()
	sort.Strings(out.Content)
	return out
}

func nodePart(run *ev.Run) {
	const nBlocks = 14
	backends := []string{dbm.MemDBBackendStr, dbm.LevelDBBackendStr}
	outs := make([]*nodeOut, 2)
	pool := par.NewPool(2, 1)
	reqs := []interface{}{nodeReq{backends[0], nBlocks, baseDir}, nodeReq{backends[1], nBlocks, baseDir}}
	pool.Do(reqs, func(r par.Result) {
		if r.Died {
			run.Violation("node-process-death-on-"+backends[r.Index], "the node process died on backend "+backends[r.Index]+"\n"+r.Stderr, reqs[r.Index])
			return
		}
		var o nodeOut
		if err := json.Unmarshal(r.Resp, &o); err != nil {
			ev.Fatal("bad node worker response: %v", err)
		}
		outs[r.Index] = &o
	})
	run.Set("node_blocks", nBlocks)
	if outs[0] == nil || outs[1] == nil {
		return
	}
	usable := true
	for i, o := range outs {
		if strings.HasPrefix(o.StartErr, "infra:") {
			ev.Fatal("%s", o.StartErr)
		}
		if o.StartErr != "" {
			usable = false
			run.Outcome("node-start-error-" + backends[i])
			run.Violation("node-cannot-start-on-"+backends[i], fmt.Sprintf("db_backend=%s: protocol.NewChain on an empty store fails: %s (the other backend: %q)", backends[i], o.StartErr, outs[1-i].StartErr), map[string]interface{}{"backend": backends[i], "error": o.StartErr})
		} else {
			run.Outcome("node-started-" + backends[i])
		}
	}
	if !usable {
		return
	}
	m, l := outs[0], outs[1]
	run.Add("node_comparisons", len(m.Steps)+4)
	for i := range m.Steps {
		if i < len(l.Steps) && m.Steps[i] != l.Steps[i] {
			run.Violation("node-block-result-differs-between-backends", fmt.Sprintf("block %d of the 14-block chain: memdb %q, leveldb %q", i+1, m.Steps[i], l.Steps[i]), map[string]interface{}{"block": i + 1, "memdb": m.Steps, "leveldb": l.Steps})
			break
		}
	}
	if want := fmt.Sprintf("orphan=false err=<nil>"); len(l.Steps) > 0 && !strings.HasPrefix(l.Steps[len(l.Steps)-1], want) {
		// a difference between the backends was reported above; a chain refused by both alike is equal behaviour
		run.Capped(fmt.Sprintf("node part: could not be set up: the factory chain is not accepted on leveldb: %v", l.Steps))
	}
	if m.Main != l.Main {
		run.Violation("node-main-chain-differs-between-backends", fmt.Sprintf("memdb %q, leveldb %q", m.Main, l.Main), map[string]interface{}{"memdb": m.Main, "leveldb": l.Main})
	}
	for i, o := range outs {
		if o.RestartErr != "" {
			run.Outcome("node-restart-error-" + backends[i])
			run.Violation("node-cannot-restart-on-"+backends[i], fmt.Sprintf("db_backend=%s: NewChain on the store of a node that processed %d blocks fails: %s", backends[i], nBlocks, o.RestartErr), map[string]interface{}{"backend": backends[i], "error": o.RestartErr})
		} else {
			run.Outcome("node-restarted-" + backends[i])
			if o.Main2 != o.Main {
				run.Violation("node-state-lost-by-restart-on-"+backends[i], fmt.Sprintf("db_backend=%s: main chain before restart %q, after %q", backends[i], o.Main, o.Main2), map[string]interface{}{"backend": backends[i], "before": o.Main, "after": o.Main2})
			}
		}
	}
	if m.RestartErr == "" && l.RestartErr == "" && (m.Main2 != l.Main2 || m.Best2 != l.Best2) {
		run.Violation("node-restarted-state-differs-between-backends", fmt.Sprintf("after restart: memdb best %s %q, leveldb best %s %q", m.Best2, m.Main2, l.Best2, l.Main2), nil)
	}
	if strings.Join(m.Content, "\n") != strings.Join(l.Content, "\n") {
		diff := ""
		for i := 0; i < len(m.Content) || i < len(l.Content); i++ {
			var a, b string
			if i < len(m.Content) {
				a = m.Content[i]
			}
			if i < len(l.Content) {
				b = l.Content[i]
			}
			if a != b {
				if len(a) > 80 {
					a = a[:80]
				}
				if len(b) > 80 {
					b = b[:80]
				}
				diff = fmt.Sprintf("first difference at entry %d: memdb %s.., leveldb %s..", i, a, b)
				break
			}
		}
		run.Violation("node-store-content-differs-between-backends", fmt.Sprintf("%d entries on memdb, %d on leveldb; %s", len(m.Content), len(l.Content), diff), nil)
	}
	run.Set("node_store_entries", len(l.Content))
}

func main() {
	net = labnet.Setup(2, 2, 4)
	if par.IsWorker() {
		par.Serve(nodeRun)
	}
	var err error
	if baseDir, err = os.MkdirTemp("/tmp", "verif-c20-"); err != nil {
		ev.Fatal("temp dir: %v", err)
	}
	sigs := make(chan os.Signal, 1)
	signal.Notify(sigs, syscall.SIGINT, syscall.SIGTERM)
	go func() {
		<-sigs
		os.RemoveAll(baseDir)
		os.Exit(2)
	}()
	run := ev.Start("C20", "model_checking")
	depth := run.Pick(4, 6)
	if run.Thorough() {
		keys, vals = sixKeys, allVals
	} else {
		keys, vals = quickKeys, quickVals
	}
	ops = buildOps()
	st := search(run, depth)
	var ks, vs []string
	for _, k := range keys {
		ks = append(ks, qb(k))
	}
	for _, v := range vals {
		vs = append(vs, qb(v))
	}
	searchOps := len(ops)
	searchAlphabet := "keys " + strings.Join(ks, ",") + "; values " + strings.Join(vs, ",")

	// the sweep runs over a larger key set (read operations only)
	if run.Thorough() {
		keys = allKeys
	} else {
		keys = sixKeys
	}
	ops = buildOps()
	sw := sweep(run, "sweep")
	ks = nil
	for _, k := range keys {
		ks = append(ks, qb(k))
	}

	// part 1c: the same read-only sweep over an alphabet chosen for the SHAPE of neighbouring values
	// (see holdVals*): every content, every iteration, with every Key()/Value() slice kept across the
	// following Next calls and across Release (drain)
	if run.Thorough() {
		keys, vals = holdKeysThorough, holdValsThorough
	} else {
		keys, vals = holdKeysQuick, holdValsQuick
	}
	ops = buildOps()
	hw := sweep(run, "retained-result sweep")
	var hks, hvs []string
	for _, k := range keys {
		hks = append(hks, qb(k))
	}
	for _, v := range vals {
		hvs = append(hvs, qb(v))
	}
	nodePart(run)

	run.Set("states", st.states)
	run.Set("transitions", st.transitions+sw.transitions+hw.transitions)
	run.Set("traces_validated_against_impl", st.comparisons+sw.transitions+hw.transitions)
	run.Set("retained_sweep_contents", hw.contents)
	run.Set("retained_sweep_read_transitions", hw.transitions)
	run.Set("retained_sweep_iterations_yielding_pairs", hw.nonEmptyIter)
	run.Set("retained_sweep_iterations_yielding_2_or_more_pairs", hw.multiIter)
	run.Set("retained_sweep_slices_kept_and_rechecked", hw.held+sw.held)
	run.Set("max_depth", depth)
	run.Set("search_transitions", st.transitions)
	run.Set("search_operations_in_alphabet", searchOps)
	run.Set("search_read_operations", st.readOps)
	run.Set("search_write_operations", st.writeOps)
	run.Set("search_iterations_yielding_pairs", st.nonEmptyIter)
	run.Set("search_max_entries_in_store", st.maxContent)
	run.Set("search_new_states_per_depth", st.perDepth)
	run.Set("search_fixpoint_reached", st.fixpoint)
	run.Set("search_incoming_operations_re_executed", st.incoming)
	run.Set("sweep_contents", sw.contents)
	run.Set("sweep_read_transitions", sw.transitions)
	run.Set("sweep_iterations_yielding_pairs", sw.nonEmptyIter)
	classes := map[string]int{}
	for k, n := range st.outcomes {
		classes[k] += n
	}
	for k, n := range sw.outcomes {
		classes[k] += n
	}
	for k, n := range hw.outcomes {
		classes[k] += n
	}
	run.Set("operation_result_classes", classes)
	for k := range classes {
		run.Outcome(k)
	}
	run.Set("rule", "SEARCH: "+searchAlphabet+"; operations Get, Set, Delete, Batch of 0..2 Set/Delete (ordered), IteratorPrefix(p), IteratorPrefixWithStart(p, s|nil, false) drained (Value, Key before the first Next, then all pairs). A state is the content read back from MemDB (with nil-ness), GoLevelDB (raw handle) and crashkv; from every state reached in fewer than max_depth operations every operation is executed on all three stores and compared (read operations right after the state's own incoming operation was executed for real; mutating operations followed by a content read-back and undone by plain writes); every reported class is re-executed from freshly created stores. search_fixpoint_reached=true means no new content appears: all histories of any length over this alphabet lead to an explored state. SWEEP: every content over keys "+strings.Join(ks, ",")+" and the same values is created by plain writes and every read operation is executed and compared. RETAINED-RESULT SWEEP: the same over keys "+strings.Join(hks, ",")+" and values "+strings.Join(hvs, ",")+" (neighbouring values of equal length with different bytes, shrinking, growing, empty in between). In ALL three parts an iteration is drained the way a caller that collects the pairs does: every slice handed out by Key()/Value() (before the first Next and at every position) is kept next to a copy taken on the spot, and must still read the same after the Next loop has ended and after Release (keys <backend>-iterator-{key,value}-changes-after-{next,release}); the pair lists compared between the backends are the copies. transitions = (state, operation) pairs executed, each one three-way comparison.")
	run.Assume("verif/lib/crashkv (sorted map) is the reference for what a prefix / start-bounded iteration is; reverse iteration, Seek on a live iterator and use of an iterator after exhaustion are outside the alphabet")
	os.RemoveAll(baseDir)
	run.Assume("content equality is taken as state equality for GoLevelDB (its memtable / journal layering is not part of the digest); each reported class is additionally confirmed on freshly created stores")
	run.Finish()
}
