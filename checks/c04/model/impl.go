package model

import (
	"bytes"
	"fmt"

	"github.com/bytom/bytom/protocol/bc"
	"github.com/bytom/bytom/protocol/bc/types"
)

// Fill sets the derived members of an input: the asset id of an issuance is a function of
// (issuance program, vm version, asset definition); the function itself (bc.ComputeAssetID) is
// trusted here, it is not part of the codec.
func (in *In) Fill() {
	if in.Kind == KIssuance {
		ii := &types.IssuanceInput{AssetDefinition: in.AssetDef, VMVersion: in.VMVersion, IssuanceProgram: in.Program}
		in.AssetID = ii.AssetID().Byte32()
	}
}

// ToImpl builds the implementation's value with struct literals (no constructor hides a field).
func (in *In) ToImpl() *types.TxInput {
	t := &types.TxInput{AssetVersion: in.AssetVersion, CommitmentSuffix: in.CommitSuffix, WitnessSuffix: in.WitnessSuffix}
	aid := bc.NewAssetID(in.AssetID)
	sc := types.SpendCommitment{
		AssetAmount:    bc.AssetAmount{AssetId: &aid, Amount: in.Amount},
		SourceID:       bc.NewHash(in.SourceID),
		SourcePosition: in.SourcePos,
		VMVersion:      in.VMVersion,
		ControlProgram: in.Program,
		StateData:      in.State,
	}
	switch in.Kind {
	case KIssuance:
		t.TypedInput = &types.IssuanceInput{Nonce: in.Nonce, Amount: in.Amount, AssetDefinition: in.AssetDef,
			VMVersion: in.VMVersion, IssuanceProgram: in.Program, Arguments: in.Args}
	case KSpend:
		t.TypedInput = &types.SpendInput{SpendCommitmentSuffix: in.SCSuffix, Arguments: in.Args, SpendCommitment: sc}
	case KCoinbase:
		t.TypedInput = &types.CoinbaseInput{Arbitrary: in.Arbitrary}
	case KVeto:
		t.TypedInput = &types.VetoInput{VetoCommitmentSuffix: in.SCSuffix, Arguments: in.Args, Vote: in.Vote, SpendCommitment: sc}
	}
	return t
}

// InFromImpl reads every public member of a decoded input back into the plain form.
func InFromImpl(t *types.TxInput) (In, error) {
	in := In{AssetVersion: t.AssetVersion, CommitSuffix: t.CommitmentSuffix, WitnessSuffix: t.WitnessSuffix}
	fromSC := func(sc *types.SpendCommitment) error {
		if sc.AssetId == nil {
			return fmt.Errorf("decoded spend commitment has nil AssetId")
		}
		in.AssetID = sc.AssetId.Byte32()
		in.Amount = sc.Amount
		in.SourceID = sc.SourceID.Byte32()
		in.SourcePos = sc.SourcePosition
		in.VMVersion = sc.VMVersion
		in.Program = sc.ControlProgram
		in.State = sc.StateData
		return nil
	}
	switch ti := t.TypedInput.(type) {
	case *types.IssuanceInput:
		in.Kind = KIssuance
		in.Nonce, in.Amount, in.AssetDef, in.VMVersion, in.Program, in.Args = ti.Nonce, ti.Amount, ti.AssetDefinition, ti.VMVersion, ti.IssuanceProgram, ti.Arguments
		in.AssetID = ti.AssetID().Byte32()
	case *types.SpendInput:
		in.Kind = KSpend
		in.SCSuffix, in.Args = ti.SpendCommitmentSuffix, ti.Arguments
		if err := fromSC(&ti.SpendCommitment); err != nil {
			return in, err
		}
	case *types.CoinbaseInput:
		in.Kind = KCoinbase
		in.Arbitrary = ti.Arbitrary
	case *types.VetoInput:
		in.Kind = KVeto
		in.SCSuffix, in.Args, in.Vote = ti.VetoCommitmentSuffix, ti.Arguments, ti.Vote
		if err := fromSC(&ti.SpendCommitment); err != nil {
			return in, err
		}
	default:
		return in, fmt.Errorf("decoded input has TypedInput %T", t.TypedInput)
	}
	return in, nil
}

// ToImpl builds the implementation's output.
func (o *Out) ToImpl() *types.TxOutput {
	aid := bc.NewAssetID(o.AssetID)
	var t *types.TxOutput
	if o.Kind == KVote {
		t = types.NewVoteOutput(aid, o.Amount, o.Program, o.Vote, o.State)
	} else {
		t = types.NewOriginalTxOutput(aid, o.Amount, o.Program, o.State)
	}
	t.AssetVersion = o.AssetVersion
	t.VMVersion = o.VMVersion
	t.CommitmentSuffix = o.Suffix
	return t
}

// OutFromImpl reads a decoded output back.
func OutFromImpl(t *types.TxOutput) (Out, error) {
	o := Out{AssetVersion: t.AssetVersion, Amount: t.Amount, VMVersion: t.VMVersion, Program: t.ControlProgram, State: t.StateData, Suffix: t.CommitmentSuffix}
	if t.TypedOutput == nil {
		return o, fmt.Errorf("decoded output has nil TypedOutput")
	}
	if t.AssetId != nil {
		o.AssetID = t.AssetId.Byte32()
	} else if t.AssetVersion == 1 {
		return o, fmt.Errorf("decoded output has nil AssetId")
	}
	switch t.OutputType() {
	case types.OriginalOutputType:
		o.Kind = KOriginal
	case types.VoteOutputType:
		o.Kind = KVote
		vo, ok := t.TypedOutput.(*types.VoteOutput)
		if !ok {
			return o, fmt.Errorf("vote output typed as %T", t.TypedOutput)
		}
		o.Vote = vo.Vote
	default:
		return o, fmt.Errorf("decoded output type %d", t.OutputType())
	}
	return o, nil
}

// ToImpl builds TxData; size is the recorded serialized size.
func (t *Tx) ToImpl(size uint64) types.TxData {
	d := types.TxData{Version: t.Version, TimeRange: t.TimeRange, SerializedSize: size}
	if t.Ins != nil {
		d.Inputs = make([]*types.TxInput, len(t.Ins))
		for i := range t.Ins {
			d.Inputs[i] = t.Ins[i].ToImpl()
		}
	}
	if t.Outs != nil {
		d.Outputs = make([]*types.TxOutput, len(t.Outs))
		for i := range t.Outs {
			d.Outputs[i] = t.Outs[i].ToImpl()
		}
	}
	return d
}

// TxFromImpl reads a decoded TxData back.
func TxFromImpl(d *types.TxData) (Tx, error) {
	t := Tx{Version: d.Version, TimeRange: d.TimeRange}
	for i, ti := range d.Inputs {
		if ti == nil {
			return t, fmt.Errorf("decoded input %d is nil", i)
		}
		in, err := InFromImpl(ti)
		if err != nil {
			return t, err
		}
		t.Ins = append(t.Ins, in)
	}
	for i, to := range d.Outputs {
		if to == nil {
			return t, fmt.Errorf("decoded output %d is nil", i)
		}
		o, err := OutFromImpl(to)
		if err != nil {
			return t, err
		}
		t.Outs = append(t.Outs, o)
	}
	return t, nil
}

// ToImpl builds the implementation's header.
func (h *Header) ToImpl() types.BlockHeader {
	bh := types.BlockHeader{Version: h.Version, Height: h.Height, PreviousBlockHash: bc.NewHash(h.Prev), Timestamp: h.Timestamp,
		BlockWitness:    types.BlockWitness(h.Witness),
		BlockCommitment: types.BlockCommitment{TransactionsMerkleRoot: bc.NewHash(h.Root)}}
	if h.Sups != nil {
		bh.SupLinks = make(types.SupLinks, len(h.Sups))
		for i := range h.Sups {
			s := h.Sups[i]
			sl := &types.SupLink{SourceHeight: s.SourceHeight, SourceHash: bc.NewHash(s.SourceHash)}
			for j := 0; j < 10; j++ {
				sl.Signatures[j] = s.Sigs[j]
			}
			bh.SupLinks[i] = sl
		}
	}
	return bh
}

// HeaderFromImpl reads a decoded header back.
func HeaderFromImpl(bh *types.BlockHeader) (Header, error) {
	h := Header{Version: bh.Version, Height: bh.Height, Prev: bh.PreviousBlockHash.Byte32(), Timestamp: bh.Timestamp,
		Root: bh.TransactionsMerkleRoot.Byte32(), Witness: []byte(bh.BlockWitness)}
	for i, sl := range bh.SupLinks {
		if sl == nil {
			return h, fmt.Errorf("decoded supLink %d is nil", i)
		}
		s := Sup{SourceHeight: sl.SourceHeight, SourceHash: sl.SourceHash.Byte32()}
		for j := 0; j < 10; j++ {
			s.Sigs[j] = sl.Signatures[j]
		}
		h.Sups = append(h.Sups, s)
	}
	return h, nil
}

// ---------------------------------------------------------------------------
// field-wise comparison modulo nil == empty (the wire cannot tell them apart)

func eqList(a, b [][]byte) bool {
	if len(a) != len(b) {
		return false
	}
	for i := range a {
		if !bytes.Equal(a[i], b[i]) {
			return false
		}
	}
	return true
}

// DiffIn returns the structural names of the members that differ.
func DiffIn(a, b *In) []string {
	var d []string
	p := "in." + InKindName[a.Kind] + "."
	add := func(c bool, n string) {
		if !c {
			d = append(d, p+n)
		}
	}
	if a.Kind != b.Kind {
		return []string{"in.kind"}
	}
	add(a.AssetVersion == b.AssetVersion, "assetversion")
	add(bytes.Equal(a.CommitSuffix, b.CommitSuffix), "commitment.suffix")
	add(bytes.Equal(a.WitnessSuffix, b.WitnessSuffix), "witness.suffix")
	switch a.Kind {
	case KIssuance:
		add(bytes.Equal(a.Nonce, b.Nonce), "nonce")
		add(a.Amount == b.Amount, "amount")
		add(bytes.Equal(a.AssetDef, b.AssetDef), "assetdef")
		add(a.VMVersion == b.VMVersion, "vmversion")
		add(bytes.Equal(a.Program, b.Program), "program")
		add(eqList(a.Args, b.Args), "args")
		add(a.AssetID == b.AssetID, "assetid")
	case KSpend, KVeto:
		// the spend commitment is shared by both kinds: one name for its members
		p = "in.spendcommitment."
		add(a.SourceID == b.SourceID, "sourceid")
		add(a.AssetID == b.AssetID, "assetid")
		add(a.Amount == b.Amount, "amount")
		add(a.SourcePos == b.SourcePos, "sourcepos")
		add(a.VMVersion == b.VMVersion, "vmversion")
		add(bytes.Equal(a.Program, b.Program), "program")
		add(eqList(a.State, b.State), "state")
		add(bytes.Equal(a.SCSuffix, b.SCSuffix), "suffix")
		p = "in." + InKindName[a.Kind] + "."
		add(eqList(a.Args, b.Args), "args")
		if a.Kind == KVeto {
			add(bytes.Equal(a.Vote, b.Vote), "vote")
		}
	case KCoinbase:
		add(bytes.Equal(a.Arbitrary, b.Arbitrary), "arbitrary")
	}
	return d
}

// DiffOut returns the structural names of the members that differ.
func DiffOut(a, b *Out) []string {
	var d []string
	add := func(c bool, n string) {
		if !c {
			d = append(d, "out."+n)
		}
	}
	add(a.Kind == b.Kind, "kind")
	add(a.AssetVersion == b.AssetVersion, "assetversion")
	add(a.AssetID == b.AssetID, "assetid")
	add(a.Amount == b.Amount, "amount")
	add(a.VMVersion == b.VMVersion, "vmversion")
	add(bytes.Equal(a.Program, b.Program), "program")
	add(eqList(a.State, b.State), "state")
	add(bytes.Equal(a.Vote, b.Vote), "vote")
	add(bytes.Equal(a.Suffix, b.Suffix), "commitment.suffix")
	return d
}

// DiffTx compares two plain transactions.
func DiffTx(a, b *Tx) []string {
	var d []string
	if a.Version != b.Version {
		d = append(d, "tx.version")
	}
	if a.TimeRange != b.TimeRange {
		d = append(d, "tx.timerange")
	}
	if len(a.Ins) != len(b.Ins) {
		return append(d, "tx.in.count")
	}
	if len(a.Outs) != len(b.Outs) {
		return append(d, "tx.out.count")
	}
	for i := range a.Ins {
		d = append(d, DiffIn(&a.Ins[i], &b.Ins[i])...)
	}
	for i := range a.Outs {
		d = append(d, DiffOut(&a.Outs[i], &b.Outs[i])...)
	}
	return d
}

// DiffHeader compares two plain headers.
func DiffHeader(a, b *Header) []string {
	var d []string
	add := func(c bool, n string) {
		if !c {
			d = append(d, "header."+n)
		}
	}
	add(a.Version == b.Version, "version")
	add(a.Height == b.Height, "height")
	add(a.Prev == b.Prev, "prev")
	add(a.Timestamp == b.Timestamp, "timestamp")
	add(a.Root == b.Root, "txroot")
	add(bytes.Equal(a.Witness, b.Witness), "witness")
	if len(a.Sups) != len(b.Sups) {
		return append(d, "header.suplinks.count")
	}
	for i := range a.Sups {
		add(a.Sups[i].SourceHeight == b.Sups[i].SourceHeight, "suplink.sourceheight")
		add(a.Sups[i].SourceHash == b.Sups[i].SourceHash, "suplink.sourcehash")
		for j := 0; j < 10; j++ {
			add(bytes.Equal(a.Sups[i].Sigs[j], b.Sups[i].Sigs[j]), "suplink.signature")
		}
	}
	return d
}
