package model

// Input kinds (the wire type byte of the typed input).
const (
	KIssuance = 0
	KSpend    = 1
	KCoinbase = 2
	KVeto     = 3
)

// Output kinds.
const (
	KOriginal = 0
	KVote     = 1
)

var InKindName = []string{"issuance", "spend", "coinbase", "veto"}
var OutKindName = []string{"original", "vote"}

// In is a plain transaction input.
type In struct {
	Kind          int
	AssetVersion  uint64
	Nonce         []byte   // issuance
	Amount        uint64   // issuance, spend, veto
	AssetDef      []byte   // issuance (witness)
	VMVersion     uint64   // issuance: free; spend/veto: must be 1 to be decodable
	Program       []byte   // issuance program / control program
	Args          [][]byte // witness arguments
	SourceID      [32]byte // spend, veto
	AssetID       [32]byte // spend, veto; issuance: derived (see Fill)
	SourcePos     uint64
	State         [][]byte
	SCSuffix      []byte // suffix inside the spend-commitment extensible string (spend, veto)
	Vote          []byte // veto
	Arbitrary     []byte // coinbase
	CommitSuffix  []byte
	WitnessSuffix []byte
}

// Out is a plain transaction output.
type Out struct {
	Kind         int
	AssetVersion uint64
	AssetID      [32]byte
	Amount       uint64
	VMVersion    uint64
	Program      []byte
	State        [][]byte
	Vote         []byte
	Suffix       []byte
}

// Tx is a plain transaction. Ins/Outs keep the nil / empty distinction of the Go value.
type Tx struct {
	Version   uint64
	TimeRange uint64
	Ins       []In
	Outs      []Out
}

// Sup is a plain supLink.
type Sup struct {
	SourceHeight uint64
	SourceHash   [32]byte
	Sigs         [10][]byte
}

// Header is a plain block header.
type Header struct {
	Version   uint64
	Height    uint64
	Prev      [32]byte
	Timestamp uint64
	Root      [32]byte
	Witness   []byte
	Sups      []Sup
}

// Block is a plain block.
type Block struct {
	Header
	Txs []Tx
}

// ---------------------------------------------------------------------------
// reference encoders (byte-level re-implementation of protocol/bc/types writers)

func spendCommitment(p string, in *In) *Node {
	return ext(p+".spendcommitment", in.SCSuffix,
		hash32(p+".spendcommitment.sourceid", in.SourceID),
		hash32(p+".spendcommitment.assetid", in.AssetID),
		u63(p+".spendcommitment.amount", in.Amount),
		u63(p+".spendcommitment.sourcepos", in.SourcePos),
		u63(p+".spendcommitment.vmversion", in.VMVersion),
		varstr(p+".spendcommitment.program", in.Program),
		varstrList(p+".spendcommitment.state", in.State),
	)
}

// EncIn is the wire form of one input.
func EncIn(in *In) *Node {
	p := "in." + InKindName[in.Kind]
	var commit, witness []*Node
	if in.AssetVersion == 1 {
		commit = append(commit, leaf("in.type", "type", []byte{byte(in.Kind)}))
		switch in.Kind {
		case KIssuance:
			commit = append(commit, varstr(p+".nonce", in.Nonce), hash32(p+".assetid", in.AssetID), u63(p+".amount", in.Amount))
			witness = append(witness, varstr(p+".assetdef", in.AssetDef), u63(p+".vmversion", in.VMVersion),
				varstr(p+".program", in.Program), varstrList(p+".args", in.Args))
		case KSpend:
			commit = append(commit, spendCommitment(p, in))
			witness = append(witness, varstrList(p+".args", in.Args))
		case KCoinbase:
			commit = append(commit, varstr(p+".arbitrary", in.Arbitrary))
		case KVeto:
			commit = append(commit, spendCommitment(p, in), varstr(p+".vote", in.Vote))
			witness = append(witness, varstrList(p+".args", in.Args))
		}
	}
	return group("in",
		u63("in.assetversion", in.AssetVersion),
		ext(p+".commitment", in.CommitSuffix, commit...),
		ext(p+".witness", in.WitnessSuffix, witness...),
	)
}

// EncOut is the wire form of one output.
func EncOut(o *Out) *Node {
	p := "out." + OutKindName[o.Kind]
	var commit []*Node
	if o.Kind == KVote {
		commit = append(commit, varstr(p+".vote", o.Vote))
	}
	if o.AssetVersion == 1 {
		commit = append(commit,
			hash32(p+".assetid", o.AssetID),
			u63(p+".amount", o.Amount),
			u63(p+".vmversion", o.VMVersion),
			varstr(p+".program", o.Program),
			varstrList(p+".state", o.State))
	}
	return group("out",
		u63("out.assetversion", o.AssetVersion),
		leaf("out.type", "type", []byte{byte(o.Kind)}),
		ext(p+".commitment", o.Suffix, commit...),
		varstr("out.witness", nil),
	)
}

// EncTx is the wire form of a transaction (serflags 7).
func EncTx(t *Tx) *Node {
	n := group("tx",
		leaf("tx.serflags", "flag", []byte{7}),
		u63("tx.version", t.Version),
		u63("tx.timerange", t.TimeRange),
		count("tx.in.count", len(t.Ins)))
	for i := range t.Ins {
		n.Kids = append(n.Kids, EncIn(&t.Ins[i]))
	}
	n.Kids = append(n.Kids, count("tx.out.count", len(t.Outs)))
	for i := range t.Outs {
		n.Kids = append(n.Kids, EncOut(&t.Outs[i]))
	}
	return n
}

// EncHeader is the wire form of a block header with the given serialization flag
// (1 header only, 2 transactions only, 3 full block). With flag 2 only the flag is written.
func EncHeader(h *Header, serflag byte) *Node {
	n := group("header", leaf("header.serflags", "flag", []byte{serflag}))
	if serflag == 2 {
		return n
	}
	sl := []*Node{count("header.suplinks.count", len(h.Sups))}
	for i := range h.Sups {
		s := &h.Sups[i]
		sn := group("header.suplink", u63("header.suplink.sourceheight", s.SourceHeight), hash32("header.suplink.sourcehash", s.SourceHash))
		for j := 0; j < 10; j++ {
			sn.Kids = append(sn.Kids, varstr("header.suplink.signature", s.Sigs[j]))
		}
		sl = append(sl, sn)
	}
	n.Kids = append(n.Kids,
		u63("header.version", h.Version),
		u63("header.height", h.Height),
		hash32("header.prev", h.Prev),
		u63("header.timestamp", h.Timestamp),
		ext("header.commitment", nil, hash32("header.txroot", h.Root)),
		ext("header.witness", nil, varstr("header.witness.sig", h.Witness)),
		ext("header.suplinks", nil, sl...),
	)
	return n
}

// EncBlock is the wire form of a block for serflag 1, 2 or 3.
func EncBlock(b *Block, serflag byte) *Node {
	n := group("block", EncHeader(&b.Header, serflag))
	if serflag == 1 {
		return n
	}
	n.Kids = append(n.Kids, count("block.tx.count", len(b.Txs)))
	for i := range b.Txs {
		n.Kids = append(n.Kids, EncTx(&b.Txs[i]))
	}
	return n
}

// ---------------------------------------------------------------------------
// go-wire binary format (reference)

func wu64(name string, v uint64) *Node {
	b := make([]byte, 8)
	for i := 0; i < 8; i++ {
		b[7-i] = byte(v >> (8 * uint(i)))
	}
	return &Node{Name: name, Kind: "wu64", Raw: b, Val: v}
}

func wbytes(name string, b []byte) *Node {
	return &Node{Name: name, Kind: "wbytes", Pref: PrefWire, Raw: append([]byte{}, b...)}
}

func wcount(name string, v int) *Node {
	return &Node{Name: name, Kind: "wcount", Raw: WireVarint(int64(v)), Val: uint64(v)}
}

func wbytesList(name string, l [][]byte) *Node {
	n := &Node{Name: name, Kind: "wlist", Kids: []*Node{wcount(name+".count", len(l))}}
	for _, b := range l {
		n.Kids = append(n.Kids, wbytes(name+".item", b))
	}
	return n
}

func whashList(name string, l [][32]byte) *Node {
	n := &Node{Name: name, Kind: "wlist", Kids: []*Node{wcount(name+".count", len(l))}}
	for _, h := range l {
		n.Kids = append(n.Kids, hash32(name+".item", h))
	}
	return n
}

// WMsg is a plain P2P message: the registered type byte plus its fields in declaration order.
type WMsg struct {
	Type   byte
	Name   string
	Fields []WField
}

// WField is one field of a message; exactly one of the members is used according to Kind.
type WField struct {
	Name  string
	Kind  string // u64, hash, bytes, byteslist, hashlist
	U64   uint64
	Hash  [32]byte
	Bytes []byte
	List  [][]byte
	Hs    [][32]byte
}

// EncWire is the go-wire binary form of struct{Interface}{msg}.
func EncWire(m *WMsg) *Node {
	p := "msg." + m.Name
	n := group(p, leaf("msg.type", "type", []byte{m.Type}))
	for _, f := range m.Fields {
		fn := p + "." + f.Name
		switch f.Kind {
		case "u64":
			n.Kids = append(n.Kids, wu64(fn, f.U64))
		case "hash":
			n.Kids = append(n.Kids, hash32(fn, f.Hash))
		case "bytes":
			n.Kids = append(n.Kids, wbytes(fn, f.Bytes))
		case "byteslist":
			n.Kids = append(n.Kids, wbytesList(fn, f.List))
		case "hashlist":
			n.Kids = append(n.Kids, whashList(fn, f.Hs))
		}
	}
	return n
}
