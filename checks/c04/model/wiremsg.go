package model

import (
	"fmt"

	"github.com/bytom/bytom/netsync/consensusmgr"
	msgs "github.com/bytom/bytom/netsync/messages"
)

// WMsgOf turns a P2P message value into its plain (type byte, fields) description by reading
// its public members; the registered type bytes are written out here from the protocol
// definition, not taken from the implementation's constants.
func WMsgOf(msg interface{}) (*WMsg, error) {
	u := func(n string, v uint64) WField { return WField{Name: n, Kind: "u64", U64: v} }
	h := func(n string, v [32]byte) WField { return WField{Name: n, Kind: "hash", Hash: v} }
	b := func(n string, v []byte) WField { return WField{Name: n, Kind: "bytes", Bytes: v} }
	bl := func(n string, v [][]byte) WField { return WField{Name: n, Kind: "byteslist", List: v} }
	hl := func(n string, v [][32]byte) WField { return WField{Name: n, Kind: "hashlist", Hs: v} }
	switch m := msg.(type) {
	case *msgs.GetBlockMessage:
		return &WMsg{0x10, "getblock", []WField{u("height", m.Height), h("rawhash", m.RawHash)}}, nil
	case *msgs.BlockMessage:
		return &WMsg{0x11, "block", []WField{b("rawblock", m.RawBlock)}}, nil
	case *msgs.GetHeadersMessage:
		return &WMsg{0x12, "getheaders", []WField{hl("locator", m.RawBlockLocator), h("stophash", m.RawStopHash), u("skip", m.Skip)}}, nil
	case *msgs.HeadersMessage:
		return &WMsg{0x13, "headers", []WField{bl("rawheaders", m.RawHeaders)}}, nil
	case *msgs.GetBlocksMessage:
		return &WMsg{0x14, "getblocks", []WField{hl("locator", m.RawBlockLocator), h("stophash", m.RawStopHash)}}, nil
	case *msgs.BlocksMessage:
		return &WMsg{0x15, "blocks", []WField{bl("rawblocks", m.RawBlocks)}}, nil
	case *msgs.StatusMessage:
		return &WMsg{0x21, "status", []WField{u("bestheight", m.BestHeight), h("besthash", m.BestHash), u("justifiedheight", m.JustifiedHeight), h("justifiedhash", m.JustifiedHash)}}, nil
	case *msgs.TransactionMessage:
		return &WMsg{0x30, "transaction", []WField{b("rawtx", m.RawTx)}}, nil
	case *msgs.TransactionsMessage:
		return &WMsg{0x31, "transactions", []WField{bl("rawtxs", m.RawTxs)}}, nil
	case *msgs.MineBlockMessage:
		return &WMsg{0x40, "mineblock", []WField{b("rawblock", m.RawBlock)}}, nil
	case *msgs.FilterLoadMessage:
		return &WMsg{0x50, "filterload", []WField{bl("addresses", m.Addresses)}}, nil
	case *msgs.FilterAddMessage:
		return &WMsg{0x51, "filteradd", []WField{b("address", m.Address)}}, nil
	case *msgs.FilterClearMessage:
		return &WMsg{0x52, "filterclear", nil}, nil
	case *msgs.GetMerkleBlockMessage:
		return &WMsg{0x60, "getmerkleblock", []WField{u("height", m.Height), h("rawhash", m.RawHash)}}, nil
	case *msgs.MerkleBlockMessage:
		return &WMsg{0x61, "merkleblock", []WField{b("rawblockheader", m.RawBlockHeader), hl("txhashes", m.TxHashes), bl("rawtxdatas", m.RawTxDatas), b("flags", m.Flags)}}, nil
	case *consensusmgr.BlockVerificationMsg:
		return &WMsg{0x10, "blockverification", []WField{h("sourcehash", m.SourceHash.Byte32()), h("targethash", m.TargetHash.Byte32()), b("pubkey", m.PubKey), b("signature", m.Signature)}}, nil
	case *consensusmgr.BlockProposeMsg:
		return &WMsg{0x11, "blockpropose", []WField{b("rawblock", m.RawBlock)}}, nil
	}
	return nil, fmt.Errorf("unknown message type %T", msg)
}
