package model

// Enumerators. Nothing here is random: every generator walks a finite set completely.

// Pat returns n deterministic bytes.
func Pat(n int, salt byte) []byte {
	b := make([]byte, n)
	for i := range b {
		b[i] = byte(i*7+3) ^ salt
	}
	return b
}

// ByteVals is the value set of every byte-string member; index 0 is the base value.
// Lengths 75/76 and 255/256 straddle push-data and one/two-byte length boundaries, 127/128 the
// one/two-byte LEB128 boundary.
func ByteVals() [][]byte { return byteVals }

var byteVals = mkByteVals()
var progVals = append(mkByteVals(), []byte{0x6a, 0x01, 0x02})
var listVals = mkListVals()

func mkByteVals() [][]byte {
	return [][]byte{{0x51}, nil, {}, Pat(75, 0), Pat(76, 1), Pat(127, 2), Pat(128, 3), Pat(255, 4), Pat(256, 5)}
}

// ProgVals adds an unspendable (OP_FAIL-prefixed) program, which MapTx maps to a retirement.
func ProgVals() [][]byte { return progVals }

// ListVals is the value set of every list-of-strings member.
func ListVals() [][][]byte { return listVals }

func mkListVals() [][][]byte {
	return [][][]byte{{{0x01}}, nil, {}, {{}}, {{0x01}, Pat(76, 6)}, {nil, {0xff, 0x00}}, {Pat(128, 7), {}, {0x00}}}
}

// IntVals is the value set of every 63-bit integer member.
func IntVals() []uint64 {
	return []uint64{1, 0, 127, 128, 16383, 16384, 1<<31 - 1, 1 << 31, 1<<63 - 1}
}

// HashVals is the value set of 32-byte members.
func HashVals() [][32]byte {
	var a, b, c [32]byte
	for i := range b {
		b[i] = byte(i + 1)
		c[i] = 0xff
	}
	return [][32]byte{b, a, c}
}

// Spec describes one member of T and how to set it to its i-th value (0 = base).
type Spec[T any] struct {
	Name string
	N    int
	Set  func(*T, int)
}

// Sweep emits base with every assignment in which at most k members take a non-base value.
func Sweep[T any](base T, specs []Spec[T], k int, emit func(T)) {
	var rec func(start, left int, cur T)
	rec = func(start, left int, cur T) {
		emit(cur)
		if left == 0 {
			return
		}
		for f := start; f < len(specs); f++ {
			for v := 1; v < specs[f].N; v++ {
				nx := cur
				specs[f].Set(&nx, v)
				rec(f+1, left-1, nx)
			}
		}
	}
	rec(0, k, base)
}

// Product emits the full cartesian product.
func Product[T any](base T, specs []Spec[T], emit func(T)) {
	var rec func(f int, cur T)
	rec = func(f int, cur T) {
		if f == len(specs) {
			emit(cur)
			return
		}
		for v := 0; v < specs[f].N; v++ {
			nx := cur
			specs[f].Set(&nx, v)
			rec(f+1, nx)
		}
	}
	rec(0, base)
}

func bs(name string, set func(*In, []byte)) Spec[In] {
	v := ByteVals()
	return Spec[In]{name, len(v), func(in *In, i int) { set(in, v[i]) }}
}
func ls(name string, set func(*In, [][]byte)) Spec[In] {
	v := ListVals()
	return Spec[In]{name, len(v), func(in *In, i int) { set(in, v[i]) }}
}
func is(name string, set func(*In, uint64)) Spec[In] {
	v := IntVals()
	return Spec[In]{name, len(v), func(in *In, i int) { set(in, v[i]) }}
}
func hs(name string, set func(*In, [32]byte)) Spec[In] {
	v := HashVals()
	return Spec[In]{name, len(v), func(in *In, i int) { set(in, v[i]) }}
}

// BaseIn is the base input of a kind (every member at value 0 of its set, suffixes empty).
func BaseIn(kind int) In {
	in := In{Kind: kind, AssetVersion: 1, VMVersion: 1}
	for _, s := range InSpecs(kind) {
		s.Set(&in, 0)
	}
	in.CommitSuffix, in.WitnessSuffix, in.SCSuffix = nil, nil, nil
	return in
}

// InSpecs lists the members of an input kind. Suffix members have nil as value 0.
func InSpecs(kind int) []Spec[In] {
	sfx := func(name string, set func(*In, []byte)) Spec[In] {
		v := append([][]byte{nil, {0x51}}, ByteVals()[2:]...)
		return Spec[In]{name, len(v), func(in *In, i int) { set(in, v[i]) }}
	}
	common := []Spec[In]{
		sfx("commitsuffix", func(in *In, b []byte) { in.CommitSuffix = b }),
		sfx("witnesssuffix", func(in *In, b []byte) { in.WitnessSuffix = b }),
	}
	sc := []Spec[In]{
		hs("sourceid", func(in *In, h [32]byte) { in.SourceID = h }),
		hs("assetid", func(in *In, h [32]byte) { in.AssetID = h }),
		is("amount", func(in *In, v uint64) { in.Amount = v }),
		is("sourcepos", func(in *In, v uint64) { in.SourcePos = v }),
		{"program", len(ProgVals()), func(in *In, i int) { in.Program = ProgVals()[i] }},
		ls("state", func(in *In, l [][]byte) { in.State = l }),
		sfx("scsuffix", func(in *In, b []byte) { in.SCSuffix = b }),
		ls("args", func(in *In, l [][]byte) { in.Args = l }),
	}
	switch kind {
	case KIssuance:
		return append([]Spec[In]{
			bs("nonce", func(in *In, b []byte) { in.Nonce = b }),
			is("amount", func(in *In, v uint64) { in.Amount = v }),
			bs("assetdef", func(in *In, b []byte) { in.AssetDef = b }),
			is("vmversion", func(in *In, v uint64) { in.VMVersion = v }),
			bs("program", func(in *In, b []byte) { in.Program = b }),
			ls("args", func(in *In, l [][]byte) { in.Args = l }),
		}, common...)
	case KSpend:
		return append(sc, common...)
	case KCoinbase:
		return append([]Spec[In]{bs("arbitrary", func(in *In, b []byte) { in.Arbitrary = b })}, common...)
	case KVeto:
		return append(append(sc, bs("vote", func(in *In, b []byte) { in.Vote = b })), common...)
	}
	return nil
}

// BaseOut is the base output of a kind.
func BaseOut(kind int) Out {
	o := Out{Kind: kind, AssetVersion: 1, VMVersion: 1}
	for _, s := range OutSpecs(kind) {
		s.Set(&o, 0)
	}
	o.Suffix = nil
	return o
}

// OutSpecs lists the members of an output kind.
func OutSpecs(kind int) []Spec[Out] {
	bv, lv, iv, hv, pv := ByteVals(), ListVals(), IntVals(), HashVals(), ProgVals()
	sv := append([][]byte{nil, {0x51}}, bv[2:]...)
	sp := []Spec[Out]{
		{"assetid", len(hv), func(o *Out, i int) { o.AssetID = hv[i] }},
		{"amount", len(iv), func(o *Out, i int) { o.Amount = iv[i] }},
		{"program", len(pv), func(o *Out, i int) { o.Program = pv[i] }},
		{"state", len(lv), func(o *Out, i int) { o.State = lv[i] }},
		{"suffix", len(sv), func(o *Out, i int) { o.Suffix = sv[i] }},
	}
	if kind == KVote {
		sp = append(sp, Spec[Out]{"vote", len(bv), func(o *Out, i int) { o.Vote = bv[i] }})
	}
	return sp
}

// RichIn is an input of a kind with every member non-trivial (long strings, all suffixes).
func RichIn(kind int) In {
	in := BaseIn(kind)
	in.Nonce, in.AssetDef, in.Arbitrary, in.Vote = Pat(8, 9), Pat(76, 10), Pat(128, 11), Pat(64, 12)
	in.Program = Pat(255, 13)
	in.Args = [][]byte{Pat(64, 14), {}, Pat(33, 15)}
	in.State = [][]byte{{}, Pat(32, 16)}
	in.Amount, in.SourcePos = 1<<63-1, 128
	in.CommitSuffix, in.WitnessSuffix = []byte{0xaa, 0xbb}, []byte{0xcc}
	switch kind {
	case KIssuance:
		in.State, in.Arbitrary, in.Vote = nil, nil, nil
	case KSpend:
		in.Nonce, in.AssetDef, in.Arbitrary, in.Vote = nil, nil, nil, nil
	case KCoinbase:
		in = In{Kind: KCoinbase, AssetVersion: 1, VMVersion: 1, Arbitrary: in.Arbitrary, CommitSuffix: in.CommitSuffix, WitnessSuffix: in.WitnessSuffix}
	case KVeto:
		in.Nonce, in.AssetDef, in.Arbitrary = nil, nil, nil
	}
	return in
}

// RichOut is an output with every member non-trivial.
func RichOut(kind int) Out {
	o := BaseOut(kind)
	o.Amount, o.Program, o.State, o.Suffix = 16384, Pat(76, 17), [][]byte{Pat(128, 18), {}}, []byte{0xdd, 0xee, 0xff}
	o.AssetID = HashVals()[2]
	if kind == KVote {
		o.Vote = Pat(64, 19)
	}
	return o
}

// InPool / OutPool are the variants used to build multi-input / multi-output shapes.
func InPool() []In {
	var p []In
	for k := 0; k < 4; k++ {
		p = append(p, BaseIn(k), RichIn(k))
	}
	return p
}

func OutPool() []Out {
	ret := BaseOut(KOriginal)
	ret.Program = []byte{0x6a}
	return []Out{BaseOut(KOriginal), RichOut(KOriginal), BaseOut(KVote), RichOut(KVote), ret}
}

// Seqs calls emit with every sequence of length 0..maxLen over n symbols; for length 0 it
// emits nil and (if withEmpty) the empty non-nil sequence.
func Seqs(n, maxLen int, withEmpty bool, emit func([]int)) {
	emit(nil)
	if withEmpty {
		emit([]int{})
	}
	var rec func(cur []int)
	rec = func(cur []int) {
		if len(cur) > 0 {
			emit(append([]int{}, cur...))
		}
		if len(cur) == maxLen {
			return
		}
		for s := 0; s < n; s++ {
			rec(append(cur, s))
		}
	}
	rec([]int{})
}

// SigPatterns: which of the 10 signature slots of a supLink are filled.
var SigPatternName = []string{"none", "first", "last", "all"}

// MakeSup builds a supLink with the given slot pattern.
func MakeSup(pattern int, idx int, sigLen int) Sup {
	s := Sup{SourceHeight: uint64(idx) * 128, SourceHash: HashVals()[idx%3]}
	for j := 0; j < 10; j++ {
		fill := pattern == 3 || (pattern == 1 && j == 0) || (pattern == 2 && j == 9)
		if fill {
			s.Sigs[j] = Pat(sigLen, byte(16*idx+j))
		}
	}
	return s
}

// BaseHeader is the base header.
func BaseHeader() Header {
	return Header{Version: 1, Height: 1, Prev: HashVals()[0], Timestamp: 1, Root: HashVals()[0], Witness: Pat(64, 20)}
}
