// Package model is the independent reference used by checks C04 and C05: a plain
// description of transactions / headers / blocks / P2P messages, a byte-level
// re-implementation of the two wire formats (Bytom's LEB128 "blockchain" format and
// go-wire's binary format) that keeps the tree of fields it wrote, and converters
// between the plain description and the implementation's types.
//
// Nothing in the encoders calls the implementation's encoders.
package model

import "encoding/binary"

// Length-prefix kinds of a Node.
const (
	PrefNone = iota
	PrefLEB  // Bytom varint31 byte-length prefix (varstr / extensible string)
	PrefWire // go-wire varint byte-length prefix (byteslice)
)

// Node is one element of an encoding: either a leaf (Raw) or a container (Kids),
// optionally preceded by the byte length of its content.
type Node struct {
	Name string // structural name, no indices (e.g. "tx.in.spend.amount")
	Kind string // flag, type, u63, count, hash, bytes, ext, list, msg, wu64, wcount
	Raw  []byte
	Val  uint64 // value of u63 / count leaves
	Kids []*Node
	Pref int
}

// Uvarint is the LEB128 encoding used by encoding/blockchain (written here from the format definition).
func Uvarint(v uint64) []byte {
	var out []byte
	for v >= 0x80 {
		out = append(out, byte(v)|0x80)
		v >>= 7
	}
	return append(out, byte(v))
}

// WireVarint is go-wire's signed varint: one size byte (0xF0 flag = negative) + big-endian magnitude.
func WireVarint(i int64) []byte {
	neg := i < 0
	u := uint64(i)
	if neg {
		u = uint64(-i)
	}
	var be [8]byte
	binary.BigEndian.PutUint64(be[:], u)
	k := 0
	for k < 8 && be[k] == 0 {
		k++
	}
	size := byte(8 - k)
	if neg {
		size |= 0xF0
	}
	return append([]byte{size}, be[k:]...)
}

func leaf(name, kind string, raw []byte) *Node { return &Node{Name: name, Kind: kind, Raw: raw} }

func u63(name string, v uint64) *Node {
	return &Node{Name: name, Kind: "u63", Raw: Uvarint(v), Val: v}
}

func count(name string, v int) *Node {
	return &Node{Name: name, Kind: "count", Raw: Uvarint(uint64(v)), Val: uint64(v)}
}

func hash32(name string, h [32]byte) *Node {
	b := make([]byte, 32)
	copy(b, h[:])
	return leaf(name, "hash", b)
}

// varstr: LEB128 length + bytes.
func varstr(name string, b []byte) *Node {
	return &Node{Name: name, Kind: "bytes", Pref: PrefLEB, Kids: []*Node{leaf(name+".data", "data", append([]byte{}, b...))}}
}

// ext: extensible string = LEB128 length + fields + suffix.
func ext(name string, suffix []byte, kids ...*Node) *Node {
	n := &Node{Name: name, Kind: "ext", Pref: PrefLEB, Kids: kids}
	if len(suffix) > 0 {
		n.Kids = append(n.Kids, leaf(name+".suffix", "data", append([]byte{}, suffix...)))
	}
	return n
}

func varstrList(name string, l [][]byte) *Node {
	n := &Node{Name: name, Kind: "list", Kids: []*Node{count(name+".count", len(l))}}
	for _, s := range l {
		n.Kids = append(n.Kids, varstr(name+".item", s))
	}
	return n
}

func group(name string, kids ...*Node) *Node { return &Node{Name: name, Kind: "group", Kids: kids} }

// Size is the encoded length of the node.
func (n *Node) Size() int {
	c := n.contentSize()
	switch n.Pref {
	case PrefLEB:
		return len(Uvarint(uint64(c))) + c
	case PrefWire:
		return len(WireVarint(int64(c))) + c
	}
	return c
}

func (n *Node) contentSize() int {
	if n.Kids == nil {
		return len(n.Raw)
	}
	c := 0
	for _, k := range n.Kids {
		c += k.Size()
	}
	return c
}

// AppendTo appends the encoding of the tree to dst.
func (n *Node) AppendTo(dst []byte) []byte {
	switch n.Pref {
	case PrefLEB:
		dst = append(dst, Uvarint(uint64(n.contentSize()))...)
	case PrefWire:
		dst = append(dst, WireVarint(int64(n.contentSize()))...)
	}
	if n.Kids == nil {
		return append(dst, n.Raw...)
	}
	for _, k := range n.Kids {
		dst = k.AppendTo(dst)
	}
	return dst
}

// Bytes serialises the tree.
func (n *Node) Bytes() []byte {
	return n.AppendTo(make([]byte, 0, 256))
}

// Field is a leaf or a length prefix located in the flat encoding.
type Field struct {
	Name string
	Kind string // leaf kinds, or "len" / "wlen" for length prefixes
	Off  int
	Len  int
	Val  uint64
	Node *Node
}

// Fields lists every leaf and every length prefix with its offset in n.Bytes().
func (n *Node) Fields() []Field {
	var out []Field
	n.flatten(0, &out)
	return out
}

func (n *Node) flatten(off int, out *[]Field) int {
	start := off
	if n.Pref != PrefNone {
		clen := n.contentSize()
		var p []byte
		kind := "len"
		if n.Pref == PrefLEB {
			p = Uvarint(uint64(clen))
		} else {
			p = WireVarint(int64(clen))
			kind = "wlen"
		}
		*out = append(*out, Field{Name: n.Name + ".len", Kind: kind, Off: off, Len: len(p), Val: uint64(clen), Node: n})
		off += len(p)
	}
	if n.Kids == nil {
		if n.Pref == PrefNone {
			*out = append(*out, Field{Name: n.Name, Kind: n.Kind, Off: off, Len: len(n.Raw), Val: n.Val, Node: n})
		} else if len(n.Raw) > 0 {
			*out = append(*out, Field{Name: n.Name + ".data", Kind: "data", Off: off, Len: len(n.Raw), Node: n})
		}
		off += len(n.Raw)
	} else {
		for _, k := range n.Kids {
			off += k.flatten(off, out)
		}
	}
	return off - start
}

// Leaves returns the leaf nodes in encoding order (for consistent, length-fixing replacement).
func (n *Node) Leaves() []*Node {
	if n.Kids == nil {
		return []*Node{n}
	}
	var out []*Node
	for _, k := range n.Kids {
		out = append(out, k.Leaves()...)
	}
	return out
}
