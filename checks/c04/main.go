// C04: encoding round-trips every well-formed ledger value.
//
// Every enumerated transaction / header / block is described in a plain model (package
// model), encoded by an independent byte-level re-implementation of the wire format and by
// the implementation, decoded by the implementation and read back into the plain model.
// Clauses (each with its own structural violation key):
//
//	decode(encode(v)) == v member-wise modulo nil == empty
//	re-encoding of the decoded value is byte-identical
//	ID (transaction id / block hash and all entry ids) unchanged
//	recorded SerializedSize == len(encoding)
//	text forms (hex MarshalText, the three block serialisation flags, JSON) round-trip
//	P2P wrappers (New*Message -> go-wire bytes -> reactor decodeMessage -> Get*) round-trip
//	implementation encoding == reference encoding
package main

import (
	"bytes"
	"crypto/sha256"
	"encoding/binary"
	"encoding/hex"
	"encoding/json"
	"fmt"
	"os"
	"regexp"
	"runtime"
	"runtime/pprof"
	"sort"
	"strings"

	wire "github.com/tendermint/go-wire"

	"github.com/bytom/bytom/netsync/chainmgr"
	"github.com/bytom/bytom/netsync/consensusmgr"
	msgs "github.com/bytom/bytom/netsync/messages"
	"github.com/bytom/bytom/protocol/bc"
	"github.com/bytom/bytom/protocol/bc/types"

	"verif/checks/c04/model"
	"verif/lib/ev"
)

var run *ev.Run
var stopProfile = func() {}

// pending violations are gathered per key (first case in enumeration order wins) and
// reported at the end in sorted order, so the report is deterministic.
var found = map[string]struct {
	what string
	c    interface{}
}{}

func report(key, what string, c interface{}) {
	if _, ok := found[key]; ok {
		return
	}
	if f, isF := c.(func() interface{}); isF {
		c = f() // descriptions are built lazily: only a failing case is written out
	}
	found[key] = struct {
		what string
		c    interface{}
	}{what, c}
}

var distinct = map[uint64]struct{}{}

// at most one written-out sample per enumeration class, so that the 12 samples show all kinds
var sampled = map[string]bool{}

func sample(class string, v map[string]interface{}) {
	if !sampled[class] {
		sampled[class] = true
		run.Sample(v)
	}
}

func noteDistinct(enc []byte, nontrivial bool) {
	if !nontrivial {
		return
	}
	h := sha256.Sum256(enc)
	distinct[binary.BigEndian.Uint64(h[:8])] = struct{}{}
}

func firstRepoFrame() string {
	pc := make([]uintptr, 64)
	n := runtime.Callers(3, pc)
	fr := runtime.CallersFrames(pc[:n])
	for {
		f, more := fr.Next()
		if strings.Contains(f.Function, "github.com/bytom/bytom/") {
			s := f.Function[strings.LastIndex(f.Function, "/")+1:]
			return strings.NewReplacer("(", "", ")", "", "*", "").Replace(s)
		}
		if !more {
			return "unknown"
		}
	}
}

// guard runs f and turns a panic into a violation naming the first repository frame.
func guard(ctx string, c interface{}, f func()) {
	defer func() {
		if r := recover(); r != nil {
			fn := firstRepoFrame()
			report("panic-"+fn, fmt.Sprintf("%s: panic %v in %s", ctx, r, fn), c)
			run.Outcome("panic")
		}
	}()
	f()
}

var (
	reTxPrefix = regexp.MustCompile(`reading transaction \d+: `)
	reDigits   = regexp.MustCompile(`\d+`)
	reNonAlnum = regexp.MustCompile(`[^a-z0-9N]+`)
)

// errKey turns a decoder error into a structural key: the same decoding failure reached
// through the text form, JSON, a block or any P2P wrapper gets the same key.
func errKey(err error) string {
	t := reTxPrefix.ReplaceAllString(err.Error(), "")
	t = reDigits.ReplaceAllString(t, "N")
	t = strings.Trim(reNonAlnum.ReplaceAllString(strings.ToLower(t), "-"), "-")
	if len(t) > 70 {
		t = t[:70]
	}
	return "decode-error-" + t
}

func fieldAt(root *model.Node, off int) string {
	name := "end-of-encoding"
	for _, f := range root.Fields() {
		if off >= f.Off && off < f.Off+f.Len {
			return f.Name
		}
		if f.Off <= off {
			name = "after-" + f.Name
		}
	}
	return name
}

func firstDiff(a, b []byte) int {
	n := len(a)
	if len(b) < n {
		n = len(b)
	}
	for i := 0; i < n; i++ {
		if a[i] != b[i] {
			return i
		}
	}
	return n
}

func describeTx(m *model.Tx) interface{} {
	return func() interface{} {
		return map[string]interface{}{"tx": m, "reference_encoding": hex.EncodeToString(model.EncTx(m).Bytes())}
	}
}

type txRef struct {
	m    *model.Tx
	ref  []byte // reference encoding
	data types.TxData
	tx   *types.Tx
}

func prepTx(m *model.Tx) *txRef {
	for i := range m.Ins {
		m.Ins[i].Fill()
	}
	ref := model.EncTx(m).Bytes()
	data := m.ToImpl(uint64(len(ref)))
	return &txRef{m: m, ref: ref, data: data, tx: types.NewTx(data)}
}

// sameTx checks the statement's clauses for a decoded transaction against the original.
func sameTx(ctx string, got *types.Tx, want *txRef, enc []byte) bool {
	ok := true
	bad := func(key, what string) {
		ok = false
		report(key, ctx+": "+what, describeTx(want.m))
	}
	m2, err := model.TxFromImpl(&got.TxData)
	if err != nil {
		bad("tx-decoded-value-malformed", err.Error())
		return false
	}
	if d := model.DiffTx(want.m, &m2); len(d) > 0 {
		sort.Strings(d)
		// the later clauses would only repeat this difference under other names
		bad("roundtrip-field-"+d[0], fmt.Sprintf("decode(encode(v)) differs from v in %v", d))
		return false
	}
	if got.SerializedSize != uint64(len(enc)) {
		bad("tx-serializedsize", fmt.Sprintf("decoded SerializedSize %d, encoding has %d bytes", got.SerializedSize, len(enc)))
	}
	var buf bytes.Buffer
	if _, err := got.TxData.WriteTo(&buf); err != nil {
		bad("tx-reencode-error", err.Error())
	} else if !bytes.Equal(buf.Bytes(), enc) {
		bad("tx-reencode-differs-at-"+fieldAt(model.EncTx(want.m), firstDiff(buf.Bytes(), enc)), fmt.Sprintf("re-encoding differs at byte %d", firstDiff(buf.Bytes(), enc)))
	}
	if got.Tx == nil {
		bad("tx-decoded-without-entries", "decoded Tx has nil bc.Tx")
		return false
	}
	if got.ID != want.tx.ID {
		bad("tx-id-changed", fmt.Sprintf("ID %s became %s", want.tx.ID.String(), got.ID.String()))
	}
	if len(got.InputIDs) != len(want.tx.InputIDs) || len(got.ResultIds) != len(want.tx.ResultIds) {
		bad("tx-entry-ids-changed", "number of input / result ids changed")
	} else {
		for i := range got.InputIDs {
			if got.InputIDs[i] != want.tx.InputIDs[i] {
				bad("tx-entry-ids-changed", fmt.Sprintf("input id %d changed", i))
			}
		}
		for i := range got.ResultIds {
			if *got.ResultIds[i] != *want.tx.ResultIds[i] {
				bad("tx-entry-ids-changed", fmt.Sprintf("result id %d changed", i))
			}
		}
	}
	return ok
}

func wireBytes(msg msgs.BlockchainMessage) []byte {
	return wire.BinaryBytes(struct{ msgs.BlockchainMessage }{msg})
}

// viaWire sends a chain message through go-wire and the reactor's decoder and compares the
// bytes on the wire with the reference wire encoding.
func viaWire(ctx string, msg msgs.BlockchainMessage, c interface{}) msgs.BlockchainMessage {
	bz := wireBytes(msg)
	wm, err := model.WMsgOf(msg)
	if err != nil {
		ev.Fatal("%v", err)
	}
	root := model.EncWire(wm)
	if ref := root.Bytes(); !bytes.Equal(ref, bz) {
		report("wire-encoding-differs-from-reference-at-"+fieldAt(root, firstDiff(ref, bz)), ctx+": go-wire bytes differ from the reference wire encoding", c)
	}
	typ, got, err := chainmgr.VerifDecodeMessage(bz)
	if err != nil || got == nil {
		report("wire-decode-error-"+wm.Name, fmt.Sprintf("%s: decodeMessage(encode(msg)) = %v, %v", ctx, got, err), c)
		return nil
	}
	if typ != wm.Type {
		report("wire-type-byte-"+wm.Name, fmt.Sprintf("%s: type byte %#x, want %#x", ctx, typ, wm.Type), c)
	}
	if fmt.Sprintf("%T", got) != fmt.Sprintf("%T", msg) {
		report("wire-decoded-type-"+wm.Name, fmt.Sprintf("%s: decoded %T, sent %T", ctx, got, msg), c)
		return nil
	}
	if bz2 := wireBytes(got); !bytes.Equal(bz2, bz) {
		report("wire-reencode-differs-"+wm.Name, ctx+": decoded message re-encodes differently", c)
	}
	run.Add("wire_roundtrips", 1)
	return got
}

func viaWireConsensus(ctx string, msg consensusmgr.ConsensusMessage, c interface{}) consensusmgr.ConsensusMessage {
	bz := wire.BinaryBytes(consensusmgr.VerifWrap(msg))
	wm, err := model.WMsgOf(msg)
	if err != nil {
		ev.Fatal("%v", err)
	}
	root := model.EncWire(wm)
	if ref := root.Bytes(); !bytes.Equal(ref, bz) {
		report("wire-encoding-differs-from-reference-at-"+fieldAt(root, firstDiff(ref, bz)), ctx+": go-wire bytes differ from the reference wire encoding", c)
	}
	typ, got, err := consensusmgr.VerifDecodeMessage(bz)
	if err != nil || got == nil {
		report("wire-decode-error-"+wm.Name, fmt.Sprintf("%s: decodeMessage(encode(msg)) = %v, %v", ctx, got, err), c)
		return nil
	}
	if typ != wm.Type || fmt.Sprintf("%T", got) != fmt.Sprintf("%T", msg) {
		report("wire-decoded-type-"+wm.Name, fmt.Sprintf("%s: decoded %T type byte %#x", ctx, got, typ), c)
		return nil
	}
	if bz2 := wire.BinaryBytes(consensusmgr.VerifWrap(got)); !bytes.Equal(bz2, bz) {
		report("wire-reencode-differs-"+wm.Name, ctx+": decoded message re-encodes differently", c)
	}
	run.Add("wire_roundtrips", 1)
	return got
}

// checkTx runs every clause on one transaction. class names the enumeration family.
func checkTx(class string, m *model.Tx, wrappers bool) {
	run.Add("evaluations", 1)
	run.Add("tx_values", 1)
	guard("tx "+class, describeTx(m), func() {
		w := prepTx(m)
		noteDistinct(w.ref, len(m.Ins)+len(m.Outs) > 0)
		ok := true
		var buf bytes.Buffer
		n, err := w.data.WriteTo(&buf)
		if err != nil {
			report("tx-encode-error", "WriteTo: "+err.Error(), describeTx(m))
			run.Outcome("tx-encode-error")
			return
		}
		enc := buf.Bytes()
		if int(n) != len(enc) {
			report("tx-writeto-count", fmt.Sprintf("WriteTo reported %d bytes, wrote %d", n, len(enc)), describeTx(m))
			ok = false
		}
		text, err := w.tx.MarshalText()
		if err != nil {
			report("tx-encode-error", "MarshalText: "+err.Error(), describeTx(m))
			return
		}
		if string(text) != hex.EncodeToString(enc) {
			report("tx-text-not-hex-of-binary", "MarshalText is not the hex form of WriteTo", describeTx(m))
			ok = false
		}
		got := &types.Tx{}
		if err := got.UnmarshalText(text); err != nil {
			report(errKey(err), "tx UnmarshalText(MarshalText(v)): "+err.Error(), describeTx(m))
			run.Outcome("tx-decode-error")
			return
		}
		if !sameTx("tx text form", got, w, enc) {
			run.Outcome("violation:" + class)
			return
		}
		// JSON string form of TxData (RPC)
		js, err := json.Marshal(&w.data)
		var back types.TxData
		if err != nil {
			report("tx-json-error", err.Error(), describeTx(m))
			ok = false
		} else if err := json.Unmarshal(js, &back); err != nil {
			report(errKey(err), "tx json form: "+err.Error(), describeTx(m))
			ok = false
		} else if !sameTx("tx json form", types.NewTx(back), w, enc) {
			ok = false
		}
		if wrappers {
			tm, err := msgs.NewTransactionMessage(w.tx)
			if err != nil {
				report("msg-construct-error-transaction", err.Error(), describeTx(m))
				ok = false
			} else if g := viaWire("TransactionMessage", tm, describeTx(m)); g != nil {
				t2, err := g.(*msgs.TransactionMessage).GetTransaction()
				if err != nil {
					report(errKey(err), "TransactionMessage.GetTransaction: "+err.Error(), describeTx(m))
					ok = false
				} else if !sameTx("TransactionMessage", t2, w, enc) {
					ok = false
				}
			}
		}
		if ok && !bytes.Equal(enc, w.ref) {
			root := model.EncTx(m)
			report("tx-encoding-differs-from-reference-at-"+fieldAt(root, firstDiff(enc, w.ref)),
				fmt.Sprintf("implementation encoding %x", enc), describeTx(m))
			ok = false
		}
		if ok {
			run.Outcome("ok:" + class)
			if len(m.Ins) > 0 {
				sample(class, map[string]interface{}{"class": class, "encoding": hex.EncodeToString(enc), "id": w.tx.ID.String()})
			}
		} else {
			run.Outcome("violation:" + class)
		}
	})
}

func headerClauses(ctx string, got *types.BlockHeader, want *model.Header, wantHash bc.Hash, c interface{}) bool {
	ok := true
	h2, err := model.HeaderFromImpl(got)
	if err != nil {
		report("header-decoded-value-malformed", ctx+": "+err.Error(), c)
		return false
	}
	if d := model.DiffHeader(want, &h2); len(d) > 0 {
		sort.Strings(d)
		report("roundtrip-field-"+d[0], fmt.Sprintf("%s: decode(encode(v)) differs from v in %v", ctx, d), c)
		ok = false
	}
	if got.Hash() != wantHash {
		report("header-hash-changed", ctx+": block hash changed", c)
		ok = false
	}
	return ok
}

func checkHeader(class string, h *model.Header) {
	run.Add("evaluations", 1)
	run.Add("header_values", 1)
	c := map[string]interface{}{"header": h}
	guard("header "+class, c, func() {
		root := model.EncHeader(h, 1)
		ref := root.Bytes()
		nsig := 0
		for _, s := range h.Sups {
			for _, g := range s.Sigs {
				if len(g) > 0 {
					nsig++
				}
			}
		}
		noteDistinct(ref, len(h.Witness) > 0 || len(h.Sups) > 0)
		bh := h.ToImpl()
		hash := bh.Hash()
		ok := true
		var buf bytes.Buffer
		if _, err := bh.WriteTo(&buf); err != nil {
			report("header-encode-error", err.Error(), c)
			return
		}
		enc := buf.Bytes()
		text, err := bh.MarshalText()
		if err != nil {
			report("header-encode-error", err.Error(), c)
			return
		}
		if string(text) != hex.EncodeToString(enc) {
			report("header-text-not-hex-of-binary", "MarshalText is not the hex form of WriteTo", c)
			ok = false
		}
		var got types.BlockHeader
		if err := got.UnmarshalText(text); err != nil {
			report(errKey(err), "header UnmarshalText(MarshalText(v)): "+err.Error(), c)
			run.Outcome("header-decode-error")
			return
		}
		if !headerClauses("header text form", &got, h, hash, c) {
			ok = false
		}
		buf.Reset()
		got.WriteTo(&buf)
		if !bytes.Equal(buf.Bytes(), enc) {
			report("header-reencode-differs-at-"+fieldAt(root, firstDiff(buf.Bytes(), enc)), "re-encoding differs", c)
			ok = false
		}
		// JSON (used by HeadersMessage)
		hm, err := msgs.NewHeadersMessage([]*types.BlockHeader{&bh})
		if err != nil {
			report("msg-construct-error-headers", err.Error(), c)
			ok = false
		} else if g := viaWire("HeadersMessage", hm, c); g != nil {
			hs, err := g.(*msgs.HeadersMessage).GetHeaders()
			if err != nil {
				report(errKey(err), "HeadersMessage.GetHeaders: "+err.Error(), c)
				ok = false
			} else if len(hs) != 1 {
				report("msg-getter-count-headers", fmt.Sprintf("GetHeaders: %d headers", len(hs)), c)
				ok = false
			} else if !headerClauses("HeadersMessage", hs[0], h, hash, c) {
				ok = false
			}
		}
		if ok && !bytes.Equal(enc, ref) {
			report("header-encoding-differs-from-reference-at-"+fieldAt(root, firstDiff(enc, ref)), fmt.Sprintf("implementation encoding %x", enc), c)
			ok = false
		}
		if ok {
			run.Outcome(fmt.Sprintf("ok:%s", class))
			if nsig > 0 {
				sample(class, map[string]interface{}{"class": class, "encoding": hex.EncodeToString(enc), "hash": hash.String()})
			}
		} else {
			run.Outcome("violation:" + class)
		}
	})
}

func checkBlock(class string, b *model.Block) {
	run.Add("evaluations", 1)
	run.Add("block_values", 1)
	c := map[string]interface{}{"block": b}
	guard("block "+class, c, func() {
		var refs []*txRef
		blk := &types.Block{BlockHeader: b.Header.ToImpl()}
		if b.Txs != nil {
			blk.Transactions = []*types.Tx{}
		}
		for i := range b.Txs {
			w := prepTx(&b.Txs[i])
			refs = append(refs, w)
			blk.Transactions = append(blk.Transactions, w.tx)
		}
		hash := blk.Hash()
		root3 := model.EncBlock(b, 3)
		ref3 := root3.Bytes()
		noteDistinct(ref3, len(b.Txs) > 0)
		ok := true
		bad := func(key, what string) {
			ok = false
			report(key, what, c)
		}
		blockClauses := func(ctx string, got *types.Block, wantHeader bool, wantTxs bool) {
			if got == nil {
				bad("block-decoded-nil", ctx+": nil block")
				return
			}
			if wantHeader {
				if !headerClauses(ctx, &got.BlockHeader, &b.Header, hash, c) {
					ok = false
				}
			} else {
				zero := types.BlockHeader{}
				zh, _ := model.HeaderFromImpl(&zero)
				gh, _ := model.HeaderFromImpl(&got.BlockHeader)
				if len(model.DiffHeader(&zh, &gh)) > 0 {
					bad("block-txonly-form-header-not-empty", ctx+": transactions-only form decoded with a non-zero header")
				}
			}
			if !wantTxs {
				if len(got.Transactions) != 0 {
					bad("block-headeronly-form-has-txs", ctx+": header-only form decoded with transactions")
				}
				return
			}
			if len(got.Transactions) != len(refs) {
				bad("roundtrip-field-block.tx.count", fmt.Sprintf("%s: %d transactions decoded, %d encoded", ctx, len(got.Transactions), len(refs)))
				return
			}
			for i, t := range got.Transactions {
				if !sameTx(ctx, t, refs[i], refs[i].ref) {
					ok = false
				}
			}
		}
		forms := []struct {
			name   string
			flag   byte
			enc    func() ([]byte, error)
			hd, tx bool
		}{
			{"full", 3, blk.MarshalText, true, true},
			{"header-only", 1, blk.MarshalTextForBlockHeader, true, false},
			{"transactions-only", 2, blk.MarshalTextForTransactions, false, true},
		}
		var fullText []byte
		for _, f := range forms {
			text, err := f.enc()
			if err != nil {
				bad("block-encode-error", f.name+": "+err.Error())
				continue
			}
			if f.flag == 3 {
				fullText = text
			}
			rootF := model.EncBlock(b, f.flag)
			refF := rootF.Bytes()
			got := &types.Block{}
			if err := got.UnmarshalText(text); err != nil {
				bad(errKey(err), "block "+f.name+" form: "+err.Error())
				continue
			}
			blockClauses("block "+f.name+" form", got, f.hd, f.tx)
			// re-encode in the same form
			var re []byte
			switch f.flag {
			case 3:
				re, _ = got.MarshalText()
			case 1:
				re, _ = got.MarshalTextForBlockHeader()
			case 2:
				re, _ = got.MarshalTextForTransactions()
			}
			if !bytes.Equal(re, text) {
				bad("block-reencode-differs-"+f.name, "re-encoding differs")
			}
			if f.hd {
				// a BlockHeader can be read from the header-only and the full form
				var bh types.BlockHeader
				if err := bh.UnmarshalText(text); err != nil {
					bad(errKey(err), "header read from block "+f.name+" form: "+err.Error())
				} else if !headerClauses("header from block "+f.name+" form", &bh, &b.Header, hash, c) {
					ok = false
				}
			}
			if ok && string(text) != hex.EncodeToString(refF) {
				dec, _ := hex.DecodeString(string(text))
				bad("block-encoding-differs-from-reference-at-"+fieldAt(rootF, firstDiff(dec, refF)), f.name+" form differs from the reference encoding")
			}
		}
		if fullText == nil {
			return
		}
		// WriteTo
		var buf bytes.Buffer
		if n, err := blk.WriteTo(&buf); err != nil || int(n) != buf.Len() || hex.EncodeToString(buf.Bytes()) != string(fullText) {
			bad("block-writeto-differs-from-text", fmt.Sprintf("WriteTo n=%d err=%v", n, err))
		}
		// JSON
		js, err := json.Marshal(blk)
		if err != nil {
			bad("block-json-error", err.Error())
		} else {
			got := &types.Block{}
			if err := json.Unmarshal(js, got); err != nil {
				bad(errKey(err), "block json form: "+err.Error())
			} else {
				blockClauses("block json form", got, true, true)
			}
		}
		// P2P wrappers
		if bm, err := msgs.NewBlockMessage(blk); err != nil {
			bad("msg-construct-error-block", err.Error())
		} else if g := viaWire("BlockMessage", bm, c); g != nil {
			got, err := g.(*msgs.BlockMessage).GetBlock()
			if err != nil {
				bad(errKey(err), "BlockMessage.GetBlock: "+err.Error())
			} else {
				blockClauses("BlockMessage", got, true, true)
			}
		}
		if mm, err := msgs.NewMinedBlockMessage(blk); err != nil {
			bad("msg-construct-error-mineblock", err.Error())
		} else if g := viaWire("MineBlockMessage", mm, c); g != nil {
			got, err := g.(*msgs.MineBlockMessage).GetMineBlock()
			if err != nil {
				bad(errKey(err), "MineBlockMessage.GetMineBlock: "+err.Error())
			} else {
				blockClauses("MineBlockMessage", got, true, true)
			}
		}
		if bsm, err := msgs.NewBlocksMessage([]*types.Block{blk, blk}); err != nil {
			bad("msg-construct-error-blocks", err.Error())
		} else if g := viaWire("BlocksMessage", bsm, c); g != nil {
			got, err := g.(*msgs.BlocksMessage).GetBlocks()
			if err != nil {
				bad(errKey(err), "BlocksMessage.GetBlocks: "+err.Error())
			} else if len(got) != 2 {
				bad("msg-getter-count-blocks", fmt.Sprintf("%d blocks", len(got)))
			} else {
				blockClauses("BlocksMessage[0]", got[0], true, true)
				blockClauses("BlocksMessage[1]", got[1], true, true)
			}
		}
		if pm, err := consensusmgr.NewBlockProposeMsg(blk); err != nil {
			bad("msg-construct-error-blockpropose", err.Error())
		} else if g := viaWireConsensus("BlockProposeMsg", pm, c); g != nil {
			got, err := g.(*consensusmgr.BlockProposeMsg).GetProposeBlock()
			if err != nil {
				bad(errKey(err), "BlockProposeMsg.GetProposeBlock: "+err.Error())
			} else {
				blockClauses("BlockProposeMsg", got, true, true)
			}
		}
		// TransactionsMessage and MerkleBlockMessage carry the block's transactions
		if tsm, err := msgs.NewTransactionsMessage(blk.Transactions); err != nil {
			bad("msg-construct-error-transactions", err.Error())
		} else if g := viaWire("TransactionsMessage", tsm, c); g != nil {
			got, err := g.(*msgs.TransactionsMessage).GetTransactions()
			if err != nil {
				bad(errKey(err), "TransactionsMessage.GetTransactions: "+err.Error())
			} else if len(got) != len(refs) {
				bad("msg-getter-count-transactions", fmt.Sprintf("%d txs", len(got)))
			} else {
				for i, t := range got {
					if !sameTx("TransactionsMessage", t, refs[i], refs[i].ref) {
						ok = false
					}
				}
			}
		}
		mb := msgs.NewMerkleBlockMessage()
		var ids []*bc.Hash
		for _, t := range blk.Transactions {
			id := t.ID
			ids = append(ids, &id)
		}
		if err := mb.SetRawBlockHeader(blk.BlockHeader); err != nil {
			bad("msg-construct-error-merkleblock", err.Error())
		} else if err := mb.SetTxInfo(ids, []uint8{1, 0, 2}, blk.Transactions); err != nil {
			bad("msg-construct-error-merkleblock", err.Error())
		} else if g := viaWire("MerkleBlockMessage", mb, c); g != nil {
			gm := g.(*msgs.MerkleBlockMessage)
			var bh types.BlockHeader
			if err := bh.UnmarshalText(gm.RawBlockHeader); err != nil {
				bad(errKey(err), "MerkleBlockMessage header: "+err.Error())
			} else if !headerClauses("MerkleBlockMessage header", &bh, &b.Header, hash, c) {
				ok = false
			}
			if len(gm.RawTxDatas) != len(refs) || len(gm.TxHashes) != len(refs) {
				bad("msg-getter-error-merkleblock", "transaction count changed")
			} else {
				for i, raw := range gm.RawTxDatas {
					t := &types.Tx{}
					if err := t.UnmarshalText(raw); err != nil {
						bad(errKey(err), "MerkleBlockMessage tx: "+err.Error())
					} else if !sameTx("MerkleBlockMessage", t, refs[i], refs[i].ref) {
						ok = false
					}
					if bc.NewHash(gm.TxHashes[i]) != refs[i].tx.ID {
						bad("msg-merkleblock-txhash-changed", "tx hash changed")
					}
				}
			}
		}
		if ok {
			run.Outcome("ok:" + class)
			if len(b.Txs) > 0 {
				sample(class, map[string]interface{}{"class": class, "encoding": string(fullText), "hash": hash.String()})
			}
		} else {
			run.Outcome("violation:" + class)
		}
	})
}

// fixed-layout messages: nothing but the wire wrapper to round-trip
func checkPlainMessages() {
	hv := model.HashVals()
	iv := model.IntVals()
	lists := [][][32]byte{nil, {}, {hv[0]}, {hv[1], hv[2]}, {hv[0], hv[1], hv[2]}}
	for _, v := range append(iv, 1<<64-1) {
		for _, h := range hv {
			for _, m := range []msgs.BlockchainMessage{
				&msgs.GetBlockMessage{Height: v, RawHash: h},
				&msgs.GetMerkleBlockMessage{Height: v, RawHash: h},
				&msgs.StatusMessage{BestHeight: v, BestHash: h, JustifiedHeight: v / 2, JustifiedHash: hv[0]},
			} {
				run.Add("evaluations", 1)
				m := m
				guard("plain message", m, func() {
					g := viaWire(fmt.Sprintf("%T", m), m, m)
					if g != nil && fmt.Sprintf("%+v", g) != fmt.Sprintf("%+v", m) {
						report(fmt.Sprintf("wire-roundtrip-value-%T", m), "decoded message differs", m)
					} else if g != nil {
						run.Outcome("ok:plain-message")
					}
				})
			}
			for _, l := range lists {
				for _, m := range []msgs.BlockchainMessage{
					&msgs.GetHeadersMessage{RawBlockLocator: l, RawStopHash: h, Skip: v},
					&msgs.GetBlocksMessage{RawBlockLocator: l, RawStopHash: h},
				} {
					run.Add("evaluations", 1)
					m := m
					guard("locator message", m, func() {
						g := viaWire(fmt.Sprintf("%T", m), m, m)
						if g == nil {
							return
						}
						var a, b []*bc.Hash
						var sa, sb *bc.Hash
						switch x := g.(type) {
						case *msgs.GetHeadersMessage:
							a, sa = x.GetBlockLocator(), x.GetStopHash()
							b, sb = m.(*msgs.GetHeadersMessage).GetBlockLocator(), m.(*msgs.GetHeadersMessage).GetStopHash()
							if x.GetSkip() != v {
								report("wire-roundtrip-value-getheaders-skip", "skip changed", m)
							}
						case *msgs.GetBlocksMessage:
							a, sa = x.GetBlockLocator(), x.GetStopHash()
							b, sb = m.(*msgs.GetBlocksMessage).GetBlockLocator(), m.(*msgs.GetBlocksMessage).GetStopHash()
						}
						same := len(a) == len(b) && len(a) == len(l) && *sa == *sb && *sa == bc.NewHash(h)
						for i := 0; same && i < len(a); i++ {
							same = *a[i] == *b[i] && *a[i] == bc.NewHash(l[i])
						}
						if !same {
							report("wire-roundtrip-value-locator", "block locator / stop hash changed", m)
						} else {
							run.Outcome("ok:locator-message")
						}
					})
				}
			}
		}
	}
	bv := model.ByteVals()
	for _, a := range bv {
		for _, m := range []msgs.BlockchainMessage{&msgs.FilterAddMessage{Address: a}, &msgs.FilterLoadMessage{Addresses: [][]byte{a, bv[0]}}, &msgs.FilterClearMessage{}} {
			run.Add("evaluations", 1)
			m := m
			guard("filter message", m, func() {
				if g := viaWire(fmt.Sprintf("%T", m), m, m); g != nil {
					run.Outcome("ok:filter-message")
				}
			})
		}
		for _, s := range bv[:4] {
			hh := model.HashVals()
			cm := consensusmgr.NewBlockVerificationMsg(bc.NewHash(hh[0]), bc.NewHash(hh[2]), a, s)
			run.Add("evaluations", 1)
			guard("verification message", cm, func() {
				if g := viaWireConsensus("BlockVerificationMsg", cm, cm); g != nil {
					x, y := g.(*consensusmgr.BlockVerificationMsg), cm.(*consensusmgr.BlockVerificationMsg)
					if x.SourceHash != y.SourceHash || x.TargetHash != y.TargetHash || !bytes.Equal(x.PubKey, y.PubKey) || !bytes.Equal(x.Signature, y.Signature) {
						report("wire-roundtrip-value-blockverification", "decoded message differs", cm)
					} else {
						run.Outcome("ok:verification-message")
					}
				}
			})
		}
	}
}

func main() {
	run = ev.Start("C04", "exploration")
	if p := os.Getenv("VERIF_CPUPROFILE"); p != "" {
		if f, err := os.Create(p); err == nil {
			pprof.StartCPUProfile(f)
			stopProfile = pprof.StopCPUProfile
		}
	}
	k := run.Pick(2, 3)        // members deviating from the base value at once
	maxShape := run.Pick(2, 3) // inputs / outputs per transaction in the shape product
	maxBlockTx := run.Pick(2, 3)
	run.Set("field_deviation_bound", k)
	run.Set("max_inputs_outputs", maxShape)

	// 1. member sweeps of every typed input and output
	for kind := 0; kind < 4 && !run.OutOfTime(); kind++ {
		class := "tx-in-" + model.InKindName[kind]
		model.Sweep(model.BaseIn(kind), model.InSpecs(kind), k, func(in model.In) {
			t := model.Tx{Version: 1, Ins: []model.In{in}, Outs: []model.Out{model.BaseOut(model.KOriginal)}}
			checkTx(class, &t, run.Get("tx_values")%8 == 0)
		})
	}
	for kind := 0; kind < 2 && !run.OutOfTime(); kind++ {
		class := "tx-out-" + model.OutKindName[kind]
		model.Sweep(model.BaseOut(kind), model.OutSpecs(kind), k+1, func(o model.Out) {
			t := model.Tx{Version: 1, Ins: []model.In{model.BaseIn(model.KSpend)}, Outs: []model.Out{o}}
			checkTx(class, &t, run.Get("tx_values")%8 == 0)
		})
	}
	// 2. every shape of 0..maxShape inputs x 0..maxShape outputs over the variant pools, with the
	//    nil / empty distinction of both lists, and version x time range over the integer set
	ip, op := model.InPool(), model.OutPool()
	iv := model.IntVals()
	model.Seqs(len(ip), maxShape, true, func(is []int) {
		if run.OutOfTime() {
			return
		}
		model.Seqs(len(op), maxShape, true, func(os []int) {
			t := model.Tx{Version: 1, TimeRange: 0}
			if is != nil {
				t.Ins = []model.In{}
			}
			if os != nil {
				t.Outs = []model.Out{}
			}
			for _, i := range is {
				t.Ins = append(t.Ins, ip[i])
			}
			for _, o := range os {
				t.Outs = append(t.Outs, op[o])
			}
			checkTx("tx-shape", &t, true)
			if len(is) <= 1 && len(os) <= 1 {
				for _, v := range iv {
					for _, tr := range iv {
						t2 := t
						t2.Version, t2.TimeRange = v, tr
						checkTx("tx-version-timerange", &t2, false)
					}
				}
			}
		})
	})
	// 3. headers: integer members x witness x supLink sets (0..3 links, slot patterns none/first/last/all)
	bvW := append(model.ByteVals(), model.Pat(64, 33))
	var supSets [][]model.Sup
	model.Seqs(4, 3, true, func(ps []int) {
		var s []model.Sup
		if ps != nil {
			s = []model.Sup{}
		}
		for i, p := range ps {
			s = append(s, model.MakeSup(p, i, 64))
		}
		supSets = append(supSets, s)
	})
	oneByteSig := []model.Sup{model.MakeSup(3, 1, 1), model.MakeSup(1, 2, 255)}
	oneByteSig[0].SourceHeight = 1<<63 - 1
	supSets = append(supSets, oneByteSig)
	run.Set("suplink_sets", len(supSets))
	hSpecs := []model.Spec[model.Header]{
		{"version", len(iv), func(h *model.Header, i int) { h.Version = iv[i] }},
		{"height", len(iv), func(h *model.Header, i int) { h.Height = iv[i] }},
		{"timestamp", len(iv), func(h *model.Header, i int) { h.Timestamp = iv[i] }},
		{"prev", 3, func(h *model.Header, i int) { h.Prev = model.HashVals()[i] }},
		{"txroot", 3, func(h *model.Header, i int) { h.Root = model.HashVals()[i] }},
		{"witness", len(bvW), func(h *model.Header, i int) { h.Witness = bvW[(i+len(bvW)-1)%len(bvW)] }},
	}
	for _, ss := range supSets {
		if run.OutOfTime() {
			break
		}
		base := model.BaseHeader()
		base.Sups = ss
		emit := func(h model.Header) { checkHeader("header", &h) }
		if run.Thorough() {
			model.Sweep(base, hSpecs, 3, emit)
		} else {
			model.Sweep(base, hSpecs, 1, emit)
		}
	}
	if !run.OutOfTime() {
		model.Sweep(model.BaseHeader(), hSpecs, k+1, func(h model.Header) { checkHeader("header-members", &h) })
	}
	// 4. blocks of 0..maxBlockTx transactions over a transaction pool x header variants
	var txPool []model.Tx
	for kind := 0; kind < 4; kind++ {
		txPool = append(txPool, model.Tx{Version: 1, TimeRange: uint64(kind), Ins: []model.In{model.RichIn(kind)}, Outs: []model.Out{model.RichOut(kind % 2)}})
	}
	txPool = append(txPool,
		model.Tx{Version: 1, Ins: []model.In{model.BaseIn(model.KCoinbase)}, Outs: []model.Out{model.BaseOut(model.KOriginal)}},
		model.Tx{Version: 128},
		model.Tx{Version: 1, Ins: []model.In{ip[2], ip[3], ip[6]}, Outs: []model.Out{op[0], op[3], op[4]}})
	hdrs := []model.Header{model.BaseHeader(), {}, model.BaseHeader()}
	hdrs[2].Sups = supSets[len(supSets)-2]
	hdrs[2].Height, hdrs[2].Timestamp = 1<<63-1, 1<<31
	for hi := range hdrs {
		model.Seqs(len(txPool), maxBlockTx, true, func(ts []int) {
			if run.OutOfTime() {
				return
			}
			b := model.Block{Header: hdrs[hi]}
			if ts != nil {
				b.Txs = []model.Tx{}
			}
			for _, t := range ts {
				b.Txs = append(b.Txs, txPool[t])
			}
			checkBlock("block", &b)
		})
	}
	// 5. fixed-layout P2P messages
	checkPlainMessages()
	// 6. nested serialisation: pooled scratch buffers must not be shared between two encodings
	checkNested(run.Thorough())

	keys := make([]string, 0, len(found))
	for key := range found {
		keys = append(keys, key)
	}
	sort.Strings(keys)
	for _, key := range keys {
		run.Violation(key, found[key].what, found[key].c)
	}
	stopProfile()
	run.Set("distinct_nontrivial", len(distinct))
	run.Set("rule", "values are enumerated, never drawn: (1) for each typed input and output, every assignment in which at most field_deviation_bound members leave their base value, each member ranging over its full value set (byte strings nil/empty/1/75/76/127/128/255/256 bytes, lists nil/empty/[empty]/2-3 items, integers 0,1,127,128,16383,16384,2^31-1,2^31,2^63-1, three hashes, all suffixes); (2) every sequence of 0..max_inputs_outputs inputs x outputs over pools of 8 input and 5 output variants incl. nil vs empty lists, plus version x time range; (3) headers: member sweeps x every supLink set of 0..3 links with signature-slot pattern none/first/last/all; (4) blocks of 0..3 pooled transactions x 3 headers through the three serialisation flags, JSON and every P2P wrapper; (5) fixed-layout messages; (6) nested serialisation: for every ordered pair (A,B) of a corpus of transactions / headers / blocks (nested_corpus values, with and without suffixes) and every k in 1..writes(A), A is serialised into a writer whose k-th Write call first serialises B completely (MarshalText and WriteTo) - the bytes of both must equal their undisturbed and reference encodings and decode to equal values with equal ids (nested_pairs, nested_boundaries). distinct_nontrivial = number of distinct reference encodings of values that have at least one input or output (tx), a witness or supLink (header), a transaction (block)")
	run.Assume("well-formed means: asset version 1 and VM version 1 on spends and outputs (what the constructors NewSpendInput / NewOriginalTxOutput / ... produce; the decoder rejects other VM versions by design), SerializedSize set to the length of the encoding")
	run.Assume("bc.ComputeAssetID (issuance asset id derivation) and the entry hashing in MapTx are trusted; ids are compared before/after, not recomputed (C03 covers what the id commits to)")
	run.Assume("go-wire itself is a dependency; its output is compared with a byte-level reference of the go-wire binary format")
	run.Finish()
}
