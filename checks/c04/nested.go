package main

// Sub-check "nested serialisation": the encoders use pooled scratch buffers
// (encoding/bufpool). A buffer handed back to the pool while its bytes are still to be copied
// out is invisible to one serialisation at a time, but a second serialisation that takes the
// same buffer in between makes the first emit foreign bytes. sync.Pool returns a buffer Put by
// a goroutine to the same goroutine's next Get, so the overlap is reproduced without threads:
// value A is serialised into a writer whose k-th Write call first serialises value B
// completely (MarshalText and WriteTo) and only then copies its argument. Enumerated: every
// ordered pair (A, B) of a corpus x every k = 1..(number of Write calls of A).

import (
	"bytes"
	"encoding/hex"
	"fmt"
	"io"

	"github.com/bytom/bytom/protocol/bc/types"

	"verif/checks/c04/model"
)

type nval struct {
	name    string
	kind    string
	root    *model.Node
	ref     []byte // reference encoding
	writeTo func(w io.Writer) error
	text    func() ([]byte, error)
	decode  func(ctx string, text []byte) bool // decodes and applies the round-trip clauses
	desc    interface{}
}

type nestWriter struct {
	buf  bytes.Buffer
	n, k int
	hook func()
}

func (w *nestWriter) Write(p []byte) (int, error) {
	w.n++
	if w.n == w.k {
		w.hook() // p has not been copied yet
	}
	return w.buf.Write(p)
}

func nvalTx(name string, m model.Tx) *nval {
	mm := m
	w := prepTx(&mm)
	return &nval{name: name, kind: "tx", root: model.EncTx(&mm), ref: w.ref,
		writeTo: func(wr io.Writer) error { _, err := w.data.WriteTo(wr); return err },
		text:    w.tx.MarshalText,
		decode: func(ctx string, text []byte) bool {
			got := &types.Tx{}
			if err := got.UnmarshalText(text); err != nil {
				report(errKey(err), ctx+": "+err.Error(), describeTx(&mm))
				return false
			}
			return sameTx(ctx, got, w, w.ref)
		},
		desc: describeTx(&mm)}
}

func nvalHeader(name string, h model.Header) *nval {
	hh := h
	bh := hh.ToImpl()
	hash := bh.Hash()
	c := map[string]interface{}{"header": &hh}
	root := model.EncHeader(&hh, 1)
	return &nval{name: name, kind: "header", root: root, ref: root.Bytes(),
		writeTo: func(wr io.Writer) error { _, err := bh.WriteTo(wr); return err },
		text:    bh.MarshalText,
		decode: func(ctx string, text []byte) bool {
			var got types.BlockHeader
			if err := got.UnmarshalText(text); err != nil {
				report(errKey(err), ctx+": "+err.Error(), c)
				return false
			}
			return headerClauses(ctx, &got, &hh, hash, c)
		},
		desc: c}
}

func nvalBlock(name string, b model.Block) *nval {
	bb := b
	blk := &types.Block{BlockHeader: bb.Header.ToImpl(), Transactions: []*types.Tx{}}
	var refs []*txRef
	for i := range bb.Txs {
		w := prepTx(&bb.Txs[i])
		refs = append(refs, w)
		blk.Transactions = append(blk.Transactions, w.tx)
	}
	hash := blk.Hash()
	c := map[string]interface{}{"block": &bb}
	root := model.EncBlock(&bb, 3)
	return &nval{name: name, kind: "block", root: root, ref: root.Bytes(),
		writeTo: func(wr io.Writer) error { _, err := blk.WriteTo(wr); return err },
		text:    blk.MarshalText,
		decode: func(ctx string, text []byte) bool {
			got := &types.Block{}
			if err := got.UnmarshalText(text); err != nil {
				report(errKey(err), ctx+": "+err.Error(), c)
				return false
			}
			ok := headerClauses(ctx, &got.BlockHeader, &bb.Header, hash, c)
			if len(got.Transactions) != len(refs) {
				report("roundtrip-field-block.tx.count", ctx+": transaction count changed", c)
				return false
			}
			for i, t := range got.Transactions {
				if !sameTx(ctx, t, refs[i], refs[i].ref) {
					ok = false
				}
			}
			return ok
		},
		desc: c}
}

func nestedCorpus(thorough bool) []*nval {
	sfx := model.BaseIn(model.KSpend)
	sfx.CommitSuffix, sfx.WitnessSuffix, sfx.SCSuffix = []byte{0xaa, 0xbb}, []byte{0xcc}, []byte{0x51, 0x52, 0x53}
	vsfx := model.RichIn(model.KVeto)
	vsfx.SCSuffix = model.Pat(9, 40)
	osfx := model.BaseOut(model.KVote)
	osfx.Suffix = model.Pat(5, 41)
	tx := func(ins []model.In, outs []model.Out) model.Tx {
		return model.Tx{Version: 1, TimeRange: 128, Ins: ins, Outs: outs}
	}
	ip, op := model.InPool(), model.OutPool()
	h2 := model.BaseHeader()
	h2.Sups = []model.Sup{model.MakeSup(3, 0, 64), model.MakeSup(1, 1, 1)}
	t1 := tx([]model.In{model.BaseIn(model.KCoinbase)}, []model.Out{model.BaseOut(model.KOriginal)})
	t2 := tx([]model.In{sfx}, []model.Out{osfx})
	t3 := tx([]model.In{model.RichIn(model.KIssuance), vsfx}, []model.Out{model.RichOut(model.KOriginal), op[4]})
	vs := []*nval{
		nvalTx("tx:coinbase->original", t1),
		nvalTx("tx:spend-with-all-suffixes->vote-with-suffix", t2),
		nvalTx("tx:rich-issuance+veto-with-suffixes->rich-original+retirement", t3),
		nvalTx("tx:empty", model.Tx{Version: 1}),
		nvalHeader("header:no-suplinks", model.BaseHeader()),
		nvalHeader("header:two-suplinks", h2),
		nvalHeader("header:zero", model.Header{}),
		nvalBlock("block:empty", model.Block{Header: model.BaseHeader()}),
		nvalBlock("block:two-suplinks-two-txs", model.Block{Header: h2, Txs: []model.Tx{t1, t2}}),
	}
	if thorough {
		for i := range ip {
			vs = append(vs, nvalTx(fmt.Sprintf("tx:pool-in-%d", i), tx([]model.In{ip[i]}, []model.Out{op[i%len(op)]})))
		}
		for i := range op {
			vs = append(vs, nvalTx(fmt.Sprintf("tx:pool-out-%d", i), tx([]model.In{ip[(2*i)%len(ip)], ip[(2*i+3)%len(ip)]}, []model.Out{op[i], osfx})))
		}
		h3 := model.BaseHeader()
		h3.Sups = []model.Sup{model.MakeSup(2, 2, 255)}
		h3.Witness = nil
		vs = append(vs,
			nvalHeader("header:one-suplink-long-sig-no-witness", h3),
			nvalBlock("block:three-rich-txs", model.Block{Header: h3, Txs: []model.Tx{t3, t2, t3}}),
			nvalBlock("block:zero-header-one-tx", model.Block{Txs: []model.Tx{t1}}))
	}
	return vs
}

func checkNested(thorough bool) {
	vs := nestedCorpus(thorough)
	type plain struct {
		bin, text []byte
		writes    int
	}
	und := make([]plain, len(vs))
	// undisturbed serialisations, compared with the reference encoder
	for i, v := range vs {
		w := &nestWriter{}
		if err := v.writeTo(w); err != nil {
			report("nested-serialisation-encode-error", v.name+": "+err.Error(), v.desc)
			return
		}
		text, err := v.text()
		if err != nil {
			report("nested-serialisation-encode-error", v.name+": "+err.Error(), v.desc)
			return
		}
		und[i] = plain{append([]byte{}, w.buf.Bytes()...), text, w.n}
		if !bytes.Equal(und[i].bin, v.ref) || string(text) != hex.EncodeToString(v.ref) {
			report(v.kind+"-encoding-differs-from-reference-at-"+fieldAt(v.root, firstDiff(und[i].bin, v.ref)), "nested-serialisation corpus value "+v.name, v.desc)
		}
	}
	run.Set("nested_corpus", len(vs))
	for ai, a := range vs {
		for bi, b := range vs {
			if run.OutOfTime() {
				return
			}
			run.Add("nested_pairs", 1)
			for k := 1; k <= und[ai].writes; k++ {
				run.Add("evaluations", 1)
				run.Add("nested_boundaries", 1)
				c := func() interface{} {
					return map[string]interface{}{"outer": a.name, "outer_value": lazyVal(a.desc), "inner": b.name, "inner_value": lazyVal(b.desc),
						"inner_serialised_inside_write_call": k, "write_calls_of_outer": und[ai].writes}
				}
				guard("nested serialisation", c, func() {
					var innerBin, innerText []byte
					var innerErr error
					w := &nestWriter{k: k}
					w.hook = func() {
						innerText, innerErr = b.text()
						var ib bytes.Buffer
						if err := b.writeTo(&ib); err != nil {
							innerErr = err
						}
						innerBin = ib.Bytes()
					}
					if err := a.writeTo(w); err != nil || innerErr != nil {
						report("nested-serialisation-encode-error", fmt.Sprintf("outer %v inner %v", err, innerErr), c)
						run.Outcome("violation:nested-serialisation")
						return
					}
					ok := true
					got := w.buf.Bytes()
					if !bytes.Equal(got, und[ai].bin) || !bytes.Equal(got, a.ref) {
						d := firstDiff(got, a.ref)
						report("nested-serialisation-changes-outer-bytes", fmt.Sprintf("%s serialised with %s serialised inside its Write call %d of %d: bytes differ from the undisturbed and reference encoding from byte %d (field %s): got %x want %x",
							a.name, b.name, k, und[ai].writes, d, fieldAt(a.root, d), got, a.ref), c)
						ok = false
					}
					if !bytes.Equal(innerBin, und[bi].bin) || !bytes.Equal(innerText, und[bi].text) {
						report("nested-serialisation-changes-inner-bytes", fmt.Sprintf("%s serialised inside Write call %d of %s differs from its undisturbed encoding", b.name, k, a.name), c)
						ok = false
					}
					if ok {
						// both must decode to equal values with the same ids
						if !a.decode("nested serialisation, outer "+a.name, []byte(hex.EncodeToString(got))) {
							ok = false
						}
						if !b.decode("nested serialisation, inner "+b.name, innerText) {
							ok = false
						}
					}
					if ok {
						run.Outcome("ok:nested-serialisation")
					} else {
						run.Outcome("violation:nested-serialisation")
					}
				})
			}
		}
	}
	sample("nested-serialisation", map[string]interface{}{"class": "nested-serialisation", "outer": vs[1].name, "inner": vs[8].name,
		"write_calls_of_outer": und[1].writes, "encoding": hex.EncodeToString(und[1].bin)})
}

func lazyVal(d interface{}) interface{} {
	if f, ok := d.(func() interface{}); ok {
		return f()
	}
	return d
}
