// C07: VM execution terminates within the gas limit.
//
// Exhaustive enumeration of short programs (one representative opcode per distinct op
// implementation, JUMP/JUMPIF to every byte target 0..len+1, nested CHECKPREDICATE,
// refund-heavy sequences) over initial stacks and gas limits. The oracle is the statement:
// a potential function (gas left + cost of everything on both stacks) must drop by >= 1 on
// every executed instruction, 0 <= gasLeft <= limit, executed instructions <= limit, and a
// program that needs g gas fails with ErrRunLimitExceeded below g and behaves identically
// at and above g. Family F5 starts the runs with an initial alt stack (the spent output's state
// data, Context.StateData) and evaluates the same bounds on vm.Verify's own result under every
// limit that is run.
package main

import (
	"bytes"
	stderrors "errors"
	"fmt"
	"os"
	"runtime"
	"runtime/debug"
	"runtime/pprof"
	"sort"
	"strings"
	"sync"
	"sync/atomic"
	"time"

	"github.com/bytom/bytom/errors"
	"github.com/bytom/bytom/protocol/vm"

	"verif/lib/ev"
)

const (
	bigLimit   = int64(5000)   // "large" limit used for the monitored base run of every case
	smallLimit = int64(600)    // first base limit of the quickBase plans (loops are recognised under it)
	maxGas     = int64(300000) // consensus.MaxGasAmount
)

// ---------------------------------------------------------------- alphabet

type sym struct {
	name string
	enc  []byte
	jump bool
}

func op(name string, b byte) sym { return sym{name: name, enc: []byte{b}} }

// One representative per distinct op implementation. Not listed because they are thin
// wrappers around a helper that is represented: 2DUP (nDup: DUP, 3DUP), XOR (doOr: OR),
// SHA256 (doHash: SHA3), NUMEQUAL/NUMNOTEQUAL/GREATERTHAN/LESSTHANOREQUAL/
// GREATERTHANOREQUAL (doNumCompare: LESSTHAN), DATA_2..75/PUSHDATA1-4/OP_2..16 (opPushdata).
var alphabet = []sym{
	op("0", 0x00), op("1", 0x51), {name: "DATA_1:05", enc: []byte{0x01, 0x05}},
	op("NOP", 0x61), op("NOPx50", 0x50),
	{name: "JUMP", enc: []byte{0x63}, jump: true}, {name: "JUMPIF", enc: []byte{0x64}, jump: true},
	op("VERIFY", 0x69), op("FAIL", 0x6a), op("CHECKPREDICATE", 0xc0),
	op("TOALTSTACK", 0x6b), op("FROMALTSTACK", 0x6c), op("2DROP", 0x6d), op("3DUP", 0x6f),
	op("2OVER", 0x70), op("2ROT", 0x71), op("2SWAP", 0x72), op("IFDUP", 0x73), op("DEPTH", 0x74),
	op("DROP", 0x75), op("DUP", 0x76), op("NIP", 0x77), op("OVER", 0x78), op("PICK", 0x79),
	op("ROLL", 0x7a), op("ROT", 0x7b), op("SWAP", 0x7c), op("TUCK", 0x7d),
	op("CAT", 0x7e), op("SUBSTR", 0x7f), op("LEFT", 0x80), op("RIGHT", 0x81), op("SIZE", 0x82), op("CATPUSHDATA", 0x89),
	op("INVERT", 0x83), op("AND", 0x84), op("OR", 0x85), op("EQUAL", 0x87), op("EQUALVERIFY", 0x88),
	op("1ADD", 0x8b), op("1SUB", 0x8c), op("2MUL", 0x8d), op("2DIV", 0x8e), op("NOT", 0x91), op("0NOTEQUAL", 0x92),
	op("ADD", 0x93), op("SUB", 0x94), op("MUL", 0x95), op("DIV", 0x96), op("MOD", 0x97), op("LSHIFT", 0x98), op("RSHIFT", 0x99),
	op("BOOLAND", 0x9a), op("BOOLOR", 0x9b), op("LESSTHAN", 0x9f), op("NUMEQUALVERIFY", 0x9d),
	op("MIN", 0xa3), op("MAX", 0xa4), op("WITHIN", 0xa5),
	op("SHA3", 0xaa), op("HASH160", 0xab), op("CHECKSIG", 0xac), op("CHECKMULTISIG", 0xad), op("TXSIGHASH", 0xae),
	op("CHECKOUTPUT", 0xc1), op("ASSET", 0xc2), op("AMOUNT", 0xc3), op("PROGRAM", 0xc4), op("INDEX", 0xc9),
	op("ENTRYID", 0xca), op("OUTPUTID", 0xcb), op("BLOCKHEIGHT", 0xcd),
}

var opNames = map[byte]string{}

func init() {
	for _, s := range alphabet {
		opNames[s.enc[0]] = s.name
	}
	opNames[0x01] = "DATA_1"
	opNames[0x4c] = "PUSHDATA1"
	opNames[0x53] = "3"
}

func opName(b byte) string {
	if n, ok := opNames[b]; ok {
		return n
	}
	return fmt.Sprintf("op%02x", b)
}

// enumSeq calls f for every program made of the symbols seq[0..n) (indices into alphabet),
// with every combination of jump targets 0..len+1. prog has cap == len and is reused between
// the target combinations of one sequence.
func enumTargets(seq []int, f func(prog []byte)) {
	total := 0
	var jpos []int
	for _, s := range seq {
		if alphabet[s].jump {
			jpos = append(jpos, total+1)
			total += 5
		} else {
			total += len(alphabet[s].enc)
		}
	}
	prog := make([]byte, 0, total)
	for _, s := range seq {
		prog = append(prog, alphabet[s].enc...)
		if alphabet[s].jump {
			prog = append(prog, 0, 0, 0, 0)
		}
	}
	if len(jpos) == 0 {
		f(prog)
		return
	}
	tg := make([]int, len(jpos))
	for {
		for i, p := range jpos {
			prog[p] = byte(tg[i])
			prog[p+1], prog[p+2], prog[p+3] = 0, 0, 0
		}
		f(prog)
		i := 0
		for ; i < len(tg); i++ {
			tg[i]++
			if tg[i] <= total+1 {
				break
			}
			tg[i] = 0
		}
		if i == len(tg) {
			return
		}
	}
}

// enumPrograms enumerates every program of exactly n symbols whose first symbol is `first`
// (first < 0: n must be 0, the empty program).
func enumPrograms(n, first int, f func(prog []byte)) {
	if n == 0 {
		f([]byte{})
		return
	}
	seq := make([]int, n)
	seq[0] = first
	var rec func(i int)
	rec = func(i int) {
		if i == n {
			enumTargets(seq, f)
			return
		}
		for s := range alphabet {
			seq[i] = s
			rec(i + 1)
		}
	}
	rec(1)
}

// seqs0 returns every concatenation of exactly n elements of al.
func seqs0(al [][]byte, n int) [][]byte {
	out := [][]byte{{}}
	for i := 0; i < n; i++ {
		var cur [][]byte
		for _, p := range out {
			for _, a := range al {
				cur = append(cur, append(append([]byte{}, p...), a...))
			}
		}
		out = cur
	}
	return out
}

// ---------------------------------------------------------------- stacks

func exact(b ...byte) []byte { // exact-capacity item: an append by the VM can never write into it
	out := make([]byte, len(b))
	copy(out, b)
	return out[:len(b):len(b)]
}

var (
	itZ = exact()
	itO = exact(1)
	itT = exact(2)
	itH = exact(bytes.Repeat([]byte{0x11}, 32)...)
)

// stacksOver returns every stack of 0..maxN items over the given item values.
func stacksOver(items [][]byte, maxN int) [][][]byte {
	out := [][][]byte{{}}
	prev := [][][]byte{{}}
	for n := 1; n <= maxN; n++ {
		var cur [][][]byte
		for _, p := range prev {
			for _, it := range items {
				s := append(append([][]byte{}, p...), it)
				cur = append(cur, s)
			}
		}
		out = append(out, cur...)
		prev = cur
	}
	return out
}

// ---------------------------------------------------------------- monitored run

type viol struct {
	key  string
	what string
}

type outcome struct {
	class    string
	gasLeft  int64
	okSteps  int   // instructions that completed
	steps    int   // instructions attempted
	minRun   int64 // minimum of runLimit at instruction boundaries
	inherit  bool  // a top-level CHECKPREDICATE ran with a zero limit operand (child inherits all gas)
	unpaid   bool  // the failing step left more potential than it started with (deferred charge failed after a push)
	data     [][]byte
	alt      [][]byte
	v        *viol
	preamble bool // failed while pushing arguments
	sameBase bool // behaves like the case's base run (class, instructions, gas consumed, both stacks)
}

var sentinels = []struct {
	e    error
	name string
}{
	{vm.ErrRunLimitExceeded, "runlimit"}, {vm.ErrDataStackUnderflow, "underflow"}, {vm.ErrAltStackUnderflow, "altunderflow"},
	{vm.ErrBadValue, "badvalue"}, {vm.ErrRange, "range"}, {vm.ErrVerifyFailed, "verifyfailed"}, {vm.ErrReturn, "return"},
	{vm.ErrContext, "context"}, {vm.ErrDivZero, "divzero"}, {vm.ErrShortProgram, "shortprogram"}, {vm.ErrDisallowedOpcode, "disallowed"},
	{vm.ErrFalseVMResult, "false"}, {vm.ErrUnexpected, "unexpected"}, {vm.ErrLongProgram, "longprogram"}, {vm.ErrUnsupportedVM, "unsupported"},
}

func classOf(err error) string {
	if err == nil {
		return "ok"
	}
	root := errors.Root(err)
	for _, s := range sentinels {
		if root == s.e || stderrors.Is(err, s.e) {
			return s.name
		}
	}
	return "other"
}

func stackCost(st [][]byte) int64 {
	var c int64
	for _, it := range st {
		c += 8 + int64(len(it))
	}
	return c
}

func allZero(b []byte) bool {
	for _, x := range b {
		if x != 0 {
			return false
		}
	}
	return true
}

// runMon executes ctx under limit L through the VM's own step(), checking the statement at
// every instruction.
func runMon(ctx *vm.Context, L int64) (o outcome) {
	d, err := vm.VerifC07New(ctx, L)
	o.minRun = L
	if err != nil {
		o.class, o.preamble = classOf(err), true
		o.gasLeft = d.RunLimit()
		o.minRun = o.gasLeft
		o.checkEnd(L)
		return
	}
	prog := ctx.Code
	// checkpoint of the potential: with more than deepStack items on the stacks the potential is
	// recomputed (O(stack)) only every deepStack instructions and the bound is asserted in
	// aggregate: phi(now) <= phi(checkpoint) - instructions executed since
	const deepStack = 256
	ckPhi, ckStep := L, 0
	// the initial items (state data on the alt stack, arguments on the data stack) are paid for out of the limit
	if phi := d.RunLimit() + stackCost(d.DataStack()) + stackCost(d.AltStack()); phi > L {
		o.v = &viol{"initial-stacks-not-paid-for", fmt.Sprintf("before the first instruction: gas %d + memory cost of the initial stacks %d = %d under limit %d", d.RunLimit(), phi-d.RunLimit(), phi, L)}
	}
	for o.v == nil && !d.Done() {
		run0 := d.RunLimit()
		if run0 < o.minRun {
			o.minRun = run0
		}
		pc := d.PC()
		opc := prog[pc]
		if opc == 0xc0 {
			if ds := d.DataStack(); len(ds) > 0 && len(ds[len(ds)-1]) <= 32 && allZero(ds[len(ds)-1]) {
				o.inherit = true
			}
		}
		fine := len(d.DataStack())+len(d.AltStack()) <= deepStack
		phi0 := ckPhi // upper bound of the potential in coarse mode
		if fine || o.okSteps-ckStep >= deepStack {
			phi0 = run0 + stackCost(d.DataStack()) + stackCost(d.AltStack())
			if phi0 > ckPhi-int64(o.okSteps-ckStep) {
				o.v = &viol{"phi-increase-deep-stack", fmt.Sprintf("before pc %d (%s): potential %d, but it was %d %d instructions earlier", pc, opName(opc), phi0, ckPhi, o.okSteps-ckStep)}
				break
			}
			ckPhi, ckStep = phi0, o.okSteps
		}
		err = d.Step()
		o.steps++
		run1 := d.RunLimit()
		if err != nil {
			// the program halts here; the failing instruction may not hand out gas
			if run1 > phi0 {
				o.v = &viol{"failed-step-gains-gas-" + opName(opc), fmt.Sprintf("failing %s at pc %d: gas %d -> %d with potential %d before", opName(opc), pc, run0, run1, phi0)}
			}
			if fine && run1+stackCost(d.DataStack())+stackCost(d.AltStack()) > phi0 {
				o.unpaid = true
			}
			break
		}
		o.okSteps++
		if int64(o.okSteps) > L {
			o.v = &viol{"steps-exceed-limit", fmt.Sprintf("%d instructions executed under limit %d", o.okSteps, L)}
			break
		}
		if !fine {
			continue
		}
		phi1 := run1 + stackCost(d.DataStack()) + stackCost(d.AltStack())
		if phi1 >= phi0 {
			how := "the executed instruction consumed no gas"
			if phi1 > phi0 {
				how = "the instruction created gas"
			}
			o.v = &viol{"phi-not-decreasing-" + opName(opc), fmt.Sprintf("%s at pc %d: gas %d -> %d, potential (gas + memory cost of both stacks) %d -> %d: %s", opName(opc), pc, run0, run1, phi0, phi1, how)}
			break
		}
		ckPhi, ckStep = phi1, o.okSteps
	}
	o.gasLeft = d.RunLimit()
	if o.gasLeft < o.minRun {
		o.minRun = o.gasLeft
	}
	o.data, o.alt = d.DataStack(), d.AltStack()
	o.class = classOf(err)
	if err == nil && d.FalseResult() {
		o.class = "false"
	}
	if o.v == nil {
		o.checkEnd(L)
	}
	return
}

func (o *outcome) checkEnd(L int64) {
	switch {
	case o.gasLeft < 0:
		o.v = &viol{"gasleft-negative", fmt.Sprintf("gas left %d under limit %d", o.gasLeft, L)}
	case o.gasLeft > L:
		o.v = &viol{"gasleft-above-limit", fmt.Sprintf("gas left %d under limit %d (%s)", o.gasLeft, L, o.class)}
	case int64(o.okSteps) > L:
		o.v = &viol{"steps-exceed-limit", fmt.Sprintf("%d instructions executed under limit %d", o.okSteps, L)}
	}
}

func deepCopy(st [][]byte) [][]byte {
	if len(st) == 0 {
		return nil
	}
	n := 0
	for _, it := range st {
		n += len(it)
	}
	flat := make([]byte, 0, n)
	out := make([][]byte, len(st))
	for i, it := range st {
		flat = append(flat, it...)
		out[i] = flat[len(flat)-len(it):]
	}
	return out
}

func sameStack(a, b [][]byte) bool {
	if len(a) != len(b) {
		return false
	}
	for i := range a {
		if !bytes.Equal(a[i], b[i]) {
			return false
		}
	}
	return true
}

// same: identical behaviour under two limits (gas compared as consumption).
func same(a outcome, la int64, b outcome, lb int64) bool {
	return a.class == b.class && a.okSteps == b.okSteps && la-a.gasLeft == lb-b.gasLeft && sameStack(a.data, b.data) && sameStack(a.alt, b.alt)
}

// ---------------------------------------------------------------- per-case procedure

type plan struct {
	sweep   int     // every limit 0..sweep-1 is run (0: none)
	extras  []int64 // additional fixed limits
	max     bool    // also run under MaxGasAmount (cases that need <= 5000)
	maxLoop bool    // ... and cases that need more than 5000 (loops), on the empty initial stack
	verify  bool    // cross-check the driver against vm.Verify
	// two-stage base run: 600, then 5000 unless the program is looping
	quickBase bool
	lean      bool // skip the need+1 run
	baseOnly  bool // only the monitored base run (per-instruction potential, end-of-run bounds)
	// every limit that is run is also given to vm.Verify itself: its own result must satisfy the
	// end-of-run bounds, fail below the cost of the initial stacks and equal the monitored run
	verifyAll  bool
	aroundInit bool // also run under cost(initial stacks)-1, that cost, and +1
	family     string
}

type caseRec struct {
	Family  string   `json:"family"`
	Program string   `json:"program"`
	Disasm  string   `json:"disasm"`
	Args    []string `json:"args"`
	State   []string `json:"state_data,omitempty"` // initial alt stack (Context.StateData), bottom first
	Limit   int64    `json:"limit"`
	Need    int64    `json:"need,omitempty"`
	Class   string   `json:"class,omitempty"`
	GasLeft int64    `json:"gas_left"`
	Steps   int      `json:"steps"`
}

type found struct {
	viol
	rec caseRec
}

type probed struct {
	L int64
	o outcome
}

type worker struct {
	fly        *inFlight
	base       *outcome
	baseL      int64
	lprog      []byte
	largs      [][]byte
	state      [][]byte // state data of the cases being evaluated (set by the family; nil: none)
	lstate     [][]byte
	damaged    int
	stepsTotal int
	stepsMax   int
	probes     []probed
	limits     []int64
	ctx        *vm.Context
	runs       int
	cases      int
	nontrivial int
	inherit    int
	unpaid     int
	needMore   int
	verified   int
	maxNeed    int64
	maxSteps   int
	classes    map[string]int
	found      map[string]found
	samples    []caseRec
	infra      string
}

func newWorker() *worker {
	asset := bytes.Repeat([]byte{0xa5}, 32)
	outID := bytes.Repeat([]byte{0x0d}, 32)
	amount, pos, height, nres := uint64(7), uint64(1), uint64(100), uint64(2)
	sighash := bytes.Repeat([]byte{0x5e}, 32)
	return &worker{
		ctx: &vm.Context{
			VMVersion: 1, EntryID: bytes.Repeat([]byte{0xe1}, 32), BlockHeight: &height, NumResults: &nres,
			AssetID: &asset, Amount: &amount, DestPos: &pos, SpentOutputID: &outID,
			TxSigHash: func() []byte { return exact(sighash...) },
			CheckOutput: func(uint64, uint64, []byte, uint64, []byte, [][]byte, bool) (bool, error) {
				return true, nil
			},
		},
		classes: map[string]int{}, found: map[string]found{},
	}
}

func disasm(p []byte) string {
	s, err := vm.Disassemble(p)
	if err != nil {
		return "??? " + err.Error()
	}
	return s
}

func (w *worker) rec(pl plan, prog []byte, args [][]byte, L int64, o outcome, need int64) caseRec {
	r := caseRec{Family: pl.family, Program: ev.Hex(prog), Disasm: disasm(prog), Limit: L, Need: need, Class: o.class, GasLeft: o.gasLeft, Steps: o.steps}
	for _, a := range args {
		r.Args = append(r.Args, ev.Hex(a))
	}
	for _, a := range w.state {
		r.State = append(r.State, ev.Hex(a))
	}
	return r
}

func (w *worker) report(pl plan, prog []byte, args [][]byte, L int64, o outcome, need int64, v viol) {
	if _, ok := w.found[v.key]; ok {
		return
	}
	w.found[v.key] = found{v, w.rec(pl, prog, args, L, o, need)}
}

// inFlight is what the watchdog reads when a single VM run does not come back (a child VM that
// loops without consuming gas never returns from the parent's CHECKPREDICATE step).
type inFlight struct {
	started atomic.Int64 // unix nanoseconds, 0 when idle
	limit   atomic.Int64
	mu      sync.Mutex
	family  string
	prog    []byte
	args    [][]byte
}

func (w *worker) run(pl plan, prog []byte, args [][]byte, L int64) outcome {
	w.runs++
	w.restore(prog, args)
	if w.fly != nil {
		w.fly.limit.Store(L)
		w.fly.started.Store(time.Now().UnixNano())
		defer w.fly.started.Store(0)
	}
	o := runMon(w.ctx, L)
	if w.base != nil {
		// compared now: the stack items point into memory that the next run rewrites
		o.sameBase = same(*w.base, w.baseL, o, L)
		o.data, o.alt = nil, nil
	}
	if o.steps > w.maxSteps {
		w.maxSteps = o.steps
	}
	w.stepsTotal += o.steps
	if L == maxGas {
		w.stepsMax += o.steps
		if o.steps > 10000 && os.Getenv("VERIF_DEBUG") == "2" {
			fmt.Fprintf(os.Stderr, "long max run: %x args %x steps %d class %s inherit %v\n", prog, args, o.steps, o.class, o.inherit)
		}
	}
	if o.v != nil {
		w.report(pl, prog, args, L, o, 0, *o.v)
	} else if pl.verifyAll && L >= stackCost(w.state)+stackCost(args)-1 {
		// (limits further below the cost of the initial stacks fail in the same place as cost-1 does)
		if w.base == nil {
			o.data, o.alt = deepCopy(o.data), deepCopy(o.alt) // Verify rewrites the memory the items point into
		}
		if v := w.verifyAt(pl, prog, args, L, o); v != nil {
			o.v = v
		}
	}
	return o
}

// verifyAt runs vm.Verify itself under limit L and checks its result: directly against the
// statement (0 <= gasLeft <= L; a limit below the memory cost of the initial stacks fails), and
// against the monitored run ref of the same case under the same limit.
func (w *worker) verifyAt(pl plan, prog []byte, args [][]byte, L int64, ref outcome) *viol {
	w.verified++
	w.restore(prog, args)
	g, err := vm.Verify(w.ctx, L)
	c := classOf(err)
	tag := ""
	if len(w.state) > 0 {
		tag = "-state-data"
	} else if len(args) > 0 {
		tag = "-arguments"
	}
	initCost := stackCost(w.state) + stackCost(args)
	var v *viol
	switch {
	case g < 0:
		v = &viol{"verify-gasleft-negative" + tag, fmt.Sprintf("vm.Verify returns gas left %d under limit %d (%s)", g, L, c)}
	case g > L:
		v = &viol{"verify-gasleft-above-limit" + tag, fmt.Sprintf("vm.Verify returns gas left %d under limit %d (%s): the run ends with %d more gas than it was given", g, L, c, g-L)}
	case L < initCost && c != "runlimit":
		v = &viol{"verify-runs-below-cost-of-initial-stacks" + tag, fmt.Sprintf("the initial stacks cost %d (8 + length per item) but vm.Verify under limit %d ends with %s, gas left %d", initCost, L, c, g)}
	case c != ref.class || (c != "unexpected" && g != ref.gasLeft):
		if !pl.verifyAll {
			w.infra = fmt.Sprintf("step driver disagrees with vm.Verify on program %x args %x limit %d: driver (%s, %d) Verify (%s, %d)", prog, args, L, ref.class, ref.gasLeft, c, g)
			return nil
		}
		v = &viol{"verify-differs-from-monitored-run" + tag, fmt.Sprintf("under limit %d vm.Verify ends with (%s, gas left %d); the same initial stacks and program run instruction by instruction through step(), with every initial item charged 8 + length up front and the potential checked at every instruction, end with (%s, gas left %d) after %d instructions", L, c, g, ref.class, ref.gasLeft, ref.okSteps)}
	}
	if v != nil {
		w.report(pl, prog, args, L, outcome{class: c, gasLeft: g, steps: ref.steps}, 0, *v)
	}
	return v
}

// load gives the VM private exact-capacity copies of the program and the arguments. The values
// handed in by the enumerators are never seen by the VM: a run can write into the memory it is
// given (property C06: LEFT/SUBSTR results keep spare capacity and CAT appends in place), and
// that must not leak into the next run.
func (w *worker) load(prog []byte, args [][]byte) {
	w.lprog = exact(prog...)
	w.largs = w.largs[:0]
	for _, a := range args {
		w.largs = append(w.largs, exact(a...))
	}
	w.lstate = w.lstate[:0]
	for _, a := range w.state {
		w.lstate = append(w.lstate, exact(a...))
	}
	w.ctx.Code, w.ctx.Arguments, w.ctx.StateData = w.lprog, w.largs, w.lstate
}

// restore rewrites the private copies before a run (and counts runs that had damaged them).
func (w *worker) restore(prog []byte, args [][]byte) {
	dirty := !bytes.Equal(w.lprog, prog)
	copy(w.lprog, prog)
	for i, a := range args {
		dirty = dirty || !bytes.Equal(w.largs[i], a)
		copy(w.largs[i], a)
	}
	for i, a := range w.state {
		dirty = dirty || !bytes.Equal(w.lstate[i], a)
		copy(w.lstate[i], a)
	}
	if dirty {
		w.damaged++
	}
}

func (w *worker) evalCase(pl plan, prog []byte, args [][]byte) {
	w.cases++
	w.load(prog, args)
	if w.fly != nil {
		w.fly.mu.Lock()
		w.fly.family, w.fly.prog, w.fly.args = pl.family, append(w.fly.prog[:0], prog...), args
		w.fly.mu.Unlock()
	}
	w.base = nil
	if ic := stackCost(w.state) + stackCost(args); pl.aroundInit && ic > 0 {
		// a limit below the memory cost of the initial stacks fails (run first: reported under its own
		// key even when the base run of every such case has a finding too)
		if r := w.run(pl, prog, args, ic-1); r.v == nil && r.class != "runlimit" {
			w.report(pl, prog, args, ic-1, r, 0, viol{"runs-below-cost-of-initial-stacks", fmt.Sprintf("the initial stacks cost %d (8 + length per item) but the run under limit %d ends with %s", ic, ic-1, r.class)})
		}
	}
	// base run. Plans with quickBase first try limit 600: a program of <= 4 symbols that is still
	// running after 64 instructions is looping, and a loop is characterised just as well by 600 gas
	// as by 5000 (at a tenth of the cost); everything else is re-based on 5000.
	B := bigLimit
	var base outcome
	if pl.quickBase {
		B = smallLimit
		base = w.run(pl, prog, args, B)
		if base.v == nil && base.class == "runlimit" && base.okSteps < 64 {
			B = bigLimit
			base = w.run(pl, prog, args, B)
		}
	} else {
		base = w.run(pl, prog, args, B)
	}
	base.data, base.alt = deepCopy(base.data), deepCopy(base.alt) // later runs reuse the memory the items point into
	base.sameBase = true
	w.base, w.baseL = &base, B
	w.classes[base.class]++
	if base.okSteps >= 2 {
		w.nontrivial++
		if len(w.samples) < 3 && base.okSteps >= 3 && w.cases%97 == 0 {
			w.samples = append(w.samples, w.rec(pl, prog, args, B, base, 0))
		}
	}
	if base.unpaid {
		w.unpaid++
	}
	if pl.verify && !pl.verifyAll && base.v == nil { // verifyAll: done by run()
		if v := w.verifyAt(pl, prog, args, B, base); v != nil {
			base.v = v
		}
	}
	if base.v != nil || pl.baseOnly {
		return // one mechanism per case; the consequences at other limits are not separate findings
	}
	limits := w.limits[:0]
	for l := 0; l < pl.sweep; l++ {
		limits = append(limits, int64(l))
	}
	limits = append(limits, pl.extras...)
	if pl.aroundInit {
		ic := stackCost(w.state) + stackCost(args) // ic-1 has been run before the base run
		limits = append(limits, ic, ic+1)
	}
	w.limits = limits

	if base.class == "runlimit" {
		// needs more than B (a loop, or an expensive program): everything below fails the same way
		w.needMore++
		for _, L := range limits {
			if L >= B {
				continue
			}
			r := w.run(pl, prog, args, L)
			if r.v != nil {
				return
			}
			if r.class != "runlimit" && !r.inherit && !base.inherit {
				w.report(pl, prog, args, L, r, 0, viol{"succeeds-below-need", fmt.Sprintf("runs out of gas under limit %d but ends with %s under the smaller limit %d", B, r.class, L)})
			}
		}
		if pl.maxLoop && len(args) == 0 {
			// 300000 instructions per run: only where the plan asks for it, on the empty initial stack
			w.run(pl, prog, args, maxGas)
		}
		return
	}

	// locate need g: the least limit under which the run does not end in ErrRunLimitExceeded
	lo := B - base.minRun
	w.probes = append(w.probes[:0], probed{B, base})
	probe := func(L int64) *outcome {
		for i := range w.probes {
			if w.probes[i].L == L {
				return &w.probes[i].o
			}
		}
		r := w.run(pl, prog, args, L)
		w.probes = append(w.probes, probed{L, r})
		return &w.probes[len(w.probes)-1].o
	}
	fails := func(L int64) bool { return probe(L).class == "runlimit" }
	g := lo
	if fails(lo) {
		bad, good := lo, B
		for inc := int64(1); bad+inc < B; inc *= 2 {
			if !fails(lo + inc) {
				good = lo + inc
				break
			}
			bad = lo + inc
		}
		for good-bad > 1 {
			mid := (good + bad) / 2
			if fails(mid) {
				bad = mid
			} else {
				good = mid
			}
		}
		g = good
	}
	for _, r := range w.probes {
		if r.o.v != nil {
			return
		}
	}
	if g > w.maxNeed {
		w.maxNeed = g
	}
	inherit := base.inherit
	for _, r := range w.probes {
		inherit = inherit || r.o.inherit
	}
	if inherit {
		w.inherit++
	}
	check := func(L int64) bool {
		r := probe(L)
		if r.v != nil {
			return false
		}
		if inherit || r.inherit {
			return true // the child is given "all remaining gas": the behaviour legitimately depends on the limit
		}
		if L < g {
			if r.class != "runlimit" {
				w.report(pl, prog, args, L, *r, g, viol{"succeeds-below-need", fmt.Sprintf("needs %d gas (fails with run limit at %d) but ends with %s under limit %d", g, g-1, r.class, L)})
				return false
			}
			return true
		}
		if !r.sameBase {
			w.report(pl, prog, args, L, *r, g, viol{"differs-above-need", fmt.Sprintf("needs %d gas; under limit %d: %s consumed %d steps %d, under limit %d: %s consumed %d steps %d (or the final stacks differ)",
				g, B, base.class, B-base.gasLeft, base.okSteps, L, r.class, L-r.gasLeft, r.okSteps)})
			return false
		}
		return true
	}
	if !check(g) {
		return
	}
	if g > 0 && !check(g-1) {
		return
	}
	if !pl.lean && !check(g+1) {
		return
	}
	for _, L := range limits {
		if !check(L) {
			return
		}
	}
	if pl.max && !check(maxGas) {
		return
	}
}

// ---------------------------------------------------------------- families

type unit struct {
	id   int
	name string
	run  func(w *worker)
}

func pushNum(n int64) []byte { return exact(vm.Uint64Bytes(uint64(n))...) }

var ballast []byte // never touched (no resident memory); only raises the collector's trigger

func main() {
	if pf := os.Getenv("VERIF_CPUPROFILE"); pf != "" { // debugging aid
		f, _ := os.Create(pf)
		pprof.StartCPUProfile(f)
		defer pprof.StopCPUProfile()
	}
	// the live heap is tiny and the allocation rate huge: a ballast makes the collector run once per
	// ~200 MB of garbage instead of once per ~4 MB (stop-the-world pauses dominate on a loaded machine)
	ballast = make([]byte, 200<<20)
	debug.SetGCPercent(100)
	run := ev.Start("C07", "exploration")
	thorough := run.Thorough()

	nSym := len(alphabet)
	var units []unit
	curFamily := ""
	only := os.Getenv("VERIF_C07_ONLY") // debugging aid: run only the families whose name has this prefix
	add := func(f func(w *worker)) {
		if only != "" && !strings.HasPrefix(curFamily, only) {
			return
		}
		units = append(units, unit{len(units), curFamily, f})
	}

	stacksZOH := stacksOver([][]byte{itZ, itO, itH}, 3)       // 40 stacks
	stacksZOTH := stacksOver([][]byte{itZ, itO, itT, itH}, 3) // 85 stacks
	stacks6 := [][][]byte{{}, {itO}, {itZ}, {itO, itO}, {itO, itO, itO}, {itH, itZ, itZ}}
	stacks4 := [][][]byte{{}, {itO, itO, itO}, {itO, itO}, {itH, itZ, itZ}}

	// ---- family F1: every program of <= maxLen symbols
	maxLen := run.Pick(3, 4)
	for n := 0; n <= maxLen; n++ {
		n := n
		var stacks [][][]byte
		var pl plan
		switch {
		case n <= 2:
			stacks, pl = stacksZOH, plan{sweep: 41, max: true, maxLoop: n <= 1, verify: true}
			if thorough {
				stacks = stacksZOTH
			}
		case n == 3 && !thorough:
			stacks, pl = stacks6, plan{extras: []int64{0, 1, 40}, quickBase: true}
		case n == 3 && thorough:
			stacks, pl = stacksZOH, plan{extras: []int64{0, 1, 40}, max: true, quickBase: true}
		default:
			stacks, pl = stacks4, plan{quickBase: true, lean: true}
		}
		pl.family = fmt.Sprintf("F1/len%d", n)
		curFamily = pl.family
		if n == 0 {
			add(func(w *worker) {
				for _, st := range stacks {
					w.evalCase(pl, []byte{}, st)
				}
			})
			continue
		}
		for first := 0; first < nSym; first++ {
			first := first
			add(func(w *worker) {
				k := 0
				enumPrograms(n, first, func(prog []byte) {
					k++
					for i, st := range stacks {
						p := pl
						// vm.Verify (slow on errors) cross-checks the driver on every program: on every
						// stack for short programs, on one rotating stack for the longest ones
						p.verify = pl.verify || (k%len(stacks) == i && n <= 3) || (n > 3 && k%16 == 0 && (k/16)%len(stacks) == i)
						w.evalCase(p, prog, st)
					}
					if n == 3 && thorough {
						// (thorough) a full low-limit sweep for the 3-symbol programs on six stacks
						ps := plan{sweep: 41, family: pl.family + "/sweep", quickBase: true}
						for _, st := range stacks6 {
							w.evalCase(ps, prog, st)
						}
					}
				})
			})
		}
	}

	// ---- family F2: CHECKPREDICATE with every child program of <= 2 symbols
	var preds [][]byte
	for n := 0; n <= 2; n++ {
		for first := 0; first < nSym; first++ {
			if n == 0 && first > 0 {
				break
			}
			enumPrograms(n, first, func(prog []byte) { preds = append(preds, exact(prog...)) })
		}
	}
	pad := append([]byte{0x4c, 80}, bytes.Repeat([]byte{0x61}, 80)...) // PUSHDATA1 <80 bytes>: makes the program long
	type below struct {
		items [][]byte
		n     []byte
		moved int
	}
	belows := []below{
		{nil, itZ, 0},
		{[][]byte{itO}, itZ, 1},
		{[][]byte{itO}, itO, 1},
		{[][]byte{itO, itO}, itO, 1},
		{[][]byte{itZ, itO}, itT, 2},
		{[][]byte{itH}, itO, 1},
		{[][]byte{itZ, exact(0xc4), itO}, itZ, 3},       // grandchild triple: PROGRAM under limit 1
		{[][]byte{itZ, exact(0x51), itZ}, exact(3), 3},  // grandchild triple: OP_1, inherits
		{[][]byte{itO, exact(0x76, 0x93), itZ}, itZ, 3}, // grandchild triple: DUP ADD on one item
	}
	curFamily = "F2"
	shapes := [][]byte{{0xc0}, append([]byte{0xc0}, pad...)}
	if thorough {
		for _, s := range alphabet {
			if s.jump {
				continue
			}
			shapes = append(shapes, append([]byte{0xc0}, s.enc...), append(append([]byte{}, s.enc...), 0xc0))
		}
	}
	for bi := range belows {
		b := belows[bi]
		chunk := 400
		for from := 0; from < len(preds); from += chunk {
			from := from
			add(func(w *worker) {
				to := from + chunk
				if to > len(preds) {
					to = len(preds)
				}
				for _, pred := range preds[from:to] {
					// the child's own need on the moved items decides the "exact" child limits
					moved := b.items[len(b.items)-b.moved:]
					w.load(pred, moved)
					w.runs++
					cb := runMon(w.ctx, bigLimit)
					lims := [][]byte{itZ, itO, pushNum(2000)}
					if cb.class != "runlimit" && cb.v == nil {
						need := bigLimit - cb.minRun - stackCost(moved)
						for _, l := range []int64{need - 1, need, need + 1} {
							if l > 1 && l < 2000 {
								lims = append(lims, pushNum(l))
							}
						}
					}
					for _, lim := range lims {
						args := append(append([][]byte{}, b.items...), b.n, pred, lim)
						for si, sh := range shapes {
							if si >= 2 && bi != 0 && bi != 2 && bi != 6 {
								continue // (thorough) the symbol-before/after shapes run on three of the nine lower-stack configurations
							}
							pl := plan{family: "F2/checkpredicate", extras: []int64{0, 1, 40}, verify: si < 2}
							w.evalCase(pl, exact(sh...), args)
						}
					}
				}
			})
		}
	}

	// ---- family F3: refund-heavy sequences beyond the F1 bound, and loops over them
	pushes := [][]byte{{0x00}, {0x51}, {0x01, 0x05}, pad}
	refunds := [][]byte{{0x75}, {0x6d}, {0x77}, {0x69}}
	seqs := func(al [][]byte, maxN int) [][]byte {
		out, prev := [][]byte{}, [][]byte{{}}
		for n := 1; n <= maxN; n++ {
			var cur [][]byte
			for _, p := range prev {
				for _, a := range al {
					cur = append(cur, append(append([]byte{}, p...), a...))
				}
			}
			out = append(out, cur...)
			prev = cur
		}
		return out
	}
	curFamily = "F3"
	depth := run.Pick(3, 4)
	pseq, rseq := seqs(pushes, depth), seqs(refunds, depth)
	for pi0 := 0; pi0 < len(pseq); pi0 += 8 {
		pi0 := pi0
		add(func(w *worker) {
			for pi := pi0; pi < pi0+8 && pi < len(pseq); pi++ {
				for ri, rs := range rseq {
					straight := exact(append(append([]byte{}, pseq[pi]...), rs...)...)
					pl := plan{family: "F3/push-refund", sweep: 41, max: true, verify: true}
					for _, st := range [][][]byte{{}, {itO}} {
						w.evalCase(pl, straight, st)
					}
					if pi < 20 && ri < 20 { // sequences of <= 2 pushes and <= 2 refunds, closed into a loop
						loop := exact(append(append([]byte{}, straight...), 0x63, 0, 0, 0, 0)...)
						pl := plan{family: "F3/push-refund-loop", sweep: 41, extras: []int64{100, 1000}, maxLoop: pi < 4 && ri < 4, verify: true}
						for _, st := range [][][]byte{{}, {itO}} {
							w.evalCase(pl, loop, st)
						}
					}
				}
			}
		})
	}
	// loop that re-creates a CHECKPREDICATE triple on every iteration:
	//   DUP 3 PICK 3 PICK 3 PICK CHECKPREDICATE DROP JUMP 0 [pad]   on the stack [n=1, pred, limit]
	loopBody := []byte{0x76, 0x53, 0x79, 0x53, 0x79, 0x53, 0x79, 0xc0, 0x75, 0x63, 0, 0, 0, 0}
	add(func(w *worker) {
		for _, pred := range preds {
			if len(pred) > 5 {
				continue // child programs of one symbol
			}
			for _, lim := range [][]byte{itZ, itO, itT, pushNum(300)} {
				for _, tail := range [][]byte{nil, pad} {
					prog := exact(append(append([]byte{}, loopBody...), tail...)...)
					pl := plan{family: "F3/checkpredicate-loop", extras: []int64{0, 1, 40, 100, 1000}, max: true, verify: true}
					w.evalCase(pl, prog, [][]byte{itO, pred, lim})
				}
			}
		}
	})

	// ---- family F4: CHECKPREDICATE rounds whose child parks items on the alt stack
	// Children: every program of <= 3 (thorough: 4) symbols over a small alphabet that can move items
	// to the alt stack and back, consume them, fail by VERIFY and push with a cost charged after the
	// push (PROGRAM, ASSET, CAT) or before it (1, DUP); 0..2 moved items of several sizes (the large
	// ones cost more than a CHECKPREDICATE does); EVERY child limit 1..need+1 (the child stops at
	// every step, on every kind of charge), inherit and 2000.
	childAlpha := [][]byte{{0x6b}, {0x6c}, {0x51}, {0x75}, {0x76}, {0x69}, {0xc4}, {0xc2}, {0x7e}}
	childWide := append(append([][]byte{}, childAlpha...), []byte{0x00}, []byte{0x6a}, []byte{0x82}, []byte{0x7c}, []byte{0xca}, []byte{0x01, 0x05})
	var altPreds [][]byte
	for n := 0; n <= 3; n++ {
		if thorough {
			altPreds = append(altPreds, seqs0(childWide, n)...)
		} else {
			altPreds = append(altPreds, seqs0(childAlpha, n)...)
		}
	}
	if thorough {
		altPreds = append(altPreds, seqs0(childAlpha, 4)...)
	}
	it120 := exact(bytes.Repeat([]byte{0x22}, 120)...)
	it200 := exact(bytes.Repeat([]byte{0x33}, 200)...)
	sizes := [][]byte{itO, itH, it120}
	if thorough {
		sizes = [][]byte{itZ, itO, itH, it120, it200}
	}
	movedSets := [][][]byte{{}}
	for _, a := range sizes {
		movedSets = append(movedSets, [][]byte{a})
	}
	for _, a := range sizes {
		for _, b := range sizes {
			if !thorough && (len(a) < 32 || len(b) < 32) && !(len(a) == 1 && len(b) == 1) {
				continue // quick: pairs over the two large sizes, and the pair of one-byte items
			}
			if len(a) == 0 || len(b) == 0 {
				continue // (thorough) the empty item is moved alone
			}
			movedSets = append(movedSets, [][]byte{a, b})
		}
	}
	maxChildLimit := int64(run.Pick(160, 420))
	curFamily = "F4"
	f4shapes := [][]byte{{0xc0}, append([]byte{0xc0}, pad...)}
	for from := 0; from < len(altPreds); from += 24 {
		from := from
		add(func(w *worker) {
			to := from + 24
			if to > len(altPreds) {
				to = len(altPreds)
			}
			k := 0
			for _, pred := range altPreds[from:to] {
				for _, moved := range movedSets {
					// the child's own need on the moved items (as a top-level program it pushes itself with PROGRAM)
					w.load(pred, moved)
					w.runs++
					cb := runMon(w.ctx, bigLimit)
					if cb.v != nil || cb.class == "runlimit" {
						continue // reported by F1 / cannot happen for a straight-line child
					}
					need := bigLimit - cb.minRun - stackCost(moved)
					nOp := pushNum(int64(len(moved)))
					for _, sh := range f4shapes {
						hi := need + int64(len(sh)) + 2
						if hi > maxChildLimit {
							hi = maxChildLimit
						}
						for l := int64(0); l <= hi+1; l++ {
							lim := pushNum(l)
							if l == hi+1 {
								lim = pushNum(2000)
							}
							k++
							args := append(append([][]byte{}, moved...), nOp, pred, lim)
							// every child limit gets the monitored run; the limit sweep of the parent (need located,
							// need-1, need, need+1, 0, 1, 40) is added at the ends of the child's range and on every 8th limit
							full := l <= 8 || l >= hi-2 || l%8 == 0
							pl := plan{family: "F4/checkpredicate-alt", extras: []int64{0, 1, 40}, verify: k%16 == 0, baseOnly: !full}
							w.evalCase(pl, exact(sh...), args)
						}
					}
				}
			}
		})
	}
	// the same rounds written into one program, three times over and closed into a loop: the
	// end-of-run bounds and the located need see what several rounds add up to
	round := func(item, pred []byte, l int64) []byte {
		var p []byte
		p = append(p, vm.PushDataBytes(item)...)
		p = append(p, 0x51)
		p = append(p, vm.PushDataBytes(pred)...)
		p = append(p, vm.PushDataUint64(uint64(l))...)
		return append(p, 0xc0, 0x75)
	}
	roundLimits := []int64{1, 2, 3, 4, 5, 6, 8, 12, 2000}
	for from := 0; from < len(altPreds); from += 48 {
		from := from
		add(func(w *worker) {
			to := from + 48
			if to > len(altPreds) {
				to = len(altPreds)
			}
			for _, pred := range altPreds[from:to] {
				if len(pred) > run.Pick(2, 3) && !bytes.Contains(pred, []byte{0x6b}) {
					continue // the longest children only when they use the alt stack
				}
				for _, item := range sizes {
					for _, l := range roundLimits {
						r := round(item, pred, l)
						straight := exact(append(append(append(append([]byte{}, r...), r...), r...), 0x51)...)
						w.evalCase(plan{family: "F4/rounds", extras: []int64{0, 1, 40}, verify: true}, straight, nil)
						if len(item) >= 32 && l <= 6 {
							loop := exact(append(append(append([]byte{}, r...), 0x63, 0, 0, 0, 0), pad...)...)
							w.evalCase(plan{family: "F4/rounds-loop", extras: []int64{0, 1, 40, 1000}, verify: true}, loop, nil)
						}
					}
				}
			}
		})
	}

	// ---- family F5: runs that start with an initial alt stack (state data of the spent output)
	// vm.Verify pushes Context.StateData on the alt stack before the arguments and charges both
	// against the limit. Every list of 0..3 state items over several sizes x argument stacks x
	// (a) every program of <= 2 symbols over the full alphabet (any op meeting a non-empty alt stack,
	// FROMALTSTACK followed by any op) and (b) every program of <= 3 (thorough: 4) symbols over the
	// ops that move items between the stacks and consume them. Every limit that is run (base, need
	// located, need-1, need, need+1, 0, 1, 40, cost of the initial stacks -1/+0/+1) is run twice:
	// monitored through the driver, and through vm.Verify itself, whose result must obey the
	// end-of-run bounds, fail below the cost of the initial stacks and equal the monitored run.
	stateSizes := [][]byte{itZ, itO, it200}
	if thorough {
		stateSizes = [][]byte{itZ, itO, itH, it200}
	}
	statesFull := stacksOver(stateSizes, run.Pick(2, 3)) // 13 / 85 lists
	statesMove := stacksOver(stateSizes, 3)              // 40 / 85 lists
	f5args := [][][]byte{{}, {itO}, {itH}}
	moveAlpha := [][]byte{{0x6c}, {0x6b}, {0x75}, {0x76}, {0x7e}, {0x7c}, {0x51}, {0x69}, {0x82}, {0x6d}}
	var movePrograms [][]byte
	for n := 0; n <= run.Pick(3, 4); n++ {
		movePrograms = append(movePrograms, seqs0(moveAlpha, n)...)
	}
	f5plan := plan{extras: []int64{0, 1, 40}, aroundInit: true, verifyAll: true}
	f5 := func(family string, progs [][]byte, states [][][]byte, argSets [][][]byte, chunk int) {
		curFamily = family
		pl := f5plan
		pl.family = family
		for from := 0; from < len(progs); from += chunk {
			from := from
			add(func(w *worker) {
				to := from + chunk
				if to > len(progs) {
					to = len(progs)
				}
				for _, prog := range progs[from:to] {
					for _, st := range states {
						w.state = st
						for _, args := range argSets {
							w.evalCase(pl, prog, args)
						}
					}
				}
				w.state = nil
			})
		}
	}
	f5("F5/state-data-any-op", preds, statesFull, f5args[:run.Pick(1, 3)], 200)
	f5("F5/state-data-moved", movePrograms, statesMove, f5args[:2], run.Pick(32, 64))

	// ---------------------------------------------------------------- execute
	// cheap, targeted families first; the long tail (longest programs) last
	prio := func(u unit) int {
		switch {
		case strings.HasPrefix(u.name, "F3"):
			return 0
		case strings.HasPrefix(u.name, "F4"), strings.HasPrefix(u.name, "F5"):
			return 1
		case strings.HasPrefix(u.name, "F2"):
			return 1
		}
		return 2 + int(u.name[len(u.name)-1]-'0')
	}
	sort.SliceStable(units, func(i, j int) bool { return prio(units[i]) < prio(units[j]) })
	t0 := time.Now()
	guard := time.Duration(run.Pick(150, 1080)) * time.Second
	nw := runtime.NumCPU()
	if nw > 8 {
		nw = 8
	}
	results := make([]*worker, len(units))
	var wg sync.WaitGroup
	var mu sync.Mutex
	next := 0
	flies := make([]*inFlight, nw)
	for i := range flies {
		flies[i] = &inFlight{}
	}
	// watchdog: the longest legitimate run (300000 instructions) takes well under a second
	const stuckAfter = 40 * time.Second
	go func() {
		for {
			time.Sleep(time.Second)
			for _, f := range flies {
				st := f.started.Load()
				if st == 0 || time.Since(time.Unix(0, st)) < stuckAfter {
					continue
				}
				f.mu.Lock()
				rec := caseRec{Family: f.family, Program: ev.Hex(f.prog), Disasm: disasm(f.prog), Limit: f.limit.Load()}
				for _, a := range f.args {
					rec.Args = append(rec.Args, ev.Hex(a))
				}
				run.Capped("stopped at a run that does not terminate")
				run.Violation("run-does-not-terminate", fmt.Sprintf("one VM run under gas limit %d has been executing for more than %v (the longest legitimate run is 300000 instructions)", rec.Limit, stuckAfter), rec)
				run.Finish()
			}
		}
	}()
	for i := 0; i < nw; i++ {
		wg.Add(1)
		fly := flies[i]
		go func() {
			defer wg.Done()
			for {
				mu.Lock()
				if next < len(units) && time.Since(t0) > guard {
					run.Capped(fmt.Sprintf("wall-clock guard of %v reached after %d of %d work units", guard, next, len(units)))
					next = len(units)
				}
				if next >= len(units) || run.OutOfTime() {
					mu.Unlock()
					return
				}
				u := units[next]
				next++
				mu.Unlock()
				w := newWorker()
				w.fly = fly
				t0 := time.Now()
				u.run(w)
				results[u.id] = w
				if os.Getenv("VERIF_DEBUG") != "" {
					fmt.Fprintf(os.Stderr, "unit %d %s: %d cases %d runs %.1fs\n", u.id, u.name, w.cases, w.runs, time.Since(t0).Seconds())
				}
			}
		}()
	}
	wg.Wait()

	// ---------------------------------------------------------------- merge (in unit order: deterministic)
	classes := map[string]int{}
	foundAll := map[string]found{}
	infra := "" // first disagreement between the step driver and vm.Verify outside F5
	var maxNeed int64
	maxSteps := 0
	for _, w := range results {
		if w == nil {
			continue
		}
		if w.infra != "" && infra == "" {
			infra = w.infra
		}
		run.Add("evaluations", w.runs)
		run.Add("cases", w.cases)
		run.Add("distinct_nontrivial", w.nontrivial)
		run.Add("cases_child_inherits_gas", w.inherit)
		run.Add("cases_out_of_gas_at_base_limit", w.needMore)
		run.Add("failed_steps_leaving_unpaid_push", w.unpaid)
		run.Add("verify_crosschecks", w.verified)
		run.Add("runs_that_wrote_into_their_own_program_or_arguments", w.damaged)
		run.Add("instructions_executed", w.stepsTotal)
		run.Add("instructions_executed_under_max_gas", w.stepsMax)
		if w.maxNeed > maxNeed {
			maxNeed = w.maxNeed
		}
		if w.maxSteps > maxSteps {
			maxSteps = w.maxSteps
		}
		for c, n := range w.classes {
			classes[c] += n
			run.Outcome(c)
		}
		for k, f := range w.found {
			if _, ok := foundAll[k]; !ok {
				foundAll[k] = f
			}
		}
		for _, s := range w.samples {
			run.Sample(s)
		}
	}
	run.Set("outcome_counts_base_run", classes)
	run.Set("max_need_found", maxNeed)
	run.Set("max_steps_in_one_run", maxSteps)
	run.Set("alphabet_symbols", nSym)
	run.Set("max_program_symbols", maxLen)
	run.Set("child_programs", len(preds))
	run.Set("units", len(units))
	run.Set("f4_child_programs", len(altPreds))
	run.Set("f4_moved_item_sets", len(movedSets))
	run.Set("f4_max_child_limit", maxChildLimit)
	run.Set("f5_state_lists_any_op", len(statesFull))
	run.Set("f5_state_lists_moved", len(statesMove))
	run.Set("f5_move_programs", len(movePrograms))
	run.Set("rule", "F1: every program of <= max_program_symbols symbols over the 72-symbol alphabet (one opcode per distinct op implementation; JUMP/JUMPIF with every byte target 0..len+1) x initial stacks x gas limits: <=2 symbols on every stack of 0-3 items over {'',01,32 bytes} (thorough: plus 02; 85 stacks) under every limit 0..40, need-1, need, need+1, 5000 and MaxGasAmount; 3 symbols on 6 stacks (thorough: 40 stacks plus a 0..40 sweep on 6) under need-1, need, need+1, 0, 1, 40 (thorough: MaxGasAmount); (thorough) 4 symbols on 4 stacks under need-1, need. F2: CHECKPREDICATE (alone, followed by an 80-byte push, thorough: preceded/followed by every symbol) over every child program of <= 2 symbols x child limits {inherit,1,need-1,need,need+1,2000} x 9 lower-stack configurations incl. grandchild triples. F3: push^a refund^b sequences (a,b <= 3, thorough 4), the same closed into loops, and a loop that rebuilds a CHECKPREDICATE triple every iteration. F4: CHECKPREDICATE (alone, followed by an 80-byte push) over every child program of <= 3 (thorough: 4) symbols over {TOALTSTACK, FROMALTSTACK, 1, DROP, DUP, VERIFY, PROGRAM, ASSET, CAT} (thorough: <= 3 symbols also over 0, FAIL, SIZE, SWAP, ENTRYID, DATA_1) x 0..2 moved items of 1, 32, 120 bytes (thorough: also 0 and 200) x every child limit 1..need+1 (capped at f4_max_child_limit), inherit and 2000 - monitored run for each, the parent's limit sweep at both ends of the range and on every 8th child limit; the same rounds (item, 1, child, limit, CHECKPREDICATE, DROP) written three times into one program and closed into a loop. F5 (initial alt stack = Context.StateData of the spent output): every list of 0..2 (thorough: 0..3) state items of 0, 1, 200 (thorough: also 32) bytes x every program of <= 2 symbols over the full alphabet (all jump targets) on the empty argument stack (thorough: also [01], [32 bytes]); every list of 0..3 such state items x every program of <= 3 (thorough: 4) symbols over {FROMALTSTACK, TOALTSTACK, DROP, DUP, CAT, SWAP, 1, VERIFY, SIZE, 2DROP} x argument stacks {[], [01]}; limits: cost of the initial stacks -1 (must fail), that cost, +1, 5000, need-1, need, need+1, 0, 1, 40 - and every one of these limits that is >= cost-1 is also given to vm.Verify itself, whose own result must satisfy 0 <= gasLeft <= limit, fail with the run limit below the cost of the initial stacks, and equal the monitored run (class, gas left). A case is a distinct (program, state data, initial stack); its base run is monitored instruction by instruction under limit 5000 (programs of >= 3 symbols: 600 first, 5000 unless the run is a loop), then need is located and the listed limits are run. evaluations = VM runs; distinct_nontrivial = cases whose base run completed >= 2 instructions.")
	run.Assume("the step driver (hooks/protocol/vm/zz_verif_c07.go) replicates Verify's preamble (every state item and argument charged 8 + length up front); cross-checked against vm.Verify (gas left and error class) on verify_crosschecks runs, at least once per program; in F5 every run is cross-checked and a disagreement is a violation (Verify's result is held against the stepped, monitored run), elsewhere the first disagreement is reported once (verify-differs-from-monitored-run-outside-f5) unless F5 already explains it")
	run.Assume("child VMs are not stepped individually: their gas accounting is observed through the parent's CHECKPREDICATE step (potential of the parent) and by running every child program as a top-level program")
	run.Assume("a top-level CHECKPREDICATE with limit operand 0 hands the child all remaining gas, so behaviour legitimately depends on the limit; for those cases only the per-step and end-of-run bounds are asserted")
	run.Assume("context: TxVersion absent (expansion opcodes execute as 1-gas NOPs), all introspection fields present, CheckOutput always true")

	if infra != "" {
		// F5 holds vm.Verify against the monitored run on the initial stacks and reports that as a
		// violation; without such a finding a disagreement means the driver is out of date
		explained := false
		for k := range foundAll {
			explained = explained || strings.HasPrefix(k, "verify-")
		}
		if !explained {
			// the step driver is built from the repository's own step() and push functions; when vm.Verify, the
			// entry point the statement is about, ends differently from that run, the bounds established on the
			// monitored run do not hold for Verify (F5 reports the same disagreement under verify-differs-from-monitored-run)
			run.Violation("verify-differs-from-monitored-run-outside-f5", infra, map[string]interface{}{"disagreement": infra})
		}
		run.Set("driver_disagreement_outside_f5", infra)
	}
	keys := make([]string, 0, len(foundAll))
	for k := range foundAll {
		keys = append(keys, k)
	}
	sort.Strings(keys)
	for _, k := range keys {
		f := foundAll[k]
		run.Violation(k, f.what, f.rec)
	}
	pprof.StopCPUProfile()
	run.Finish()
}
