// Part C2 of C32: replay of whole sealed frames over a long stream.
//
// Part C replays only the frame that was just accepted. A sealed frame is bound to its position in the
// stream by the per-direction nonce, a 24-byte counter that advances by 2 per frame: its low byte wraps
// every 128 frames and the carry has to reach the next byte. Both ends run the same counter code, so a
// carry that is lost on both sides leaves honest streams intact and only shows as a frame that is accepted
// a second time at a distance where the counters collide. So: one connection, both directions (they use
// the two nonce parities), n one-frame writes; before frame j is delivered, earlier sealed frames of the
// same direction are put on the wire again and every one must be refused without delivering data; then
// the genuine frame must be accepted (so the refusals were caused by the replay, not by a lost receiver).
//
//	quick     n = 300 frames (crosses the wrap of the low nonce byte twice), EVERY earlier frame replayed
//	          before EVERY frame (all pairs i < j)
//	thorough  n = 33100 frames (crosses the wrap of the second byte), replay distances 1..260 and
//	          {383..385, 511..513, 1023..1025, 2048, 4096, 8192, 16384, 32767..32769}
package main

import (
	"bytes"
	"fmt"

	"verif/lib/ev"
)

func partCLong(run *ev.Run) {
	n := run.Pick(300, 33100)
	var dists []int
	if run.Thorough() {
		for d := 1; d <= 260; d++ {
			dists = append(dists, d)
		}
		dists = append(dists, 383, 384, 385, 511, 512, 513, 1023, 1024, 1025, 2048, 4096, 8192, 16384, 32767, 32768, 32769)
	}
	replays, accepted := 0, 0
	// ONE connection for both directions: its two directions use the two nonce parities (which end has
	// which depends on the random ephemeral keys, so two separate connections could show the same parity twice)
	p, err := newPair()
	if err != nil {
		run.Violation("handshake-failed", "honest handshake failed: "+err.Error(), nil)
		return
	}
	for dir := 0; dir < 2; dir++ {
		snd, rcv := p.sc[dir], p.sc[1-dir]
		rh := p.recvHalf(dir)
		frames := make([][]byte, 0, n)
		replay := func(j, i int) bool {
			rh.flush()
			rh.inject(frames[i])
			got, e, zeroNil, pn := readUntilError(rcv)
			rh.flush()
			replays++
			tc := map[string]int{"dir": dir, "frame_replayed": i, "before_frame": j, "distance": j - i}
			switch {
			case pn != nil:
				run.Outcome("replay:panic")
				run.Violation("replay-at-distance-panic", fmt.Sprintf("direction %d: sealed frame %d put on the wire again before frame %d (distance %d): Read panicked: %v", dir, i, j, j-i, pn), tc)
			case len(got) > 0:
				run.Outcome("replay:data-delivered")
				run.Violation("replay-at-distance-delivers-data", fmt.Sprintf("direction %d: sealed frame %d put on the wire again before frame %d (distance %d): Read delivered its %d byte(s) a second time", dir, i, j, j-i, len(got)), tc)
				return false
			case zeroNil || e == nil:
				run.Outcome("replay:not-detected")
				run.Violation("replay-at-distance-not-detected", fmt.Sprintf("direction %d: sealed frame %d put on the wire again before frame %d (distance %d): Read returned n=0 and a nil error", dir, i, j, j-i), tc)
				return false
			case e == errEmpty:
				run.Outcome("replay:waits-for-more-bytes")
			default:
				run.Outcome("replay:rejected")
			}
			return true
		}
		for j := 0; j < n; j++ {
			data := []byte{byte(j), byte(j >> 8)}
			p.recvHalf(dir).set(false, true, nil)
			if k, err, pn := safeWrite(snd, data); err != nil || pn != nil || k != len(data) {
				run.Violation("write-error", fmt.Sprintf("long stream: Write %d = %d, %v, panic %v", j, k, err, pn), nil)
				return
			}
			wire := rh.takeHeld()
			rh.set(false, false, nil)
			if len(wire) != sealedSize {
				run.Violation("frame-size-unexpected", fmt.Sprintf("long stream: a 2-byte Write put %d bytes on the wire", len(wire)), nil)
				return
			}
			inSync := true
			if run.Thorough() {
				for _, d := range dists {
					if d <= j && !replay(j, j-d) {
						inSync = false
						break
					}
				}
			} else {
				for i := 0; i < j; i++ {
					if !replay(j, i) {
						inSync = false
						break
					}
				}
			}
			if !inSync {
				// the receiver consumed a replayed frame: its counter moved on, the rest of this direction is not meaningful
				break
			}
			rh.flush()
			rh.inject(wire)
			got, e, _, pn := readUntilError(rcv)
			if pn != nil || e != errEmpty || !bytes.Equal(got, data) {
				run.Violation("long-stream-frame-not-delivered", fmt.Sprintf("direction %d: genuine frame %d of a stream of one-frame writes is not delivered after the replayed frames were refused (got %d bytes, err %v, panic %v)", dir, j, len(got), e, pn), map[string]int{"dir": dir, "frame": j})
				break
			}
			accepted++
			frames = append(frames, wire)
		}
	}
	run.Add("evaluations", replays+accepted)
	run.Add("distinct_nontrivial", replays)
	run.Add("tamper_cases", replays)
	run.Set("long_stream_replay", map[string]interface{}{"frames_per_direction": n, "replays_refused_or_judged": replays, "genuine_frames_accepted": accepted,
		"replayed": map[bool]string{false: "every earlier frame before every frame (all pairs)", true: "distances 1..260 and around 384, 512, 1024, 2048 ... 32768"}[run.Thorough()]})
}
