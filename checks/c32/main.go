// C32: encrypted peer connections deliver the exact byte stream.
//
// Two real SecretConnections are established over an in-memory duplex pipe owned by the
// harness. The pipe's Read granularity is an enumerated environment answer. Enumerated:
//
//	part A  every sequence of <=3 writes (sizes around the 1024-byte frame limit) x every sequence
//	        of <=3 (quick) / <=4 (thorough) read-buffer sizes x {writes first, interleaved} x both
//	        directions, the rest drained with 4096-byte reads;
//	part B  the same with <=2 short answers (1 or 7 bytes) of the transport at every position;
//	part C  per ciphertext frame every byte position x every bit flipped, every truncation point,
//	        frame swap / replay / drop;
//	part D  a byte-level re-implementation of the peer (handshake + framing) that authenticates
//	        honestly, or claims a key it cannot sign for, or sends every single-bit corruption of its
//	        authentication message, or seals an oversized chunk length;
//	part E  the handshake against a DISHONEST remote end: the byte-level peer sends every shape of
//	        authentication message {declared key length} x {declared signature length} x {claimed key:
//	        own, foreign} x {signature material} x {framing of the 100 bytes} to a real end that dials
//	        (peer answers) and to a real end that listens (peer speaks first), with the peer's ephemeral
//	        key below and above the real one (both nonce orders). Reference: a connection is established
//	        iff the message carries a 32-byte key and a 64-byte signature of the session challenge that
//	        verifies under that key (crypto/ed25519 in the harness); then RemotePubKey is that key, and
//	        the real end's own authentication message proves the real key to the peer.
//
// Oracle: concatenation of the bytes returned by Read (using the returned n) == concatenation
// written; a manipulated ciphertext yields an error and never data; RemotePubKey == the key of
// the peer.
package main

import (
	"bytes"
	"crypto/ed25519"
	crand "crypto/rand"
	"crypto/sha256"
	"encoding/binary"
	"errors"
	"fmt"
	"io"
	"os"
	"runtime"
	"runtime/debug"
	"runtime/pprof"
	"sort"
	"sync"
	"sync/atomic"
	"time"

	"golang.org/x/crypto/nacl/box"
	"golang.org/x/crypto/nacl/secretbox"
	"golang.org/x/crypto/ripemd160"

	"github.com/bytom/bytom/crypto/ed25519/chainkd"
	"github.com/bytom/bytom/p2p/connection"

	"verif/lib/ev"
)

const (
	dataMax    = 1024
	frameSize  = dataMax + 2
	sealedSize = frameSize + secretbox.Overhead
)

// ---------------------------------------------------------------- deterministic randomness

// detRand replaces crypto/rand.Reader: a SHA-256 counter stream. Handshake randomness is
// opaque to the property; making it reproducible makes replays reproducible.
type detRand struct {
	mu  sync.Mutex
	ctr uint64
	buf []byte
	tag string
}

func (d *detRand) Read(p []byte) (int, error) {
	d.mu.Lock()
	defer d.mu.Unlock()
	for i := range p {
		if len(d.buf) == 0 {
			var c [8]byte
			binary.BigEndian.PutUint64(c[:], d.ctr)
			d.ctr++
			h := sha256.Sum256(append([]byte("verif-c32"+d.tag), c[:]...))
			d.buf = h[:]
		}
		p[i] = d.buf[0]
		d.buf = d.buf[1:]
	}
	return len(p), nil
}

// ---------------------------------------------------------------- the transport

var errEmpty = errors.New("verif pipe: nothing to read (a real transport would block here)")

// half is one direction of the duplex pipe.
type half struct {
	mu       sync.Mutex
	cond     *sync.Cond
	buf      []byte
	closed   bool
	blocking bool
	hold     bool     // writes are captured instead of delivered
	held     []byte   // captured bytes
	script   [][2]int // (read index, granularity) environment answers
	reads    int
	written  int
}

func newHalf() *half {
	h := &half{blocking: true}
	h.cond = sync.NewCond(&h.mu)
	return h
}

type endpoint struct{ in, out *half }

func (e *endpoint) Read(p []byte) (int, error) {
	h := e.in
	h.mu.Lock()
	defer h.mu.Unlock()
	for len(h.buf) == 0 {
		if h.closed {
			return 0, io.EOF
		}
		if !h.blocking {
			return 0, errEmpty
		}
		h.cond.Wait()
	}
	n := len(p)
	if n > len(h.buf) {
		n = len(h.buf)
	}
	for _, s := range h.script {
		if s[0] == h.reads && s[1] < n {
			n = s[1]
		}
	}
	h.reads++
	copy(p, h.buf[:n])
	h.buf = h.buf[n:]
	return n, nil
}

func (e *endpoint) Write(p []byte) (int, error) {
	h := e.out
	h.mu.Lock()
	defer h.mu.Unlock()
	if h.closed {
		return 0, io.ErrClosedPipe
	}
	h.written += len(p)
	if h.hold {
		h.held = append(h.held, p...)
	} else {
		h.buf = append(h.buf, p...)
	}
	h.cond.Broadcast()
	return len(p), nil
}

func (e *endpoint) Close() error {
	for _, h := range []*half{e.in, e.out} {
		h.mu.Lock()
		h.closed = true
		h.cond.Broadcast()
		h.mu.Unlock()
	}
	return nil
}

func (h *half) inject(b []byte) {
	h.mu.Lock()
	h.buf = append(h.buf, b...)
	h.cond.Broadcast()
	h.mu.Unlock()
}

func (h *half) flush() int {
	h.mu.Lock()
	n := len(h.buf)
	h.buf = nil
	h.mu.Unlock()
	return n
}

func (h *half) takeHeld() []byte {
	h.mu.Lock()
	b := h.held
	h.held = nil
	h.mu.Unlock()
	return b
}

func (h *half) set(blocking, hold bool, script [][2]int) {
	h.mu.Lock()
	h.blocking, h.hold, h.script, h.reads = blocking, hold, script, 0
	h.mu.Unlock()
}

// closeWrite ends this direction only: the reader sees EOF once the buffered bytes are consumed.
func (h *half) closeWrite() {
	h.mu.Lock()
	h.closed = true
	h.cond.Broadcast()
	h.mu.Unlock()
}

func (h *half) waitWritten(n int) {
	h.mu.Lock()
	for h.written < n && !h.closed {
		h.cond.Wait()
	}
	h.mu.Unlock()
}

// ---------------------------------------------------------------- a pair of real connections

type pair struct {
	sc     [2]*connection.SecretConnection
	ep     [2]*endpoint
	key    [2]chainkd.XPrv
	ab, ba *half // a->b and b->a
	rbuf   [4096]byte
}

var pairMu sync.Mutex // handshakes are serialised (deterministic randomness is a shared stream)
var pairSeq int

func newPair() (*pair, error) {
	pairMu.Lock()
	defer pairMu.Unlock()
	pairSeq++
	p := &pair{ab: newHalf(), ba: newHalf()}
	p.ep[0] = &endpoint{in: p.ba, out: p.ab}
	p.ep[1] = &endpoint{in: p.ab, out: p.ba}
	p.key[0] = chainkd.RootXPrv([]byte{'a', byte(pairSeq), byte(pairSeq >> 8)})
	p.key[1] = chainkd.RootXPrv([]byte{'b', byte(pairSeq), byte(pairSeq >> 8)})
	var errs [2]error
	var wg sync.WaitGroup
	for i := 0; i < 2; i++ {
		if i == 1 {
			// side b starts after side a has drawn its ephemeral key and sent it
			p.ab.waitWritten(32)
		}
		wg.Add(1)
		go func(i int) {
			defer wg.Done()
			defer func() {
				if r := recover(); r != nil {
					errs[i] = fmt.Errorf("panic in handshake: %v", r)
					p.ep[i].Close()
				}
			}()
			p.sc[i], errs[i] = connection.MakeSecretConnection(p.ep[i], p.key[i])
			if errs[i] != nil {
				p.ep[i].Close()
			}
		}(i)
	}
	wg.Wait()
	for i := 0; i < 2; i++ {
		if errs[i] != nil {
			return nil, fmt.Errorf("side %d: %v", i, errs[i])
		}
	}
	p.ab.set(false, false, nil)
	p.ba.set(false, false, nil)
	return p, nil
}

// recvHalf returns the transport half that carries dir's ciphertext (dir 0: a->b).
func (p *pair) recvHalf(dir int) *half {
	if dir == 0 {
		return p.ab
	}
	return p.ba
}

func safeRead(sc *connection.SecretConnection, buf []byte) (n int, err error, panicked interface{}) {
	defer func() {
		if r := recover(); r != nil {
			panicked = r
		}
	}()
	n, err = sc.Read(buf)
	return
}

func safeWrite(sc *connection.SecretConnection, data []byte) (n int, err error, panicked interface{}) {
	defer func() {
		if r := recover(); r != nil {
			panicked = r
		}
	}()
	n, err = sc.Write(data)
	return
}

// ---------------------------------------------------------------- part A/B: stream cases

type streamCase struct {
	Dir    int      `json:"dir"`    // 0: a writes, b reads; 1: the reverse
	Writes []int    `json:"writes"` // sizes of the Write calls
	Reads  []int    `json:"reads"`  // sizes of the first Read buffers; then 4096-byte reads until drained
	Order  int      `json:"order"`  // 0: all writes then the reads; 1: one read after each write
	Script [][2]int `json:"transport_short_answers,omitempty"`
}

type viol struct{ key, what string }

func payload(off, n int) []byte {
	b := make([]byte, n)
	for i := range b {
		x := off + i
		b[i] = byte(x*131 + (x>>8)*7 + (x>>16)*3 + 1)
	}
	return b
}

// execStream runs one case on an established, clean pair. clean reports whether the pair may be reused.
func execStream(p *pair, c streamCase) (vs []viol, nontrivial bool, outcome string, clean bool) {
	snd, rcv := p.sc[c.Dir], p.sc[1-c.Dir]
	rh := p.recvHalf(c.Dir)
	rh.set(false, false, c.Script)
	var written, got []byte
	// reference framing, used to diagnose and to decide non-triviality: remaining bytes per frame
	var frames []int
	cur := 0 // unread remainder of the frame the receiver is in
	outstanding := 0
	zeroFromBuffer, servedFromBuffer, sawEmpty := false, false, false
	clean = true
	add := func(k, w string) { vs = append(vs, viol{k, w}) }

	doWrite := func(sz int) bool {
		data := payload(len(written), sz)
		n, err, pn := safeWrite(snd, data)
		if pn != nil {
			add("write-panic", fmt.Sprintf("Write(%d bytes) panicked: %v", sz, pn))
			clean = false
			return false
		}
		if err != nil {
			add("write-error", fmt.Sprintf("Write(%d bytes) on a healthy transport returned %v", sz, err))
			clean = false
			return false
		}
		if n != sz {
			add("write-return-count", fmt.Sprintf("Write(%d bytes) returned n=%d", sz, n))
		}
		written = append(written, data...)
		for sz > 0 {
			k := sz
			if k > dataMax {
				k = dataMax
			}
			frames = append(frames, k)
			sz -= k
		}
		if len(frames) > 1 {
			nontrivial = true
		}
		outstanding += len(data)
		return true
	}
	doRead := func(sz int) (stop bool) {
		buf := p.rbuf[:sz]
		fromBuffer := cur > 0
		if cur == 0 && len(frames) > 0 {
			cur = frames[0]
			frames = frames[1:]
		}
		k := sz
		if k > cur {
			k = cur
		}
		cur -= k
		outstanding -= k
		if fromBuffer {
			servedFromBuffer = true
			nontrivial = true
		}
		n, err, pn := safeRead(rcv, buf)
		if pn != nil {
			add("read-panic", fmt.Sprintf("Read(%d-byte buffer) panicked: %v", sz, pn))
			clean = false
			return true
		}
		if n < 0 || n > sz {
			add("read-count-out-of-range", fmt.Sprintf("Read(%d-byte buffer) returned n=%d", sz, n))
			clean = false
			return true
		}
		got = append(got, buf[:n]...)
		if err == errEmpty {
			sawEmpty = true
			return true
		}
		if err != nil {
			add("read-error-on-valid-stream", fmt.Sprintf("Read(%d-byte buffer) returned %v although the stream was not tampered with", sz, err))
			clean = false
			return true
		}
		if n == 0 && fromBuffer {
			zeroFromBuffer = true
		}
		return false
	}

	stopped := false
	if c.Order == 0 {
		for _, w := range c.Writes {
			if !doWrite(w) {
				return vs, nontrivial, "aborted", clean
			}
		}
		for _, r := range c.Reads {
			if outstanding <= 0 {
				break
			}
			if stopped = doRead(r); stopped {
				break
			}
		}
	} else {
		ri := 0
		for _, w := range c.Writes {
			if !doWrite(w) {
				return vs, nontrivial, "aborted", clean
			}
			if ri < len(c.Reads) && outstanding > 0 && !stopped {
				stopped = doRead(c.Reads[ri])
				ri++
			}
		}
		for ; ri < len(c.Reads) && !stopped && outstanding > 0; ri++ {
			stopped = doRead(c.Reads[ri])
		}
	}
	// drain: 4096-byte reads until the transport is empty and nothing is buffered
	if clean && !sawEmpty {
		for i := 0; i < 64 && clean && !sawEmpty; i++ {
			doRead(4096)
		}
		if !sawEmpty && clean {
			add("read-no-progress", "64 reads with a 4096-byte buffer did not drain <= 9 frames")
			clean = false
		}
	}
	if rh.flush() != 0 {
		clean = false // a partial frame was left in the transport
	}
	if !bytes.Equal(got, written) {
		d := 0
		for d < len(got) && d < len(written) && got[d] == written[d] {
			d++
		}
		what := fmt.Sprintf("wrote %d bytes, Read returned %d bytes in total, first difference at offset %d", len(written), len(got), d)
		switch {
		case zeroFromBuffer:
			add("buffered-read-returns-zero", what+"; a Read served from the connection's receive buffer returned n=0 with a nil error, the copied bytes are lost to the caller")
		case len(got) < len(written):
			add("stream-bytes-lost", what)
		case len(got) > len(written):
			add("stream-bytes-duplicated", what)
		default:
			add("stream-bytes-altered", what)
		}
		outcome = "stream-mismatch"
	} else if len(vs) == 0 {
		switch {
		case servedFromBuffer && len(c.Script) > 0:
			outcome = "exact:buffered-reads+short-transport-reads"
		case servedFromBuffer:
			outcome = "exact:buffered-reads"
		case len(c.Script) > 0:
			outcome = "exact:short-transport-reads"
		case nontrivial:
			outcome = "exact:multi-frame"
		default:
			outcome = "exact:single-frame-whole-reads"
		}
	} else {
		outcome = "other-violation"
	}
	return
}

func seqs(alpha []int, maxLen int, minLen int) [][]int {
	var out [][]int
	var rec func(cur []int)
	rec = func(cur []int) {
		if len(cur) >= minLen {
			out = append(out, append([]int{}, cur...))
		}
		if len(cur) == maxLen {
			return
		}
		for _, a := range alpha {
			rec(append(cur, a))
		}
	}
	rec(nil)
	return out
}

// scripts enumerates the transport's short answers for a run that needs `frames` whole transport
// reads: one short answer at read index i < frames, or two at i < j <= frames (the first short
// answer adds one transport read).
func scripts(frames int) [][][2]int {
	var out [][][2]int
	kinds := []int{1, 7}
	for i := 0; i < frames; i++ {
		for _, k := range kinds {
			out = append(out, [][2]int{{i, k}})
		}
	}
	for i := 0; i < frames; i++ {
		for j := i + 1; j <= frames; j++ {
			for _, k1 := range kinds {
				for _, k2 := range kinds {
					out = append(out, [][2]int{{i, k1}, {j, k2}})
				}
			}
		}
	}
	return out
}

func nframes(ws []int) int {
	n := 0
	for _, w := range ws {
		n += (w + dataMax - 1) / dataMax
	}
	return n
}

func runStreamCases(run *ev.Run, name string, gen func(emit func(streamCase))) {
	workers := runtime.NumCPU()
	if workers > 8 {
		workers = 8
	}
	pairs := make([]*pair, workers)
	for i := range pairs {
		p, err := newPair()
		if err != nil {
			run.Violation("handshake-failed", "honest handshake over a healthy transport failed: "+err.Error(), nil)
			return
		}
		pairs[i] = p
	}
	type job struct {
		idx int
		c   streamCase
	}
	type found struct {
		idx  int
		c    streamCase
		what string
	}
	ch := make(chan job, 1024)
	var wg sync.WaitGroup
	var nontriv, evals, rehandshakes int64
	var fmu sync.Mutex
	first := map[string]found{} // per key the case with the smallest enumeration index (deterministic report)
	for w := 0; w < workers; w++ {
		wg.Add(1)
		go func(p *pair) {
			defer wg.Done()
			outcomes := map[string]int{}
			for j := range ch {
				if p == nil {
					continue
				}
				c := j.c
				vs, nt, outcome, clean := execStream(p, c)
				atomic.AddInt64(&evals, 1)
				if nt {
					atomic.AddInt64(&nontriv, 1)
				}
				outcomes[outcome]++
				for _, v := range vs {
					fmu.Lock()
					if f, ok := first[v.key]; !ok || j.idx < f.idx {
						first[v.key] = found{j.idx, c, v.what}
					}
					fmu.Unlock()
				}
				if !clean {
					if atomic.AddInt64(&rehandshakes, 1) > 2000 {
						// broken code: every case desynchronises the pair; the violations are recorded, stop this part
						run.Capped(name + ": more than 2000 cases left the connection unusable; part stopped early")
						p = nil
						continue
					}
					np, err := newPair()
					if err != nil {
						fmu.Lock()
						first["handshake-failed"] = found{j.idx, c, "honest handshake over a healthy transport failed: " + err.Error()}
						fmu.Unlock()
						p = nil
						continue
					}
					p = np
				}
			}
			fmu.Lock()
			for o, n := range outcomes {
				for i := 0; i < n; i++ {
					run.Outcome(name + ":" + o)
				}
			}
			fmu.Unlock()
		}(pairs[w])
	}
	n := 0
	gen(func(c streamCase) {
		if n%4096 == 0 && run.OutOfTime() {
			return
		}
		n++
		if n%50021 == 1 {
			run.Sample(c)
		}
		ch <- job{n, c}
	})
	close(ch)
	wg.Wait()
	var keys []string
	for k := range first {
		keys = append(keys, k)
	}
	sort.Strings(keys)
	for _, k := range keys {
		f := first[k]
		run.Violation(k, fmt.Sprintf("%s case #%d %+v: %s", name, f.idx, f.c, f.what), f.c)
	}
	run.Add("evaluations", int(evals))
	run.Add("distinct_nontrivial", int(nontriv))
	run.Add(name+"_cases", int(evals))
}

// ---------------------------------------------------------------- part C: ciphertext manipulation

// readUntilError reads with 4096-byte buffers until an error; returns the data delivered.
func readUntilError(sc *connection.SecretConnection) (got []byte, err error, zeroNil bool, pn interface{}) {
	for i := 0; i < 32; i++ {
		buf := make([]byte, 4096)
		n, e, p := safeRead(sc, buf)
		if p != nil {
			return got, nil, zeroNil, p
		}
		if n > 0 && n <= len(buf) {
			got = append(got, buf[:n]...)
		}
		if e != nil {
			return got, e, zeroNil, nil
		}
		if n == 0 {
			zeroNil = true
			return got, nil, zeroNil, nil
		}
	}
	return got, nil, zeroNil, nil
}

type tamperCase struct {
	Dir   int    `json:"dir"`
	Size  int    `json:"write_size"`
	Frame int    `json:"frame"`
	Kind  string `json:"kind"`
	Pos   int    `json:"byte,omitempty"`
	Bit   int    `json:"bit,omitempty"`
}

func partC(run *ev.Run) {
	sizes := []int{1, 1024}
	if run.Thorough() {
		sizes = []int{1, 2, 1023, 1024, 2049}
	}
	for dir := 0; dir < 2; dir++ {
		p, err := newPair()
		if err != nil {
			run.Violation("handshake-failed", "honest handshake failed: "+err.Error(), nil)
			return
		}
		snd, rcv := p.sc[dir], p.sc[1-dir]
		rh := p.recvHalf(dir)
		off := 0
		// expectRejected: inject bytes, every read must fail without delivering data
		expectRejected := func(tc tamperCase, wire []byte, key, what string) {
			rh.flush()
			rh.inject(wire)
			got, e, zeroNil, pn := readUntilError(rcv)
			rh.flush()
			run.Add("evaluations", 1)
			run.Add("distinct_nontrivial", 1)
			run.Add("tamper_cases", 1)
			switch {
			case pn != nil:
				run.Outcome("tamper:panic")
				run.Violation(key+"-panic", fmt.Sprintf("%+v: %s: Read panicked: %v", tc, what, pn), tc)
			case len(got) > 0:
				run.Outcome("tamper:data-delivered")
				run.Violation(key+"-delivers-data", fmt.Sprintf("%+v: %s: Read delivered %d bytes", tc, what, len(got)), tc)
			case zeroNil || e == nil:
				run.Outcome("tamper:not-detected")
				run.Violation(key+"-not-detected", fmt.Sprintf("%+v: %s: Read returned n=0 and a nil error", tc, what), tc)
			case e == errEmpty:
				run.Outcome("tamper:waits-for-more-bytes")
			default:
				run.Outcome("tamper:rejected")
			}
		}
		expectData := func(tc tamperCase, wire, want []byte) bool {
			rh.flush()
			rh.inject(wire)
			got, e, _, pn := readUntilError(rcv)
			if pn != nil || e != errEmpty || !bytes.Equal(got, want) {
				return false
			}
			return true
		}
		for _, sz := range sizes {
			data := payload(off, sz)
			off += sz
			p.recvHalf(dir).set(false, true, nil)
			if n, err, pn := safeWrite(snd, data); err != nil || pn != nil || n != sz {
				run.Violation("write-error", fmt.Sprintf("Write(%d) = %d, %v, panic %v", sz, n, err, pn), nil)
				return
			}
			wire := rh.takeHeld()
			rh.set(false, false, nil)
			if len(wire)%sealedSize != 0 || len(wire)/sealedSize != (sz+dataMax-1)/dataMax {
				run.Violation("frame-size-unexpected", fmt.Sprintf("Write(%d) put %d bytes on the wire, expected %d frames of %d", sz, len(wire), (sz+dataMax-1)/dataMax, sealedSize), nil)
				return
			}
			nf := len(wire) / sealedSize
			for f := 0; f < nf; f++ {
				frame := wire[f*sealedSize : (f+1)*sealedSize]
				chunk := data[f*dataMax:]
				if len(chunk) > dataMax {
					chunk = chunk[:dataMax]
				}
				// every single-bit flip
				for pos := 0; pos < sealedSize; pos++ {
					for bit := 0; bit < 8; bit++ {
						mod := append([]byte{}, frame...)
						mod[pos] ^= 1 << uint(bit)
						expectRejected(tamperCase{dir, sz, f, "bitflip", pos, bit}, mod, "bitflip", "one bit of the sealed frame flipped")
					}
				}
				// every truncation point: the first k bytes of the frame followed by the next bytes of the stream
				// (= k..sealedSize-1 deleted) and the first k bytes followed by nothing
				for k := 0; k < sealedSize; k++ {
					if k > 0 {
						expectRejected(tamperCase{dir, sz, f, "truncated-then-silence", k, 0}, frame[:k], "truncation", fmt.Sprintf("only the first %d bytes of the frame arrive", k))
					}
					follow := append(append([]byte{}, frame[:k]...), frame...)
					if k > 0 {
						expectRejected(tamperCase{dir, sz, f, "bytes-deleted", k, 0}, follow[:sealedSize], "deletion", fmt.Sprintf("frame cut after %d bytes and followed by other ciphertext", k))
					}
				}
				// replay of an earlier frame / a later frame first (swap, drop)
				if f+1 < nf {
					next := wire[(f+1)*sealedSize : (f+2)*sealedSize]
					expectRejected(tamperCase{dir, sz, f, "swap-or-drop", 0, 0}, append(append([]byte{}, next...), frame...), "reorder", "the following frame is delivered before this one")
				}
				// the genuine frame must still be accepted: the rejections above left the receiver in sync,
				// so every rejection was caused by the manipulation and not by an earlier one
				if !expectData(tamperCase{dir, sz, f, "genuine", 0, 0}, frame, chunk) {
					run.Outcome("tamper:receiver-unusable-after-rejection")
					run.Set("note_partC", "after rejecting manipulated frames the receiver did not accept the genuine frame; later manipulation cases in that direction are weaker")
					run.Capped("part C: receiver lost sync after a rejected frame (not required by the statement, but the later cases are not meaningful)")
				} else {
					run.Outcome("tamper:genuine-accepted-afterwards")
				}
				expectRejected(tamperCase{dir, sz, f, "replay", 0, 0}, frame, "replay", "the frame just accepted is delivered again")
			}
		}
	}
}

// ---------------------------------------------------------------- part D: byte-level peer

func hash24(in []byte) *[24]byte {
	h := ripemd160.New()
	h.Write(in)
	var r [24]byte
	copy(r[:], h.Sum(nil))
	return &r
}

func incr2(n *[24]byte) {
	for k := 0; k < 2; k++ {
		for i := 23; i >= 0; i-- {
			n[i]++
			if n[i] != 0 {
				break
			}
		}
	}
}

type rawPeer struct {
	ep         *endpoint
	secret     [32]byte
	recv, send *[24]byte
	challenge  [32]byte
	isLo       bool
}

func (r *rawPeer) seal(chunkLen int, chunk []byte) []byte {
	frame := make([]byte, frameSize)
	binary.BigEndian.PutUint16(frame, uint16(chunkLen))
	copy(frame[2:], chunk)
	out := secretbox.Seal(nil, frame, r.send, &r.secret)
	incr2(r.send)
	return out
}

func (r *rawPeer) open() ([]byte, error) {
	sealed := make([]byte, sealedSize)
	if _, err := io.ReadFull(r.ep, sealed); err != nil {
		return nil, err
	}
	frame, ok := secretbox.Open(nil, sealed, r.recv, &r.secret)
	if !ok {
		return nil, errors.New("raw peer: cannot open frame")
	}
	incr2(r.recv)
	l := int(binary.BigEndian.Uint16(frame))
	if l > dataMax {
		return nil, errors.New("raw peer: chunk too long")
	}
	return frame[2 : 2+l], nil
}

type rawMode struct {
	Name    string `json:"mode"`
	FlipPos int    `json:"flip_byte,omitempty"`
	FlipBit int    `json:"flip_bit,omitempty"`
}

// rawSession: the real code is side 0; the harness speaks the protocol on side 1.
// Returns the real connection (nil if its handshake failed), its error, and the raw peer.
func rawSession(mode rawMode, seq int) (sc *connection.SecretConnection, herr error, rp *rawPeer, realKey, rawKey, victim chainkd.XPrv, infra error) {
	pairMu.Lock()
	defer pairMu.Unlock()
	ab, ba := newHalf(), newHalf()
	epReal := &endpoint{in: ba, out: ab}
	epRaw := &endpoint{in: ab, out: ba}
	realKey = chainkd.RootXPrv([]byte{'r', byte(seq), byte(seq >> 8)})
	rawKey = chainkd.RootXPrv([]byte{'h', byte(seq), byte(seq >> 8)})
	victim = chainkd.RootXPrv([]byte{'v', byte(seq), byte(seq >> 8)})
	done := make(chan struct{})
	go func() {
		defer close(done)
		defer func() {
			if r := recover(); r != nil {
				herr = fmt.Errorf("panic: %v", r)
				sc = nil
				epReal.Close()
			}
		}()
		sc, herr = connection.MakeSecretConnection(epReal, realKey)
		if herr != nil {
			sc = nil
			epReal.Close()
		}
	}()
	ab.waitWritten(32)
	rp = &rawPeer{ep: epRaw}
	pub, priv, err := box.GenerateKey(crand.Reader)
	if err != nil {
		return nil, nil, nil, realKey, rawKey, victim, err
	}
	epRaw.Write(pub[:])
	var rem [32]byte
	if _, err := io.ReadFull(epRaw, rem[:]); err != nil {
		<-done
		return sc, herr, nil, realKey, rawKey, victim, fmt.Errorf("raw peer could not read the ephemeral key: %v", err)
	}
	box.Precompute(&rp.secret, &rem, priv)
	lo, hi := pub[:], rem[:]
	rp.isLo = true
	if bytes.Compare(lo, hi) >= 0 {
		lo, hi = hi, lo
		rp.isLo = false
	}
	both := append(append([]byte{}, lo...), hi...)
	n1 := hash24(both)
	n2 := new([24]byte)
	*n2 = *n1
	n2[23] ^= 1
	if rp.isLo {
		rp.recv, rp.send = n1, n2
	} else {
		rp.recv, rp.send = n2, n1
	}
	rp.challenge = sha256.Sum256(both)
	signKey := rawKey
	claim := []byte(rawKey.XPub().PublicKey())
	msgToSign := rp.challenge[:]
	switch mode.Name {
	case "claims-foreign-key":
		claim = []byte(victim.XPub().PublicKey())
	case "signs-swapped-challenge":
		sw := sha256.Sum256(append(append([]byte{}, hi...), lo...))
		msgToSign = sw[:]
	case "signs-remote-ephemeral-only":
		sw := sha256.Sum256(rem[:])
		msgToSign = sw[:]
	}
	sig := signKey.Sign(msgToSign)
	// go-wire encoding of struct{Key, Sig []byte}: each slice = 0x01, length byte, bytes  (100 bytes)
	auth := append([]byte{0x01, 0x20}, claim...)
	auth = append(auth, 0x01, 0x40)
	auth = append(auth, sig...)
	switch mode.Name {
	case "flip-auth-key-bit":
		auth[2+mode.FlipPos] ^= 1 << uint(mode.FlipBit)
	case "flip-auth-sig-bit":
		auth[36+mode.FlipPos] ^= 1 << uint(mode.FlipBit)
	}
	epRaw.Write(rp.seal(len(auth), auth))
	<-done
	return sc, herr, rp, realKey, rawKey, victim, nil
}

func partD(run *ev.Run) {
	seq := 0
	session := func(mode rawMode) (*connection.SecretConnection, error, *rawPeer, chainkd.XPrv, chainkd.XPrv) {
		seq++
		sc, herr, rp, realKey, rawKey, _, infra := rawSession(mode, seq)
		if infra != nil && sc == nil && herr == nil {
			ev.Fatal("raw peer: %v", infra)
		}
		run.Add("evaluations", 1)
		run.Add("distinct_nontrivial", 1)
		run.Add("raw_peer_sessions", 1)
		return sc, herr, rp, realKey, rawKey
	}
	// honest sessions (several, so that both nonce orders occur)
	loSeen, hiSeen := 0, 0
	longDone := map[bool]bool{}
	for i := 0; i < 8 || (i < 64 && (loSeen == 0 || hiSeen == 0)); i++ {
		sc, herr, rp, realKey, rawKey := session(rawMode{Name: "honest"})
		if sc == nil {
			// the byte-level peer is an independent implementation of the documented handshake (X25519 exchange,
			// challenge = SHA-256(lower ephemeral key || higher ephemeral key), ed25519 signature over it, secretbox
			// frames): it completes honest handshakes with the unchanged code, so a refusal means the code no longer
			// speaks that protocol (e.g. signs a challenge that does not bind both ephemeral keys)
			run.Violation("handshake-differs-from-independent-implementation", fmt.Sprintf("the real end refuses an honest handshake of the independent byte-level peer: %v", herr), map[string]interface{}{"session": i})
			run.Finish()
		}
		if rp.isLo {
			loSeen++
		} else {
			hiSeen++
		}
		if !bytes.Equal(sc.RemotePubKey(), rawKey.XPub().PublicKey()) {
			run.Violation("remote-pubkey-mismatch", "RemotePubKey differs from the key the peer authenticated with", nil)
		}
		// the real side's authentication message, opened by the harness
		rp.ep.in.set(false, false, nil)
		msg, err := rp.open()
		if err != nil || len(msg) != 100 || !bytes.Equal(msg[2:34], realKey.XPub().PublicKey()) {
			run.Violation("auth-message-malformed", fmt.Sprintf("real side's authentication message: err=%v len=%d", err, len(msg)), nil)
		}
		// data both ways through the independent framing
		scEp := sc
		for _, sz := range []int{1, 1023, 1024, 1025, 2049} {
			data := payload(sz, sz)
			if n, err, pn := safeWrite(scEp, data); n != sz || err != nil || pn != nil {
				run.Violation("write-error", fmt.Sprintf("Write(%d) = %d, %v, %v", sz, n, err, pn), nil)
			}
			var got []byte
			for len(got) < sz {
				chunk, err := rp.open()
				if err != nil {
					break
				}
				got = append(got, chunk...)
			}
			if !bytes.Equal(got, data) {
				run.Violation("wire-format-stream-mismatch", fmt.Sprintf("the byte-level peer decoded %d bytes from the wire for a %d-byte Write, content equal: %v", len(got), sz, bytes.Equal(got, data)), nil)
			}
			// raw -> real
			rest := data
			var wire []byte
			for len(rest) > 0 {
				k := len(rest)
				if k > dataMax {
					k = dataMax
				}
				wire = append(wire, rp.seal(k, rest[:k])...)
				rest = rest[k:]
			}
			rp.ep.out.set(false, false, nil)
			rp.ep.Write(wire)
			back, e, _, pn := readUntilError(sc)
			if pn != nil || e != errEmpty || !bytes.Equal(back, data) {
				run.Violation("wire-format-stream-mismatch", fmt.Sprintf("the real side read %d bytes (err %v, panic %v) for %d bytes sealed by the byte-level peer", len(back), e, pn, sz), nil)
			}
			run.Add("evaluations", 2)
		}
		// a long stream through the independent framing, once per nonce order: the byte-level peer counts its
		// nonces with its own arithmetic, so the real end's counters must carry like the documented ones
		// (300 frames cross the wrap of the low nonce byte twice; thorough 33100 cross the second byte's)
		if !longDone[rp.isLo] {
			longDone[rp.isLo] = true
			nLong := run.Pick(300, 33100)
			for k := 0; k < nLong; k++ {
				data := []byte{byte(k), byte(k >> 8), byte(k >> 16)}
				if n, err, pn := safeWrite(scEp, data); n != len(data) || err != nil || pn != nil {
					run.Violation("write-error", fmt.Sprintf("long stream: Write %d = %d, %v, %v", k, n, err, pn), nil)
					break
				}
				chunk, err := rp.open()
				if err != nil || !bytes.Equal(chunk, data) {
					run.Violation("wire-format-long-stream-mismatch", fmt.Sprintf("frame %d of a stream of one-frame writes by the real end cannot be opened by the byte-level peer with the documented nonce sequence (%v)", k, err), map[string]interface{}{"frame": k, "direction": "real->peer", "peer_has_low_ephemeral_key": rp.isLo})
					break
				}
				rp.ep.out.set(false, false, nil)
				rp.ep.Write(rp.seal(len(data), data))
				back, e, _, pn := readUntilError(sc)
				if pn != nil || e != errEmpty || !bytes.Equal(back, data) {
					run.Violation("wire-format-long-stream-mismatch", fmt.Sprintf("frame %d of a stream sealed by the byte-level peer with the documented nonce sequence is not delivered by the real end (%d bytes, err %v, panic %v)", k, len(back), e, pn), map[string]interface{}{"frame": k, "direction": "peer->real", "peer_has_low_ephemeral_key": rp.isLo})
					break
				}
				run.Add("evaluations", 2)
			}
			run.Add("raw_peer_long_stream_frames", 2*nLong)
		}
		run.Outcome("rawpeer:honest-accepted")
		// oversized chunk lengths, correctly sealed
		for _, l := range []int{1025, 1026, 4096, 65535} {
			w := rp.seal(l, payload(0, dataMax))
			rp.ep.Write(w)
			got, e, zeroNil, pn := readUntilError(sc)
			run.Add("evaluations", 1)
			switch {
			case pn != nil:
				run.Outcome("rawpeer:oversized-chunk-panic")
				run.Violation("oversized-chunk-panic", fmt.Sprintf("a frame announcing chunk length %d makes Read panic: %v", l, pn), map[string]int{"chunk_length": l})
			case len(got) > 0 || zeroNil || e == nil || e == errEmpty:
				run.Outcome("rawpeer:oversized-chunk-accepted")
				run.Violation("oversized-chunk-accepted", fmt.Sprintf("a frame announcing chunk length %d > %d was not rejected (%d bytes delivered, err %v)", l, dataMax, len(got), e), map[string]int{"chunk_length": l})
			default:
				run.Outcome("rawpeer:oversized-chunk-rejected")
			}
		}
	}
	run.Set("raw_peer_nonce_orders", map[string]int{"peer_has_low_ephemeral_key": loSeen, "peer_has_high_ephemeral_key": hiSeen})
	var modes []rawMode
	modes = append(modes, rawMode{Name: "claims-foreign-key"}, rawMode{Name: "signs-swapped-challenge"}, rawMode{Name: "signs-remote-ephemeral-only"})
	for pos := 0; pos < 32; pos++ {
		for bit := 0; bit < 8; bit++ {
			modes = append(modes, rawMode{"flip-auth-key-bit", pos, bit})
		}
	}
	for pos := 0; pos < 64; pos++ {
		for bit := 0; bit < 8; bit++ {
			modes = append(modes, rawMode{"flip-auth-sig-bit", pos, bit})
		}
	}
	for _, m := range modes {
		sc, herr, _, _, _ := session(m)
		if sc != nil {
			run.Outcome("rawpeer:unauthenticated-accepted")
			run.Violation("handshake-accepts-unauthenticated-key."+m.Name, fmt.Sprintf("peer %+v was accepted; RemotePubKey=%x", m, []byte(sc.RemotePubKey())), m)
		} else {
			_ = herr
			run.Outcome("rawpeer:" + m.Name + "-rejected")
		}
	}
}

// ---------------------------------------------------------------- part E: dishonest remote end in the handshake

// authShape is one behaviour of the remote end during the handshake.
type authShape struct {
	Role    string `json:"role"`               // real-dials: the peer answers each message of the real end; real-listens: the peer speaks first
	PeerEph string `json:"peer_ephemeral_key"` // low / high relative to the real end's ephemeral key (decides the nonce order)
	Claim   string `json:"claimed_key"`        // own: the key the peer can sign with; foreign: somebody else's public key
	KeyLen  int    `json:"declared_key_length"`
	SigLen  int    `json:"declared_signature_length"`
	Sig     string `json:"signature_material"` // by-own-key | zeros | by-own-key-over-other-challenge
	Framing string `json:"framing"`            // one-frame-zero-padded | one-frame-material-continues | split-after-key-field | unpadded-then-close
	Enc     string `json:"length_encoding"`    // canonical | {key,sig}-length-two-byte (02 00 len) | {key,sig}-length-negative (f1 len)
}

type ephKey struct{ pub, priv *[32]byte }

// peerEphKeys returns two ephemeral key pairs of the peer whose public keys start with 0x00 and 0xff,
// i.e. sort below / above (almost) every ephemeral key the real end draws. A dishonest peer may reuse them.
func peerEphKeys() (lo, hi ephKey) {
	r := &detRand{tag: "-peer-eph"}
	for lo.pub == nil || hi.pub == nil {
		pub, priv, err := box.GenerateKey(r)
		if err != nil {
			ev.Fatal("box.GenerateKey: %v", err)
		}
		if pub[0] == 0x00 && lo.pub == nil {
			lo = ephKey{pub, priv}
		}
		if pub[0] == 0xff && hi.pub == nil {
			hi = ephKey{pub, priv}
		}
	}
	return
}

func fit(material []byte, n int) []byte {
	out := make([]byte, n)
	copy(out, material)
	return out
}

// lenPrefix is the go-wire length prefix of a byte slice: 0x00 for the empty slice, else 0x01 <len>;
// the non-canonical forms are a two-byte big-endian length (02 00 len) and a negative one (f1 len).
func lenPrefix(n int, form string) []byte {
	switch form {
	case "two-byte":
		return []byte{0x02, 0x00, byte(n)}
	case "negative":
		return []byte{0xf1, byte(n)}
	}
	if n == 0 {
		return []byte{0x00}
	}
	return []byte{0x01, byte(n)}
}

type authResult struct {
	sc        *connection.SecretConnection
	herr      error
	panicked  bool
	peerIsLo  bool
	claimed   []byte // the Key field as sent
	expect    bool   // reference: must the real end establish the connection?
	realAuth  string // "" = the real end's authentication message proved the real key to the peer
	realKeyOK bool
}

// authSession runs one handshake of the real code (side 0) against the byte-level peer behaving as s.
func authSession(s authShape, seq int, ephLo, ephHi ephKey) (res authResult) {
	pairMu.Lock()
	defer pairMu.Unlock()
	ab, ba := newHalf(), newHalf()
	epReal := &endpoint{in: ba, out: ab}
	epRaw := &endpoint{in: ab, out: ba}
	realKey := chainkd.RootXPrv([]byte{'R', byte(seq), byte(seq >> 8), byte(seq >> 16)})
	rawKey := chainkd.RootXPrv([]byte{'H', byte(seq), byte(seq >> 8), byte(seq >> 16)})
	victim := chainkd.RootXPrv([]byte{'V', byte(seq), byte(seq >> 8), byte(seq >> 16)})
	eph := ephLo
	if s.PeerEph == "high" {
		eph = ephHi
	}
	done := make(chan struct{})
	start := func() {
		go func() {
			defer close(done)
			defer func() {
				if r := recover(); r != nil {
					res.herr = fmt.Errorf("panic: %v", r)
					res.panicked = true
					res.sc = nil
					epReal.Close()
				}
			}()
			sc, err := connection.MakeSecretConnection(epReal, realKey)
			if err != nil {
				sc = nil
				epReal.Close()
			}
			res.sc, res.herr = sc, err
		}()
	}
	if s.Role == "real-listens" {
		// the remote end dialled: its ephemeral key is already there when the real end starts
		epRaw.Write(eph.pub[:])
		start()
	} else {
		start()
		ab.waitWritten(32)
		epRaw.Write(eph.pub[:])
	}
	var rem [32]byte
	if _, err := io.ReadFull(epRaw, rem[:]); err != nil {
		<-done
		ev.Fatal("part E: the peer could not read the real end's ephemeral key: %v (real end: %v)", err, res.herr)
	}
	rp := &rawPeer{ep: epRaw}
	box.Precompute(&rp.secret, &rem, eph.priv)
	lo, hi := eph.pub[:], rem[:]
	rp.isLo = true
	if bytes.Compare(lo, hi) >= 0 {
		lo, hi = hi, lo
		rp.isLo = false
	}
	res.peerIsLo = rp.isLo
	both := append(append([]byte{}, lo...), hi...)
	n1 := hash24(both)
	n2 := new([24]byte)
	*n2 = *n1
	n2[23] ^= 1
	if rp.isLo {
		rp.recv, rp.send = n1, n2
	} else {
		rp.recv, rp.send = n2, n1
	}
	rp.challenge = sha256.Sum256(both)

	// the authentication message
	keyMat := []byte(rawKey.XPub().PublicKey())
	if s.Claim == "foreign" {
		keyMat = []byte(victim.XPub().PublicKey())
	}
	var sigMat []byte
	switch s.Sig {
	case "by-own-key":
		sigMat = rawKey.Sign(rp.challenge[:])
	case "by-own-key-over-other-challenge":
		sw := sha256.Sum256(append(append([]byte{}, hi...), lo...))
		sigMat = rawKey.Sign(sw[:])
	case "zeros":
		sigMat = make([]byte, 64)
	default:
		ev.Fatal("part E: unknown signature material %q", s.Sig)
	}
	keyField, sigField := fit(keyMat, s.KeyLen), fit(sigMat, s.SigLen)
	res.claimed = keyField
	// reference: the remote proved possession of the key it claims
	res.expect = len(keyField) == ed25519.PublicKeySize && len(sigField) == ed25519.SignatureSize &&
		ed25519.Verify(ed25519.PublicKey(keyField), rp.challenge[:], sigField)
	keyForm, sigForm := "", ""
	switch s.Enc {
	case "canonical":
	case "key-length-two-byte":
		keyForm = "two-byte"
	case "key-length-negative":
		keyForm = "negative"
	case "sig-length-two-byte":
		sigForm = "two-byte"
	case "sig-length-negative":
		sigForm = "negative"
	default:
		ev.Fatal("part E: unknown length encoding %q", s.Enc)
	}
	if s.Enc != "canonical" {
		// a 32-byte key and a 64-byte signature with a longer prefix do not fit into the 100 bytes the
		// real end reads, and a negative length is no length: such a message never authenticates
		res.expect = false
	}
	part1 := append(lenPrefix(s.KeyLen, keyForm), keyField...)
	part2 := append(lenPrefix(s.SigLen, sigForm), sigField...)
	msg := append(append([]byte{}, part1...), part2...)
	var frames [][]byte
	closeAfter := false
	switch s.Framing {
	case "one-frame-zero-padded":
		if len(msg) < 100 {
			msg = fit(msg, 100)
		}
		frames = [][]byte{msg}
	case "one-frame-material-continues":
		// the bytes behind the declared signature are the rest of the 64-byte material, then zeros
		if s.SigLen < len(sigMat) {
			msg = append(msg, sigMat[s.SigLen:]...)
		}
		if len(msg) < 100 {
			msg = fit(msg, 100)
		}
		frames = [][]byte{msg}
	case "split-after-key-field":
		rest := part2
		if len(part1)+len(rest) < 100 {
			rest = fit(rest, 100-len(part1))
		}
		frames = [][]byte{part1, rest}
	case "unpadded-then-close":
		frames = [][]byte{msg}
		closeAfter = len(msg) < 100
	default:
		ev.Fatal("part E: unknown framing %q", s.Framing)
	}
	if s.Role == "real-dials" {
		// the peer answers: it waits for the real end's authentication frame
		ab.waitWritten(32 + sealedSize)
	}
	for _, f := range frames {
		for len(f) > 0 {
			k := len(f)
			if k > dataMax {
				k = dataMax
			}
			epRaw.Write(rp.seal(k, f[:k]))
			f = f[k:]
		}
	}
	if closeAfter {
		ba.closeWrite()
	}
	select {
	case <-done:
	case <-time.After(20 * time.Second):
		ev.Fatal("part E: the real end's handshake did not return within 20 s for %+v", s)
	}
	// the real end's own authentication message, as the peer sees it
	ab.set(false, false, nil)
	m, err := rp.open()
	realPub := []byte(realKey.XPub().PublicKey())
	switch {
	case err != nil:
		res.realAuth = fmt.Sprintf("cannot be opened: %v", err)
	case len(m) != 100 || m[0] != 0x01 || m[1] != 0x20 || m[34] != 0x01 || m[35] != 0x40:
		res.realAuth = fmt.Sprintf("not the 100-byte encoding of a 32-byte key and a 64-byte signature (%d bytes)", len(m))
	case !bytes.Equal(m[2:34], realPub):
		res.realAuth = "carries a key that is not the real end's key"
	case !ed25519.Verify(ed25519.PublicKey(realPub), rp.challenge[:], m[36:100]):
		res.realAuth = "its signature of the session challenge does not verify under the real end's key"
	}
	if res.sc == nil {
		epReal.Close()
	}
	return res
}

func lenClass(n, want int, what string) string {
	switch {
	case n == want:
		return ""
	case n == 0:
		return "empty-" + what
	case n < want:
		return "short-" + what
	default:
		return "long-" + what
	}
}

func (s authShape) class() string {
	c := s.Claim + "-key"
	if k := lenClass(s.KeyLen, 32, "key"); k != "" {
		c += "." + k
	}
	if k := lenClass(s.SigLen, 64, "signature"); k != "" {
		c += "." + k
	} else if !(s.Claim == "own" && s.Sig == "by-own-key" && s.KeyLen == 32) {
		c += ".wrong-signature"
	} else {
		c += ".genuine-signature"
	}
	if s.Enc != "canonical" {
		c += ".noncanonical-length"
	}
	return c
}

func partE(run *ev.Run) {
	keyLens := []int{0, 1, 31, 32, 33}
	sigLens := []int{0, 1, 2, 31, 32, 33, 62, 63, 64, 65, 66}
	sigKinds := []string{"by-own-key", "zeros"}
	if run.Thorough() {
		keyLens = []int{0, 1, 2, 16, 31, 32, 33, 34, 64}
		sigLens = nil
		for l := 0; l <= 66; l++ {
			sigLens = append(sigLens, l)
		}
		sigKinds = append(sigKinds, "by-own-key-over-other-challenge")
	}
	framings := []string{"one-frame-zero-padded", "one-frame-material-continues", "split-after-key-field", "unpadded-then-close"}
	encs := []string{"canonical", "sig-length-two-byte", "sig-length-negative"}
	if run.Thorough() {
		encs = append(encs, "key-length-two-byte", "key-length-negative")
	}
	run.Set("partE_length_encodings", encs)
	run.Set("partE_declared_key_lengths", keyLens)
	run.Set("partE_declared_signature_lengths", sigLens)
	run.Set("partE_signature_material", sigKinds)
	run.Set("partE_framings", framings)
	ephLo, ephHi := peerEphKeys()
	seq := 0
	orders := map[string]int{}
	type firstCase struct {
		s    authShape
		what string
	}
	first := map[string]firstCase{}
	var keys []string
	report := func(key string, s authShape, what string) {
		if _, ok := first[key]; !ok {
			first[key] = firstCase{s, what}
			keys = append(keys, key)
		}
	}
	for _, role := range []string{"real-dials", "real-listens"} {
		for _, pe := range []string{"low", "high"} {
			for _, claim := range []string{"own", "foreign"} {
				for _, kl := range keyLens {
					for _, sl := range sigLens {
						for _, sk := range sigKinds {
							for _, fr := range framings {
								for _, enc := range encs {
									if seq%256 == 0 && run.OutOfTime() {
										run.Capped("part E stopped by the time budget")
										goto out
									}
									s := authShape{role, pe, claim, kl, sl, sk, fr, enc}
									seq++
									if seq%997 == 1 {
										run.Sample(s)
									}
									r := authSession(s, seq, ephLo, ephHi)
									run.Add("evaluations", 1)
									run.Add("distinct_nontrivial", 1)
									run.Add("auth_shape_sessions", 1)
									if r.peerIsLo {
										orders[role+":peer_has_low_ephemeral_key"]++
									} else {
										orders[role+":peer_has_high_ephemeral_key"]++
									}
									cl := s.class()
									if r.realAuth != "" {
										report("auth-message-does-not-prove-local-key", s, "the real end's authentication message "+r.realAuth)
									}
									switch {
									case r.panicked:
										run.Outcome("authshape:" + cl + ":panic")
										pk := "handshake-panic." + cl
										if s.KeyLen != 32 {
											pk = "handshake-panic.key-length-not-32"
										}
										report(pk, s, fmt.Sprintf("MakeSecretConnection panicked (nothing on the node's accept/dial path recovers): %v", r.herr))
									case r.sc != nil && !r.expect:
										run.Outcome("authshape:" + cl + ":ACCEPTED")
										report("handshake-accepts-unauthenticated-key."+cl, s, fmt.Sprintf("the connection was established although the remote never proved possession of the key it claims; RemotePubKey=%x", []byte(r.sc.RemotePubKey())))
									case r.sc == nil && r.expect:
										run.Outcome("authshape:" + cl + ":REJECTED")
										report("handshake-rejects-authenticated-peer."+cl, s, fmt.Sprintf("a remote that sent its key and a valid signature of the session challenge was rejected: %v", r.herr))
									case r.sc != nil:
										if !bytes.Equal(r.sc.RemotePubKey(), r.claimed) {
											report("remote-pubkey-mismatch", s, fmt.Sprintf("RemotePubKey=%x, the remote authenticated with %x", []byte(r.sc.RemotePubKey()), r.claimed))
										}
										run.Outcome("authshape:" + cl + ":accepted")
									default:
										run.Outcome("authshape:" + cl + ":rejected")
									}
								}
							}
						}
					}
				}
			}
		}
	}
out:
	for _, k := range keys {
		f := first[k]
		run.Violation(k, fmt.Sprintf("part E %+v: %s", f.s, f.what), f.s)
	}
	run.Set("partE_nonce_orders", orders)
}

// ---------------------------------------------------------------- main

func main() {
	run := ev.Start("C32", "exploration")
	if pf := os.Getenv("VERIF_CPUPROFILE"); pf != "" {
		f, _ := os.Create(pf)
		pprof.StartCPUProfile(f)
		defer pprof.StopCPUProfile()
	}
	crand.Reader = &detRand{}
	debug.SetGCPercent(400) // the code under test allocates ~3 KB per frame

	wsizes := []int{1, 2, 1023, 1024, 1025, 2049}
	rsizes := []int{1, 2, 1023, 1024, 1025, 4096}
	maxReads := run.Pick(3, 4)
	run.Set("write_sizes", wsizes)
	run.Set("read_buffer_sizes", rsizes)
	run.Set("max_writes", 3)
	run.Set("max_reads_before_drain", maxReads)

	// honest handshake: each side learns the other's key
	for i := 0; i < 4; i++ {
		p, err := newPair()
		if err != nil {
			run.Violation("handshake-failed", "honest handshake over a healthy transport failed: "+err.Error(), nil)
			run.Finish()
		}
		for s := 0; s < 2; s++ {
			if !bytes.Equal(p.sc[s].RemotePubKey(), p.key[1-s].XPub().PublicKey()) {
				run.Violation("remote-pubkey-mismatch", fmt.Sprintf("side %d: RemotePubKey differs from the peer's key", s), nil)
			}
		}
		run.Add("evaluations", 1)
		run.Outcome("handshake:keys-learned")
	}

	writes := seqs(wsizes, 3, 1)
	reads := seqs(rsizes, maxReads, 0)
	tA := time.Now()
	runStreamCases(run, "partA", func(emit func(streamCase)) {
		for dir := 0; dir < 2; dir++ {
			for order := 0; order < 2; order++ {
				for _, w := range writes {
					if order == 1 && len(w) < 2 {
						continue // identical to order 0
					}
					for _, r := range reads {
						emit(streamCase{Dir: dir, Writes: w, Reads: r, Order: order})
					}
				}
			}
		}
	})
	run.Set("partA_wall_s", time.Since(tA).Seconds())
	tA = time.Now()
	bw := seqs(wsizes, run.Pick(2, 3), 1)
	br := seqs(rsizes, run.Pick(1, 2), 0)
	run.Set("partB_bounds", fmt.Sprintf("writes<=%d reads<=%d, <=2 short transport answers of 1 or 7 bytes at every position / pair of positions of the transport reads of the run", run.Pick(2, 3), run.Pick(1, 2)))
	runStreamCases(run, "partB", func(emit func(streamCase)) {
		for dir := 0; dir < 2; dir++ {
			for _, w := range bw {
				ss := scripts(nframes(w))
				for _, r := range br {
					for _, s := range ss {
						emit(streamCase{Dir: dir, Writes: w, Reads: r, Order: 0, Script: s})
					}
				}
			}
		}
	})
	run.Set("partB_wall_s", time.Since(tA).Seconds())
	t0 := time.Now()
	partC(run)
	partCLong(run)
	run.Set("partC_wall_s", time.Since(t0).Seconds())
	t0 = time.Now()
	partD(run)
	run.Set("partD_wall_s", time.Since(t0).Seconds())
	t0 = time.Now()
	partE(run)
	run.Set("partE_wall_s", time.Since(t0).Seconds())

	run.Set("rule", "cases are enumerated without repetition (direction x order x write-size sequence x read-size sequence x transport script; tamper position x bit; peer behaviour; part E: role of the real end x nonce order x claimed key x declared key length x declared signature length x signature material x framing x length encoding of the authentication message); a stream case counts as non-trivial when a Write spans >= 2 frames or a Read is served from the receive buffer (buffer smaller than the frame remainder); every tamper case and every byte-level-peer session counts (each part E session is a full handshake of the real code against one distinct remote behaviour, judged by the harness' own crypto/ed25519 verification of the message it sent)")
	run.Assume("the transport delivers bytes in order and unmodified except where the harness manipulates them; reads happen after the corresponding writes (a blocking read is replaced by the harness' 'nothing to read' error)")
	run.Assume("golang.org/x/crypto nacl/secretbox, nacl/box, ripemd160 and chainkd signing are trusted (the byte-level peer uses them too); handshake randomness comes from a deterministic stream")
	run.Assume("part E: the dishonest remote end follows the key exchange (a peer that does not know the shared secret cannot seal a frame at all: part C) and deviates only in its authentication message: declared key/signature lengths from the stated sets, key material = its own or a foreign public key cut or zero-extended to the declared length, signature material from the stated set, 4 framings, canonical and two non-canonical (thorough: four) length prefixes; crypto/ed25519.Verify is the trusted reference for 'proved possession'")
	run.Assume("flips are single-bit; multi-bit forgeries rely on Poly1305 and are out of scope")
	pprof.StopCPUProfile()
	run.Finish()
}
