// C14: coinbase rewards are exact and create no extra money.
//
// Every chain of 2-3 epochs (E=2 and E=3) on top of a prelude is driven through a REAL node
// (labnet.NewNode + Chain.ProcessBlock). Per block the alphabet is: coinbase program in
// {p1,p2,p3}, fee-bearing transaction in {none, f1, f2}, vote transaction in {none, new vote, veto}.
// States are merged on a digest of the implementation's own state (height, the in-memory
// checkpoint's reward and vote tables, the vote outputs in the store).
//
// Oracle: an independent recomputation (this file: type model) of what every block earns
// (fees + subsidy(pledge rate after the block), credited to the program of coinbase output 0)
// and therefore of the coinbase every block must carry. The node must accept exactly that
// coinbase and reject every mutated one, the proposer's own template must carry it, and the
// BTM in the store's unspent outputs must never exceed genesis supply + rewards paid.
package main

import (
	"encoding/hex"
	"encoding/json"
	"fmt"
	"math/big"
	"sort"
	"strings"
	"time"

	"github.com/golang/protobuf/proto"

	"github.com/bytom/bytom/config"
	"github.com/bytom/bytom/consensus"
	"github.com/bytom/bytom/database"
	"github.com/bytom/bytom/database/storage"
	"github.com/bytom/bytom/proposal"
	"github.com/bytom/bytom/protocol/bc/types"

	"verif/lib/crashkv"
	"verif/lib/ev"
	"verif/lib/labnet"
	"verif/lib/par"
	"verif/lib/xplore"
)

// ---------------------------------------------------------------------------------------------
// the oracle: documented reward rules, recomputed here
// ---------------------------------------------------------------------------------------------

const (
	oBlockReward = uint64(570776255)
	oInitSupply  = uint64(169290721678579170 + 50000000000)
	oThreshold   = 0.5
)

// subsidy of a block at the given height when totalVotes are pledged after the block.
func subsidy(height, totalVotes uint64) uint64 {
	supply := height*oBlockReward/2 + oInitSupply
	rate := float64(totalVotes) / float64(supply)
	if rate <= oThreshold {
		return uint64((rate + oThreshold) * float64(oBlockReward))
	}
	return oBlockReward
}

// subsidyExact is the same rule in exact rational arithmetic (information only: counts how often
// the documented floating point formula and the exact value differ).
func subsidyExact(height, totalVotes uint64) uint64 {
	supply := new(big.Int).SetUint64(height*oBlockReward/2 + oInitSupply)
	v := new(big.Int).SetUint64(totalVotes)
	// rate <= 1/2  <=>  2v <= supply
	if new(big.Int).Lsh(v, 1).Cmp(supply) > 0 {
		return oBlockReward
	}
	// floor((v/supply + 1/2) * R) = floor(R*(2v+supply) / (2*supply))
	num := new(big.Int).Add(new(big.Int).Lsh(v, 1), supply)
	num.Mul(num, new(big.Int).SetUint64(oBlockReward))
	den := new(big.Int).Lsh(supply, 1)
	return new(big.Int).Div(num, den).Uint64()
}

type vd struct {
	Key string
	Amt uint64
}

// txd is a transaction together with what the harness knows about it by construction.
type txd struct {
	tx     *types.Tx
	fee    uint64
	votes  []vd
	vetoes []vd
}

type src struct {
	out  labnet.Out
	vote []byte // key, if the output is a vote output
}

type outSpec struct {
	amt  uint64
	prog []byte
	vote []byte
}

func btmOut(o outSpec) *types.TxOutput {
	if o.vote != nil {
		return types.NewVoteOutput(*consensus.BTMAssetID, o.amt, o.prog, o.vote, nil)
	}
	return types.NewOriginalTxOutput(*consensus.BTMAssetID, o.amt, o.prog, nil)
}

func mkTx(ins []src, outs []outSpec) txd {
	var d txd
	var lo []labnet.Out
	var sumIn, sumOut uint64
	for _, s := range ins {
		lo = append(lo, s.out)
		sumIn += s.out.Amount()
		if s.vote != nil {
			d.vetoes = append(d.vetoes, vd{hex.EncodeToString(s.vote), s.out.Amount()})
		}
	}
	var to []*types.TxOutput
	for _, o := range outs {
		to = append(to, btmOut(o))
		sumOut += o.amt
		if o.vote != nil {
			d.votes = append(d.votes, vd{hex.EncodeToString(o.vote), o.amt})
		}
	}
	if sumOut > sumIn {
		panic("c14: unbalanced factory transaction")
	}
	d.tx = labnet.Tx(lo, to)
	d.fee = sumIn - sumOut
	return d
}

type voteOut struct {
	s      src
	height uint64
}

type cbOut struct {
	Prog []byte
	Amt  uint64
}

// model is the reference ledger of rewards.
type model struct {
	E        uint64
	Height   uint64
	Cur      map[string]uint64 // earned in the epoch in progress, by coinbase program (hex)
	Owed     map[string]uint64 // table of the last completed epoch, to be paid by the next block
	LastPaid map[string]uint64
	Votes    map[string]uint64
	Paid     *big.Int // rewards paid out so far
	Fees     *big.Int // fees collected so far
	VoteOuts []voteOut
	// last block
	LastSubsidy, LastFees uint64
	LastRecipients        int
	FloatExactDiff        int
}

func cloneMap(m map[string]uint64) map[string]uint64 {
	if m == nil {
		return nil
	}
	n := map[string]uint64{}
	for k, v := range m {
		n[k] = v
	}
	return n
}

func (m *model) clone() *model {
	n := *m
	n.Cur, n.Owed, n.LastPaid, n.Votes = cloneMap(m.Cur), cloneMap(m.Owed), cloneMap(m.LastPaid), cloneMap(m.Votes)
	n.Paid, n.Fees = new(big.Int).Set(m.Paid), new(big.Int).Set(m.Fees)
	n.VoteOuts = append([]voteOut(nil), m.VoteOuts...)
	return &n
}

func sortedKeys(m map[string]uint64) []string {
	var ks []string
	for k := range m {
		ks = append(ks, k)
	}
	sort.Strings(ks)
	return ks
}

func tableOuts(prog []byte, table map[string]uint64) []cbOut {
	outs := []cbOut{{prog, 0}}
	for _, k := range sortedKeys(table) {
		if k == hex.EncodeToString(prog) {
			outs[0].Amt = table[k]
			continue
		}
		pb, _ := hex.DecodeString(k)
		outs = append(outs, cbOut{pb, table[k]})
	}
	return outs
}

// coinbase the child of the current tip must carry when its proposer's program is prog.
func (m *model) coinbase(prog []byte) []cbOut {
	if (m.Height+1)%m.E == 1 && m.Owed != nil {
		return tableOuts(prog, m.Owed)
	}
	return []cbOut{{prog, 0}}
}

func addU(a, b uint64) uint64 {
	if a+b < a {
		panic("c14: uint64 overflow in the reference model")
	}
	return a + b
}

func (m *model) apply(prog []byte, txs []txd) {
	h := m.Height + 1
	if h%m.E == 1 {
		m.LastRecipients = len(m.Owed)
		for _, v := range m.Owed {
			m.Paid.Add(m.Paid, new(big.Int).SetUint64(v))
		}
		if m.Owed != nil {
			m.LastPaid = m.Owed
		}
		m.Owed = nil
		m.Cur = map[string]uint64{}
	} else {
		m.LastRecipients = 0
	}
	var fees uint64
	for _, t := range txs {
		for _, v := range t.vetoes {
			if m.Votes[v.Key] < v.Amt {
				panic("c14: veto exceeds tally in the reference model")
			}
			m.Votes[v.Key] -= v.Amt
			if m.Votes[v.Key] == 0 {
				delete(m.Votes, v.Key)
			}
		}
		for _, v := range t.votes {
			m.Votes[v.Key] = addU(m.Votes[v.Key], v.Amt)
		}
		fees = addU(fees, t.fee)
	}
	var total uint64
	for _, v := range m.Votes {
		total = addU(total, v)
	}
	sub := subsidy(h, total)
	if subsidyExact(h, total) != sub {
		m.FloatExactDiff++
	}
	k := hex.EncodeToString(prog)
	m.Cur[k] = addU(m.Cur[k], addU(fees, sub))
	m.Fees.Add(m.Fees, new(big.Int).SetUint64(fees))
	m.LastSubsidy, m.LastFees = sub, fees
	if h%m.E == 0 {
		m.Owed = m.Cur
	}
	m.Height = h
}

// ---------------------------------------------------------------------------------------------
// the world: prelude + per-position sources
// ---------------------------------------------------------------------------------------------

const (
	nRewards   = 5
	feeSrcAmt  = 20000000
	voteAmt    = 200000000
	voteTxFee  = 1000000
	splitTxFee = 2000000
	f1         = 1000000
	f2         = 7654321
)

var baseVoteAmts = []uint64{150000000, 300000000}

type amt struct {
	v   uint64
	btm bool
}

type world struct {
	E       uint64
	net     *labnet.Net
	tip     *labnet.B
	base    *crashkv.DB
	m0      *model
	feeSrc  []src
	voteSrc []src
	amounts map[string]amt // output id -> amount (genesis + prelude)
	genesis *big.Int
	progs   [][]byte
}

func (w *world) addAmounts(dst map[string]amt, tx *types.Tx) {
	for i, o := range tx.Outputs {
		dst[string(tx.ResultIds[i].Bytes())] = amt{o.Amount, *o.AssetId == *consensus.BTMAssetID}
	}
}

func toTxOuts(outs []cbOut) []*types.TxOutput {
	var r []*types.TxOutput
	for _, o := range outs {
		r = append(r, types.NewOriginalTxOutput(*consensus.BTMAssetID, o.Amt, o.Prog, nil))
	}
	return r
}

func plain(b *types.Block) *types.Block {
	cp := *b
	cp.SupLinks = nil
	return &cp
}

var (
	theWorld    *world
	theWorldErr string
)

// buildWorld builds the prelude for E and processes it on a real node. A rejected prelude block
// means the node disagrees with the oracle already there: reported as a violation by the callers.
func buildWorld(E uint64) (*world, string) {
	if theWorld != nil && theWorld.E == E {
		return theWorld, theWorldErr
	}
	if oBlockReward != consensus.BlockReward || oInitSupply != consensus.InitBTMSupply || oThreshold != consensus.RewardThreshold {
		ev.Fatal("the oracle's constants differ from the documented consensus constants")
	}
	net := labnet.Setup(E, 1, 3)
	net.SetLocalKey(labnet.OutsiderKey())
	w := &world{E: E, net: net, amounts: map[string]amt{}, genesis: new(big.Int)}
	w.progs = [][]byte{labnet.OpTrue, labnet.Prog(0x71), labnet.Prog(0x72)}
	for _, tx := range config.GenesisBlock().Transactions {
		w.addAmounts(w.amounts, tx)
		for _, o := range tx.Outputs {
			if *o.AssetId == *consensus.BTMAssetID {
				w.genesis.Add(w.genesis, new(big.Int).SetUint64(o.Amount))
			}
		}
	}
	m := &model{E: E, Cur: map[string]uint64{}, Votes: map[string]uint64{}, Paid: new(big.Int), Fees: new(big.Int)}
	L := int((nRewards*E + 12 + E - 1) / E * E)
	maxDepth := int(3*E + 1)

	// wanted outputs, largest first
	type want struct {
		o    outSpec
		kind int // 0 fee source, 1 vote source, 2 base vote
		idx  int
	}
	var wants []want
	for i, a := range baseVoteAmts {
		wants = append(wants, want{outSpec{a, labnet.Prog(byte(0x50 + i)), net.Pubs[1+i][:]}, 2, i})
	}
	for i := 0; i < maxDepth; i++ {
		wants = append(wants, want{outSpec{voteAmt + voteTxFee, labnet.Prog(byte(0x30 + i)), nil}, 1, i})
	}
	for i := 0; i < maxDepth; i++ {
		wants = append(wants, want{outSpec{feeSrcAmt, labnet.Prog(byte(0x10 + i)), nil}, 0, i})
	}
	sort.SliceStable(wants, func(i, j int) bool { return wants[i].o.amt > wants[j].o.amt })
	w.feeSrc = make([]src, maxDepth)
	w.voteSrc = make([]src, maxDepth)
	baseVotes := make([]voteOut, len(baseVoteAmts))
	used := make([]bool, len(wants))

	rewards := map[int]labnet.Out{}
	var blocks []*labnet.B
	parent := net.Gen
	for h := 1; h <= L; h++ {
		var txs []txd
		split := func(k int) {
			r, ok := rewards[k]
			if !ok {
				ev.Fatal("prelude: reward %d missing", k)
			}
			left := r.Amount() - splitTxFee
			var outs []outSpec
			var picked []int
			for i, wt := range wants {
				if !used[i] && wt.o.amt <= left {
					used[i] = true
					left -= wt.o.amt
					outs = append(outs, wt.o)
					picked = append(picked, i)
				}
			}
			if left > 0 {
				outs = append(outs, outSpec{left, labnet.Prog(0x5f), nil})
			}
			d := mkTx([]src{{out: r}}, outs)
			for pos, i := range picked {
				s := src{out: labnet.Out{Tx: d.tx, Idx: pos}, vote: wants[i].o.vote}
				switch wants[i].kind {
				case 0:
					w.feeSrc[wants[i].idx] = s
				case 1:
					w.voteSrc[wants[i].idx] = s
				case 2:
					baseVotes[wants[i].idx] = voteOut{s, uint64(h)}
				}
			}
			txs = append(txs, d)
		}
		if h == L-1 {
			split(1)
			split(2)
			split(3)
		}
		if h == L {
			split(4)
			split(5)
		}
		var ttx []*types.Tx
		for _, d := range txs {
			ttx = append(ttx, d.tx)
			w.addAmounts(w.amounts, d.tx)
		}
		prog := w.progs[0]
		b := net.NewBlock(parent, labnet.BlockOpt{Txs: ttx, CoinbaseOutputs: toTxOuts(m.coinbase(prog))})
		w.addAmounts(w.amounts, b.Block.Transactions[0])
		m.apply(prog, txs)
		if uint64(h)%E == 1 && h > 1 {
			rewards[(h-1)/int(E)] = labnet.Out{Tx: b.Block.Transactions[0], Idx: 0}
		}
		blocks = append(blocks, b)
		parent = b
	}
	for i, u := range used {
		if !u {
			ev.Fatal("prelude: wanted output %d does not fit into %d rewards", i, nRewards)
		}
	}
	m.VoteOuts = baseVotes
	w.tip = parent
	w.m0 = m
	theWorld = w
	theWorldErr = ""
	db := crashkv.New()
	nd, err := labnet.NewNode(db)
	if err != nil {
		ev.Fatal("prelude node: %v", err)
	}
	for _, b := range blocks {
		orphan, err := nd.Chain.ProcessBlock(plain(b.Block))
		if err != nil || orphan {
			theWorldErr = fmt.Sprintf("E=%d prelude block %d carrying the oracle's coinbase %s was rejected: orphan=%v err=%v", E, b.Height, fmtOuts(b.Block.Transactions[0].Outputs), orphan, err)
			return w, theWorldErr
		}
	}
	w.base = db.Clone()
	return w, ""
}

func fmtOuts(outs []*types.TxOutput) string {
	var s []string
	for _, o := range outs {
		s = append(s, fmt.Sprintf("%x:%d", o.ControlProgram, o.Amount))
	}
	return "[" + strings.Join(s, " ") + "]"
}

func fmtCb(outs []cbOut) string { return fmtOuts(toTxOuts(outs)) }

// ---------------------------------------------------------------------------------------------
// events
// ---------------------------------------------------------------------------------------------

type params struct {
	E        uint64
	Epochs   int
	Alphabet []int // event codes (program*9 + fee*3 + vote) offered for every block but the last
	Later    []int // if set: the alphabet from the second epoch on
	Final    []int // event codes offered for the last block (the one paying the last epoch)
}

func (p params) depth() int { return p.Epochs*int(p.E) + 1 }

func code(prog, fee, vote int) int { return prog*9 + fee*3 + vote }

// product of programs x (fee, vote) kinds
func product(progs []int, kinds [][2]int) []int {
	var r []int
	for _, p := range progs {
		for _, k := range kinds {
			r = append(r, code(p, k[0], k[1]))
		}
	}
	return r
}

var feeNames = []string{"nofee", "fee-f1", "fee-f2"}
var voteNames = []string{"novote", "vote", "veto"}

func decode(e int) (p, f, v int) { return e / 9, (e / 3) % 3, e % 3 }

func describe(h []int) interface{} {
	var s []string
	for _, e := range h {
		p, f, v := decode(e)
		s = append(s, fmt.Sprintf("p%d/%s/%s", p+1, feeNames[f], voteNames[v]))
	}
	return s
}

// blockTxs builds the transactions of the i-th explored block for choice (f, v) in model state m.
func (w *world) blockTxs(m *model, i, f, v int) (txs []txd, newVote *voteOut, ok bool) {
	h := m.Height + 1
	if f > 0 {
		fee := uint64(f1)
		if f == 2 {
			fee = f2
		}
		txs = append(txs, mkTx([]src{w.feeSrc[i]}, []outSpec{{feeSrcAmt - fee, labnet.Prog(0x60), nil}}))
	}
	switch v {
	case 1:
		d := mkTx([]src{w.voteSrc[i]}, []outSpec{{voteAmt, labnet.Prog(0x61), w.net.Pubs[0][:]}})
		txs = append(txs, d)
		newVote = &voteOut{src{labnet.Out{Tx: d.tx, Idx: 0}, w.net.Pubs[0][:]}, h}
	case 2:
		if len(m.VoteOuts) == 0 || m.VoteOuts[0].height+1 > h {
			return nil, nil, false
		}
		vo := m.VoteOuts[0]
		txs = append(txs, mkTx([]src{vo.s}, []outSpec{{vo.s.out.Amount() - voteTxFee, labnet.Prog(0x62), nil}}))
	}
	return txs, newVote, true
}

type mutant struct {
	name string
	outs []cbOut
}

func cloneOuts(o []cbOut) []cbOut { return append([]cbOut(nil), o...) }

// mutants of the coinbase the child of m's tip must carry.
func (w *world) mutants(m *model, prog []byte) []mutant {
	want := m.coinbase(prog)
	foreign := labnet.Prog(0x7f)
	var ms []mutant
	var paid []int
	for i, o := range want {
		if o.Amt > 0 {
			paid = append(paid, i)
		}
	}
	if len(paid) > 0 {
		first, last := paid[0], paid[len(paid)-1]
		a := cloneOuts(want)
		a[first].Amt++
		ms = append(ms, mutant{"amount-plus-1", a})
		a = cloneOuts(want)
		a[last].Amt--
		ms = append(ms, mutant{"amount-minus-1", a})
		a = cloneOuts(want)
		if last == 0 {
			a[0].Amt = 0
		} else {
			a = append(a[:last], a[last+1:]...)
		}
		ms = append(ms, mutant{"missing-recipient", a})
		a = append(cloneOuts(want), cbOut{foreign, 1})
		ms = append(ms, mutant{"extra-recipient", a})
		ms = append(ms, mutant{"pays-nothing", []cbOut{{prog, 0}}})
		if len(paid) >= 2 {
			a = cloneOuts(want)
			a[first].Amt--
			a[last].Amt++
			ms = append(ms, mutant{"one-unit-moved-between-recipients", a})
			if want[first].Amt != want[last].Amt {
				a = cloneOuts(want)
				a[first].Amt, a[last].Amt = a[last].Amt, a[first].Amt
				ms = append(ms, mutant{"amounts-swapped", a})
			}
			// one entry of the table paid twice (each output correct for ITS program), another one not at all
			a = cloneOuts(want)
			a[last] = cbOut{want[first].Prog, want[first].Amt}
			ms = append(ms, mutant{"first-entry-paid-twice-last-missing", a})
			a = cloneOuts(want)
			a[first] = cbOut{want[last].Prog, want[last].Amt}
			ms = append(ms, mutant{"last-entry-paid-twice-first-missing", a})
		}
		// every entry paid and one of them once more
		for k, i := range []int{first, last} {
			if k == 1 && last == first {
				break
			}
			a = append(cloneOuts(want), cbOut{want[i].Prog, want[i].Amt})
			ms = append(ms, mutant{[]string{"all-entries-plus-first-repeated", "all-entries-plus-last-repeated"}[k], a})
		}
		// the same total to a single (wrong) recipient
		var total uint64
		for _, i := range paid {
			total += want[i].Amt
		}
		ms = append(ms, mutant{"total-to-foreign-program", []cbOut{{prog, 0}, {foreign, total}}})
		return ms
	}
	// a block that must pay nothing
	ms = append(ms, mutant{"nonzero-coinbase-off-epoch-start", []cbOut{{prog, 1}}})
	ms = append(ms, mutant{"extra-output-off-epoch-start", []cbOut{{prog, 0}, {foreign, 1}}})
	if m.LastPaid != nil {
		ms = append(ms, mutant{"previous-table-paid-again", tableOuts(prog, m.LastPaid)})
	}
	if len(m.Cur) > 0 && (m.Height+1)%m.E != 1 {
		ms = append(ms, mutant{"running-table-paid-early", tableOuts(prog, m.Cur)})
	}
	return ms
}

// ---------------------------------------------------------------------------------------------
// one history
// ---------------------------------------------------------------------------------------------

func utxoSum(db *crashkv.DB, amounts ...map[string]amt) (sum *big.Int, unknown int, voteOuts []string) {
	sum = new(big.Int)
	for _, k := range db.Keys(database.UtxoKeyPrefix) {
		var e storage.UtxoEntry
		if err := proto.Unmarshal(db.Get(k), &e); err != nil {
			unknown++
			continue
		}
		if e.Spent {
			continue
		}
		id := string(k[len(database.UtxoKeyPrefix):])
		found := false
		for _, am := range amounts {
			if a, ok := am[id]; ok {
				found = true
				if a.btm {
					sum.Add(sum, new(big.Int).SetUint64(a.v))
				}
				if e.Type == storage.VoteUTXOType {
					voteOuts = append(voteOuts, fmt.Sprintf("%d@%d", a.v, e.BlockHeight))
				}
				break
			}
		}
		if !found {
			unknown++
		}
	}
	sort.Strings(voteOuts)
	return
}

func tableStr(m map[string]uint64) string {
	var s []string
	for _, k := range sortedKeys(m) {
		if m[k] != 0 {
			s = append(s, fmt.Sprintf("%s=%d", k, m[k]))
		}
	}
	return strings.Join(s, ",")
}

func outsMultiset(outs []*types.TxOutput) string {
	var s []string
	for i, o := range outs {
		if i == 0 {
			s = append(s, fmt.Sprintf("first:%x", o.ControlProgram))
			if o.Amount == 0 {
				continue
			}
		}
		s = append(s, fmt.Sprintf("%x=%d", o.ControlProgram, o.Amount))
	}
	sort.Strings(s)
	return strings.Join(s, " ")
}

func runHist(h []int, extra json.RawMessage) (out xplore.Out) {
	var p params
	if err := json.Unmarshal(extra, &p); err != nil {
		return xplore.Out{Viols: []xplore.Viol{{Key: "infra-bad-extra", What: err.Error()}}}
	}
	viol := func(key, what string) {
		out.Viols = append(out.Viols, xplore.Viol{Key: key, What: what})
	}
	w, werr := buildWorld(p.E)
	if werr != "" {
		viol("oracle-coinbase-rejected:prelude", werr)
		out.Prune = true
		out.Digest = "prelude-rejected"
		return
	}
	db := w.base.Clone()
	defer db.Wipe()
	nd, err := labnet.NewNode(db)
	if err != nil {
		return xplore.Out{Viols: []xplore.Viol{{Key: "infra-newnode", What: err.Error()}}}
	}
	defer nd.Stop()
	m := w.m0.clone()
	parent := w.tip
	local := map[string]amt{}
	diffTotals := false
	supplyCheck := func(tag string, paid *big.Int, fees *big.Int) {
		sum, unknown, _ := utxoSum(db, w.amounts, local)
		out.Checks++
		if unknown > 0 {
			viol("infra-unknown-utxo", fmt.Sprintf("%s: %d unspent outputs in the store are not outputs of any block the harness built", tag, unknown))
			return
		}
		limit := new(big.Int).Add(w.genesis, paid)
		if sum.Cmp(limit) > 0 {
			viol("unspent-btm-exceeds-genesis-plus-rewards", fmt.Sprintf("%s: unspent BTM %s > genesis %s + rewards paid %s (excess %s)", tag, sum, w.genesis, paid, new(big.Int).Sub(sum, limit)))
			return
		}
		if fees != nil {
			exact := new(big.Int).Sub(limit, fees)
			if sum.Cmp(exact) != 0 {
				viol("unspent-btm-differs-from-ledger-accounting", fmt.Sprintf("%s: unspent BTM %s, genesis + rewards paid - fees collected = %s", tag, sum, exact))
			}
		}
	}
	for i, e := range h {
		pi, f, v := decode(e)
		prog := w.progs[pi]
		txs, newVote, ok := w.blockTxs(m, i, f, v)
		if !ok {
			return xplore.Out{Viols: []xplore.Viol{{Key: "infra-disabled-event", What: fmt.Sprint(describe(h))}}}
		}
		var ttx []*types.Tx
		for _, d := range txs {
			ttx = append(ttx, d.tx)
			w.addAmounts(local, d.tx)
		}
		want := m.coinbase(prog)
		last := i == len(h)-1
		if last {
			diffTotals = false
			var amts []uint64
			for _, o := range want {
				if o.Amt > 0 {
					amts = append(amts, o.Amt)
				}
			}
			for _, a := range amts {
				if a != amts[0] {
					diffTotals = true
				}
			}
		}
		if last {
			seenMu := map[string]bool{}
			for _, mu := range w.mutants(m, prog) {
				if seenMu[fmtCb(mu.outs)] {
					continue
				}
				seenMu[fmtCb(mu.outs)] = true
				mb := w.net.NewBlock(parent, labnet.BlockOpt{Txs: ttx, CoinbaseOutputs: toTxOuts(mu.outs), SkipCP: true})
				_, err := nd.Chain.ProcessBlock(plain(mb.Block))
				out.Checks++
				if err == nil {
					viol("mutated-coinbase-accepted:"+mu.name, fmt.Sprintf("block %d: the oracle expects coinbase %s; the node accepted %s", mb.Height, fmtCb(want), fmtCb(mu.outs)))
					w.addAmounts(local, mb.Block.Transactions[0])
					paid := new(big.Int).Set(m.Paid)
					for _, x := range m.coinbase(prog) {
						paid.Add(paid, new(big.Int).SetUint64(x.Amt))
					}
					fees := new(big.Int).Set(m.Fees)
					for _, d := range txs {
						fees.Add(fees, new(big.Int).SetUint64(d.fee))
					}
					supplyCheck("after the accepted mutant "+mu.name, paid, fees)
					out.Prune = true
					out.Digest = "mutant-accepted/" + fmt.Sprint(h)
					out.Outcome = "mutant-accepted"
					return
				}
				if bh := nd.Chain.BestBlockHash(); *bh != parent.Hash() {
					viol("rejected-block-changed-best", fmt.Sprintf("block %d mutant %s", mb.Height, mu.name))
				}
			}
		}
		carried := want
		splitForm := false
		if last && len(h) == p.depth() {
			// the last block of a complete chain carries its first paid entry split over two outputs of the
			// same program: legal (the node adds up the outputs of one program), and it must stay legal
			for j, o := range want {
				if o.Amt > 1 {
					carried = cloneOuts(want)
					carried[j].Amt = o.Amt - 1
					carried = append(carried, cbOut{o.Prog, 1})
					splitForm = true
					break
				}
			}
		}
		b := w.net.NewBlock(parent, labnet.BlockOpt{Txs: ttx, CoinbaseOutputs: toTxOuts(carried)})
		w.addAmounts(local, b.Block.Transactions[0])
		orphan, err := nd.Chain.ProcessBlock(plain(b.Block))
		out.Checks++
		out.Steps++
		if err != nil || orphan {
			key := "oracle-coinbase-rejected:off-epoch-start"
			if b.Height%p.E == 1 {
				key = "oracle-coinbase-rejected:epoch-start"
			}
			if !last {
				key = "infra-prefix-not-replayable"
			} else if splitForm {
				key = "entry-split-over-two-outputs-rejected"
			}
			viol(key, fmt.Sprintf("block %d with the oracle's coinbase %s (carried as %s) rejected: orphan=%v err=%v", b.Height, fmtCb(want), fmtCb(carried), orphan, err))
			out.Prune = true
			out.Digest = "rejected/" + fmt.Sprint(h)
			out.Outcome = "oracle-coinbase-rejected"
			return
		}
		if bh := nd.Chain.BestBlockHash(); *bh != b.Hash() {
			viol("accepted-block-not-best", fmt.Sprintf("block %d", b.Height))
		}
		if last && b.Height%p.E == 1 {
			// a competing first block of the epoch that arrives LATE: after the accepted block has been connected and the
			// node's epoch loop has run (it fills the checkpoint look-up caches). The same rules must hold for it: the
			// oracle's coinbase is accepted, every mutated one rejected.
			c := nd.Chain.VerifCasper()
			for deadline := time.Now().Add(60 * time.Second); c.VerifPendingEpochs() > 0 && time.Now().Before(deadline); {
				time.Sleep(50 * time.Microsecond)
			}
			var sib *labnet.B
			sibLoses := false
			for tag := 9; tag < 250 && !sibLoses; tag++ {
				sib = w.net.NewBlock(parent, labnet.BlockOpt{Txs: ttx, CoinbaseOutputs: toTxOuts(want), Tag: byte(tag), SkipCP: true})
				hs, hb := sib.Hash(), b.Hash()
				sibLoses = hs.String() < hb.String() // loses the hash tie-break: the node stays on the block accepted above
			}
			w.addAmounts(local, sib.Block.Transactions[0])
			_, err := nd.Chain.ProcessBlock(plain(sib.Block))
			out.Checks++
			if err != nil {
				viol("oracle-coinbase-rejected:late-sibling-of-epoch-start", fmt.Sprintf("a second block %d with the oracle's coinbase %s, delivered after the first one was connected, is rejected: %v", sib.Height, fmtCb(want), err))
			}
			seenMu := map[string]bool{}
			for _, mu := range w.mutants(m, prog) {
				if seenMu[fmtCb(mu.outs)] {
					continue
				}
				seenMu[fmtCb(mu.outs)] = true
				mb := w.net.NewBlock(parent, labnet.BlockOpt{Txs: ttx, CoinbaseOutputs: toTxOuts(mu.outs), Tag: 8, SkipCP: true})
				_, err := nd.Chain.ProcessBlock(plain(mb.Block))
				out.Checks++
				if err == nil {
					viol("mutated-coinbase-accepted:late-sibling:"+mu.name, fmt.Sprintf("block %d delivered after its sibling was connected: the oracle expects coinbase %s; the node accepted %s", mb.Height, fmtCb(want), fmtCb(mu.outs)))
					out.Prune = true
					out.Digest = "late-mutant-accepted/" + fmt.Sprint(h)
					out.Outcome = "mutant-accepted"
					return
				}
			}
			if bh := nd.Chain.BestBlockHash(); sibLoses && *bh != b.Hash() {
				hs, hb := sib.Hash(), b.Hash()
				viol("late-sibling-changed-best", fmt.Sprintf("block %d: best is now %s (first block %s, late sibling %s)", b.Height, bh.String(), hb.String(), hs.String()))
			}
		}
		m.apply(prog, txs)
		if v == 2 {
			m.VoteOuts = m.VoteOuts[1:]
		}
		if newVote != nil {
			m.VoteOuts = append(m.VoteOuts, *newVote)
		}
		parent = b
	}

	// ---- checks in the reached state
	supplyCheck(fmt.Sprintf("at height %d", m.Height), m.Paid, m.Fees)
	tip := parent.Hash()
	rewards, votes, ok := nd.Chain.VerifCasper().VerifTables(tip)
	if !ok {
		viol("infra-no-checkpoint-for-tip", "")
		return
	}
	out.Checks++
	if tableStr(rewards) != tableStr(m.Cur) {
		viol("accumulated-reward-table-differs", fmt.Sprintf("after block %d the node's reward table is {%s}, the oracle's {%s}", m.Height, tableStr(rewards), tableStr(m.Cur)))
	}
	// the proposer's own template for the next block
	tmpl, err := proposal.NewBlockTemplate(nd.Chain, nil, nil, parent.Block.Timestamp+consensus.ActiveNetParams.BlockTimeInterval, time.Hour, time.Hour)
	out.Checks++
	if err != nil {
		viol("proposer-template-failed", fmt.Sprintf("next block %d: %v", m.Height+1, err))
	} else {
		got := outsMultiset(tmpl.Transactions[0].Outputs)
		exp := outsMultiset(toTxOuts(m.coinbase(labnet.OpTrue)))
		if got != exp {
			key := "proposer-coinbase-differs:off-epoch-start"
			if (m.Height+1)%p.E == 1 {
				key = "proposer-coinbase-differs:epoch-start"
			}
			viol(key, fmt.Sprintf("template for block %d carries coinbase %s, the oracle expects %s", m.Height+1, fmtOuts(tmpl.Transactions[0].Outputs), fmtCb(m.coinbase(labnet.OpTrue))))
		}
	}
	_, _, voteUtxos := utxoSum(db, w.amounts, local)
	out.Digest = fmt.Sprintf("E%d h%d R{%s} V{%s} U%v", p.E, m.Height, tableStr(rewards), tableStr(votes), voteUtxos)
	if len(h) > 0 {
		out.Outcome = fmt.Sprintf("pos=%d recipients-paid=%d subsidy=base+%d fees=%v", (m.Height-1)%p.E+1, m.LastRecipients, m.LastSubsidy-oBlockReward/2, m.LastFees > 0)
		if diffTotals {
			out.Outcome += " different-totals"
		}
		if len(h) == p.depth() && m.LastRecipients > 0 {
			out.Outcome += " split-form"
		}
	} else {
		out.Outcome = "prelude"
	}
	if m.FloatExactDiff > 0 {
		out.Outcome += " float!=exact"
	}

	// ---- successors
	d := len(h)
	if d >= p.depth() {
		return
	}
	alphabet := p.Alphabet
	if p.Later != nil && d >= int(p.E) {
		alphabet = p.Later
	}
	if d == p.depth()-1 {
		alphabet = p.Final
	}
	for _, e := range alphabet {
		if _, _, v := decode(e); v == 2 && (len(m.VoteOuts) == 0 || m.VoteOuts[0].height+1 > m.Height+1) {
			continue
		}
		out.Enabled = append(out.Enabled, e)
	}
	return
}

func jsonMarshal(v interface{}) ([]byte, error) { return json.Marshal(v) }

func main() {
	spec2 := &xplore.Spec{Name: "c14-E2", Run: runHist, Recycle: 4000, Describe: describe}
	spec3 := &xplore.Spec{Name: "c14-E3", Run: runHist, Recycle: 4000, Describe: describe}
	if par.IsWorker() {
		xplore.Worker(spec2, spec3)
	}
	run := ev.Start("C14", "model_checking")
	if oBlockReward != consensus.BlockReward || oInitSupply != consensus.InitBTMSupply || oThreshold != consensus.RewardThreshold {
		// the subsidy per block, the genesis supply and the pledge threshold are the documented amounts the statement is read with
		run.Violation("consensus-constants-differ-from-documented", fmt.Sprintf("consensus.BlockReward=%d InitBTMSupply=%d RewardThreshold=%v, documented %d, %d, %v",
			consensus.BlockReward, consensus.InitBTMSupply, consensus.RewardThreshold, oBlockReward, oInitSupply, oThreshold), nil)
		run.Finish()
	}
	all := []int{0, 1, 2}
	var fullKinds [][2]int
	for f := 0; f < 3; f++ {
		for v := 0; v < 3; v++ {
			fullKinds = append(fullKinds, [2]int{f, v})
		}
	}
	type planItem struct {
		spec *xplore.Spec
		p    params
		what string
	}
	var plan []planItem
	progOnly := func(progs []int) []int { return product(progs, [][2]int{{0, 0}}) }
	if run.Thorough() {
		plan = append(plan,
			planItem{spec2, params{E: 2, Epochs: 2, Alphabet: product(all, fullKinds), Final: progOnly(all)}, "E=2, 2 epochs, full product {p1,p2,p3} x {nofee,f1,f2} x {novote,vote,veto}"},
			planItem{spec2, params{E: 2, Epochs: 3, Alphabet: product(all, [][2]int{{0, 0}, {1, 0}, {2, 1}, {0, 2}}), Final: progOnly(all)}, "E=2, 3 epochs, {p1,p2,p3} x {plain, fee f1, fee f2 + vote, veto}"},
			planItem{spec3, params{E: 3, Epochs: 2, Alphabet: product(all, [][2]int{{0, 0}, {2, 1}, {1, 2}}), Later: product([]int{0, 2}, [][2]int{{0, 0}, {2, 1}, {1, 2}}), Final: progOnly([]int{0, 2})}, "E=3, 2 epochs, first epoch {p1,p2,p3} x {plain, fee f2 + vote, fee f1 + veto}, second epoch and last block p1/p3 only"},
		)
	} else {
		plan = append(plan,
			planItem{spec2, params{E: 2, Epochs: 2, Alphabet: product([]int{0, 2}, [][2]int{{0, 0}, {2, 1}, {0, 2}}), Final: progOnly([]int{0, 2})}, "E=2, 2 epochs, {p1,p3} x {plain, fee f2 + vote, veto}"},
			planItem{spec3, params{E: 3, Epochs: 2, Alphabet: []int{code(0, 0, 0), code(2, 2, 1), code(0, 0, 2)}, Later: []int{code(1, 0, 0), code(2, 1, 2)}, Final: progOnly([]int{0, 2})}, "E=3, 2 epochs, first epoch {p1 plain, p3 fee f2 + vote, p1 veto}, second epoch {p2 plain, p3 fee f1 + veto}"},
		)
	}
	states, transitions, checks, maxd := 0, 0, 0, 0
	var bounds []string
	for _, pl := range plan {
		if _, werr := buildWorld(pl.p.E); werr != "" {
			run.Violation("oracle-coinbase-rejected:prelude", werr, map[string]interface{}{"E": pl.p.E})
			continue
		}
		pl.spec.Extra = pl.p
		pl.spec.MaxDepth = pl.p.depth()
		st := xplore.BFS(run, pl.spec)
		states += st.States
		transitions += st.Transitions
		checks += st.Checks
		if st.MaxDepth > maxd {
			maxd = st.MaxDepth
		}
		bounds = append(bounds, fmt.Sprintf("%s + the block paying the last epoch (depth %d, last block varies the program only): %d states, %d transitions", pl.what, pl.p.depth(), st.States, st.Transitions))
		if !st.Exhaustive {
			break
		}
	}
	run.Set("states", states)
	run.Set("transitions", transitions)
	run.Set("traces_validated_against_impl", checks)
	run.Set("max_depth", maxd)
	run.Set("bounds", bounds)
	run.Set("rule", "BFS over chains on top of a prelude processed by the real node; per block: coinbase program p1(OP_TRUE)/p2/p3, fee transaction none/f1=1000000/f2=7654321, vote transaction none/new vote of 200000000/veto of the oldest vote output (two vote outputs of 150000000 and 300000000 exist after the prelude); the last block of a chain only varies the program. States are merged on (height, the node's in-memory reward and vote tables, vote outputs in the store). Every transition first delivers every mutated coinbase (must be rejected), then the oracle's coinbase (must be accepted); every state compares the store's unspent BTM with genesis + rewards paid, the node's reward table and the proposer's template with the oracle. traces_validated_against_impl counts these comparisons")
	run.Assume("subsidy oracle uses the documented float64 formula uint64((votes/supply + 0.5) * 570776255); an exact rational evaluation is computed beside it and any difference is flagged in the outcome histogram as float!=exact")
	run.Assume("block signer is chosen by the factory's bookkeeping (labnet); only coinbase contents are judged here, the schedule is C15's subject")
	run.Assume("several outputs to one program whose amounts add up to the owed amount are treated as paying that program the owed amount (not enumerated)")
	run.Finish()
}
