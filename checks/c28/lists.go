// Section F of C28: key lists.
//
// Accounts and assets with several signers never call XPub.Derive / XPub.PublicKey one key at a
// time: they go through the list helpers chainkd.DeriveXPubs and chainkd.XPubKeys (account.CreateP2SH /
// asset issuance programs / txbuilder's multisig witness) and sign with XPrv.Derive(path).Sign.
// "Deriving a child private key and taking its public key equals deriving the child public key
// directly" therefore has to hold entry by entry of such a list, for every list, not only for the
// single key the other sections walk.
//
// Enumerated: every ordered list of 1..3 roots (thorough 1..4) drawn WITH repetition from the first
// four seeds (so equal neighbours, equal ends and all-distinct lists all occur) x every non-hardened
// path of depth <= 2 (thorough 3) over the three selectors. For every list and path:
//
//	F1  DeriveXPubs(xpubs, path)[i]      = independent derivation of root i along the path (xpub)
//	F2  XPubKeys(DeriveXPubs(...))[i]    = its first 32 bytes = [scalar_i]B from the independent arithmetic
//	F3  XPubKeys(xpubs)[i] (no path)     = public key of root i; the input list is unchanged afterwards
//	F4  a signature by roots[i].Derive(path) verifies under entry i (crypto/ed25519) and is refused
//	    under every entry j whose root differs from root i
//	F5  the returned keys do not share memory: overwriting entry i leaves the other entries unchanged
package main

import (
	"bytes"
	"crypto/ed25519"
	"encoding/hex"
	"fmt"
	"strings"

	"github.com/bytom/bytom/crypto/ed25519/chainkd"
)

func sectionLists(a *acc, thorough bool, sels [][]byte) map[string]interface{} {
	maxN, maxDepth := 3, 2
	if thorough {
		maxN, maxDepth = 4, 3
	}
	sds := seeds()[:4]
	type root struct {
		prv    chainkd.XPrv
		pub    chainkd.XPub
		refPrv [64]byte
		refPub [64]byte
	}
	roots := make([]root, len(sds))
	for i, sd := range sds {
		roots[i].prv = chainkd.RootXPrv(sd.seed)
		roots[i].pub = roots[i].prv.XPub()
		roots[i].refPrv = refRoot(sd.seed)
		roots[i].refPub = refXPub(roots[i].refPrv)
	}
	// paths
	var paths [][][]byte
	var gen func(p [][]byte)
	gen = func(p [][]byte) {
		paths = append(paths, append([][]byte{}, p...))
		if len(p) == maxDepth {
			return
		}
		for _, s := range sels {
			gen(append(p, s))
		}
	}
	gen(nil)
	// reference children per root and path
	type refKey struct {
		prv, pub [64]byte
		ok       bool
	}
	refAt := make([][]refKey, len(roots))
	for i, r := range roots {
		refAt[i] = make([]refKey, len(paths))
		for pi, p := range paths {
			k := refKey{r.refPrv, r.refPub, true}
			for _, s := range p {
				c, ok := refChild(k.prv, k.pub, s, false)
				if !ok {
					k.ok = false
					break
				}
				k.prv, k.pub = c, refXPub(c)
			}
			refAt[i][pi] = k
		}
	}
	msg := []byte("C28 key list")
	lists, cases, sigChecks := 0, 0, 0
	var rec func(sel []int)
	rec = func(sel []int) {
		if n := len(sel); n > 0 {
			lists++
			var names []string
			xpubs := make([]chainkd.XPub, n)
			for i, s := range sel {
				names = append(names, sds[s].name)
				xpubs[i] = roots[s].pub
			}
			lname := "[" + strings.Join(names, " ") + "]"
			before := append([]chainkd.XPub{}, xpubs...)
			for pi, p := range paths {
				cases++
				var ps []string
				for _, s := range p {
					ps = append(ps, "N:"+hex.EncodeToString(s))
				}
				id := lname + "/" + strings.Join(ps, "/")
				sortKey := fmt.Sprintf("%02d%02d%s", n, len(p), id)
				c := map[string]interface{}{"roots": names, "path": ps}
				derived := chainkd.DeriveXPubs(xpubs, p)
				keys := chainkd.XPubKeys(derived)
				if len(derived) != n || len(keys) != n {
					a.violation("key-list-length-differs", sortKey, fmt.Sprintf("%s: %d xpubs in, %d derived xpubs, %d public keys", id, n, len(derived), len(keys)), c)
					continue
				}
				for i, s := range sel {
					rk := refAt[s][pi]
					if !rk.ok {
						continue
					}
					if !bytes.Equal(derived[i][:], rk.pub[:]) {
						a.violation("key-list-derived-xpub-differs-from-independent-derivation", sortKey, fmt.Sprintf("%s: DeriveXPubs entry %d = %x, independent derivation of root %s = %x", id, i, derived[i][:], sds[s].name, rk.pub[:]), c)
					}
					if !bytes.Equal(keys[i], rk.pub[:32]) {
						a.violation("key-list-public-key-differs-from-independent-derivation", sortKey, fmt.Sprintf("%s: XPubKeys(DeriveXPubs) entry %d = %x, public key of root %s derived independently = %x", id, i, []byte(keys[i]), sds[s].name, rk.pub[:32]), c)
					}
				}
				// F4: signatures of the derived private keys against the list entries
				for i, s := range sel {
					if !refAt[s][pi].ok {
						continue
					}
					sig := roots[s].prv.Derive(p).Sign(msg)
					for j, t := range sel {
						sigChecks++
						ok := len(keys[j]) == ed25519.PublicKeySize && ed25519.Verify(keys[j], msg, sig)
						if t == s && !ok {
							a.violation("key-list-own-signature-rejected", sortKey, fmt.Sprintf("%s: the signature of root %s derived along the path is refused under entry %d of XPubKeys(DeriveXPubs), which is that root's entry (signer position %d)", id, sds[s].name, j, i), c)
						}
						if t != s && ok {
							a.violation("key-list-signature-accepted-under-other-key", sortKey, fmt.Sprintf("%s: the signature of root %s derived along the path verifies under entry %d, which belongs to root %s", id, sds[s].name, j, sds[t].name), c)
						}
					}
				}
				// F5: entries do not share memory
				if n > 1 {
					snap := make([][]byte, n)
					for i := range keys {
						snap[i] = append([]byte{}, keys[i]...)
					}
					for i := range keys {
						for b := range keys[i] {
							keys[i][b] ^= 0xff
						}
						for j := range keys {
							if j != i && !bytes.Equal(keys[j], snap[j]) {
								a.violation("key-list-entries-share-memory", sortKey, fmt.Sprintf("%s: overwriting entry %d of XPubKeys(...) changed entry %d", id, i, j), c)
							}
						}
						copy(keys[i], snap[i])
					}
				}
			}
			// F3: no path, and the input is left alone
			plain := chainkd.XPubKeys(xpubs)
			for i, s := range sel {
				if len(plain) != n || !bytes.Equal(plain[i], roots[s].refPub[:32]) {
					a.violation("key-list-public-key-differs-from-independent-derivation", fmt.Sprintf("%02d00%s", n, lname), fmt.Sprintf("%s: XPubKeys entry %d differs from the public key of root %s", lname, i, sds[s].name), map[string]interface{}{"roots": names})
					break
				}
			}
			for i := range xpubs {
				if xpubs[i] != before[i] {
					a.violation("key-list-helper-modifies-its-input", fmt.Sprintf("%02d00%s", n, lname), fmt.Sprintf("%s: entry %d of the caller's xpub list changed", lname, i), map[string]interface{}{"roots": names})
				}
			}
		}
		if len(sel) == maxN {
			return
		}
		for s := range sds {
			rec(append(append([]int{}, sel...), s))
		}
	}
	rec(nil)
	a.add("key_lists", lists)
	a.add("key_list_cases", cases)
	a.add("key_list_signature_checks", sigChecks)
	return map[string]interface{}{"lists": lists, "list_x_path_cases": cases, "paths": len(paths), "max_list_length": maxN, "max_path_depth": maxDepth, "signature_checks": sigChecks,
		"what": "every ordered list (with repetition) of roots from the first four seeds x every non-hardened path: DeriveXPubs / XPubKeys entry by entry against the independent derivation, signatures of the derived private keys against every entry, entries not sharing memory"}
}
