// C28 section D: operation HISTORIES on one key store.
//
// Sections A-C call each key-store function on a fresh input; the statement "decrypt only
// with the correct password" is about a store that lives: passwords are changed, keys are
// deleted and imported again, the process restarts. Here EVERY sequence up to a depth over
// the alphabet {XSign, LoadChainKDKey, ResetPassword, XDelete, ImportKeyFromMnemonic with
// each of two passwords, re-open the directory with a new HSM} is executed on the real
// pseudohsm.HSM over a real directory, next to a reference model that is just
// (key present?, current password). After every operation the verdict (accepted / refused,
// signature and key bytes) must be the model's; after the last one the directory must hold
// exactly the model's keys, each file decryptable - by the independent decryptor of section
// C - with the current password only.
package main

import (
	"bytes"
	"crypto/sha512"
	"fmt"
	"os"
	"path/filepath"
	"runtime"
	"strings"
	"sync"

	"github.com/bytom/bytom/blockchain/pseudohsm"
	"github.com/bytom/bytom/crypto/ed25519/chainkd"
	"github.com/pborman/uuid"
	"golang.org/x/crypto/pbkdf2"
)

var hpw = []string{"alpha-密", "beta"} // neither is the other extended by NUL bytes (known finding)

type hop struct {
	kind string // sign load use reset delete import reopen
	k    int    // key
	p, q int    // password presented; reset: q = new password
}

func (o hop) String() string {
	switch o.kind {
	case "reopen":
		return "reopen"
	case "reset":
		return fmt.Sprintf("reset(k%d,P%d->P%d)", o.k, o.p, o.q)
	}
	return fmt.Sprintf("%s(k%d,P%d)", o.kind, o.k, o.p)
}

type hworld struct {
	name       string
	nkeys      int
	fromImport bool // key 0 enters through ImportKeyFromMnemonic on the instance under test (otherwise key files are found on disk, as after a restart)
	ops        []hop
	depth      int
}

type hkey struct {
	alias, mnemonic string
	prv             chainkd.XPrv
	pub             chainkd.XPub
	sig             []byte
	file            string
	blob            [][]byte // key file content under password p
}

var (
	hmsg  = []byte("C28 history message")
	hpath = [][]byte{{0x01}, {}}
)

func hkeys(a *acc) []hkey {
	defs := []struct{ alias, mn string }{
		{"c28h-k0", "abandon abandon abandon abandon abandon abandon abandon abandon abandon abandon abandon about"},
		{"c28h-k1", "legal winner thank year wave sausage worth useful legal winner thank yellow"},
	}
	var out []hkey
	for i, d := range defs {
		seed := pbkdf2.Key([]byte(d.mn), []byte("mnemonic"), 2048, 64, sha512.New)
		ref := refRoot(seed)
		k := hkey{alias: d.alias, mnemonic: d.mn, prv: chainkd.XPrv(ref), pub: chainkd.XPub(refXPub(ref))}
		dp := refDerive(ref, hpath)
		var pub32 [32]byte
		dpub := refXPub(dp)
		copy(pub32[:], dpub[:32])
		k.sig = refSign(dp, pub32, hmsg)
		k.file = fmt.Sprintf("UTC--2020-01-01T00-00-00.00000000%dZ--00000000-0000-4000-8000-0000000000a%d", i, i)
		for _, pw := range hpw {
			xk := &pseudohsm.XKey{ID: uuid.Parse(fmt.Sprintf("00000000-0000-4000-8000-0000000000a%d", i)), KeyType: "bytom_kd", Alias: d.alias, XPrv: k.prv, XPub: k.pub}
			blob, err := pseudohsm.EncryptKey(xk, pw, 2, 1)
			if err != nil {
				a.violation("keystore-encrypt-failed", "hist/"+d.alias, fmt.Sprintf("history fixture %s: EncryptKey: %v", d.alias, err), nil)
			}
			k.blob = append(k.blob, blob)
		}
		out = append(out, k)
	}
	return out
}

// refDerive: non-hardened derivation along path with the independent implementation.
func refDerive(x [64]byte, path [][]byte) [64]byte {
	for _, sel := range path {
		x, _ = refChild(x, refXPub(x), sel, false)
	}
	return x
}

type hmodel struct {
	present []bool
	cur     []int
	ever    [][]bool // passwords that were the key's password at some time of this history
}

func hinit(n int, onDisk bool) hmodel {
	m := hmodel{present: make([]bool, n), cur: make([]int, n), ever: make([][]bool, n)}
	for k := 0; k < n; k++ {
		m.ever[k] = make([]bool, len(hpw))
		m.cur[k] = k % len(hpw)
		if onDisk {
			m.present[k] = true
			m.ever[k][m.cur[k]] = true
		}
	}
	return m
}

func (m hmodel) String() string {
	var s []string
	for k := range m.present {
		if m.present[k] {
			s = append(s, fmt.Sprintf("k%d:P%d", k, m.cur[k]))
		} else {
			s = append(s, fmt.Sprintf("k%d:absent", k))
		}
	}
	return strings.Join(s, " ")
}

func hseq(w *hworld, seq []hop) string {
	start := "key files on disk (k0:P0"
	if w.nkeys > 1 {
		start += " k1:P1"
	}
	start += "), new HSM"
	if w.fromImport {
		start = "empty directory, new HSM"
	}
	var s []string
	for _, o := range seq {
		s = append(s, o.String())
	}
	return start + " ; " + strings.Join(s, " ; ")
}

func cleanDir(dir string) {
	es, _ := os.ReadDir(dir)
	for _, e := range es {
		os.Remove(filepath.Join(dir, e.Name()))
	}
}

// runHistory executes one history from scratch. Every verdict is compared with the model;
// the first disagreement ends the history (model and implementation have diverged).
func runHistory(la *acc, w *hworld, keys []hkey, dir string, seq []hop) {
	cleanDir(dir)
	m := hinit(w.nkeys, !w.fromImport)
	m0 := hinit(w.nkeys, true) // the state every history starts from (after the forced import)
	if w.fromImport {
		seq = append([]hop{{kind: "import", k: 0, p: 0}}, seq...)
	} else {
		for k := 0; k < w.nkeys; k++ {
			if err := os.WriteFile(filepath.Join(dir, keys[k].file), keys[k].blob[m.cur[k]], 0600); err != nil {
				ev0("write key file: %v", err)
			}
		}
	}
	open := func() *pseudohsm.HSM {
		h, err := pseudohsm.VerifNewWithScrypt(dir, 2, 1)
		if err != nil {
			ev0("pseudohsm.New: %v", err)
		}
		return h
	}
	h := open()
	la.add("hsm_histories", 1)
	la.add("evaluations", 1)
	nontrivial := false
	for i, op := range seq {
		if op.kind == "reopen" {
			h = open()
			continue
		}
		la.add("hsm_history_operations", 1)
		kk := keys[op.k]
		var ok bool
		var err error
		var wrongOut, panicked string
		func() {
			defer func() {
				if r := recover(); r != nil {
					panicked = fmt.Sprint(r)
				}
			}()
			switch op.kind {
			case "sign":
				var sig []byte
				sig, err = h.XSign(kk.pub, hpath, hmsg, hpw[op.p])
				if err == nil && !bytes.Equal(sig, kk.sig) {
					wrongOut = fmt.Sprintf("XSign returned %x, the independent derivation and signer give %x", sig, kk.sig)
				}
			case "load":
				var prv chainkd.XPrv
				prv, err = h.LoadChainKDKey(kk.pub, hpw[op.p])
				if err == nil && prv != kk.prv {
					wrongOut = fmt.Sprintf("LoadChainKDKey returned a different key %x", prv[:])
				} else if err != nil && prv == kk.prv {
					wrongOut = "LoadChainKDKey returned an error AND the private key"
				}
			case "use": // XSign then LoadChainKDKey, both must give the same verdict
				var sig []byte
				var prv chainkd.XPrv
				var err2 error
				sig, err = h.XSign(kk.pub, hpath, hmsg, hpw[op.p])
				prv, err2 = h.LoadChainKDKey(kk.pub, hpw[op.p])
				if (err == nil) != (err2 == nil) {
					wrongOut = fmt.Sprintf("XSign err=%v but LoadChainKDKey err=%v for the same password", err, err2)
				} else if err == nil && (!bytes.Equal(sig, kk.sig) || prv != kk.prv) {
					wrongOut = fmt.Sprintf("XSign returned %x (want %x), LoadChainKDKey key-equal=%v", sig, kk.sig, prv == kk.prv)
				}
			case "reset":
				err = h.ResetPassword(kk.pub, hpw[op.p], hpw[op.q])
			case "delete":
				err = h.XDelete(kk.pub, hpw[op.p])
			case "import":
				var xp *pseudohsm.XPub
				xp, err = h.ImportKeyFromMnemonic(kk.alias, hpw[op.p], kk.mnemonic, "en")
				if err == nil && (xp == nil || xp.XPub != kk.pub) {
					wrongOut = "ImportKeyFromMnemonic returned a different xpub than the independent derivation"
				}
			}
			ok = err == nil
		}()
		expect := m.present[op.k] && m.cur[op.k] == op.p
		expect0 := m0.cur[op.k] == op.p
		if op.kind == "import" {
			expect, expect0 = !m.present[op.k], false
		}
		if expect != expect0 && !(w.fromImport && i == 0) {
			nontrivial = true
		}
		hist := hseq(w, seq[:i+1])
		sortKey := fmt.Sprintf("%02d/%s", i+1, hist)
		c := map[string]string{"world": w.name, "history": hist, "failing_step": fmt.Sprint(i + 1), "model_before_step": m.String(),
			"passwords": fmt.Sprintf("P0=%q P1=%q", hpw[0], hpw[1]), "scrypt": "N=2 p=1 through hooks VerifNewWithScrypt (New + parameters)"}
		report := func(key, what string) {
			la.violation(key, sortKey, fmt.Sprintf("%s: step %d %s (model before the step: %s)", hist, i+1, what, m.String()), c)
		}
		switch {
		case panicked != "":
			report("hsm-history-panic", "panicked: "+panicked)
			return
		case wrongOut != "":
			report("hsm-history-wrong-key-or-signature", wrongOut)
			return
		case ok && !expect:
			switch {
			case op.kind == "import":
				report("hsm-history-import-over-existing-key", "ImportKeyFromMnemonic succeeded although the alias and key exist")
			case !m.present[op.k]:
				report("hsm-history-deleted-key-usable", op.kind+" succeeded on a key that was deleted")
			case m.ever[op.k][op.p]:
				report("hsm-history-superseded-password-accepted", fmt.Sprintf("%s succeeded with %q, a FORMER password of the key (current: %q)", op.kind, hpw[op.p], hpw[m.cur[op.k]]))
			default:
				report("hsm-history-wrong-password-accepted", fmt.Sprintf("%s succeeded with %q, which never was the password of the key (current: %q)", op.kind, hpw[op.p], hpw[m.cur[op.k]]))
			}
			return
		case !ok && expect:
			if op.kind == "import" {
				report("hsm-history-import-refused", fmt.Sprintf("ImportKeyFromMnemonic failed on a store without the key: %v", err))
			} else {
				report("hsm-history-current-password-rejected", fmt.Sprintf("%s refused the current password %q: %v", op.kind, hpw[op.p], err))
			}
			return
		}
		la.add("evaluations", 1)
		verdict := "refused"
		if ok {
			verdict = "accepted"
			switch op.kind {
			case "reset":
				m.cur[op.k] = op.q
				m.ever[op.k][op.q] = true
			case "delete":
				m.present[op.k] = false
			case "import":
				m.present[op.k] = true
				m.cur[op.k] = op.p
				m.ever[op.k][op.p] = true
			}
		}
		state := "initial password"
		if !m.present[op.k] && op.kind != "import" {
			state = "key deleted"
		} else if expect != expect0 {
			state = "password state changed earlier in the history"
		}
		la.class(fmt.Sprintf("hsm history: %s %s as the model says (%s)", op.kind, verdict, state), 1)
	}
	if nontrivial {
		la.add("distinct_nontrivial", 1)
		la.add("hsm_histories_with_state_dependent_verdict", 1)
	}
	// closing observation: the directory and the instance's key list are the model's
	hist := hseq(w, seq)
	sortKey := fmt.Sprintf("%02d/%s", len(seq)+1, hist)
	c := map[string]string{"world": w.name, "history": hist, "model_at_end": m.String(), "passwords": fmt.Sprintf("P0=%q P1=%q", hpw[0], hpw[1])}
	la.add("evaluations", 1)
	es, _ := os.ReadDir(dir)
	found := map[int]int{}
	for _, e := range es {
		if strings.HasPrefix(e.Name(), ".") {
			continue
		}
		blob, err := os.ReadFile(filepath.Join(dir, e.Name()))
		if err != nil {
			continue
		}
		matched := false
		for p := range hpw {
			plain, why := refDecryptBlob(blob, hpw[p])
			if why != "" {
				continue
			}
			matched = true
			k := -1
			for i := 0; i < w.nkeys; i++ {
				if bytes.Equal(plain, keys[i].prv[:]) {
					k = i
				}
			}
			if k < 0 {
				la.violation("hsm-history-key-file-differs-from-model", sortKey, fmt.Sprintf("%s: afterwards file %s decrypts with P%d to %x, none of the keys; model: %s", hist, e.Name(), p, plain, m.String()), c)
				continue
			}
			if !m.present[k] || m.cur[k] != p {
				la.violation("hsm-history-key-file-differs-from-model", sortKey, fmt.Sprintf("%s: afterwards file %s holds key k%d decryptable with P%d; model: %s", hist, e.Name(), k, p, m.String()), c)
				continue
			}
			found[k]++
		}
		if !matched {
			la.violation("hsm-history-key-file-differs-from-model", sortKey, fmt.Sprintf("%s: afterwards file %s is not decryptable by the independent decryptor with any enumerated password; model: %s", hist, e.Name(), m.String()), c)
		}
	}
	listed := map[chainkd.XPub]int{}
	for _, x := range h.ListKeys() {
		listed[x.XPub]++
	}
	for k := 0; k < w.nkeys; k++ {
		want := 0
		if m.present[k] {
			want = 1
		}
		if found[k] != want || listed[keys[k].pub] != want {
			la.violation("hsm-history-key-file-differs-from-model", sortKey, fmt.Sprintf("%s: afterwards %d file(s) decrypt to key k%d with its current password and ListKeys has it %d time(s); model: %s", hist, found[k], k, listed[keys[k].pub], m.String()), c)
		}
	}
}

func ev0(format string, a ...interface{}) {
	fmt.Fprintf(os.Stderr, "INFRA-ERROR: "+format+"\n", a...)
	os.Exit(2)
}

func hworlds(thorough bool) []*hworld {
	var one []hop
	for _, kind := range []string{"sign", "load", "delete", "import"} {
		for p := range hpw {
			one = append(one, hop{kind: kind, k: 0, p: p})
		}
	}
	one = append(one, hop{kind: "reset", k: 0, p: 0, q: 1}, hop{kind: "reset", k: 0, p: 1, q: 0}, hop{kind: "reopen"})
	var two []hop
	for k := 0; k < 2; k++ {
		for p := range hpw {
			two = append(two, hop{kind: "use", k: k, p: p}, hop{kind: "delete", k: k, p: p}, hop{kind: "reset", k: k, p: p, q: 1 - p})
		}
	}
	two = append(two, hop{kind: "reopen"})
	d := 0
	if thorough {
		d = 1
	}
	return []*hworld{
		{name: "one key found on disk", nkeys: 1, ops: one, depth: 4 + d},
		{name: "one key imported on the instance", nkeys: 1, fromImport: true, ops: one, depth: 3 + d},
		{name: "two keys found on disk", nkeys: 2, ops: two, depth: 3 + d},
	}
}

func sectionHSMHistories(a *acc, thorough bool, workers int) map[string]interface{} {
	keys := hkeys(a)
	type job struct {
		w          *hworld
		l          int
		start, end int
	}
	var jobs []job
	desc := map[string]interface{}{}
	for _, w := range hworlds(thorough) {
		n := len(w.ops)
		total := 0
		for l, cnt := 1, n; l <= w.depth; l, cnt = l+1, cnt*n {
			for s := 0; s < cnt; s += 256 {
				e := s + 256
				if e > cnt {
					e = cnt
				}
				jobs = append(jobs, job{w, l, s, e})
			}
			total += cnt
		}
		var al []string
		for _, o := range w.ops {
			al = append(al, o.String())
		}
		desc[w.name] = map[string]interface{}{"alphabet": strings.Join(al, " "), "depth": w.depth, "histories": total}
	}
	ch := make(chan job, len(jobs))
	for _, j := range jobs {
		ch <- j
	}
	close(ch)
	base := ""
	if st, err := os.Stat("/dev/shm"); err == nil && st.IsDir() {
		base = "/dev/shm"
	}
	if workers > runtime.NumCPU() {
		workers = runtime.NumCPU()
	}
	var wg sync.WaitGroup
	for i := 0; i < workers; i++ {
		wg.Add(1)
		go func() {
			defer wg.Done()
			dir, err := os.MkdirTemp(base, "verif-c28-hist-")
			if err != nil {
				dir, err = os.MkdirTemp("", "verif-c28-hist-")
				if err != nil {
					ev0("temp dir: %v", err)
				}
			}
			defer os.RemoveAll(dir)
			la := newAcc()
			defer a.merge(la)
			for j := range ch {
				n := len(j.w.ops)
				seq := make([]hop, j.l)
				for idx := j.start; idx < j.end; idx++ {
					x := idx
					for pos := j.l - 1; pos >= 0; pos-- {
						seq[pos] = j.w.ops[x%n]
						x /= n
					}
					runHistory(la, j.w, keys, dir, seq)
				}
			}
		}()
	}
	wg.Wait()
	return desc
}
