// C28 section E: keys whose private SCALAR sits at a boundary.
//
// Sections A and B take their keys from eight arbitrary seeds. For such keys the top byte of
// the scalar is 0x40..0x5f at every depth that can be enumerated and never changes class: a
// non-hardened step adds a number below 2^233, so bit 253 (cleared on roots and hardened
// children to leave head-room) is reached only from a parent whose bits 233..252 are all
// ones - one seed in 2^20. Whatever the signing code does with the HIGH bits of the scalar
// is therefore invisible to sections A and B. This section enumerates the scalar itself:
//
//	E1 hand-built keys: every combination of bits 252..255 x {bits 233..251 all clear, all
//	   set} x fill of bits 8..232 x low byte {00 08 f8 | 01 07 ff} (pruned and unpruned low
//	   bits), and for each of them every non-hardened child over the three selectors of
//	   section A plus one hardened child. The children of a hand-built key with bits 233..252
//	   set are DERIVED keys (real Child code) whose scalar carried into the next bit.
//	E2 keys derived from seeds: a bounded search in a fixed order (counter appended to a fixed
//	   prefix, first hits taken) for seeds whose root scalar - and for selectors whose
//	   hardened child scalar - has bits 233..252 all set; below each of them every path up to a
//	   depth over {3 non-hardened selectors, 1 hardened}. About half of the non-hardened
//	   children of such a key carry into bit 253 and all their descendants stay there.
//	E3 the boundary roots in a key file: the real HSM signs along every non-hardened path of
//	   depth <= 2; the signature must be the reference's and verify under xpub.Derive(path).
//
// Oracle for every key: XPub() and ExpandedPrivateKey().Public() equal the independent
// big.Int scalar multiplication and each other; the expanded key is scalar || PRF half;
// XPrv.Sign, Ed25519InnerSign(expanded) and expanded.Sign agree with the independent RFC 8032
// signer; the signature verifies under XPub (chainkd and crypto/ed25519) and is refused for
// another message and under the keys of the scalars with one of bits 252..254 flipped.
//
// Scalars >= 2^255 are outside what RootXPrv / Child produce below 2^20 derivation steps and
// violate the documented precondition of GeScalarMultBase (a[31] <= 127); for them only the
// agreement of Public() with XPub() is demanded, what else happens is recorded as an
// observation class.
package main

import (
	"bytes"
	"crypto/ed25519"
	"crypto/hmac"
	"crypto/sha512"
	"encoding/binary"
	"encoding/hex"
	"fmt"
	"math/big"
	"os"
	"path/filepath"
	"runtime"
	"sort"
	"strings"
	"sync"

	"github.com/bytom/bytom/blockchain/pseudohsm"
	"github.com/bytom/bytom/crypto/ed25519/chainkd"
	"github.com/pborman/uuid"

	"verif/lib/ev"
)

type bkey struct {
	name   string
	origin string // how the key came to be (evidence classes are per origin)
	prv    chainkd.XPrv
	ref    [64]byte
	pub    *[64]byte // reference xpub if already computed
	light  bool      // no reference scalar multiplications: consistency of the implementation's own answers only
}

// atHeadroomEdge: bits 233..252 of the scalar all set (the next non-hardened step may carry
// into bit 253).
func atHeadroomEdge(x []byte) bool {
	return x[31]&0x1f == 0x1f && x[30] == 0xff && x[29]&0xfe == 0xfe
}

func topClass(x []byte) string {
	return fmt.Sprintf("bits255..252=%04b", x[31]>>4)
}

// ---------------------------------------------------------------- bounded, ordered search

const (
	searchRound = 1 << 18 // counters per round; a constant, so the hits do not depend on the CPU count
	searchChunk = 1 << 12
	searchBound = 1 << 25
)

// searchFirst returns the `want` smallest counters c < searchBound with hit(c). Rounds are
// searched completely (in parallel), so the result is the same on every machine.
func searchFirst(want int, mk func() func(c uint64) bool) (hits []uint64, searched uint64) {
	for base := uint64(0); base < searchBound && len(hits) < want; base += searchRound {
		var mu sync.Mutex
		var wg sync.WaitGroup
		chunks := make(chan uint64, searchRound/searchChunk)
		for c := base; c < base+searchRound; c += searchChunk {
			chunks <- c
		}
		close(chunks)
		for w := 0; w < runtime.NumCPU(); w++ {
			wg.Add(1)
			go func() {
				defer wg.Done()
				hit := mk()
				for c0 := range chunks {
					for c := c0; c < c0+searchChunk; c++ {
						if hit(c) {
							mu.Lock()
							hits = append(hits, c)
							mu.Unlock()
						}
					}
				}
			}()
		}
		wg.Wait()
		searched = base + searchRound
	}
	sort.Slice(hits, func(i, j int) bool { return hits[i] < hits[j] })
	if len(hits) > want {
		hits = hits[:want]
	}
	return
}

const boundarySeedPrefix = "verif-C28-boundary-root-"
const boundarySelPrefix = "verif-C28-boundary-hardened-"

func ctrBytes(prefix string, c uint64) []byte {
	b := make([]byte, len(prefix)+8)
	copy(b, prefix)
	binary.BigEndian.PutUint64(b[len(prefix):], c)
	return b
}

// boundaryRootSeeds: seeds prefix||counter whose root scalar (computed by the reference) is at
// the head-room edge.
func boundaryRootSeeds(want int) ([][]byte, []uint64, uint64) {
	hits, searched := searchFirst(want, func() func(uint64) bool {
		h := hmac.New(sha512.New, []byte("Root"))
		var out [64]byte
		return func(c uint64) bool {
			h.Reset()
			h.Write(ctrBytes(boundarySeedPrefix, c))
			h.Sum(out[:0])
			return atHeadroomEdge(out[:32])
		}
	})
	var seeds [][]byte
	for _, c := range hits {
		seeds = append(seeds, ctrBytes(boundarySeedPrefix, c))
	}
	return seeds, hits, searched
}

// boundaryHardenedSelectors: selectors prefix||counter whose hardened child of `parent`
// (reference) is at the head-room edge.
func boundaryHardenedSelectors(parent [64]byte, want int) ([][]byte, []uint64, uint64) {
	hits, searched := searchFirst(want, func() func(uint64) bool {
		h := hmac.New(sha512.New, parent[32:])
		var out [64]byte
		return func(c uint64) bool {
			h.Reset()
			h.Write([]byte{'H'})
			h.Write(parent[:32])
			h.Write(ctrBytes(boundarySelPrefix, c))
			h.Sum(out[:0])
			return atHeadroomEdge(out[:32])
		}
	})
	var sels [][]byte
	for _, c := range hits {
		sels = append(sels, ctrBytes(boundarySelPrefix, c))
	}
	return sels, hits, searched
}

// ---------------------------------------------------------------- the oracle for one key

func boundaryMessages(thorough bool) [][]byte {
	m := messages()
	if thorough {
		return m[:3]
	}
	return [][]byte{m[0], m[2]}
}

func checkBoundaryKey(la *acc, k bkey, msgs [][]byte) {
	id := k.name
	c := map[string]string{"key": k.name, "origin": k.origin, "xprv": hex.EncodeToString(k.prv[:]), "scalar_top_byte": fmt.Sprintf("%02x", k.prv[31]), "scalar_low_byte": fmt.Sprintf("%02x", k.prv[0])}
	la.add("evaluations", 1)
	la.add("boundary_keys", 1)
	if !bytes.Equal(k.prv[:], k.ref[:]) {
		la.violation("xprv-differs-from-reference", id, fmt.Sprintf("%s: xprv %x, independent derivation %x", id, k.prv[:], k.ref[:]), c)
		return
	}
	over := k.ref[31]&0x80 != 0
	panicked := ""
	var implPub chainkd.XPub
	var exp chainkd.ExpandedPrivateKey
	var pk ed25519.PublicKey
	func() {
		defer func() {
			if r := recover(); r != nil {
				panicked = fmt.Sprint(r)
			}
		}()
		implPub = k.prv.XPub()
		exp = k.prv.ExpandedPrivateKey()
		pk, _ = exp.Public().(ed25519.PublicKey)
	}()
	if panicked != "" {
		la.violation("boundary-scalar-panic", id, fmt.Sprintf("%s: XPub / ExpandedPrivateKey / Public panicked: %s", id, panicked), c)
		return
	}
	var refPub [64]byte
	switch {
	case k.pub != nil:
		refPub = *k.pub
	case k.light:
		refPub = [64]byte(implPub)
	default:
		refPub = refXPub(k.ref)
	}
	la.add("evaluations", 3)
	if len(exp) != 64 || !bytes.Equal(exp[:32], k.ref[:32]) || !bytes.Equal(exp[32:], hmac512([]byte("Expand"), k.ref[:])[32:]) {
		la.violation("boundary-scalar-expanded-key-malformed", id, fmt.Sprintf("%s: ExpandedPrivateKey() = %x, want scalar || HMAC-SHA512(\"Expand\", xprv)[32:]", id, []byte(exp)), c)
		return
	}
	if !bytes.Equal(pk, implPub[:32]) {
		la.violation("boundary-scalar-expanded-public-key-differs-from-xpub", id, fmt.Sprintf("%s (scalar top byte %02x): ExpandedPrivateKey().Public() = %x but XPub() = %x (independent scalar multiplication: %x)", id, k.prv[31], []byte(pk), implPub[:32], refPub[:32]), c)
	}
	if over {
		// outside the domain: record what happens, demand nothing else
		sig := safeSign(k.prv, []byte{})
		la.class(fmt.Sprintf("observation, scalar >= 2^255 (%s): XPub()==[s]B %v, own signature verifies %v", k.origin, implPub == chainkd.XPub(refPub), sig != nil && implPub.Verify([]byte{}, sig)), 1)
		return
	}
	if !bytes.Equal(pk, refPub[:32]) {
		la.violation("boundary-scalar-expanded-public-key-differs-from-scalar-multiplication", id, fmt.Sprintf("%s (scalar top byte %02x): ExpandedPrivateKey().Public() = %x, independent scalar multiplication gives %x", id, k.prv[31], []byte(pk), refPub[:32]), c)
	}
	if implPub != chainkd.XPub(refPub) {
		la.violation("boundary-scalar-xpub-differs-from-scalar-multiplication", id, fmt.Sprintf("%s (scalar top byte %02x): XPub() = %x, independent scalar multiplication gives %x", id, k.prv[31], implPub[:], refPub[:]), c)
		return
	}
	// neighbours: the keys of the scalars with one of bits 252..254 flipped
	var others []chainkd.XPub
	for _, bit := range []uint{4, 5, 6} {
		o := k.prv
		o[31] ^= 1 << bit
		others = append(others, o.XPub())
	}
	var pub32 [32]byte
	copy(pub32[:], refPub[:32])
	degenerate := new(big.Int).Mod(leInt(k.ref[:32]), ordL).Sign() == 0
	for _, m := range msgs {
		mid := fmt.Sprintf("%s/msg%d", id, len(m))
		la.add("evaluations", 6)
		la.add("boundary_signatures", 1)
		var sig, sigInner, sigSigner []byte
		var err error
		func() {
			defer func() {
				if r := recover(); r != nil {
					panicked = fmt.Sprint(r)
				}
			}()
			sig = k.prv.Sign(m)
			sigInner = chainkd.Ed25519InnerSign(exp, m)
			sigSigner, err = exp.Sign(nil, m, crypto0{})
		}()
		if panicked != "" {
			la.violation("boundary-scalar-panic", mid, fmt.Sprintf("%s: signing panicked: %s", mid, panicked), c)
			return
		}
		if err != nil || !bytes.Equal(sig, sigInner) || !bytes.Equal(sig, sigSigner) {
			la.violation("boundary-scalar-signers-disagree", mid, fmt.Sprintf("%s: XPrv.Sign = %x, Ed25519InnerSign(expanded) = %x, expanded.Sign = %x err=%v", mid, sig, sigInner, sigSigner, err), c)
		}
		if k.light {
			la.add("boundary_signatures_without_reference_signer", 1)
		} else if want := refSign(k.ref, pub32, m); !bytes.Equal(sig, want) {
			la.violation("boundary-scalar-signature-differs-from-rfc8032-reference", mid, fmt.Sprintf("%s (scalar top byte %02x): Sign = %x, independent signer = %x", mid, k.prv[31], sig, want), c)
		}
		if !implPub.Verify(m, sig) || !ed25519.Verify(ed25519.PublicKey(refPub[:32]), m, sig) {
			la.violation("boundary-scalar-own-signature-rejected", mid, fmt.Sprintf("%s (scalar top byte %02x): the signature by the xprv does not verify under its xpub %x", mid, k.prv[31], implPub[:32]), c)
		} else {
			la.class("boundary: signature verifies under own xpub ("+k.origin+", "+topClass(k.prv[:])+")", 1)
		}
		for oi, o := range others {
			la.add("evaluations", 1)
			if o.Verify(m, sig) {
				la.violation("boundary-scalar-signature-accepted-under-neighbour-key", mid, fmt.Sprintf("%s: the signature verifies under the key of the scalar with bit %d flipped", mid, 252+oi), c)
			}
		}
		om := []byte{0x01} // another message: the first bit flipped (or one byte instead of none)
		if len(m) > 0 {
			om = append([]byte(nil), m...)
			om[0] ^= 1
		}
		if degenerate {
			// [s]B is the neutral element: (R, r) verifies for every message. Not a key.
			la.class("observation, scalar = 0 mod L (public key is the neutral element): signature verifies for another message "+fmt.Sprint(implPub.Verify(om, sig)), 1)
			continue
		}
		if implPub.Verify(om, sig) || implPub.Verify(append(append([]byte(nil), m...), 0), sig) {
			la.violation("boundary-scalar-signature-accepted-for-another-message", mid, mid, c)
		}
	}
	la.add("distinct_nontrivial", 1)
}

func safeSign(p chainkd.XPrv, m []byte) (sig []byte) {
	defer func() {
		if recover() != nil {
			sig = nil
		}
	}()
	return p.Sign(m)
}

// ---------------------------------------------------------------- E1: hand-built keys

func handBuilt(thorough bool) []bkey {
	fills := []byte{0x00, 0xff}
	if thorough {
		fills = append(fills, 0xa5, 0x80, 0x7f)
	}
	var out []bkey
	for top := 0; top < 16; top++ {
		for _, room := range []byte{0x00, 0xff} { // bits 233..251
			for _, fill := range fills { // bits 8..232
				for _, low := range []byte{0x00, 0x08, 0xf8, 0x01, 0x07, 0xff} {
					var x [64]byte
					for i := 1; i < 29; i++ {
						x[i] = fill
					}
					x[0] = low
					x[29] = room&0xfe | fill&1
					x[30] = room
					x[31] = byte(top)<<4 | room&0x0f
					for i := 32; i < 64; i++ {
						x[i] = byte(i*7) ^ fill ^ low
					}
					name := fmt.Sprintf("hand-built/top%x-room%02x-fill%02x-low%02x", top, room, fill, low)
					out = append(out, bkey{name: name, origin: "hand-built", prv: chainkd.XPrv(x), ref: x})
				}
			}
		}
	}
	return out
}

// childrenOf derives, with the real code, the children of a hand-built key and checks the
// public derivation of every non-hardened step; the children are returned for the oracle.
func childrenOf(la *acc, p bkey, sels [][]byte, hsel []byte, lightHardened bool) []bkey {
	over := p.ref[31]&0x80 != 0
	refPub := refXPub(p.ref)
	p.pub = &refPub
	out := []bkey{p}
	c := map[string]string{"parent": p.name, "parent_xprv": hex.EncodeToString(p.prv[:])}
	derive := func(sel []byte, hardened bool) {
		t := "N"
		if hardened {
			t = "H"
		}
		name := p.name + "/" + t + ":" + hex.EncodeToString(sel)
		ref, ok := refChild(p.ref, refPub, sel, hardened)
		var child chainkd.XPrv
		var viaPub chainkd.XPub
		panicked := ""
		func() {
			defer func() {
				if r := recover(); r != nil {
					panicked = fmt.Sprint(r)
				}
			}()
			child = p.prv.Child(sel, hardened)
			if !hardened {
				viaPub = chainkd.XPub(refPub).Child(sel)
			}
		}()
		la.add("evaluations", 1)
		if panicked != "" {
			if ok {
				la.violation("derivation-panic", name, fmt.Sprintf("%s: Child panicked: %s", name, panicked), c)
			} else {
				la.class("boundary: child scalar does not fit 256 bits, Child panics", 1)
			}
			return
		}
		if !ok {
			la.violation("boundary-scalar-overflowing-child-returned", name, fmt.Sprintf("%s: the child scalar does not fit 256 bits but Child returned %x", name, child[:]), c)
			return
		}
		origin := "non-hardened child of a hand-built key"
		if hardened {
			origin = "hardened child of a hand-built key"
		}
		ck := bkey{name: name, origin: origin, prv: child, ref: ref, light: hardened && lightHardened}
		if !hardened {
			la.add("evaluations", 1)
			la.add("step_commutations", 1)
			want := refXPub(ref)
			ck.pub = &want
			if ref[31]&0x80 == 0 && viaPub != chainkd.XPub(want) {
				la.violation("public-child-differs-from-private-child-public-key", name, fmt.Sprintf("%s: parentXPub.Child = %x, public key of the private child = %x", name, viaPub[:], want[:]), c)
			}
		}
		out = append(out, ck)
	}
	derive(hsel, true)
	if !over { // a non-hardened step hashes the parent's public key, which is undefined above 2^255
		for _, s := range sels {
			derive(s, false)
		}
	}
	return out
}

// ---------------------------------------------------------------- E3: boundary roots in the key store

func boundaryHSM(la *acc, roots []bkey, sels [][]byte) {
	dir, err := os.MkdirTemp("", "verif-c28-bnd-")
	if err != nil {
		ev.Fatal("temp dir: %v", err)
	}
	defer os.RemoveAll(dir)
	const pw = "boundary-密"
	msg := []byte("C28 boundary hsm message")
	for i, r := range roots {
		pub := chainkd.XPub(refXPub(r.ref))
		xk := &pseudohsm.XKey{ID: uuid.Parse(fmt.Sprintf("00000000-0000-4000-8000-0000000000b%d", i%10)), KeyType: "bytom_kd", Alias: fmt.Sprintf("c28-boundary-%d", i), XPrv: r.prv, XPub: pub}
		blob, err := pseudohsm.EncryptKey(xk, pw, 2, 1)
		if err != nil {
			la.violation("keystore-encrypt-failed", r.name, fmt.Sprintf("%s: EncryptKey: %v", r.name, err), nil)
			continue
		}
		if err := os.WriteFile(filepath.Join(dir, fmt.Sprintf("UTC--2020-01-01T00-00-00.00000000%dZ--boundary-%d", i%10, i)), blob, 0600); err != nil {
			ev.Fatal("write key file: %v", err)
		}
	}
	hsm, err := pseudohsm.VerifNewWithScrypt(dir, 2, 1)
	if err != nil {
		ev.Fatal("pseudohsm.New: %v", err)
	}
	paths := [][][]byte{{}}
	for _, s := range sels {
		paths = append(paths, [][]byte{s})
	}
	for _, s := range sels {
		for _, t := range sels {
			paths = append(paths, [][]byte{s, t})
		}
	}
	for _, r := range roots {
		pub := chainkd.XPub(refXPub(r.ref))
		for _, p := range paths {
			var ps []string
			for _, s := range p {
				ps = append(ps, "N:"+hex.EncodeToString(s))
			}
			id := fmt.Sprintf("hsm/%s/%v", r.name, ps)
			c := map[string]string{"key": r.name, "xprv": hex.EncodeToString(r.prv[:]), "path": fmt.Sprint(ps), "password": pw}
			dref := refDerive(r.ref, p)
			dpub := refXPub(dref)
			var pub32 [32]byte
			copy(pub32[:], dpub[:32])
			la.add("evaluations", 2)
			la.add("hsm_operations", 1)
			la.add("boundary_hsm_signatures", 1)
			var sig []byte
			var err error
			panicked := ""
			func() {
				defer func() {
					if x := recover(); x != nil {
						panicked = fmt.Sprint(x)
					}
				}()
				sig, err = hsm.XSign(pub, p, msg, pw)
			}()
			switch {
			case panicked != "":
				la.violation("boundary-scalar-panic", id, fmt.Sprintf("%s: XSign panicked: %s", id, panicked), c)
			case err != nil:
				la.violation("hsm-right-password-rejected", id, fmt.Sprintf("%s: XSign: %v", id, err), c)
			case !bytes.Equal(sig, refSign(dref, pub32, msg)):
				la.violation("boundary-scalar-hsm-signature-differs-from-rfc8032-reference", id, fmt.Sprintf("%s (derived scalar top byte %02x): XSign = %x, independent derivation and signer = %x", id, dref[31], sig, refSign(dref, pub32, msg)), c)
			}
			if err == nil && panicked == "" {
				if !pub.Derive(p).Verify(msg, sig) {
					la.violation("boundary-scalar-hsm-signature-rejected-under-derived-xpub", id, fmt.Sprintf("%s (derived scalar top byte %02x): the key store's signature does not verify under xpub.Derive(path)", id, dref[31]), c)
				} else {
					la.class("boundary: key-store signature verifies under xpub.Derive(path) ("+topClass(dref[:])+")", 1)
				}
			}
		}
	}
}

// ---------------------------------------------------------------- section driver

func sectionBoundary(a *acc, thorough bool, sels [][]byte, hsel []byte) map[string]interface{} {
	info := map[string]interface{}{}
	msgs := boundaryMessages(thorough)
	hbMsgs := msgs
	if !thorough {
		hbMsgs = msgs[1:] // one 32-byte message for the hand-built family in the quick tier
	}
	var keys []bkey

	// E1
	la := newAcc()
	hb := handBuilt(thorough)
	info["hand_built_keys"] = len(hb)
	var hbAll []bkey
	{
		var mu sync.Mutex
		var wg sync.WaitGroup
		ch := make(chan bkey, len(hb))
		for _, k := range hb {
			ch <- k
		}
		close(ch)
		for w := 0; w < runtime.NumCPU(); w++ {
			wg.Add(1)
			go func() {
				defer wg.Done()
				wa := newAcc()
				defer la.merge(wa)
				for k := range ch {
					kids := childrenOf(wa, k, sels, hsel, !thorough) // the key itself comes back first
					mu.Lock()
					hbAll = append(hbAll, kids...)
					mu.Unlock()
				}
			}()
		}
		wg.Wait()
	}
	sort.Slice(hbAll, func(i, j int) bool { return hbAll[i].name < hbAll[j].name })
	keys = append(keys, hbAll...)

	// E2
	nSeeds := 1
	if thorough {
		nSeeds = 3
	}
	rootSeeds, rootCtr, searchedR := boundaryRootSeeds(nSeeds)
	baseParent := refRoot([]byte("seed"))
	hSels, hCtr, searchedH := boundaryHardenedSelectors(baseParent, nSeeds)
	if len(rootSeeds) < nSeeds || len(hSels) < nSeeds {
		ev.Fatal("boundary search: %d root seeds and %d hardened selectors found below counter %d, want %d each", len(rootSeeds), len(hSels), searchBound, nSeeds)
	}
	info["boundary_root_seed_prefix"] = boundarySeedPrefix
	info["boundary_root_seed_counters"] = rootCtr
	info["boundary_root_seeds_searched"] = searchedR
	info["boundary_hardened_parent"] = "root of the ASCII seed 'seed'"
	info["boundary_hardened_selector_prefix"] = boundarySelPrefix
	info["boundary_hardened_selector_counters"] = hCtr
	info["boundary_hardened_selectors_searched"] = searchedH
	la.add("boundary_search_candidates", int(searchedR+searchedH))

	depth := 3
	if thorough {
		depth = 5
	}
	info["boundary_tree_depth"] = depth
	alphabet := func(d int, allNon bool) []step {
		st := []step{}
		for _, s := range sels {
			st = append(st, step{s, false})
		}
		return append(st, step{hsel, true})
	}
	type tree struct {
		sd     seedDef
		root   node
		origin string
	}
	var trees []tree
	var storeRoots []bkey
	for i, s := range rootSeeds {
		var n node
		n.implPrv = chainkd.RootXPrv(s)
		n.refPrv = refRoot(s)
		trees = append(trees, tree{seedDef{fmt.Sprintf("boundary-root-%d", rootCtr[i]), s}, n, "derived: root"})
		storeRoots = append(storeRoots, bkey{name: fmt.Sprintf("boundary-root-%d", rootCtr[i]), origin: "derived: root", prv: n.implPrv, ref: n.refPrv})
	}
	for i, s := range hSels {
		var n node
		n.implPrv = chainkd.RootXPrv([]byte("seed")).Child(s, true)
		n.refPrv, _ = refChild(baseParent, refXPub(baseParent), s, true)
		trees = append(trees, tree{seedDef{fmt.Sprintf("boundary-hardened-%d", hCtr[i]), append([]byte("seed/H:"), s...)}, n, "derived: hardened child"})
		storeRoots = append(storeRoots, bkey{name: fmt.Sprintf("boundary-hardened-%d", hCtr[i]), origin: "derived: hardened child", prv: n.implPrv, ref: n.refPrv})
	}
	var derived []bkey
	{
		var mu sync.Mutex
		var wg sync.WaitGroup
		for _, t := range trees {
			wg.Add(1)
			go func(t tree) {
				defer wg.Done()
				wa := newAcc()
				defer la.merge(wa)
				n := t.root
				if !atHeadroomEdge(n.refPrv[:32]) {
					ev.Fatal("boundary search returned %s whose scalar %x is not at the edge", t.sd.name, n.refPrv[:32])
				}
				n.implPub = n.implPrv.XPub()
				n.refPub = refXPub(n.refPrv)
				n.allNon = true
				var kept []bkey
				walk(wa, t.sd, n.implPrv, n, 0, depth, alphabet, func(x node) {
					origin := t.origin
					if len(x.path) > 0 {
						origin = "derived: non-hardened descendant of a key at the edge"
						if !x.allNon {
							origin = "derived: descendant through a hardened step"
						}
					}
					rp := x.refPub
					kept = append(kept, bkey{name: pathStr(t.sd, x.path), origin: origin, prv: x.implPrv, ref: x.refPrv, pub: &rp})
				})
				mu.Lock()
				derived = append(derived, kept...)
				mu.Unlock()
			}(t)
		}
		wg.Wait()
	}
	sort.Slice(derived, func(i, j int) bool { return derived[i].name < derived[j].name })
	keys = append(keys, derived...)

	// coverage that must have been reached: derived keys whose scalar carried into bit 253
	carried := 0
	for _, k := range derived {
		if k.ref[31]&0x20 != 0 {
			carried++
		}
	}
	carriedHand := 0
	for _, k := range hbAll {
		if k.origin == "non-hardened child of a hand-built key" && k.ref[31]&0xe0 == 0x60 {
			carriedHand++
		}
	}
	info["derived_keys_below_boundary_seeds"] = len(derived)
	info["derived_keys_with_bit_253_set"] = carried
	info["children_of_hand_built_keys_with_bit_253_set"] = carriedHand
	if carried == 0 || carriedHand == 0 {
		ev.Fatal("boundary section reached no derived key with bit 253 set (seed-derived %d, children of hand-built keys %d)", carried, carriedHand)
	}

	// the oracle on every key
	{
		var wg sync.WaitGroup
		ch := make(chan bkey, len(keys))
		for _, k := range keys {
			ch <- k
		}
		close(ch)
		for w := 0; w < runtime.NumCPU(); w++ {
			wg.Add(1)
			go func() {
				defer wg.Done()
				wa := newAcc()
				defer la.merge(wa)
				for k := range ch {
					if strings.HasPrefix(k.origin, "derived") {
						checkBoundaryKey(wa, k, msgs)
					} else {
						checkBoundaryKey(wa, k, hbMsgs)
					}
				}
			}()
		}
		wg.Wait()
	}
	byClass := map[string]int{}
	for _, k := range keys {
		byClass[k.origin+", "+topClass(k.ref[:])]++
	}
	info["keys_by_origin_and_high_bits"] = byClass
	info["boundary_keys_total"] = len(keys)

	// E3
	wa := newAcc()
	boundaryHSM(wa, storeRoots, sels)
	la.merge(wa)
	a.merge(la)
	return info
}
